import Cvise.Model.Binary
import Cvise.Proofs.BinaryMonotone
import Cvise.Proofs.BinaryTerm
import Cvise.Proofs.BinaryNoSingle
import Cvise.Props.C06
import Cvise.Gen.Const
import Cvise.Proofs.BinaryGenEq
