import Cvise.Drv.Binary
import Cvise.Drv.Matcher
import Cvise.Drv.Driver
import Cvise.Drv.PassGroup
import Cvise.Drv.Passes
import Cvise.Drv.Clex
import Cvise.Drv.ClangDelta
open Cvise.Drv

def dispatch (line : String) : String :=
  match toks line with
  | "bin" :: args => handleBin args
  | "level" :: args => handleLevel args
  | "binrun" :: args => handleBinRun args
  | "binrunt" :: args => handleBinRunT args
  | "binrung" :: args => handleBinRunG args
  | "binruni" :: args => handleBinRunI args
  | "msearch" :: args => handleMSearch args
  | "rx" :: args => handleRx args
  | "drv" :: _ => handleDrv line
  | "group" :: _ => handleGroup line
  | "pass" :: args => handlePass args
  | "clex" :: args => handleClex args
  | "cd" :: args => handleCD args
  | _ => "bad-op"

partial def loop (h : IO.FS.Stream) (out : IO.FS.Stream) : IO Unit := do
  let line ← h.getLine
  if line.isEmpty then return ()
  out.putStrLn (dispatch (line.trimAscii.toString))
  loop h out

def main : IO Unit := do
  let out ← IO.getStdout
  loop (← IO.getStdin) out
  out.flush
