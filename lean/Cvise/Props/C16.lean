import Cvise.Proofs.DriverAccept
import Cvise.Proofs.DriverLimits
import Cvise.Proofs.DriverGate
/-!
# C16 — run limits are honoured (decision logic in the L1/L2 model)
-/
namespace Cvise.C16
open Cvise Cvise.D
variable {C σ : Type} [DecidableEq C]

/-- no accepted step shrinks the file by more than `--max-improvement` -/
theorem step_improvement_le (cfg : Cfg) (size : C → Nat) (cur : C) (e : EnvRes C σ) (m : Int)
    (hm : cfg.maxImp = some m) (h : isAccept cfg size cur e = true) : (size cur : Int) - size e.cand ≤ m :=
  ((isAccept_iff cfg size cur e).mp h).2.2.2 m hm

/-- a limit `n ≥ 1` stops the pass on that file as soon as `n` changes were accepted -/
theorem limit_stops (n succ : Nat) (hn : 1 ≤ n) (hs : n ≤ succ) : limitHit (some n) succ = true := by
  unfold limitHit
  have : n ≠ 0 := by omega
  simp [this, hs]

/-- … and does not stop it before -/
theorem limit_not_before (n succ : Nat) (hs : succ < n) : limitHit (some n) succ = false := by
  unfold limitHit
  simp; omega

/-- boundary value 0 (finding F9): Python truthiness makes a limit of 0 mean "no limit" -/
theorem limit_zero_is_unlimited (succ : Nat) : limitHit (some 0) succ = false := by
  unfold limitHit; simp

/-- **a pass that only produces rejected candidates is abandoned after the give-up limit unless --no-give-up**: a
    candidate past the limit whose test was run and failed, or whose helper said anything but OK, ends the round (QUIT,
    or a reported pass bug) — it is never just ignored.  (An OK candidate whose test *passes* but which is unchanged or
    too large an improvement is ignored, not rejected: that branch has no give-up test — noted in DESIGN.md.) -/
theorem giveup_abandons (cfg : Cfg) (hg : cfg.noGiveUp = false) (size : C → Nat) (cur : C) (e : EnvRes C σ) (g : Side C) (gu : Bool)
    (ho : e.order > cfg.giveup)
    (hrej : e.pr ≠ .ok ∨ ∃ n, n ≠ 0 ∧ e.exit = some (.code n)) :
    (check cfg size cur e g gu).1 = .quit ∨ ∃ err, (check cfg size cur e g gu).1 = .raise err := by
  have ho' : decide (e.order > cfg.giveup) = true := by simpa using ho
  unfold check reportBug saveExtra
  rcases hrej with h | ⟨n, hn, hx⟩
  · cases hp : e.pr
    · exact absurd hp h
    all_goals (simp only [hg, ho']; grind)
  · cases hp : e.pr <;> (simp only [hx, hg, ho']; grind)

/-- … and with --no-give-up it is not: the same candidate is ignored (the enumeration goes on) -/
example : (check ({ noGiveUp := true, giveup := 3 } : Cfg) (fun (c : Nat) => c) 5
    ({ order := 9, pr := .invalid, cand := 5, st := (), exit := none } : EnvRes Nat Unit) {} false).1 = .ignore := by decide
example : (check ({ giveup := 3 } : Cfg) (fun (c : Nat) => c) 5
    ({ order := 9, pr := .invalid, cand := 5, st := (), exit := none } : EnvRes Nat Unit) {} false).1 = .quit := by decide

/-- **a pass run accepts at most `--skip-after-n-transforms` (and at most its own `max-transforms`) changes per test
    case**: whatever the schedule, the faults and the pass, `new` + all rounds on one file append at most `n` accepted steps
    to the log, for every limit `n ≥ 1` in force (for `n = 0` see `limit_zero_is_unlimited`, finding F9) -/
theorem accepts_at_most_limit [Inhabited σ] [Inhabited C] (cfg : Cfg) (W : World C) (dn : Sched) (P : PassI C σ)
    (k fuel rid : Nat) (x : St C) (before : C) (n : Nat) (hn : 1 ≤ n) (hl : cfg.skipN = some n ∨ P.maxT = some n) :
    (commits (LRes.st' (newLoop cfg W dn P k fuel rid x before)).side.log).length ≤ (commits x.side.log).length + n :=
  newLoop_commits_le cfg W dn P k fuel rid x before n hn hl

/-! ### `--start-with-pass` (the gate of `run_pass`, `D.runPassG` … `D.reduceG`) -/
section gate
variable [Inhabited σ] [Inhabited C]

/-- **passes before `--start-with-pass` are not run**: while the option is pending, running any list of passes none of
    which is the named one (or whose named entry lacks its prerequisites, `avail`) changes *nothing* — the files, the replay
    table, the statistics, the log (no candidate started, no commit, no replay) and even the round counter are what they
    were, and the option stays pending.  For every configuration, test, schedule and pass behaviour. -/
theorem start_gate_skips (cfg : Cfg) (W : World C) (dn : Sched) (orderOf : List C → List Nat) (fuel : Nat) (avail : PassI C σ → Bool)
    (n : Nat) (ps : List (PassI C σ)) (x : St C) (rid : Nat) (h : NoneNamed avail n ps) :
    runPassesG cfg W dn orderOf fuel avail ps (.inl (x, rid), some n) = (.inl (x, rid), some n) :=
  runPassesG_skip cfg W dn orderOf fuel avail n ps x rid h

/-- … the same for the main loop, however many rounds it may take -/
theorem start_gate_skips_main (cfg : Cfg) (W : World C) (dn : Sched) (orderOf : List C → List Nat) (fuel : Nat) (avail : PassI C σ → Bool)
    (n : Nat) (ps : List (PassI C σ)) (h : NoneNamed avail n ps) (rounds : Nat) (x : St C) (rid : Nat) :
    mainLoopG cfg W dn orderOf fuel avail ps rounds (.inl (x, rid), some n) = (.inl (x, rid), some n) :=
  mainLoopG_skip cfg W dn orderOf fuel avail n ps h rounds x rid

/-- **the option clears exactly at the first pass with the named key** (whose prerequisites are there): everything in
    front of it is skipped, it and everything after it run as in a run without the option -/
theorem start_gate_clears_at_named (cfg : Cfg) (W : World C) (dn : Sched) (orderOf : List C → List Nat) (fuel : Nat)
    (avail : PassI C σ → Bool) (n : Nat) (pre post : List (PassI C σ)) (P : PassI C σ) (x : St C) (rid : Nat)
    (hpre : NoneNamed avail n pre) (ha : avail P = true) (hk : P.key = n) :
    runPassesG cfg W dn orderOf fuel avail (pre ++ P :: post) (.inl (x, rid), some n) =
      (runPasses cfg W dn orderOf fuel (P :: post.filter avail) (.inl (x, rid)), none) :=
  runPassesG_hit cfg W dn orderOf fuel avail n pre post P x rid hpre ha hk

/-- whole reductions, named pass in the first group: the reduction is the plain one that starts at the named pass -/
theorem reduce_starts_at_named_first (cfg : Cfg) (W : World C) (dn : Sched) (orderOf : List C → List Nat) (fuel : Nat)
    (avail : PassI C σ → Bool) (n : Nat) (pre post main last : List (PassI C σ)) (P : PassI C σ) (x : St C)
    (hpre : NoneNamed avail n pre) (ha : avail P = true) (hk : P.key = n) :
    reduceG cfg W dn orderOf fuel avail false (pre ++ P :: post) main last x (some n) =
      (reduce cfg W dn orderOf fuel (P :: post.filter avail) (main.filter avail) (last.filter avail) x, none) := by
  simp only [reduceG, reduce, Bool.false_eq_true, if_false]
  rw [runPassesG_hit cfg W dn orderOf fuel avail n pre post P x 0 hpre ha hk, mainLoopG_none, runPassesG_none]

/-- named pass in the last group only: the first and main groups do nothing, the last group runs from the named pass on -/
theorem reduce_starts_at_named_last (cfg : Cfg) (W : World C) (dn : Sched) (orderOf : List C → List Nat) (fuel : Nat)
    (avail : PassI C σ → Bool) (n : Nat) (first main pre post : List (PassI C σ)) (P : PassI C σ) (x : St C)
    (hf : NoneNamed avail n first) (hm : NoneNamed avail n main)
    (hpre : NoneNamed avail n pre) (ha : avail P = true) (hk : P.key = n) :
    reduceG cfg W dn orderOf fuel avail false first main (pre ++ P :: post) x (some n) =
      (runPasses cfg W dn orderOf fuel (P :: post.filter avail) (.inl (x, 0)), none) := by
  simp only [reduceG, Bool.false_eq_true, if_false]
  rw [runPassesG_skip cfg W dn orderOf fuel avail n first x 0 hf, mainLoopG_skip cfg W dn orderOf fuel avail n main hm,
    runPassesG_hit cfg W dn orderOf fuel avail n pre post P x 0 hpre ha hk]

/-- a name that no runnable pass carries (e.g. the named pass lacks its external program): **nothing** runs -/
theorem reduce_named_absent (cfg : Cfg) (W : World C) (dn : Sched) (orderOf : List C → List Nat) (fuel : Nat)
    (avail : PassI C σ → Bool) (n : Nat) (skip : Bool) (first main last : List (PassI C σ)) (x : St C)
    (hf : NoneNamed avail n first) (hm : NoneNamed avail n main) (hl : NoneNamed avail n last) :
    reduceG cfg W dn orderOf fuel avail skip first main last x (some n) = (.inl (x, 0), some n) := by
  cases skip
  · simp only [reduceG, Bool.false_eq_true, if_false]
    rw [runPassesG_skip cfg W dn orderOf fuel avail n first x 0 hf, mainLoopG_skip cfg W dn orderOf fuel avail n main hm,
      runPassesG_skip cfg W dn orderOf fuel avail n last x 0 hl]
  · simp only [reduceG, if_true]
    rw [mainLoopG_skip cfg W dn orderOf fuel avail n main hm, runPassesG_skip cfg W dn orderOf fuel avail n last x 0 hl]

/-- named pass in the main group: the first round of the main loop runs from the named pass on; if it made progress
    the later rounds run the whole group -/
theorem main_loop_starts_at_named (cfg : Cfg) (W : World C) (dn : Sched) (orderOf : List C → List Nat) (fuel : Nat)
    (avail : PassI C σ → Bool) (n : Nat) (pre post : List (PassI C σ)) (P : PassI C σ) (x : St C) (rid rounds : Nat)
    (hpre : NoneNamed avail n pre) (ha : avail P = true) (hk : P.key = n) (h0 : totalSize W.size x.disk ≠ 0) :
    mainLoopG cfg W dn orderOf fuel avail (pre ++ P :: post) (rounds + 1) (.inl (x, rid), some n) =
      (match runPasses cfg W dn orderOf fuel (P :: post.filter avail) (.inl (x, rid)) with
       | .inr e => .inr e
       | .inl (y, rid') =>
         if totalSize W.size y.disk ≥ totalSize W.size x.disk then .inl (y, rid')
         else mainLoop cfg W dn orderOf fuel ((pre ++ P :: post).filter avail) rounds (.inl (y, rid')), none) :=
  mainLoopG_hit cfg W dn orderOf fuel avail n pre post P x rid rounds hpre ha hk h0

/-- without the option the gated driver is the plain driver (over the passes whose prerequisites are there), so every
    theorem about `D.reduce` speaks about it -/
theorem no_option_is_plain_reduce (cfg : Cfg) (W : World C) (dn : Sched) (orderOf : List C → List Nat) (fuel : Nat)
    (avail : PassI C σ → Bool) (first main last : List (PassI C σ)) (x : St C) :
    reduceG cfg W dn orderOf fuel avail false first main last x none =
      (reduce cfg W dn orderOf fuel (first.filter avail) (main.filter avail) (last.filter avail) x, none) :=
  reduceG_none cfg W dn orderOf fuel avail first main last x

/-- non-vacuity: a two-pass first group, option naming the second pass; the first pass (which would empty the file) is
    skipped, the second one runs -/
def gA : PassI Nat Nat where
  key := 1
  maxT := none
  new := fun _ => some 0
  advance := fun _ _ => none
  aos := fun _ _ => none
  transform := fun _ s => (.ok, 0, s)
def gB : PassI Nat Nat where
  key := 2
  maxT := none
  new := fun _ => some 0
  advance := fun _ _ => none
  aos := fun _ _ => none
  transform := fun c s => (.ok, c - 1, s)
def gW : World Nat where
  size := fun c => c
  test := fun j => if j = [4] then .code 0 else .code 1
  fault := fun _ _ => none
example : (LRes.st' (reduceG {} gW (fun _ _ _ => true) (fun _ => [0]) 5 (fun _ => true) false [gA, gB] [] [] { disk := [5] } (some 2)).1).disk = [4] := by
  decide
example : NoneNamed (fun _ => true) 2 [gA] := by intro P hP _; simp at hP; subst hP; decide

end gate

end Cvise.C16
