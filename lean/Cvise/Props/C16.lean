import Cvise.Proofs.DriverAccept
import Cvise.Proofs.DriverLimits
/-!
# C16 — run limits are honoured (decision logic in the L1/L2 model)
-/
namespace Cvise.C16
open Cvise Cvise.D
variable {C σ : Type} [DecidableEq C]

/-- no accepted step shrinks the file by more than `--max-improvement` -/
theorem step_improvement_le (cfg : Cfg) (size : C → Nat) (cur : C) (e : EnvRes C σ) (m : Int)
    (hm : cfg.maxImp = some m) (h : isAccept cfg size cur e = true) : (size cur : Int) - size e.cand ≤ m :=
  ((isAccept_iff cfg size cur e).mp h).2.2.2 m hm

/-- a limit `n ≥ 1` stops the pass on that file as soon as `n` changes were accepted -/
theorem limit_stops (n succ : Nat) (hn : 1 ≤ n) (hs : n ≤ succ) : limitHit (some n) succ = true := by
  unfold limitHit
  have : n ≠ 0 := by omega
  simp [this, hs]

/-- … and does not stop it before -/
theorem limit_not_before (n succ : Nat) (hs : succ < n) : limitHit (some n) succ = false := by
  unfold limitHit
  simp; omega

/-- boundary value 0 (finding F9): Python truthiness makes a limit of 0 mean "no limit" -/
theorem limit_zero_is_unlimited (succ : Nat) : limitHit (some 0) succ = false := by
  unfold limitHit; simp

/-- **a pass that only produces rejected candidates is abandoned after the give-up limit unless --no-give-up**: a
    candidate past the limit whose test was run and failed, or whose helper said anything but OK, ends the round (QUIT,
    or a reported pass bug) — it is never just ignored.  (An OK candidate whose test *passes* but which is unchanged or
    too large an improvement is ignored, not rejected: that branch has no give-up test — noted in DESIGN.md.) -/
theorem giveup_abandons (cfg : Cfg) (hg : cfg.noGiveUp = false) (size : C → Nat) (cur : C) (e : EnvRes C σ) (g : Side C) (gu : Bool)
    (ho : e.order > cfg.giveup)
    (hrej : e.pr ≠ .ok ∨ ∃ n, n ≠ 0 ∧ e.exit = some (.code n)) :
    (check cfg size cur e g gu).1 = .quit ∨ ∃ err, (check cfg size cur e g gu).1 = .raise err := by
  have ho' : decide (e.order > cfg.giveup) = true := by simpa using ho
  unfold check reportBug saveExtra
  rcases hrej with h | ⟨n, hn, hx⟩
  · cases hp : e.pr
    · exact absurd hp h
    all_goals (simp only [hg, ho']; grind)
  · cases hp : e.pr <;> (simp only [hx, hg, ho']; grind)

/-- … and with --no-give-up it is not: the same candidate is ignored (the enumeration goes on) -/
example : (check ({ noGiveUp := true, giveup := 3 } : Cfg) (fun (c : Nat) => c) 5
    ({ order := 9, pr := .invalid, cand := 5, st := (), exit := none } : EnvRes Nat Unit) {} false).1 = .ignore := by decide
example : (check ({ giveup := 3 } : Cfg) (fun (c : Nat) => c) 5
    ({ order := 9, pr := .invalid, cand := 5, st := (), exit := none } : EnvRes Nat Unit) {} false).1 = .quit := by decide

/-- **a pass run accepts at most `--skip-after-n-transforms` (and at most its own `max-transforms`) changes per test
    case**: whatever the schedule, the faults and the pass, `new` + all rounds on one file append at most `n` accepted steps
    to the log, for every limit `n ≥ 1` in force (for `n = 0` see `limit_zero_is_unlimited`, finding F9) -/
theorem accepts_at_most_limit [Inhabited σ] [Inhabited C] (cfg : Cfg) (W : World C) (dn : Sched) (P : PassI C σ)
    (k fuel rid : Nat) (x : St C) (before : C) (n : Nat) (hn : 1 ≤ n) (hl : cfg.skipN = some n ∨ P.maxT = some n) :
    (commits (LRes.st' (newLoop cfg W dn P k fuel rid x before)).side.log).length ≤ (commits x.side.log).length + n :=
  newLoop_commits_le cfg W dn P k fuel rid x before n hn hl

end Cvise.C16
