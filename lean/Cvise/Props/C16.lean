import Cvise.Proofs.DriverAccept
import Cvise.Proofs.DriverLimits
/-!
# C16 — run limits are honoured (decision logic in the L1/L2 model)
-/
namespace Cvise.C16
open Cvise Cvise.D
variable {C σ : Type} [DecidableEq C]

/-- no accepted step shrinks the file by more than `--max-improvement` -/
theorem step_improvement_le (cfg : Cfg) (size : C → Nat) (cur : C) (e : EnvRes C σ) (m : Int)
    (hm : cfg.maxImp = some m) (h : isAccept cfg size cur e = true) : (size cur : Int) - size e.cand ≤ m :=
  ((isAccept_iff cfg size cur e).mp h).2.2.2 m hm

/-- a limit `n ≥ 1` stops the pass on that file as soon as `n` changes were accepted -/
theorem limit_stops (n succ : Nat) (hn : 1 ≤ n) (hs : n ≤ succ) : limitHit (some n) succ = true := by
  unfold limitHit
  have : n ≠ 0 := by omega
  simp [this, hs]

/-- … and does not stop it before -/
theorem limit_not_before (n succ : Nat) (hs : succ < n) : limitHit (some n) succ = false := by
  unfold limitHit
  simp; omega

/-- boundary value 0 (finding F9): Python truthiness makes a limit of 0 mean "no limit" -/
theorem limit_zero_is_unlimited (succ : Nat) : limitHit (some 0) succ = false := by
  unfold limitHit; simp

/-- **a pass run accepts at most `--skip-after-n-transforms` (and at most its own `max-transforms`) changes per test
    case**: whatever the schedule, the faults and the pass, `new` + all rounds on one file append at most `n` accepted steps
    to the log, for every limit `n ≥ 1` in force (for `n = 0` see `limit_zero_is_unlimited`, finding F9) -/
theorem accepts_at_most_limit [Inhabited σ] [Inhabited C] (cfg : Cfg) (W : World C) (dn : Sched) (P : PassI C σ)
    (k fuel rid : Nat) (x : St C) (before : C) (n : Nat) (hn : 1 ≤ n) (hl : cfg.skipN = some n ∨ P.maxT = some n) :
    (commits (LRes.st' (newLoop cfg W dn P k fuel rid x before)).side.log).length ≤ (commits x.side.log).length + n :=
  newLoop_commits_le cfg W dn P k fuel rid x before n hn hl

end Cvise.C16
