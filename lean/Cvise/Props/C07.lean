import Cvise.Proofs.PassesC07
import Cvise.Proofs.PassesLines
import Cvise.Proofs.BinaryNoSingle
/-!
# C07 — candidates are genuine, local edits of the current file

Over the pass models `Cvise.P.*` (tied to `cvise/passes/*.py` by the K-pass correspondence; regexes, part lists and
recipes are the regenerated ones).  Text is decoded text (`List Char`); the bytes ↔ text step is finding F8.
-/
namespace Cvise.C07
open Cvise Cvise.P Cvise.M Cvise.D

/-! every candidate reported as produced differs from the input -/
theorem ok_differs_balanced (cfg : BalCfg) (s : Text) (st : Span) (out : Text) (st' : Span)
    (h : (balanced cfg).transform s st = (.ok, out, st')) : out ≠ s := balLoop_ok_differs cfg s _ st out st' h
theorem ok_differs_ternary (arg : String) (s : Text) (st : TernSt) (out : Text) (st' : TernSt)
    (h : (ternary arg).transform s st = (.ok, out, st')) : out ≠ s := ternLoop_ok_differs arg s _ st out st' h
theorem ok_differs_comments (s : Text) (st : Nat) (out : Text) (st' : Nat)
    (h : comments.transform s st = (.ok, out, st')) : out ≠ s := commentsLoop_ok_differs s _ st out st' h
theorem ok_differs_peep (arg : String) (s : Text) (st : PeepSt) (out : Text) (st' : PeepSt)
    (h : (peep arg).transform s st = (.ok, out, st')) : out ≠ s := peep_ok_differs arg s st out st' h

/-! text outside the matched region is preserved: the candidate is `input[:a] ++ mid ++ input[b:]` -/
theorem local_ints_special (id : Nat) (rec : List RPiece) (s : Text) (st : ModSt) (out : Text) (st' : ModSt)
    (h : (modPass id rec).transform s st = (.ok, out, st')) :
    ∃ a e r, st.mods[st.index]? = some ((a, e), r) ∧ LocalEdit s out a e r := modPass_local id rec s st out st' h
theorem local_ternary (arg : String) (s : Text) (st : TernSt) (out : Text) (st' : TernSt)
    (h : (ternary arg).transform s st = (.ok, out, st')) :
    ∃ a b mid, LocalEdit s out a b mid ∧ ∃ k1 k2, mid = (s.take k2).drop k1 := ternLoop_local arg s _ st out st' h
theorem local_peep (arg : String) (s : Text) (st : PeepSt) (out : Text) (st' : PeepSt)
    (h : (peep arg).transform s st = (.ok, out, st')) : ∃ a b mid, LocalEdit s out a b mid := peep_local arg s st out st' h
/-- balanced: the middle is the recipe's fixed string ("" for the deleting arguments, "0", ";") -/
theorem local_balanced (cfg : BalCfg) (k j : Int) (c : String) (hs : balShape cfg.recipe = some (k, c, j)) (s : Text)
    (st : Span) (out : Text) (st' : Span) (h : (balanced cfg).transform s st = (.ok, out, st')) :
    ∃ a b, LocalEdit s out a b c.toList := balLoop_local cfg k j c hs s _ st out st' h
theorem balanced_recipes_shaped :
    Gen.balancedCfg.all (fun x => (balShape x.2.2.2.2).isSome || onlyShape x.2.2.2.2) = true := P.balanced_recipes_shaped

/-! line-deleting passes yield a proper subsequence made of whole lines -/
theorem readlines_lossless (s : Text) : (splitLines s).flatten = s := splitLines_flatten s
theorem lines_candidate (s : Text) (st : BS) (h : st.Inv) (hn : st.instances = (splitLines s).length) :
    let out := (linesPass.transform s st).2.1
    out.Sublist s ∧ out ≠ s := P.lines_candidate s st h hn
theorem blank_candidate (s : Text) (id : Nat) (out : Text) (h : blankOne s id = some out) : out.Sublist s ∧ out ≠ s :=
  P.blank_candidate s id out h
theorem includes_candidate (s : Text) (st : Nat) (out : Text) (st' : Nat)
    (h : includes.transform s st = (.ok, out, st')) : out.Sublist s ∧ out ≠ s := P.includes_candidate s st out st' h

/-- every single line is eventually offered: a test that accepts exactly "the file minus line j" gets that candidate —
    the run cannot come back with nothing accepted (from C06's `no_accept_no_single`) -/
theorem single_line_offered {α : Type} [DecidableEq α] (l : List α) (j : Nat) (hj : j < l.length) (fuel : Nat) (r : List α)
    (h : start (fun c => decide (c = l.eraseIdx j)) fuel l = some r) : r.length ≠ l.length := by
  intro hlen
  have := Cvise.no_accept_no_single _ l fuel r h hlen j hj
  simp at this

end Cvise.C07
