import Cvise.Proofs.PassesC07
import Cvise.Proofs.PassesLines
import Cvise.Proofs.BinaryNoSingle
import Cvise.Proofs.PassesBalOffers
import Cvise.Proofs.PassesTernTerm
import Cvise.Proofs.PassesComments
import Cvise.Proofs.PassesIntsTerm
/-!
# C07 — candidates are genuine, local edits of the current file

Over the pass models `Cvise.P.*` (tied to `cvise/passes/*.py` by the K-pass correspondence; regexes, part lists and
recipes are the regenerated ones).  Text is decoded text (`List Char`); the bytes ↔ text step is finding F8.
-/
namespace Cvise.C07
open Cvise Cvise.P Cvise.M Cvise.D

/-! every candidate reported as produced differs from the input -/
theorem ok_differs_balanced (cfg : BalCfg) (s : Text) (st : Span) (out : Text) (st' : Span)
    (h : (balanced cfg).transform s st = (.ok, out, st')) : out ≠ s := balLoop_ok_differs cfg s _ st out st' h
theorem ok_differs_ternary (arg : String) (s : Text) (st : TernSt) (out : Text) (st' : TernSt)
    (h : (ternary arg).transform s st = (.ok, out, st')) : out ≠ s := ternLoop_ok_differs arg s _ st out st' h
theorem ok_differs_comments (s : Text) (st : Nat) (out : Text) (st' : Nat)
    (h : comments.transform s st = (.ok, out, st')) : out ≠ s := commentsLoop_ok_differs s _ st out st' h
theorem ok_differs_peep (arg : String) (s : Text) (st : PeepSt) (out : Text) (st' : PeepSt)
    (h : (peep arg).transform s st = (.ok, out, st')) : out ≠ s := peep_ok_differs arg s st out st' h

/-! ### ints and special: every candidate differs from its input

The cursor of these passes carries the modifications `finditer` found in the text it was made for; `new`,
`advance_on_success` and `advance` only produce such cursors (`mods_cursor_wellformed`).  For a cursor made for `s`: -/

/-- the passes the generated tables define for the shipped arguments are the `finditer` passes over these entries -/
theorem ints_special_passes :
    intsPass "a" = some (modPass (intsEntry "a").1 (intsEntry "a").2) ∧ intsPass "b" = some (modPass (intsEntry "b").1 (intsEntry "b").2) ∧
    intsPass "c" = some (modPass (intsEntry "c").1 (intsEntry "c").2) ∧ intsPass "d" = some (modPass (intsEntry "d").1 (intsEntry "d").2) ∧
    specialPass "a" = some (modPass (specialEntry "a").1 (specialEntry "a").2) ∧
    specialPass "b" = some (modPass (specialEntry "b").1 (specialEntry "b").2) ∧
    specialPass "c" = some (modPass (specialEntry "c").1 (specialEntry "c").2) := ⟨rfl, rfl, rfl, rfl, rfl, rfl, rfl⟩

/-- the cursors `new` / `advance_on_success` create are made for the text they are given; `advance` keeps the list -/
theorem mods_cursor_wellformed (id : Nat) (rec : List RPiece) (s : Text) (st st' : ModSt) :
    ((modPass id rec).new s = some st → st.mods = modsOf id rec s) ∧
    ((modPass id rec).aos s st' = some st → st.mods = modsOf id rec s) ∧
    ((modPass id rec).advance s st' = some st → st.mods = st'.mods) := by
  refine ⟨fun h => (modNew_inv id rec s st h).1, fun h => (modNew_inv id rec s st h).1, fun h => ?_⟩
  simp only [modPass] at h
  split at h
  · cases h
  · cases h; rfl

/-- **ints a, b, c, d: every OK candidate differs from the input** (a, b, c: it is strictly shorter — one digit, the
    prefix `0`/`0x`, the suffix letters are gone; d: the decimal rendering of `0x…` has another length or a digit where the
    `x` stood).  For every text and every cursor made for it. -/
theorem ok_differs_ints (arg : String) (harg : arg = "a" ∨ arg = "b" ∨ arg = "c" ∨ arg = "d") (s : Text) (st : ModSt)
    (hst : st.mods = modsOf (intsEntry arg).1 (intsEntry arg).2 s) (out : Text) (st' : ModSt)
    (h : (modPass (intsEntry arg).1 (intsEntry arg).2).transform s st = (.ok, out, st')) : out ≠ s := by
  obtain ⟨m, hm, rfl⟩ := modPass_ok _ _ s st hst out st' h
  rcases harg with ha | ha | ha | rfl
  · exact ints_candidates_differ arg (Or.inl ha) s m hm
  · exact ints_candidates_differ arg (Or.inr (Or.inl ha)) s m hm
  · exact ints_candidates_differ arg (Or.inr (Or.inr ha)) s m hm
  · exact ints_d_candidates_differ s m hm

/-- **special a, b, c: every OK candidate differs from the input** (a: `transparent_crc(…)` → `printf(…)` changes the
    first character of the match; b, c: the non-empty match `extern 'C'` / `extern 'C++'` is deleted) -/
theorem ok_differs_special (arg : String) (harg : arg = "a" ∨ arg = "b" ∨ arg = "c") (s : Text) (st : ModSt)
    (hst : st.mods = modsOf (specialEntry arg).1 (specialEntry arg).2 s) (out : Text) (st' : ModSt)
    (h : (modPass (specialEntry arg).1 (specialEntry arg).2).transform s st = (.ok, out, st')) : out ≠ s := by
  obtain ⟨m, hm, rfl⟩ := modPass_ok _ _ s st hst out st' h
  rcases harg with rfl | ha | ha
  · exact special_a_candidates_differ s m hm
  · exact special_bc_candidates_differ arg (Or.inl ha) s m hm
  · exact special_bc_candidates_differ arg (Or.inr ha) s m hm

/-- ints a, b, c and special b, c only delete: the candidate is strictly shorter -/
theorem ints_special_deleting_shorter (s : Text) :
    (∀ arg, (arg = "a" ∨ arg = "b" ∨ arg = "c") → ∀ m ∈ modsOf (intsEntry arg).1 (intsEntry arg).2 s,
      (s.take m.1.1 ++ m.2 ++ s.drop m.1.2).length < s.length) ∧
    (∀ arg, (arg = "b" ∨ arg = "c") → ∀ m ∈ modsOf (specialEntry arg).1 (specialEntry arg).2 s,
      (s.take m.1.1 ++ m.2 ++ s.drop m.1.2).length < s.length) := by
  constructor
  · intro arg harg
    apply mods_shorten
    intro a e c hm he
    rcases harg with rfl | rfl | rfl
    · rw [ints_a_shape.1]; exact shapeA_shorter _ ints_a_shape.2 s a e c hm he
    · rw [ints_b_shape.1]; exact shapeB_shorter _ ints_b_shape.2 s a e c hm he
    · rw [ints_c_shape.1]; exact shapeC_shorter _ ints_c_shape.2 s a e c hm he
  · intro arg harg
    apply mods_shorten
    intro a e c hm he
    obtain ⟨h1, h2⟩ := special_bc_shape arg harg
    rw [h1]
    have := h2 (toArr s) a [] (e, c) hm
    simp only [List.flatMap_nil, List.length_nil]
    omega

/-- the hypotheses are about the regenerated regexes: they have the shapes the theorems need (that such regexes match at
    all is what the K-pass correspondence runs show: the engine is defined by well-founded recursion, which the kernel does
    not evaluate) -/
example : shapeA (rxTbl (intsEntry "a").1) ∧ shapeB (rxTbl (intsEntry "b").1) ∧ shapeC (rxTbl (intsEntry "c").1) ∧ shapeD (rxTbl (intsEntry "d").1) :=
  ⟨ints_a_shape.2, ints_b_shape.2, ints_c_shape.2, ints_d_shape.2⟩

/-! text outside the matched region is preserved: the candidate is `input[:a] ++ mid ++ input[b:]` -/
theorem local_ints_special (id : Nat) (rec : List RPiece) (s : Text) (st : ModSt) (out : Text) (st' : ModSt)
    (h : (modPass id rec).transform s st = (.ok, out, st')) :
    ∃ a e r, st.mods[st.index]? = some ((a, e), r) ∧ LocalEdit s out a e r := modPass_local id rec s st out st' h
theorem local_ternary (arg : String) (s : Text) (st : TernSt) (out : Text) (st' : TernSt)
    (h : (ternary arg).transform s st = (.ok, out, st')) :
    ∃ a b mid, LocalEdit s out a b mid ∧ ∃ k1 k2, mid = (s.take k2).drop k1 := ternLoop_local arg s _ st out st' h
theorem local_peep (arg : String) (s : Text) (st : PeepSt) (out : Text) (st' : PeepSt)
    (h : (peep arg).transform s st = (.ok, out, st')) : ∃ a b mid, LocalEdit s out a b mid := peep_local arg s st out st' h
/-- balanced: the middle is the recipe's fixed string ("" for the deleting arguments, "0", ";") -/
theorem local_balanced (cfg : BalCfg) (k j : Int) (c : String) (hs : balShape cfg.recipe = some (k, c, j)) (s : Text)
    (st : Span) (out : Text) (st' : Span) (h : (balanced cfg).transform s st = (.ok, out, st')) :
    ∃ a b, LocalEdit s out a b c.toList := balLoop_local cfg k j c hs s _ st out st' h
theorem balanced_recipes_shaped :
    Gen.balancedCfg.all (fun x => (balShape x.2.2.2.2).isSome || onlyShape x.2.2.2.2) = true := P.balanced_recipes_shaped

/-! line-deleting passes yield a proper subsequence made of whole lines -/
theorem readlines_lossless (s : Text) : (splitLines s).flatten = s := splitLines_flatten s
theorem lines_candidate (s : Text) (st : BS) (h : st.Inv) (hn : st.instances = (splitLines s).length) :
    let out := (linesPass.transform s st).2.1
    out.Sublist s ∧ out ≠ s := P.lines_candidate s st h hn
/-- LineMarkersPass: for a well-formed cursor over the marker lines of the file, a candidate is the file minus exactly
    `end − index ≥ 1` whole lines the marker pattern matches; every line it does not match stays, in order -/
theorem line_markers_candidate (s : Text) (st : BS) (h : st.Inv) (hn : st.instances = markerCount Gen.lineMarkersRx s) :
    let kept := dropMarkers Gen.lineMarkersRx st.index st.end_ (splitLines s) 0
    let out := (lineMarkers.transform s st).2.1
    out = kept.flatten ∧ out.Sublist s ∧ out ≠ s ∧
    kept.filter (fun l => !lineSearches Gen.lineMarkersRx l) = (splitLines s).filter (fun l => !lineSearches Gen.lineMarkersRx l) ∧
    kept.length + (st.end_ - st.index) = (splitLines s).length :=
  Cvise.P.line_markers_candidate s st h hn

theorem blank_candidate (s : Text) (id : Nat) (out : Text) (h : blankOne s id = some out) : out.Sublist s ∧ out ≠ s :=
  P.blank_candidate s id out h
theorem includes_candidate (s : Text) (st : Nat) (out : Text) (st' : Nat)
    (h : includes.transform s st = (.ok, out, st')) : out.Sublist s ∧ out ≠ s := P.includes_candidate s st out st' h

/-- every single line is eventually offered: a test that accepts exactly "the file minus line j" gets that candidate —
    the run cannot come back with nothing accepted (from C06's `no_accept_no_single`) -/
theorem single_line_offered {α : Type} [DecidableEq α] (l : List α) (j : Nat) (hj : j < l.length) (fuel : Nat) (r : List α)
    (h : start (fun c => decide (c = l.eraseIdx j)) fuel l = some r) : r.length ≠ l.length := by
  intro hlen
  have := Cvise.no_accept_no_single _ l fuel r h hlen j hj
  simp at this

/-- **balanced: every instance is eventually offered when all candidates are rejected** (arguments without a prefix
    expression, i.e. all but `curly3`): for every genuinely balanced group `[a, b)` of the input whose edit changes the
    text, the all-reject enumeration of length > |s| produces exactly that group's candidate -/
theorem balanced_offers_all (cfg : BalCfg) (hp : cfg.pre = none) (s : Text) (a b : Nat) (hb : Bal cfg.o cfg.c s a b)
    (hch : cfg.recipe.eval s [a, b] ≠ s) (n : Nat) (hn : s.length < n) :
    (PR.ok, cfg.recipe.eval s [a, b]) ∈ (runHistory (balanced cfg) (List.replicate n false) s ((balanced cfg).new s) []).1 :=
  P.balanced_offers_all cfg hp s a b hb hch n hn

/-- balanced, deleting arguments (all but `parens-to-zero` and `curly2`): the candidate is a proper subsequence of the input,
    for every cursor the search can return (a span of ≥ 2 characters inside the text) -/
theorem balanced_deletion_sublist (cfg : BalCfg) (hd : deletingShape cfg.recipe = true) (s : Text) (st : M.Span) (hI : BalI s st)
    (out : Text) (st' : M.Span) (h : (balanced cfg).transform s st = (.ok, out, st')) : out.Sublist s ∧ out ≠ s :=
  P.balanced_deletion_sublist cfg hd s st hI out st' h
theorem balanced_deleting_args :
    (Gen.balancedCfg.filter (fun x => !deletingShape x.2.2.2.2)).map (·.1) = ["parens-to-zero", "curly2"] := P.balanced_deleting_args
/-- the hypothesis `BalI` holds for everything `new` / `advance` / `advance_on_success` return -/
theorem balanced_cursors_wellformed (cfg : BalCfg) (s : Text) (pos : Int) (st : M.Span) (h : balFind cfg s pos = some st) : BalI s st :=
  let sp := balFind_span cfg s pos st h
  ⟨sp.2.1, sp.2.2⟩

/-- ternary: a produced candidate is a proper subsequence of the input (one operand kept), for every cursor the search
    can return (`TernI`: a sequence match of the seven parts; `ternary_cursors_wellformed`) -/
theorem ternary_sublist (arg : String) (harg : arg = "b" ∨ arg = "c") (s : Text) (st : TernSt) (hI : TernI s st)
    (out : Text) (st' : TernSt) (h : (ternary arg).transform s st = (.ok, out, st')) : out.Sublist s ∧ out ≠ s :=
  P.ternary_sublist arg harg s st hI out st' h
theorem ternary_cursors_wellformed (s : Text) (pos : Int) (st : TernSt) (h : ternSearch s pos = some st) : TernI s st :=
  (ternSearch_spec s pos st h).2

/-- comments: a produced candidate is the input with the matched comments deleted — a proper subsequence (every shipped
    substitution has the empty replacement: `comments_subs_delete`, regenerated; `finditer` spans are in order and disjoint) -/
theorem comments_candidate (s : Text) (st : Nat) (out : Text) (st' : Nat)
    (h : comments.transform s st = (.ok, out, st')) : out.Sublist s ∧ out ≠ s := P.comments_candidate s _ st out st' h

/-- all shipped arguments but one have no prefix expression -/
theorem balanced_prefix_free : (Gen.balancedCfg.filter (fun x => x.2.2.2.1.isSome)).map (·.1) = ["curly3"] := by decide +kernel

end Cvise.C07
