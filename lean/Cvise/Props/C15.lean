import Cvise.Proofs.BinaryGenEq
import Cvise.Model.Binary
import Cvise.Gen.Const
import Cvise.Gen.Tools
/-!
# C15 — clang_delta is driven so that instance ranges tile the instances exactly

The driver asks the tool for `--counter=index+1 --to-counter=end` (`ClangBinarySearchPass.transform`).  The theorems are
about the cursor model `BS` (proved equal to the regenerated bodies of `BinaryState`, see C06).
-/
namespace Cvise.C15
open Cvise

/-- the counter range of a cursor, as passed to the tool -/
def request (s : BS) : Nat × Nat := (s.index + 1, s.end_)

/-- every request is non-empty and within the count the tool last reported -/
theorem request_in_range (s : BS) (h : s.Inv) : 1 ≤ (request s).1 ∧ (request s).1 ≤ (request s).2 ∧ (request s).2 ≤ s.instances := by
  obtain ⟨h1, h2⟩ := h
  simp [request, BS.end_]; omega

/-- a granularity starts at instance 1 -/
theorem first_request (n : Nat) (s : BS) (h : BS.create n = some s) : (request s).1 = 1 ∧ s.instances = n := by
  unfold BS.create at h
  split at h
  · cases h
  · cases h; simp [request]

/-- consecutive requests at one granularity are adjacent: no gap, no overlap -/
theorem next_request_adjacent (s t : BS) (h : s.Inv) (ha : s.advance = some t) (hc : t.chunk = s.chunk ∧ t.index ≠ 0) :
    (request t).1 = (request s).2 + 1 ∧ t.instances = s.instances := by
  obtain ⟨_, hi, hcase⟩ := BS.advance_inv h ha
  rcases hcase with ⟨h1, h2⟩ | ⟨h1, h2, h3⟩
  · have : s.index + s.chunk < s.instances := by
      unfold BS.advance at ha
      simp only at ha
      split at ha
      · split at ha
        · cases ha
        · cases ha; simp at h2; omega
      · omega
    simp [request, BS.end_, h2, hi]; omega
  · exact absurd h2 hc.2

/-- when the granularity changes (or the run ends) the last request ended at the reported count: the level tiled 1..N -/
theorem last_request_reaches_end (s : BS) (h : s.Inv)
    (ha : s.advance = none ∨ ∃ t, s.advance = some t ∧ t.index = 0) : (request s).2 = s.instances := by
  have key : s.index + s.chunk ≥ s.instances := by
    rcases ha with ha | ⟨t, ha, ht⟩
    · have := BS.advance_none h ha; omega
    · obtain ⟨_, _, hcase⟩ := BS.advance_inv h ha
      rcases hcase with ⟨h1, h2⟩ | ⟨_, _, h3⟩
      · have := h.2; omega
      · exact h3
  simp [request, BS.end_]; omega

/-- the new granularity starts at instance 1 again -/
theorem wrap_restarts (s t : BS) (h : s.Inv) (ha : s.advance = some t) (hc : t.chunk ≠ s.chunk) : (request t).1 = 1 := by
  obtain ⟨_, _, hcase⟩ := BS.advance_inv h ha
  rcases hcase with ⟨h1, _⟩ | ⟨_, h2, _⟩
  · exact absurd h1 hc
  · simp [request, h2]

/-- after an accepted removal the driver continues with `reported − removed` instances at the same index (or at the next
    granularity when the index fell off the end) -/
theorem after_accept (s t : BS) (reported : Nat) (h : s.Inv)
    (ha : s.advanceOnSuccess (reported - s.realChunk) = some t) :
    t.instances = reported - s.realChunk ∧ t.Inv ∧ ((t.chunk = s.chunk ∧ t.index = s.index) ∨ (t.chunk = s.chunk / 2 ∧ t.index = 0)) := by
  obtain ⟨h1, h2, h3⟩ := BS.aos_inv h ha
  refine ⟨h2, h1, ?_⟩
  rcases h3 with h3 | ⟨a, b, _⟩
  · exact Or.inl h3
  · exact Or.inr ⟨a, b⟩

/-- choice of the C++ standard: fold over the (regenerated) list with the (regenerated) comparison -/
def bestStd (cmp : Gen.Cmp) (init : Int) (counts : List (String × Int)) : Option String × Int :=
  counts.foldl (fun (acc : Option String × Int) (sc : String × Int) => if cmp.eval sc.2 acc.2 then (some sc.1, sc.2) else acc) (none, init)

theorem fold_ge (counts : List (String × Int)) : ∀ (acc : Option String × Int),
    let r := counts.foldl (fun (acc : Option String × Int) (sc : String × Int) =>
      if Gen.Cmp.eval .ge sc.2 acc.2 then (some sc.1, sc.2) else acc) acc
    acc.2 ≤ r.2 ∧ (∀ sc ∈ counts, sc.2 ≤ r.2) ∧
    -- the winner is the accumulator (then everything in the list is strictly smaller) or the last element reaching the maximum
    ((r = acc ∧ ∀ sc ∈ counts, sc.2 < acc.2) ∨
     (∃ pre sc post, counts = pre ++ sc :: post ∧ r = (some sc.1, sc.2) ∧ ∀ x ∈ post, x.2 < sc.2)) := by
  induction counts with
  | nil => intro acc; simp
  | cons x xs ih =>
    intro acc
    simp only [List.foldl_cons]
    by_cases hc : Gen.Cmp.eval .ge x.2 acc.2 = true
    · simp only [hc, if_true]
      have hge : acc.2 ≤ x.2 := by simpa [Gen.Cmp.eval] using hc
      obtain ⟨h1, h2, h3⟩ := ih (some x.1, x.2)
      simp only at h1 h2 h3
      refine ⟨by omega, ?_, ?_⟩
      · intro sc hsc
        simp only [List.mem_cons] at hsc
        rcases hsc with rfl | hsc
        · exact h1
        · exact h2 sc hsc
      · right
        rcases h3 with ⟨e, hlt⟩ | ⟨pre, sc, post, e1, e2, e3⟩
        · exact ⟨[], x, xs, rfl, e, hlt⟩
        · exact ⟨x :: pre, sc, post, by simp [e1], e2, e3⟩
    · simp only [hc, Bool.false_eq_true, if_false]
      have hlt : x.2 < acc.2 := by simpa [Gen.Cmp.eval] using hc
      obtain ⟨h1, h2, h3⟩ := ih acc
      refine ⟨h1, ?_, ?_⟩
      · intro sc hsc
        simp only [List.mem_cons] at hsc
        rcases hsc with rfl | hsc
        · omega
        · exact h2 sc hsc
      · rcases h3 with ⟨e, hl⟩ | ⟨pre, sc, post, e1, e2, e3⟩
        · left
          refine ⟨e, ?_⟩
          intro sc hsc
          simp only [List.mem_cons] at hsc
          rcases hsc with rfl | hsc
          · exact hlt
          · exact hl sc hsc
        · right; exact ⟨x :: pre, sc, post, by simp [e1], e2, e3⟩

/-- with the comparison as it is in the source (`>=`, start −1) and non-negative counts: the chosen standard offers the
    most instances, and every later standard offers strictly fewer — the newest standard wins ties -/
theorem best_std_spec (counts : List (String × Int)) (hne : counts ≠ []) (hpos : ∀ sc ∈ counts, 0 ≤ sc.2) :
    ∃ pre sc post, counts = pre ++ sc :: post ∧ bestStd .ge (-1) counts = (some sc.1, sc.2) ∧
      (∀ x ∈ counts, x.2 ≤ sc.2) ∧ (∀ x ∈ post, x.2 < sc.2) := by
  obtain ⟨h1, h2, h3⟩ := fold_ge counts (none, -1)
  simp only at h1 h2 h3
  rcases h3 with ⟨_, hl⟩ | ⟨pre, sc, post, e1, e2, e3⟩
  · cases counts with
    | nil => exact absurd rfl hne
    | cons x xs =>
      have := hl x List.mem_cons_self
      have := hpos x List.mem_cons_self
      omega
  · refine ⟨pre, sc, post, e1, e2, ?_, e3⟩
    intro x hx
    have := h2 x hx
    rw [e2] at this
    exact this

theorem shipped_cmp_is_ge : Gen.bestStdCmp = .ge ∧ Gen.bestStdInit = -1 := by decide

/-! ### the output of a failed tool run is never used -/

/-- the code a driver treats as success -/
def okCode (drv : String) : Int := if drv = "clex" then 51 else 0

/-- **a tool run that fails leaves the file alone and is not reported OK**: for each of the three helper drivers
    (`ClangPass`, `ClangBinarySearchPass`, `ClexPass`) and every return code in the regenerated table — ordinary failures,
    the protocol's STOP codes, and deaths from a signal (negative codes) — the test case is overwritten with the tool's
    output only on the success code, and only the success code yields `OK`.  (`Gen.pyRun` is produced by running the
    statement list of each `transform` on concrete return codes, so an early-return rewrite of the same logic gives the
    same table.) -/
theorem failed_run_output_unused :
    Gen.pyRun.all (fun d => d.2.all (fun e => (e.2.2 == true || e.2.1 == "OK") == (e.1 == okCode d.1))) = true := by decide

/-- a tool killed by a signal (SIGSEGV, SIGABRT, SIGKILL, SIGTERM) is an ERROR for every driver -/
theorem signal_deaths_are_errors :
    Gen.pyRun.all (fun d => d.2.all (fun e => decide (e.1 < 0) → e.2.1 == "ERROR")) = true := by decide

/-- all three drivers are in the table, with the same 13 codes each -/
theorem run_table_complete : Gen.pyRun.map (·.1) = ["clang", "clangbinarysearch", "clex"] ∧ Gen.pyRun.all (fun d => d.2.length == 13) = true := by decide


/-- the requests of one level / the instances a request names: `BS.level`, `BS.expand` of the model (the model driver prints
    `level`, and the check compares it with the argv log of the real pass) -/
abbrev level := BS.level
abbrev expand := BS.expand

theorem level_tiles_from : ∀ (fuel : Nat) (s : BS), s.Inv → s.instances - s.index ≤ fuel →
    (level s fuel).flatMap expand = List.range' (s.index + 1) (s.instances - s.index) := by
  intro fuel
  induction fuel with
  | zero => intro s h hf; have := h.1; omega
  | succ fuel ih =>
    intro s h hf
    have h1 := h.1
    have h2 := h.2
    simp only [level, BS.level, List.flatMap_cons]
    cases ha : s.advance with
    | none =>
      obtain ⟨hc, hi⟩ := BS.advance_none h ha
      have e : s.instances - s.index = 1 := by omega
      simp [expand, BS.expand, BS.end_, e, hc]
      have : min (s.index + 1) s.instances = s.index + 1 := by omega
      simp [this]
    | some t =>
      obtain ⟨hti, hinst, hcase⟩ := BS.advance_inv h ha
      rcases hcase with ⟨hc, hidx⟩ | ⟨hc, hidx, hge⟩
      · have hne : t.index ≠ 0 := by omega
        have hlt : t.index < t.instances := hti.1
        simp only [hne, if_false]
        rw [ih t hti (by omega)]
        have e1 : expand (s.index + 1, s.end_) = List.range' (s.index + 1) s.chunk := by
          simp only [expand, BS.expand, BS.end_]
          have : min (s.index + s.chunk) s.instances = s.index + s.chunk := by omega
          rw [this]; congr 1; omega
        rw [e1, hidx, hinst]
        have : s.instances - s.index = s.chunk + (s.instances - (s.index + s.chunk)) := by omega
        rw [this, ← List.range'_append_1]
        congr 2; omega
      · simp only [hidx, if_true, List.flatMap_nil, List.append_nil]
        simp only [expand, BS.expand, BS.end_]
        have : min (s.index + s.chunk) s.instances = s.instances := by omega
        rw [this]; congr 1; omega

/-- **the ranges of one granularity tile the instances**: started at index 0 and rejected throughout, the requests of a level
    name every instance 1..N exactly once, in order -/
theorem level_tiles (s : BS) (h : s.Inv) (h0 : s.index = 0) (fuel : Nat) (hf : s.instances ≤ fuel) :
    (level s fuel).flatMap expand = List.range' 1 s.instances := by
  have := level_tiles_from fuel s h (by omega)
  simpa [h0] using this

example : (level ⟨0, 3, 10⟩ 10) = [(1, 3), (4, 6), (7, 9), (10, 10)] := by decide

/-- after an accepted removal the rest of the level tiles what is left, from the position the driver continues at: with the
    tool-reported count minus the removed chunk as the new N, the remaining requests name `index+1 .. N` exactly once -/
theorem level_tiles_after_accept (s t : BS) (reported : Nat) (h : s.Inv)
    (ha : s.advanceOnSuccess (reported - s.realChunk) = some t) (fuel : Nat) (hf : reported - s.realChunk ≤ fuel) :
    (level t fuel).flatMap expand = List.range' (t.index + 1) (reported - s.realChunk - t.index) := by
  obtain ⟨h1, h2, _⟩ := after_accept s t reported h ha
  have := level_tiles_from fuel t h2 (by omega)
  rw [h1] at this
  exact this


/-- no gap, stated per instance: at a level that is rejected throughout, every instance 1..N lies in one of the requested ranges -/
theorem every_instance_requested (s : BS) (h : s.Inv) (h0 : s.index = 0) (fuel : Nat) (hf : s.instances ≤ fuel)
    (i : Nat) (h1 : 1 ≤ i) (h2 : i ≤ s.instances) : ∃ r ∈ level s fuel, r.1 ≤ i ∧ i ≤ r.2 := by
  have hm : i ∈ (level s fuel).flatMap expand := by
    rw [level_tiles s h h0 fuel hf]; simp [List.mem_range'_1]; omega
  obtain ⟨r, hr, hi⟩ := List.mem_flatMap.mp hm
  refine ⟨r, hr, ?_⟩
  simp [expand, BS.expand, List.mem_range'_1] at hi
  omega

/-- no overlap, stated on the expansion: no instance is named twice at one level -/
theorem no_instance_requested_twice (s : BS) (h : s.Inv) (h0 : s.index = 0) (fuel : Nat) (hf : s.instances ≤ fuel) :
    ((level s fuel).flatMap expand).Nodup := by
  rw [level_tiles s h h0 fuel hf]; exact List.nodup_range' 1


/-- the first level (chunk = N) tiles 1..N -/
theorem first_level_tiles (n : Nat) (s : BS) (h : BS.create n = some s) (fuel : Nat) (hf : n ≤ fuel) :
    (level s fuel).flatMap expand = List.range' 1 n := by
  unfold BS.create at h
  split at h
  · cases h
  · cases h
    exact level_tiles ⟨0, n, n⟩ (by simp [BS.Inv]; omega) rfl fuel hf

/-- every later level does too: when `advance` wraps to a finer granularity, the level it starts tiles the same 1..N -/
theorem next_level_tiles (s t : BS) (h : s.Inv) (ha : s.advance = some t) (h0 : t.index = 0) (fuel : Nat)
    (hf : s.instances ≤ fuel) : (level t fuel).flatMap expand = List.range' 1 s.instances := by
  obtain ⟨hti, hinst, _⟩ := BS.advance_inv h ha
  rw [← hinst]
  exact level_tiles t hti h0 fuel (by omega)

end Cvise.C15
