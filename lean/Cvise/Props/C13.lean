import Cvise.Proofs.PassGroup
import Cvise.Gen.PassGroups
/-!
# C13 — pass-group selection follows the documented include/exclude/flag rules

`PG.parse eager K opts g` models `CVise.parse_pass_group_dict` (`eager`: names and option lists of *every* entry are
validated before the filter is applied).  `selSpec` is the documented rule read off the property text.
-/
namespace Cvise.C13
open Cvise Cvise.PG

/-- an accepted dictionary yields, per category and in file order, exactly the selected entries, each with class,
    argument and max-transforms (both parser variants) -/
theorem parse_eq_spec (eager : Bool) (K : Known) (o : Opts) (g : Group) (s : List (String × List Sel))
    (h : parse eager K o g = .ok s) :
    s = categories.map (fun cat => (cat, ((g.lookup cat).getD []).filterMap (selSpec K o))) ∧
    ∀ cat ∈ categories, (g.lookup cat).isSome := PG.parse_eq_spec eager K o g s h

/-- a missing category, an entry without or with an unknown pass, or an unknown option anywhere is rejected with a
    C-Vise error under every option combination -/
theorem parse_rejects (K : Known) (o : Opts) (g : Group)
    (h : ∃ cat ∈ categories, g.lookup cat = none ∨ ∃ es, g.lookup cat = some es ∧ ∃ e ∈ es, Malformed K e) :
    ∃ x, parse true K o g = .error x := PG.parse_rejects K o g h

/-- the parser that validates only what the filter lets through accepts an unknown pass hidden behind `include`
    (finding F6) -/
theorem lazy_counterexample : parse false f6K f6O f6G = .ok [("first", []), ("main", []), ("last", [])] :=
  lazy_accepts_hidden_unknown_pass

/-- well-formed dictionaries are accepted under every option combination -/
theorem parse_total (eager : Bool) (K : Known) (o : Opts) (g : Group) (h : groupOK K g = true) :
    ∃ s, parse eager K o g = .ok s := PG.parse_total eager K o g h

/-- the four shipped groups (regenerated from the JSON files on every run) are well-formed … -/
theorem shipped_wellformed : Gen.shippedGroups.all (fun ng => groupOK Gen.known ng.2) = true := by decide +kernel

/-- … hence under every combination of slow / windows / not-c / renaming / remove-pass they parse, and the schedule is
    exactly the documented selection -/
theorem shipped (name : String) (g : Group) (hg : (name, g) ∈ Gen.shippedGroups) (o : Opts) :
    parse true Gen.known o g =
      .ok (categories.map (fun cat => (cat, ((g.lookup cat).getD []).filterMap (selSpec Gen.known o)))) := by
  have hok : groupOK Gen.known g = true := by
    have := List.all_eq_true.mp shipped_wellformed (name, g) hg
    exact this
  obtain ⟨s, hs⟩ := PG.parse_total true Gen.known o g hok
  rw [hs, (PG.parse_eq_spec true Gen.known o g s hs).1]

/-- the shipped parser validates before it filters (regenerated from `parse_pass_group_dict` on every run), so
    `parse_rejects` is about the code as it is -/
theorem shipped_eager : Gen.parseEager = true := by decide

-- non-vacuity: an entry is filtered and one is kept
example : (categories.map (fun cat => (cat, (((Gen.group_binary).lookup cat).getD []).filterMap
    (selSpec Gen.known { active := [], removed := [], notC := false, ren := false })))).length = 3 := by decide

end Cvise.C13
