import Cvise.Proofs.PassesTerm
import Cvise.Proofs.PassesBalTerm
import Cvise.Proofs.PassesTernTerm
import Cvise.Proofs.DriverTotal
import Cvise.Proofs.PassesDriver
import Cvise.Proofs.PassesIntsTerm
import Cvise.Proofs.PassesCounterTerm
import Cvise.Props.C06
import Cvise.Gen.Const
/-!
# C03 — every pass and the whole reduction terminate
-/
namespace Cvise.C03
open Cvise Cvise.P Cvise.D

/-- a measure that drops on `advance` and on accept-then-`advance_on_success` bounds the number of candidates of a pass
    under every accept/reject history -/
theorem drive_bound {σ : Type} (Q : TextPass σ) (μ : Text → σ → Nat)
    (H1 : ∀ s st st', Q.advance s st = some st' → μ s st' < μ s st)
    (H2 : ∀ s st s2 st2 st', Q.transform s st = (.ok, s2, st2) → Q.aos s2 st2 = some st' → μ s2 st' < μ s st)
    (hist : List Bool) (s : Text) (st : σ) : (runHistory Q hist s (some st) []).1.length ≤ μ s st + 1 := by
  have := Cvise.P.drive_bound Q μ H1 H2 hist s st []
  simpa using this

/-- binary-search passes (lines, line markers, #if blocks, clang_delta ranges, gcda): at most `2n² + 4n + 1` candidates
    for `n` instances, for every test -/
theorem binary_search_bound {α : Type} (test : List α → Bool) (l : List α) :
    ∃ r, start test (startFuel l.length) l = some r := C06.completes test l

/-- the gcda pass restarts its search after every accepted removal: at most `(n+1)·(2n²+4n+1) + 1` candidates -/
theorem gcda_bound {α : Type} (test : List α → Bool) (l : List α) :
    ∃ r, gcdaStart test (gcdaFuel l.length) l = some r := C06.gcda_completes test l

/-- the ifs pass asks for every range twice (`#if 0`, `#if 1`): at most `2·(2n²+4n+1) + 2` candidates, for every test —
    value-sensitive or not -/
theorem ifs_bound {α : Type} (test : List α → Bool → Bool) (l : List α) :
    ∃ r, ifsStart test (ifsFuel l.length) l = some r := C06.ifs_completes test l

/-- balanced (all shipped arguments): at most `2·|s| + 2` candidates for **every** accept/reject history.  The measure is
    `2·|s| + 1 − start of the current match`: `advance` moves the start right, an accepted candidate is strictly shorter
    (every generated recipe shrinks a span of ≥ 2 characters or leaves the text unchanged — `balanced_recipes_shrink`,
    regenerated) and the search resumes at or after the old start -/
theorem balanced_bound (arg : String) (cfg : BalCfg) (hc : balCfg arg = some cfg) (hist : List Bool) (s : Text) (st : M.Span)
    (hnew : (balanced cfg).new s = some st) :
    (runHistory (balanced cfg) hist s (some st) []).1.length ≤ 2 * s.length + 2 :=
  balanced_bound_shipped arg cfg hc hist s st hnew

/-- the table hypothesis, decided over the regenerated recipes -/
theorem balanced_recipes_shrink : Gen.balancedCfg.all (fun x => shapeShrinks x.2.2.2.2) = true := P.balanced_recipes_shrink

example : (balCfg "parens").isSome = true := by decide +kernel

/-- ternary (arguments b, c): at most `2·|s| + 2` candidates for every accept/reject history (same measure; an accepted
    candidate keeps one operand of `x ? b : c` between its two border characters and is strictly shorter) -/
theorem ternary_bound (arg : String) (harg : arg = "b" ∨ arg = "c") (hist : List Bool) (s : Text) (st : TernSt)
    (hnew : (ternary arg).new s = some st) :
    (runHistory (ternary arg) hist s (some st) []).1.length ≤ 2 * s.length + 2 :=
  P.ternary_bound arg harg hist s st hnew

/-- ints a / b / c and special b / c: at most `|s|² + 4|s| + 3` candidates for **every** accept/reject history (an
    accepted candidate is strictly shorter, `advance_on_success` recomputes at most `|s'| + 2` modifications) -/
theorem ints_bound (arg : String) (harg : arg = "a" ∨ arg = "b" ∨ arg = "c") (hist : List Bool) (s : Text) (st : ModSt)
    (hnew : (modPass (intsEntry arg).1 (intsEntry arg).2).new s = some st) :
    (runHistory (modPass (intsEntry arg).1 (intsEntry arg).2) hist s (some st) []).1.length ≤ s.length * (s.length + 3) + s.length + 3 :=
  P.ints_bound arg harg hist s st hnew
theorem special_bc_bound (arg : String) (harg : arg = "b" ∨ arg = "c") (hist : List Bool) (s : Text) (st : ModSt)
    (hnew : (modPass (specialEntry arg).1 (specialEntry arg).2).new s = some st) :
    (runHistory (modPass (specialEntry arg).1 (specialEntry arg).2) hist s (some st) []).1.length ≤ s.length * (s.length + 3) + s.length + 3 :=
  P.special_bc_bound arg harg hist s st hnew

/-- the counter passes `blank` and `includes` — whose `advance` never ends and which rely on `transform` saying STOP —
    under **every** accept/reject history: at most `|patterns| + 2` resp. `|s|² + 3|s| + 2` candidates -/
theorem blank_bound (hist : List Bool) (s : Text) :
    (runHistory blank hist s (some 0) []).1.length ≤ Gen.blankPatterns.length + 2 := P.blank_bound hist s
theorem includes_bound (hist : List Bool) (s : Text) :
    (runHistory includes hist s (some 1) []).1.length ≤ s.length * (s.length + 2) + s.length + 2 := P.includes_bound hist s
/-- comments under **every** accept/reject history (all-reject: `comments_reject_bound`): an accepted candidate deletes
    comment text, so at most `(|s| + 1)·(|substitutions| + 2)` candidates -/
theorem comments_bound (hist : List Bool) (s : Text) :
    (runHistory comments hist s (some 0) []).1.length ≤ s.length * (Gen.commentsSubs.length + 2) + Gen.commentsSubs.length + 2 :=
  P.comments_bound hist s

/-- peep: `advance` walks `(pos, regex)` lexicographically and ends at `pos ≥ |s|` -/
theorem peep_advance_progress (arg : String) (s : Text) (st st' : PeepSt) (h : peepAdvance arg s st = some st') :
    st'.pos < s.length ∧ ((st'.pos = st.pos ∧ st'.regex = st.regex + 1) ∨ (st'.pos = st.pos + 1 ∧ st'.regex = 0)) := by
  unfold peepAdvance at h
  by_cases hw : st.regex + 1 ≥ peepLim arg
  · simp only [hw, if_true] at h
    split at h
    · cases h
    · rename_i hlt; cases h; exact ⟨by simpa using hlt, Or.inr ⟨rfl, rfl⟩⟩
  · simp only [hw, if_false] at h
    split at h
    · cases h
    · rename_i hlt; cases h; exact ⟨by simpa using hlt, Or.inl ⟨rfl, rfl⟩⟩

/-- comments: under all-reject at most `|subs| + 2` candidates -/
theorem comments_reject_bound (s : Text) (hist : List Bool) (hr : ∀ a ∈ hist, a = false) :
    (runHistory comments hist s (some 0) []).1.length ≤ Gen.commentsSubs.length + 2 := by
  have := Cvise.P.comments_reject_bound s hist hr 0 []
  simpa using this

/-- the main loop starts another round only after the total size became strictly smaller, so it ends after at most
    `total + 1` rounds whatever the passes do (growing, neutral, failing): more fuel is never used -/
theorem main_rounds_le {C σ : Type} [DecidableEq C] [Inhabited σ] [Inhabited C]
    (cfg : Cfg) (W : World C) (dn : Sched) (orderOf : List C → List Nat) (fuel : Nat) (ps : List (PassI C σ)) (x : D.St C) (rid n : Nat)
    (hn : totalSize W.size x.disk + 1 ≤ n) :
    mainLoop cfg W dn orderOf fuel ps n (.inl (x, rid)) =
    mainLoop cfg W dn orderOf fuel ps (totalSize W.size x.disk + 1) (.inl (x, rid)) :=
  mainLoop_stops cfg W dn orderOf fuel ps _ (.inl (x, rid)) (by simp [resTotal]) n hn

/-- the comparison that ends the main loop, as it is in the source now -/
theorem shipped_stop_cmp : Gen.mainLoopStopCmp = .ge := by decide

/-! ### the parallel driver itself terminates (L2 model) -/
section driver
variable {C σ : Type} [DecidableEq C] [Inhabited σ] [Inhabited C]

/-- **all rounds of a pass on one file end**: for a pass with a measure that drops on `advance` and on
    accept-then-`advance_on_success` (`D.Measured`, the two conditions of `drive_bound`), the speculative driver needs no
    more than `μ + 1` rounds on a file and no more than `μ + 1` scheduling iterations per round — its result is the same
    for every larger fuel, whatever the test answers, whichever candidates fail, hang or crash, whatever the schedule and
    the limits.  (This is the model-level content of "the driver never wedges": fuel is the only thing that could end a
    run artificially, and it is never the reason.) -/
theorem pass_run_on_a_file_terminates (cfg : Cfg) (W : World C) (dn : Sched) (P : PassI C σ) (I : C → σ → Prop) (μ : C → σ → Nat)
    (hμ : Measured P I μ) (k startSize j fuel rid : Nat) (s : σ) (succ : Nat) (x : D.St C) (hk : k < x.disk.length)
    (hI : I (x.disk.getD k default) s)
    (h1 : μ (x.disk.getD k default) s < fuel) (h2 : μ (x.disk.getD k default) s < cfg.giveup + 1000) :
    fileLoop cfg W dn P k startSize fuel rid s succ x = fileLoop cfg W dn P k startSize (fuel + j) rid s succ x :=
  fileLoop_total cfg W dn P I μ hμ k startSize j fuel rid s succ x hk hI h1 h2

/-- **the whole reduction ends** (first / main to a fixpoint / last) for passes with a bounded measure: more fuel never
    changes the result; the number of main-loop rounds is bounded by `main_rounds_le` -/
theorem reduction_terminates (cfg : Cfg) (W : World C) (dn : Sched) (orderOf : List C → List Nat) (ho : OrderOK orderOf) (fuel j : Nat)
    (first main last : List (PassI C σ)) (x : D.St C)
    (h : ∀ P, P ∈ first ∨ P ∈ main ∨ P ∈ last → Terminating cfg fuel P) :
    reduce cfg W dn orderOf fuel first main last x = reduce cfg W dn orderOf (fuel + j) first main last x :=
  reduce_total cfg W dn orderOf ho fuel j first main last x h

end driver

/-- instances: the `balanced` and `ternary` pass models, plugged into the driver model as they are (contents = decoded
    text, cursor = the match span): the speculative driver finishes a file of `n` characters within `2n + 2` rounds,
    whatever the test, the faults, the schedule and the limits.  (`hsz`: the model's in-round fuel is
    `GIVEUP_CONSTANT + 1000`; the real loop has no such bound.) -/
theorem balanced_parallel_terminates (cfg : Cfg) (W : World Text) (dn : Sched) (arg : String) (bc : BalCfg) (hc : balCfg arg = some bc)
    (key : Nat) (maxT : Option Nat) (k startSize j rid : Nat) (st : M.Span) (succ : Nat) (x : D.St Text) (hk : k < x.disk.length)
    (hI : BalI (x.disk.getD k default) st) (hsz : 2 * (x.disk.getD k default).length + 2 ≤ cfg.giveup + 1000) :
    fileLoop cfg W dn ((balanced bc).toI key maxT) k startSize (2 * (x.disk.getD k default).length + 2) rid st succ x =
    fileLoop cfg W dn ((balanced bc).toI key maxT) k startSize (2 * (x.disk.getD k default).length + 2 + j) rid st succ x := by
  apply P.balanced_parallel_terminates cfg W dn bc _ key maxT k startSize j rid st succ x hk hI hsz
  unfold balCfg at hc
  simp only [Option.map_eq_some_iff] at hc
  obtain ⟨⟨a, o, c, pre, r⟩, hf, heq⟩ := hc
  have hm := List.mem_of_find?_eq_some hf
  have := List.all_eq_true.mp P.balanced_recipes_shrink _ hm
  subst heq
  exact this

theorem ternary_parallel_terminates (cfg : Cfg) (W : World Text) (dn : Sched) (arg : String) (harg : arg = "b" ∨ arg = "c")
    (key : Nat) (maxT : Option Nat) (k startSize j rid : Nat) (st : TernSt) (succ : Nat) (x : D.St Text) (hk : k < x.disk.length)
    (hI : TernI (x.disk.getD k default) st) (hsz : 2 * (x.disk.getD k default).length + 2 ≤ cfg.giveup + 1000) :
    fileLoop cfg W dn ((ternary arg).toI key maxT) k startSize (2 * (x.disk.getD k default).length + 2) rid st succ x =
    fileLoop cfg W dn ((ternary arg).toI key maxT) k startSize (2 * (x.disk.getD k default).length + 2 + j) rid st succ x :=
  P.ternary_parallel_terminates cfg W dn arg harg key maxT k startSize j rid st succ x hk hI hsz

/-- non-vacuity: a pass that counts a content down from at most 5 is `Terminating` with fuel 6 -/
def countdown : PassI Nat Nat where
  key := 0
  maxT := none
  new := fun _ => some 0
  advance := fun _ _ => none
  aos := fun _ s => some s
  transform := fun c s => if 0 < c ∧ c ≤ 5 then (.ok, c - 1, s) else (.stop, c, s)

example : Terminating ({} : Cfg) 6 countdown := by
  refine ⟨fun _ _ => True, fun c _ => if c ≤ 5 then c else 0, ⟨fun _ _ _ => trivial, fun _ _ _ _ _ => trivial, fun _ _ _ _ _ _ _ _ => trivial, ?_, ?_⟩, ?_⟩
  · intro c s s' _ h; simp [countdown] at h
  · intro c s c' s2 s' _ h _
    simp only [countdown] at h
    split at h
    · rename_i hc
      cases h
      have : c - 1 ≤ 5 := by omega
      simp only [this, hc.2, if_true]; omega
    · cases h
  · intro c s
    constructor
    · show (if c ≤ 5 then c else 0) < 6
      split <;> omega
    · show (if c ≤ 5 then c else 0) < 50000 + 1000
      split <;> omega
example : OrderOK (fun (d : List Nat) => List.range d.length) := by
  intro d k hk; simpa using hk

end Cvise.C03
