import Cvise.Proofs.PassesTerm
import Cvise.Proofs.PassesBalTerm
import Cvise.Proofs.PassesTernTerm
import Cvise.Props.C06
import Cvise.Gen.Const
/-!
# C03 — every pass and the whole reduction terminate
-/
namespace Cvise.C03
open Cvise Cvise.P Cvise.D

/-- a measure that drops on `advance` and on accept-then-`advance_on_success` bounds the number of candidates of a pass
    under every accept/reject history -/
theorem drive_bound {σ : Type} (Q : TextPass σ) (μ : Text → σ → Nat)
    (H1 : ∀ s st st', Q.advance s st = some st' → μ s st' < μ s st)
    (H2 : ∀ s st s2 st2 st', Q.transform s st = (.ok, s2, st2) → Q.aos s2 st2 = some st' → μ s2 st' < μ s st)
    (hist : List Bool) (s : Text) (st : σ) : (runHistory Q hist s (some st) []).1.length ≤ μ s st + 1 := by
  have := Cvise.P.drive_bound Q μ H1 H2 hist s st []
  simpa using this

/-- binary-search passes (lines, line markers, #if blocks, clang_delta ranges, gcda): at most `2n² + 4n + 1` candidates
    for `n` instances, for every test -/
theorem binary_search_bound {α : Type} (test : List α → Bool) (l : List α) :
    ∃ r, start test (startFuel l.length) l = some r := C06.completes test l

/-- balanced (all shipped arguments): at most `2·|s| + 2` candidates for **every** accept/reject history.  The measure is
    `2·|s| + 1 − start of the current match`: `advance` moves the start right, an accepted candidate is strictly shorter
    (every generated recipe shrinks a span of ≥ 2 characters or leaves the text unchanged — `balanced_recipes_shrink`,
    regenerated) and the search resumes at or after the old start -/
theorem balanced_bound (arg : String) (cfg : BalCfg) (hc : balCfg arg = some cfg) (hist : List Bool) (s : Text) (st : M.Span)
    (hnew : (balanced cfg).new s = some st) :
    (runHistory (balanced cfg) hist s (some st) []).1.length ≤ 2 * s.length + 2 :=
  balanced_bound_shipped arg cfg hc hist s st hnew

/-- the table hypothesis, decided over the regenerated recipes -/
theorem balanced_recipes_shrink : Gen.balancedCfg.all (fun x => shapeShrinks x.2.2.2.2) = true := P.balanced_recipes_shrink

example : (balCfg "parens").isSome = true := by decide +kernel

/-- ternary (arguments b, c): at most `2·|s| + 2` candidates for every accept/reject history (same measure; an accepted
    candidate keeps one operand of `x ? b : c` between its two border characters and is strictly shorter) -/
theorem ternary_bound (arg : String) (harg : arg = "b" ∨ arg = "c") (hist : List Bool) (s : Text) (st : TernSt)
    (hnew : (ternary arg).new s = some st) :
    (runHistory (ternary arg) hist s (some st) []).1.length ≤ 2 * s.length + 2 :=
  P.ternary_bound arg harg hist s st hnew

/-- peep: `advance` walks `(pos, regex)` lexicographically and ends at `pos ≥ |s|` -/
theorem peep_advance_progress (arg : String) (s : Text) (st st' : PeepSt) (h : peepAdvance arg s st = some st') :
    st'.pos < s.length ∧ ((st'.pos = st.pos ∧ st'.regex = st.regex + 1) ∨ (st'.pos = st.pos + 1 ∧ st'.regex = 0)) := by
  unfold peepAdvance at h
  by_cases hw : st.regex + 1 ≥ peepLim arg
  · simp only [hw, if_true] at h
    split at h
    · cases h
    · rename_i hlt; cases h; exact ⟨by simpa using hlt, Or.inr ⟨rfl, rfl⟩⟩
  · simp only [hw, if_false] at h
    split at h
    · cases h
    · rename_i hlt; cases h; exact ⟨by simpa using hlt, Or.inl ⟨rfl, rfl⟩⟩

/-- comments: under all-reject at most `|subs| + 2` candidates -/
theorem comments_reject_bound (s : Text) (hist : List Bool) (hr : ∀ a ∈ hist, a = false) :
    (runHistory comments hist s (some 0) []).1.length ≤ Gen.commentsSubs.length + 2 := by
  have := Cvise.P.comments_reject_bound s hist hr 0 []
  simpa using this

/-- the main loop starts another round only after the total size became strictly smaller, so it ends after at most
    `total + 1` rounds whatever the passes do (growing, neutral, failing): more fuel is never used -/
theorem main_rounds_le {C σ : Type} [DecidableEq C] [Inhabited σ] [Inhabited C]
    (cfg : Cfg) (W : World C) (dn : Sched) (orderOf : List C → List Nat) (fuel : Nat) (ps : List (PassI C σ)) (x : D.St C) (rid n : Nat)
    (hn : totalSize W.size x.disk + 1 ≤ n) :
    mainLoop cfg W dn orderOf fuel ps n (.inl (x, rid)) =
    mainLoop cfg W dn orderOf fuel ps (totalSize W.size x.disk + 1) (.inl (x, rid)) :=
  mainLoop_stops cfg W dn orderOf fuel ps _ (.inl (x, rid)) (by simp [resTotal]) n hn

/-- the comparison that ends the main loop, as it is in the source now -/
theorem shipped_stop_cmp : Gen.mainLoopStopCmp = .ge := by decide

end Cvise.C03
