import Cvise.Proofs.MatcherSearch
import Cvise.Proofs.RxContract
/-!
# C12 — delimiter matching returns exactly the leftmost genuinely balanced match

Model: `Cvise.M` (`nestedmatcher.py`).  `Bal o c s a b` is the declarative "opens at `a`, closes at the same nesting
depth at `b`"; `SeqMatch rx s parts a e spans` is "the parts match back to back from `a` to `e`".
All theorems hold for every string, every position (including negative and out-of-range ones) and every part list.
The definitions are total functions without fuel (Lean accepted their termination: the start position strictly
increases), which is the "never raises or loops" clause.
-/
namespace Cvise.C12
open Cvise Cvise.M

/-- the depth-counter scan finds exactly the closing position -/
theorem scan_iff (o c : Char) (xs : List Char) (d k : Nat) (hd : 0 < d) :
    scan o c xs d = some k ↔ ClosesAt o c xs d k := M.scan_iff o c xs d k hd

theorem closing_unique (o c : Char) (xs : List Char) (d k k' : Nat)
    (h : ClosesAt o c xs d k) (h' : ClosesAt o c xs d k') : k = k' := closesAt_unique o c xs d k k' h h'

/-- a balanced part matched at `a` reports a span iff it is genuinely balanced -/
theorem helper_iff (o c : Char) (s : List Char) (a : Nat) (m : Span) :
    matchAt o c s a = some m ↔ m.1 = a ∧ Bal o c s a m.2 := matchAt_iff o c s a m

/-- searching a balanced part: sound and leftmost -/
theorem bal_search_leftmost (o c : Char) (s : List Char) (p : Nat) (m : Span) (h : balSearch o c s p = some m) :
    p ≤ m.1 ∧ Bal o c s m.1 m.2 ∧ ∀ a, p ≤ a → a < m.1 → ∀ b, ¬ Bal o c s a b :=
  (balSearch_spec o c s _ p rfl).1 m h

/-- … and `none` only if no balanced group starts at or after `p` -/
theorem bal_search_none (o c : Char) (s : List Char) (p : Nat) (h : balSearch o c s p = none) :
    ∀ a, p ≤ a → ∀ b, ¬ Bal o c s a b := (balSearch_spec o c s _ p rfl).2 h

/-- `search(parts, s, pos)` (search mode): the reported span really matches the part sequence, starts at or after
    `pos`, and no earlier start in `[pos, a)` matches -/
theorem search_leftmost (rx : RxO) (hc : RxContract rx) (parts : List Pat) (s : List Char) (pos : Int)
    (a e : Nat) (sp : List Span) (h : search rx parts s pos true = some ((a, e), sp)) :
    0 ≤ pos ∧ pos ≤ a ∧ SeqMatch rx s parts a e sp ∧
    ∀ a' : Nat, pos ≤ a' → a' < a → ∀ e' sp', ¬ SeqMatch rx s parts a' e' sp' := by
  unfold search at h
  cases parts with
  | nil => cases h
  | cons first rest =>
    simp only at h
    split at h
    · cases h
    · rename_i hpos
      have h0 : 0 ≤ pos := by omega
      obtain ⟨j1, j2, j3⟩ := (searchLoop_true_spec rx hc first rest s _ pos.toNat (Nat.le_refl _)).1 a e sp h
      refine ⟨h0, by omega, j2, ?_⟩
      intro a' h1 h2
      exact j3 a' (by omega) h2

/-- `none` is reported only if the list is empty, the position is outside the string, or no start in `[pos, |s|)` matches -/
theorem search_none (rx : RxO) (hc : RxContract rx) (parts : List Pat) (s : List Char) (pos : Int)
    (h : search rx parts s pos true = none) :
    parts = [] ∨ pos < 0 ∨ pos ≥ s.length ∨
    ∀ a' : Nat, pos ≤ a' → a' < s.length → ∀ e' sp', ¬ SeqMatch rx s parts a' e' sp' := by
  unfold search at h
  cases parts with
  | nil => left; rfl
  | cons first rest =>
    simp only at h
    split at h
    · rename_i hpos; right; omega
    · rename_i hpos
      right; right; right
      intro a' h1 h2
      exact (searchLoop_true_spec rx hc first rest s _ pos.toNat (Nat.le_refl _)).2 h a' (by omega) h2

/-- non-search mode (used by peep): the first part is matched position by position; the result is sound and every
    skipped start is one where the first part matched but the sequence did not -/
theorem search_nonsearch (rx : RxO) (hc : RxContract rx) (parts : List Pat) (s : List Char) (pos : Int)
    (a e : Nat) (sp : List Span) (h : search rx parts s pos false = some ((a, e), sp)) :
    pos ≤ a ∧ SeqMatch rx s parts a e sp ∧
    ∀ a' : Nat, pos ≤ a' → a' < a → ∀ e' sp', ¬ SeqMatch rx s parts a' e' sp' := by
  unfold search at h
  cases parts with
  | nil => cases h
  | cons first rest =>
    simp only at h
    split at h
    · cases h
    · rename_i hpos
      obtain ⟨j1, j2, j3⟩ := searchLoop_false_spec rx hc first rest s _ pos.toNat (Nat.le_refl _) a e sp h
      refine ⟨by omega, j2, ?_⟩
      intro a' h1 h2
      exact (j3 a' (by omega) h2).2

/-- the engine-backed oracle the executable model uses satisfies the contract: the three theorems above hold for it
    without hypotheses -/
theorem search_leftmost_engine (tbl : Array Rx) (parts : List Pat) (s : List Char) (pos : Int)
    (a e : Nat) (sp : List Span) (h : search (rxOracle tbl) parts s pos true = some ((a, e), sp)) :
    0 ≤ pos ∧ pos ≤ a ∧ SeqMatch (rxOracle tbl) s parts a e sp ∧
    ∀ a' : Nat, pos ≤ a' → a' < a → ∀ e' sp', ¬ SeqMatch (rxOracle tbl) s parts a' e' sp' :=
  search_leftmost _ (rxOracle_contract tbl) parts s pos a e sp h

/-- `find` without prefix (balanced pass): exactly the leftmost balanced group at or after `pos` -/
theorem find_leftmost (rx : RxO) (hc : RxContract rx) (o c : Char) (s : List Char) (pos : Int) (a b : Nat)
    (h : find rx o c none s pos = some (a, b)) :
    pos ≤ a ∧ Bal o c s a b ∧ ∀ a' : Nat, pos ≤ a' → a' < a → ∀ b', ¬ Bal o c s a' b' := by
  unfold find at h
  simp only [Option.map_eq_some_iff] at h
  obtain ⟨⟨⟨a0, e0⟩, sp⟩, hs, heq⟩ := h
  simp only at heq
  cases heq
  obtain ⟨_, j1, j2, j3⟩ := search_leftmost rx hc _ s pos a b sp hs
  refine ⟨j1, ?_, ?_⟩
  · cases j2 with
    | cons h1 h2 =>
      cases h2
      simp only [PatSpec] at h1
      rename_i m
      obtain ⟨m1, m2⟩ := m
      simp only at h1 ⊢
      exact h1.2
  · intro a' h1 h2 b' hb
    exact j3 a' h1 h2 b' [(a', b')] (SeqMatch.cons (m := (a', b')) ⟨rfl, hb⟩ (SeqMatch.nil _))

/-- `find … = none` only if no balanced group starts in `[pos, |s|)` -/
theorem find_none (rx : RxO) (hc : RxContract rx) (o c : Char) (s : List Char) (pos : Int)
    (h : find rx o c none s pos = none) (h0 : 0 ≤ pos) :
    ∀ a' : Nat, pos ≤ a' → ∀ b', ¬ Bal o c s a' b' := by
  unfold find at h
  simp only [Option.map_eq_none_iff] at h
  intro a' h1 b' hb
  have hlt := hb.1
  rcases search_none rx hc _ s pos h with h | h | h | h
  · cases h
  · omega
  · omega
  · exact h a' h1 hlt b' [(a', b')] (SeqMatch.cons (m := (a', b')) ⟨rfl, hb⟩ (SeqMatch.nil _))

-- non-vacuity: a genuinely balanced group that does not start at 0, and an opener that never closes
example : Bal '(' ')' "a((b) (c)".toList 2 5 := by
  refine ⟨by decide, by decide, by decide, by decide, by decide, ?_⟩
  intro j hj
  have : j = 0 ∨ j = 1 := by simp at hj; omega
  rcases this with h | h <;> subst h <;> decide
example : ¬ ∃ b, Bal '(' ')' "((".toList 0 b := by
  rintro ⟨b, _, _, _, h1, h2, _⟩
  simp at h1
  have : b - 1 = 0 ∨ b - 1 = 1 := by omega
  rcases this with h | h <;> rw [h] at h2 <;> simp [depth] at h2

end Cvise.C12
