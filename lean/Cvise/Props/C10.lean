import Cvise.Proofs.DriverSafe
import Cvise.Proofs.DriverCache
import Cvise.Gen.Const
/-!
# C10 — the pass cache is transparent (what is proved of the replay table)

Every entry of the replay table is the recorded result of running the same pass from exactly the recorded joint
contents, and a replay writes exactly that recorded result.  Together with `C02.reduce_schedule_irrelevant` (the result
of a pass run is a function of the files and the table, not of the schedule) this is the content of "the cache only
skips work whose outcome is already known".  The remaining step — that re-running a pass from the same files yields the
same files — needs the pass run to be history-independent.  `cache_transparent` proves it for whole reductions under
the contract of C02 (well-behaved passes: finite rounds, no helper ERROR, no unchanged "OK", no give-up, no timeouts) and a
deterministic interestingness test (`NoFaults`): the run with the table and the `--no-cache` run end with the same files
(or the same error with the same files), whatever the two schedules are.  Outside that contract (passes that trigger bug
reports, scripted per-invocation faults) a pass run depends on how many report directories exist and on the schedule, so
no such statement holds in general; there the paired-run correspondence of the check is the evidence.
-/
namespace Cvise.C10
open Cvise Cvise.D
variable {C σ : Type} [DecidableEq C] [Inhabited σ] [Inhabited C]

/-- the only place a table entry is written: after `newLoop` ran the pass on file `k` from `x.disk`, the entry maps
    (pass, `x.disk`, `k`) to what file `k` holds afterwards -/
theorem cache_entries_are_results (cfg : Cfg) (hc : cfg.cacheOn = true) (hj : cfg.jointKey = true) (W : World C) (dn : Sched)
    (P : PassI C σ) (fuel : Nat) (x : St C) (rid k : Nat) (y : St C) (rid' : Nat)
    (hsz : W.size (x.disk.getD k default) ≠ 0) (hmiss : x.cache.lookup (P.key, x.disk, k) = none)
    (hrun : newLoop cfg W dn P k fuel rid x (x.disk.getD k default) = .inl (y, rid')) :
    fileStep cfg W dn P fuel (.inl (x, rid)) k =
      .inl ({ y with cache := ((P.key, x.disk, k), y.disk.getD k default) :: y.cache }, rid') := by
  unfold fileStep
  simp only [hsz, if_false, hc, hj, if_true, hmiss, hrun]

/-- a hit writes exactly the recorded content into file `k` and touches nothing else of the files -/
theorem replay_is_recorded_result (cfg : Cfg) (hc : cfg.cacheOn = true) (hj : cfg.jointKey = true) (W : World C) (dn : Sched)
    (P : PassI C σ) (fuel : Nat) (x : St C) (rid k : Nat) (after : C)
    (hsz : W.size (x.disk.getD k default) ≠ 0) (hhit : x.cache.lookup (P.key, x.disk, k) = some after) :
    (LRes.st (fileStep cfg W dn P fuel (.inl (x, rid)) k)).disk = x.disk.set k after := by
  unfold fileStep
  simp only [hsz, if_false, hc, hj, if_true, hhit, LRes.st]

/-- **C10 at full strength for well-behaved passes.**  `Rel` on two normal results says: same files, no futures left over
    (and every table entry is what the pass yields without the table); on two error results: same error, same files; a
    normal result is never paired with an error.  Hypotheses on the configuration are the facts regenerated from
    `run_pass` (`shipped_facts`); `hkey`: two passes with the same `repr` are the same pass. -/
theorem cache_transparent (cfg : Cfg) (hc : cfg.cacheOn = true) (hj : cfg.jointKey = true) (hr : cfg.releaseBeforeBail = true)
    (W : World C) (hnf : NoFaults W) (d d' : Sched) (orderOf : List C → List Nat) (fuel : Nat)
    (first main last : List (PassI C σ))
    (hkey : ∀ P ∈ first ++ main ++ last, ∀ Q ∈ first ++ main ++ last, P.key = Q.key → P = Q)
    (hg : ∀ P ∈ first ++ main ++ last, GoodPass cfg W P) (x : St C) (hx : x.cache = []) (hl : x.leftover = false) :
    Rel cfg W fuel (first ++ main ++ last) (reduce cfg W d orderOf fuel first main last x)
      (reduce (noCache cfg) W d' orderOf fuel first main last x) :=
  reduce_cache_transparent cfg hc hj hr W hnf d d' orderOf fuel first main last hkey hg x hx hl

/-- in particular: the final files agree -/
theorem cache_transparent_files (cfg : Cfg) (hc : cfg.cacheOn = true) (hj : cfg.jointKey = true) (hr : cfg.releaseBeforeBail = true)
    (W : World C) (hnf : NoFaults W) (d d' : Sched) (orderOf : List C → List Nat) (fuel : Nat)
    (first main last : List (PassI C σ))
    (hkey : ∀ P ∈ first ++ main ++ last, ∀ Q ∈ first ++ main ++ last, P.key = Q.key → P = Q)
    (hg : ∀ P ∈ first ++ main ++ last, GoodPass cfg W P) (x : St C) (hx : x.cache = []) (hl : x.leftover = false) :
    (LRes.st (reduce cfg W d orderOf fuel first main last x)).disk =
      (LRes.st (reduce (noCache cfg) W d' orderOf fuel first main last x)).disk := by
  have h := cache_transparent cfg hc hj hr W hnf d d' orderOf fuel first main last hkey hg x hx hl
  generalize reduce cfg W d orderOf fuel first main last x = r at h ⊢
  generalize reduce (noCache cfg) W d' orderOf fuel first main last x = r' at h ⊢
  rcases r with ⟨a, _⟩ | ⟨_, a⟩ <;> rcases r' with ⟨b, _⟩ | ⟨_, b⟩ <;> simp only [Rel] at h
  · exact h.1
  · exact h.2

/-- the two facts about `run_pass` the theorem needs are the ones the translator reads off the current source -/
theorem shipped_facts : Gen.cacheKeyJoint = true ∧ Gen.releaseBeforeBail = true := by decide

/-! non-vacuity: a concrete pass that meets `GoodPass` (one candidate per round: drop one unit while positive), a world
    without faults, and the theorem applied to a run in which the pass meets the same content twice -/
def decr : PassI Nat Nat where
  key := 7
  maxT := none
  new := fun _ => some 0
  advance := fun _ _ => none
  aos := fun _ s => some s
  transform := fun c s => if c = 0 then (.invalid, c, s) else (.ok, c - 1, s)

def wW : World Nat where
  size := fun c => c
  test := fun j => if j.all (· ≥ 2) then .code 0 else .code 1
  fault := fun _ _ => none

theorem wW_noFaults : NoFaults wW := fun _ _ => rfl

theorem decr_good (cfg : Cfg) (hgu : 1 ≤ cfg.giveup) : GoodPass cfg wW decr := by
  intro disk k s rid
  generalize disk.getD k default = cur
  have hn : ∀ n, nthState decr cur s (n+1) = none := by
    intro n
    simp only [nthState]
    cases nthState decr cur s n <;> rfl
  refine ⟨1, by decide, by omega, ?_, ?_, ?_⟩
  · intro t
    cases t with
    | zero => simp [nthState]
    | succ n => rw [hn n]; simp
  · intro i hi
    have : i = 0 := by omega
    subst this
    by_cases hc : cur = 0
    · constructor <;> simp [envOf, nthState, decr, wW, hc] <;> omega
    · constructor <;> simp [envOf, nthState, decr, wW, hc] <;> first | omega | (split <;> simp)
  · intro i j hij hj
    omega

example : (LRes.st (reduce { cacheOn := true } wW (fun _ _ _ => true) (fun _ => [0]) 50 [decr] [decr] [decr] { disk := [5] })).disk = [2] := by
  decide +kernel
example : (LRes.st (reduce (noCache { cacheOn := true }) wW (fun _ _ _ => false) (fun _ => [0]) 50 [decr] [decr] [decr] { disk := [5] })).disk = [2] := by
  decide +kernel

/-- the theorem applied: all hypotheses are met by this instance -/
example (d d' : Sched) :
    (LRes.st (reduce { cacheOn := true, releaseBeforeBail := true } wW d (fun _ => [0]) 50 [decr] [decr] [decr] { disk := [5] })).disk =
    (LRes.st (reduce (noCache { cacheOn := true, releaseBeforeBail := true }) wW d' (fun _ => [0]) 50 [decr] [decr] [decr] { disk := [5] })).disk :=
  cache_transparent_files _ rfl rfl rfl wW wW_noFaults d d' _ 50 [decr] [decr] [decr]
    (by intro P hP Q hQ _; simp at hP hQ; rw [hP, hQ])
    (by intro P hP; simp at hP; subst hP; exact decr_good _ (by decide)) { disk := [5] } rfl rfl

end Cvise.C10
