import Cvise.Proofs.DriverSafe
/-!
# C10 — the pass cache is transparent (what is proved of the replay table)

Every entry of the replay table is the recorded result of running the same pass from exactly the recorded joint
contents, and a replay writes exactly that recorded result.  Together with `C02.reduce_schedule_irrelevant` (the result
of a pass run is a function of the files and the table, not of the schedule) this is the content of "the cache only
skips work whose outcome is already known".  The remaining step — that re-running a pass from the same files yields the
same files — needs the pass run to be history-independent (no bug-report directories, stated as `NoReports` in
DESIGN.md); that step is delivered by the paired-run correspondence, not by a theorem (`_partial`).
-/
namespace Cvise.C10
open Cvise Cvise.D
variable {C σ : Type} [DecidableEq C] [Inhabited σ] [Inhabited C]

/-- the only place a table entry is written: after `newLoop` ran the pass on file `k` from `x.disk`, the entry maps
    (pass, `x.disk`, `k`) to what file `k` holds afterwards -/
theorem cache_entries_are_results (cfg : Cfg) (hc : cfg.cacheOn = true) (hj : cfg.jointKey = true) (W : World C) (dn : Sched)
    (P : PassI C σ) (fuel : Nat) (x : St C) (rid k : Nat) (y : St C) (rid' : Nat)
    (hsz : W.size (x.disk.getD k default) ≠ 0) (hmiss : x.cache.lookup (P.key, x.disk, k) = none)
    (hrun : newLoop cfg W dn P k fuel rid x (x.disk.getD k default) = .inl (y, rid')) :
    fileStep cfg W dn P fuel (.inl (x, rid)) k =
      .inl ({ y with cache := ((P.key, x.disk, k), y.disk.getD k default) :: y.cache }, rid') := by
  unfold fileStep
  simp only [hsz, if_false, hc, hj, if_true, hmiss, hrun]

/-- a hit writes exactly the recorded content into file `k` and touches nothing else of the files -/
theorem replay_is_recorded_result (cfg : Cfg) (hc : cfg.cacheOn = true) (hj : cfg.jointKey = true) (W : World C) (dn : Sched)
    (P : PassI C σ) (fuel : Nat) (x : St C) (rid k : Nat) (after : C)
    (hsz : W.size (x.disk.getD k default) ≠ 0) (hhit : x.cache.lookup (P.key, x.disk, k) = some after) :
    (LRes.st (fileStep cfg W dn P fuel (.inl (x, rid)) k)).disk = x.disk.set k after := by
  unfold fileStep
  simp only [hsz, if_false, hc, hj, if_true, hhit, LRes.st]

end Cvise.C10
