import Cvise.Gen.PassGroups
import Cvise.Gen.ClangDelta
import Cvise.Gen.Tools
import Cvise.Gen.Parts
/-!
# C14 — shipped schedules name only passes, arguments and tool behaviours that exist

All quantifiers are finite tables regenerated from the sources on every run (pass-group JSON, `self.arg` comparisons of
the Python passes, clang_delta registrations, clex's mode table, exit-code if-chains), so `decide +kernel` over the whole
table is a proof.
-/
namespace Cvise.C14
open Cvise Cvise.PG

def isPrefixL : List Char → List Char → Bool
  | [], _ => true
  | _ :: _, [] => false
  | a :: as, b :: bs => a = b && isPrefixL as bs

def natOfDigits : List Char → Option Nat
  | [] => none
  | l => l.foldl (fun acc c => match acc with
      | none => none
      | some n => if c.isDigit then some (10 * n + (c.toNat - 48)) else none) (some 0)

def isDecimal (s : String) : Bool := (natOfDigits s.toList).isSome

/-- does clex's `main` accept this mode string (exact names, or prefix + number inside the asserted range) -/
def clexAccepts (arg : String) : Bool :=
  Gen.clexExact.contains arg ||
  Gen.clexPrefix.any fun (p, lo, hi) =>
    isPrefixL p.toList arg.toList &&
      (match natOfDigits (arg.toList.drop p.toList.length) with
       | some n => decide (lo ≤ n) && decide (n ≤ hi)
       | none => false)

/-- is the (pass, arg) of a pass-group entry accepted by the implementation it names -/
def argOK (e : Entry) : Bool :=
  match e.pass? with
  | none => false
  | some p =>
    if p = "clang" then
      match e.arg with | some a => Gen.registrations.any (·.name = a) | none => false
    else if p = "clangbinarysearch" then
      match e.arg with | some a => Gen.registrations.any (fun r => r.name = a && r.multi) | none => false
    else if p = "clex" then
      match e.arg with | some a => clexAccepts a | none => false
    else if p = "lines" then
      match e.arg with | some a => a = "None" || isDecimal a | none => false
    else match Gen.pyArgs.lookup p with
      | some allowed => (match e.arg with | some a => allowed.contains a | none => false)
      | none => (Gen.known.passes.lookup p).isSome          -- passes that take no argument

/-- every entry of every shipped pass group names a pass and an argument the implementation accepts; clang_delta
    registers each named transformation, with multi-instance rewriting for those driven by binary search; clex
    implements each named mode within its asserted range -/
theorem groups_args_ok :
    Gen.shippedGroups.all (fun ng => ng.2.all (fun ce => ce.2.all argOK)) = true := by decide +kernel

/-- BalancedPass: the arguments its `if` chain compares with are exactly those for which a configuration was extracted -/
theorem balanced_args_consistent :
    (match Gen.pyArgs.lookup "balanced" with
     | some allowed => allowed.all (fun a => (Gen.balancedCfg.map (·.1)).contains a) &&
                       (Gen.balancedCfg.map (·.1)).all (fun a => allowed.contains a)
     | none => false) = true := by decide +kernel

def lookupExit (drv : String) (code : Nat) : Option String := (Gen.pyExit.lookup drv).bind (·.lookup code)

/-- exit codes: what the C side emits composed with what each Python driver makes of it.
    `(unsigned char)(-1) = 255`; the two clang drivers differ on code 1 (ErrorInvalidCounter) -/
theorem exit_protocol :
    Gen.cdDefaultError = some (-1) ∧ Gen.cdInvalidCounter = some 1 ∧
    lookupExit "clang" 0 = some "OK" ∧ lookupExit "clang" 1 = some "STOP" ∧ lookupExit "clang" 255 = some "STOP" ∧
    lookupExit "clangbinarysearch" 0 = some "OK" ∧ lookupExit "clangbinarysearch" 1 = some "ERROR" ∧
    lookupExit "clangbinarysearch" 255 = some "STOP" ∧
    lookupExit "clex" Gen.clexOK = some "OK" ∧ lookupExit "clex" Gen.clexSTOP = some "STOP" := by decide

/-- the instance-count message: the literal both C functions print is the literal both Python parsers look for -/
theorem count_message :
    Gen.cdStdoutMsg = "Available transformation instances: " ∧ Gen.cdStderrMsg = Gen.cdStdoutMsg ∧
    Gen.pyCountPattern.toList = Gen.cdStdoutMsg.toList ++ "([0-9]+)$".toList ∧
    isPrefixL Gen.pyCountStderrPrefix.toList Gen.cdStderrMsg.toList = true := by
  decide +kernel

end Cvise.C14
