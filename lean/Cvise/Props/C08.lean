import Cvise.Model.World
import Cvise.Gen.World
/-!
# C08 — no temporary directories or processes are left behind (directory bookkeeping; for processes: which exits call
`kill_pid_queue()`, the rest is observed through /proc)
-/
namespace Cvise.C08
open Cvise Cvise.W

/-- a well-shaped `run_pass`: the root is created only after the zero-size test and every way out removes it -/
def GoodShape (sh : Shape) : Prop :=
  sh.rootAfterZeroCheck = true ∧ sh.removeRootOnError = true ∧ sh.removeRootOnInterrupt = true ∧
  sh.removeRootOnReturn = true ∧ sh.candidateDirsInsideRoot = true ∧ sh.setupBeforeRoot = true

/-- for every exit of a pass run — skipped by --start-with-pass, zero size, normal, C-Vise error (die-on-pass-bug,
    missing file), foreign exception from a worker, keyboard interrupt, a failure while the pass is being set up (the key
    reader without a standard input) — nothing of the pass stays under TMPDIR
    unless --save-temps -/
theorem tmp_clean (sh : Shape) (h : GoodShape sh) (e : PassExit) :
    rootLeft sh false e = false ∧ candidateDirsLeft sh false e = false := by
  obtain ⟨h1, h2, h3, h4, h5, h6⟩ := h
  cases e <;> simp [rootLeft, candidateDirsLeft, h1, h2, h3, h4, h5, h6]

/-- … and no test script started for a candidate survives the pass run: every way out goes through `kill_pid_queue()`
    (after every round on the normal path, in both exception handlers otherwise) -/
def GoodKills (sh : Shape) : Prop := sh.killAfterEveryRound = true ∧ sh.killOnError = true ∧ sh.killOnInterrupt = true

theorem scripts_clean (sh : Shape) (h : GoodKills sh) (e : PassExit) : scriptsLeft sh e = false := by
  obtain ⟨h1, h2, h3⟩ := h
  cases e <;> simp [scriptsLeft, h1, h2, h3]

theorem shipped_kills : GoodKills Gen.shape := by unfold GoodKills; decide

/-- before fix F14 the error exits skipped it: a pass run that ended with --die-on-pass-bug left the scripts of the other
    in-flight candidates running -/
theorem old_error_exit_leaves_scripts :
    scriptsLeft { rootAfterZeroCheck := true, removeRootOnError := true, removeRootOnInterrupt := true, removeRootOnReturn := true,
                  sanityDirRemoved := true, candidateDirsInsideRoot := true, killOnError := false, killOnInterrupt := false } .cviseError = true := by decide

/-- `kill_pid_queue()` can only end the processes whose pids were recorded: every helper program a pass starts from
    `transform` (inside a candidate's worker) goes through `ProcessEventNotifier.run_process` — the list of launches that
    bypass it, regenerated from `cvise/passes/*.py`, is empty.  (Before fix F15 it held `unifdef.UnIfDefPass.transform:
    subprocess.run`: the `unifdef -s` listing of a cancelled candidate kept running after the pass run.) -/
theorem shipped_helpers_tracked : Gen.untrackedHelperCalls = [] := by decide

/-- the code as it is now has that shape (regenerated from `run_pass` on every run) -/
theorem shipped_shape : GoodShape Gen.shape ∧ Gen.shape.sanityDirRemoved = true := by unfold GoodShape; decide

/-- the shape of the shipped snapshot 6d25a67 leaked the root on two exits (finding F3a) -/
theorem old_shape_leaks :
    let old : Shape := { rootAfterZeroCheck := false, removeRootOnError := false, removeRootOnInterrupt := true,
                         removeRootOnReturn := true, sanityDirRemoved := true, candidateDirsInsideRoot := true }
    rootLeft old false .zeroSize = true ∧ rootLeft old false .cviseError = true ∧ rootLeft old false .foreign = true := by
  decide

/-- before fix F16 the key reader was constructed after `create_root()` and outside the `try`: without a standard input the
    pass root stayed behind -/
theorem old_setup_order_leaks :
    rootLeft { rootAfterZeroCheck := true, removeRootOnError := true, removeRootOnInterrupt := true, removeRootOnReturn := true,
               sanityDirRemoved := true, candidateDirsInsideRoot := true, setupBeforeRoot := false } false .setupFails = true := by decide

/-- with --save-temps the root is kept on purpose (non-vacuity of the flag) -/
example : rootLeft Gen.shape true .normal = true := by decide

end Cvise.C08
