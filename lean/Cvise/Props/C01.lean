import Cvise.Proofs.DriverSafe
import Cvise.Proofs.DriverCacheWitness
import Cvise.Proofs.DriverGate
import Cvise.Gen.Const
/-!
# C01 — the reduced test cases are always an interesting set

`SafeDisk W orig d`: the directory state `d` is the original input, or there is an invocation `(round, order)` of the
interestingness test on exactly `d` that exited 0 (`invExit`: a scripted per-invocation fault if there is one, else the
deterministic test), or a sanity check (the test run directly on a copy of all test cases) on exactly `d` exited 0 — the
last case is how a pass whose `new` rewrites the file in place (`LinesPass.__format`, modelled by `PassI.fmt` /
`D.fmtStep`) keeps its rewriting.  The theorems hold for every number of files, every pass interface (arbitrary functions), every
test, every fault assignment, every schedule oracle, every limit setting, every fuel — and for error outcomes, whose
state is carried in the result.  Hypothesis `KeyOK`: the replay table is off or keyed on the joint contents; without
it the statement is false (`cache_single_key_unsafe`, finding F1).
-/
namespace Cvise.C01
open Cvise Cvise.D
variable {C σ : Type} [DecidableEq C] [Inhabited σ] [Inhabited C]

/-- what a round hands to `process_result` was tested with exit 0 on exactly the joint contents that get committed -/
theorem commit_tested (cfg : Cfg) (W : World C) (dn : Sched) (P : PassI C σ) (disk : List C) (k : Nat) (s : σ) (rid : Nat)
    (more : Nat → Bool) (fuel t : Nat) (futs : List Nat) (g g' : Side C) (rs : RS) (i : Nat)
    (h : roundLoop cfg W.size P.key (disk.getD k default) (envOf W P disk k (disk.getD k default) s rid) more (dn rid)
          fuel t futs g rs = .inl (some i, g')) :
    invExit W (disk.set k (envOf W P disk k (disk.getD k default) s rid i).cand) rid (i+1) = .code 0 := by
  have hacc := roundLoop_sound _ _ _ _ _ _ _ _ _ _ _ _ _ _ h
  have hiff := (isAccept_iff cfg W.size _ _).mp hacc
  exact envOf_exit W P disk k _ s rid i hiff.1 hiff.2.1

/-- at the return of every `run_pass` (normal or error) -/
theorem runPass_safe (cfg : Cfg) (hk : KeyOK cfg) (W : World C) (dn : Sched) (P : PassI C σ) (orig : List C) (order : List Nat)
    (fuel rid : Nat) (x : St C) (h : Inv cfg W orig x) :
    Inv cfg W orig (LRes.st (runPass cfg W dn P order fuel rid x)) := runPass_inv cfg hk W dn P orig order fuel rid x h

/-- at the return of `reduce` (normal or error) -/
theorem reduce_safe (cfg : Cfg) (hk : KeyOK cfg) (W : World C) (dn : Sched) (orderOf : List C → List Nat) (fuel : Nat)
    (first main last : List (PassI C σ)) (x : St C) (hc : x.cache = []) :
    SafeDisk W x.disk (LRes.st (reduce cfg W dn orderOf fuel first main last x)).disk :=
  reduce_inv cfg hk W dn orderOf fuel first main last x hc

/-- the shipped code keyed on one file's bytes: C01 fails for two identical test cases (F1) -/
theorem single_file_key_counterexample :
    ¬ SafeDisk wWorld [0, 0] (LRes.st (runPass (wCfg false) wWorld wDone wipe [0, 1] 10 0 { disk := [0, 0] })).disk :=
  cache_single_key_unsafe

/-- the code as it is now keys the table on the joint contents (regenerated from `run_pass` on every run), so
    `reduce_safe` applies to it with any cache setting -/
theorem shipped_key_ok (cfg : Cfg) (h : cfg.jointKey = Gen.cacheKeyJoint) : KeyOK cfg := by
  right; rw [h]; decide

/-- non-vacuity of `reduce_safe`: the same scenario with the joint key commits a tested pair -/
example : (LRes.st (runPass (wCfg true) wWorld wDone wipe [0, 1] 10 0 { disk := [0, 0] })).disk = [1, 0] := witness_disk_joint
example : KeyOK (wCfg true) := Or.inr rfl

/-- … and at the return of a reduction started with `--start-with-pass`, with `skip_initial`, or with passes whose
    external programs are missing (`D.reduceG`): skipping passes never leaves an untested set behind -/
theorem reduce_gated_safe (cfg : Cfg) (hk : KeyOK cfg) (W : World C) (dn : Sched) (orderOf : List C → List Nat) (fuel : Nat)
    (avail : PassI C σ → Bool) (skip : Bool) (first main last : List (PassI C σ)) (x : St C) (sw : Option Nat) (hc : x.cache = []) :
    SafeDisk W x.disk (LRes.st (reduceG cfg W dn orderOf fuel avail skip first main last x sw).1).disk := by
  have h0 : Inv cfg W x.disk x := ⟨Or.inl rfl, by intro _ key J k after hm; rw [hc] at hm; cases hm⟩
  exact (reduceG_lift cfg W dn orderOf fuel avail (fun r => Inv cfg W x.disk (LRes.st r))
    (fun P order fuel rid y h => runPass_inv cfg hk W dn P x.disk order fuel rid y h) skip first main last x sw h0).disk

end Cvise.C01
