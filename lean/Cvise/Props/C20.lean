import Cvise.Proofs.DriverStats
import Cvise.Proofs.DriverWorked
import Cvise.Proofs.DriverExecuted
import Cvise.Proofs.DriverGate
import Cvise.Proofs.Timing
import Cvise.Gen.World
/-!
# C20 — the pass statistics report what happened

Per pass key, in the L2 model (`Side.failed/executed/worked` are what `PassStatistic.stats[repr(pass)]` holds).
-/
namespace Cvise.C20
open Cvise Cvise.D
variable {C σ : Type} [DecidableEq C] [Inhabited σ] [Inhabited C]

/-- one judgement counts at most one failure, for the current pass only -/
theorem judge_once (cfg : Cfg) (size : C → Nat) (cur : C) (e : EnvRes C σ) (g g' : Side C) (gu gu' : Bool) (o : Outcome)
    (h : check cfg size cur e g gu = (o, g', gu')) (p : Nat) :
    g.failed p ≤ g'.failed p ∧ g'.failed p ≤ g.failed p + wt p g.curPass 1 := check_failed_le cfg size cur e g g' gu gu' o h p

/-- a round never counts more failures than candidates it started, whatever the schedule (including rounds that end
    by cancellation, error or exhaustion), and never touches "worked" -/
theorem round_failed_le (cfg : Cfg) (size : C → Nat) (pkey : Nat) (cur : C) (env : Nat → EnvRes C σ) (more : Nat → Bool)
    (done : Nat → Nat → Bool) (fuel : Nat) (g : Side C) (h : ∀ p, g.failed p ≤ g.executed p) :
    let g' := RRes.side (roundLoop cfg size pkey cur env more done fuel 0 [] g {})
    g'.worked = g.worked ∧ ∀ p, g'.failed p ≤ g'.executed p := by
  have := roundLoop_ok cfg size pkey cur env more done fuel 0 [] g {} (by intro p; simpa [wt] using h p)
  exact ⟨this.1, this.2.2⟩

/-- "failed" never exceeds "total executed", for every pass, at the end of every reduction -/
theorem failed_le_executed (cfg : Cfg) (W : World C) (dn : Sched) (orderOf : List C → List Nat) (fuel : Nat)
    (first main last : List (PassI C σ)) (x : St C) (h : StatOK x) (p : Nat) :
    (LRes.st' (reduce cfg W dn orderOf fuel first main last x)).side.failed p ≤
    (LRes.st' (reduce cfg W dn orderOf fuel first main last x)).side.executed p :=
  reduce_failed_le cfg W dn orderOf fuel first main last x h p

/-- "worked" equals the number of accepted transformations, per pass, at the end of every reduction -/
theorem worked_eq_accepted (cfg : Cfg) (W : World C) (dn : Sched) (orderOf : List C → List Nat) (fuel : Nat)
    (first main last : List (PassI C σ)) (x : St C) (h : WInv x) (p : Nat) :
    (LRes.st' (reduce cfg W dn orderOf fuel first main last x)).side.worked p =
    acceptedOf p (LRes.st' (reduce cfg W dn orderOf fuel first main last x)).side.log :=
  reduce_worked_eq cfg W dn orderOf fuel first main last x h p

/-- "total executed" equals the number of candidates that were started, per pass, at the end of every reduction (any
    outcome, any schedule, any faults; rounds that end by cancellation included) -/
theorem executed_eq_started (cfg : Cfg) (W : World C) (dn : Sched) (orderOf : List C → List Nat) (fuel : Nat)
    (first main last : List (PassI C σ)) (x : St C) (h : EInv x) (p : Nat) :
    (LRes.st' (reduce cfg W dn orderOf fuel first main last x)).side.executed p =
    startedOf p (LRes.st' (reduce cfg W dn orderOf fuel first main last x)).side.log :=
  reduce_executed_eq cfg W dn orderOf fuel first main last x h p

/-- **the time attributed to passes is non-negative and does not exceed the elapsed time**: for clock readings taken in
    order from one monotonic clock (`Tm.Ordered`: reduction start ≤ pass start ≤ pass stop ≤ next pass start ≤ … ≤ reduction
    end; pass runs do not overlap), every pass interval is ≥ 0 and their sum is ≤ the elapsed time -/
theorem pass_time_bounds (ivs : List (Int × Int)) (t0 t1 : Int) (h : Tm.Ordered t0 ivs t1) :
    (∀ iv ∈ ivs, 0 ≤ iv.2 - iv.1) ∧ 0 ≤ Tm.attributed ivs ∧ Tm.attributed ivs ≤ t1 - t0 :=
  let b := Tm.attributed_bounds ivs t0 t1 h
  ⟨b.2.2, b.1, b.2.1⟩

/-- the hypothesis is about the clock the code reads: both the pass timer and the elapsed time use `time.monotonic`
    (regenerated); with a wall clock a step between `start` and `stop` breaks both bounds (`wall_clock_counterexample`) -/
theorem shipped_clock : Gen.statsClockMonotonic = true := by decide
theorem wall_clock_counterexample : Tm.stepped 10 11 (-100) < 0 ∧ Tm.stepped 10 11 100 > 20 - 0 := by decide

example : Tm.Ordered 0 [(1, 4), (4, 9)] 12 := by simp [Tm.Ordered]
example : EInv ({ disk := [0] } : St Nat) := fun _ => rfl
example : StatOK ({ disk := [0] } : St Nat) := fun _ => Nat.le_refl _
example : WInv ({ disk := [0] } : St Nat) := fun _ => rfl

/-- the three statistics statements for reductions started with `--start-with-pass` / `skip_initial` / missing
    prerequisites (`D.reduceG`): a skipped pass touches no counter and no log entry -/
theorem gated_statistics (cfg : Cfg) (W : World C) (dn : Sched) (orderOf : List C → List Nat) (fuel : Nat)
    (avail : PassI C σ → Bool) (skip : Bool) (first main last : List (PassI C σ)) (x : St C) (sw : Option Nat)
    (hs : StatOK x) (hw : WInv x) (he : EInv x) (p : Nat) :
    let y := LRes.st' (reduceG cfg W dn orderOf fuel avail skip first main last x sw).1
    y.side.failed p ≤ y.side.executed p ∧ y.side.worked p = acceptedOf p y.side.log ∧ y.side.executed p = startedOf p y.side.log := by
  refine ⟨?_, ?_, ?_⟩
  · exact reduceG_lift cfg W dn orderOf fuel avail (fun r => StatOK (LRes.st' r))
      (fun P order fuel rid y h => runPass_stat cfg W dn P order fuel rid y h) skip first main last x sw hs p
  · exact reduceG_lift cfg W dn orderOf fuel avail (fun r => WInv (LRes.st' r))
      (fun P order fuel rid y h => runPass_worked cfg W dn P order fuel rid y h) skip first main last x sw hw p
  · exact reduceG_lift cfg W dn orderOf fuel avail (fun r => EInv (LRes.st' r))
      (fun P order fuel rid y h => runPass_executed cfg W dn P order fuel rid y h) skip first main last x sw he p

end Cvise.C20
