import Cvise.Model.ClangDelta
import Cvise.Gen.ClangDelta
/-!
# C19 — every clang_delta transformation follows the counter protocol

Model: the order of protocol clauses in each `HandleTranslationUnit` body (`CD.Cl`, extracted from the sources on every
run) and `CD.run`, the effect of executing the clauses in order.  A rewriting clause is one that reaches `TheRewriter`
or `RewriteHelper` by name inside clang_delta's sources; the C++ of the transformations themselves is not modelled.
-/
namespace Cvise.C19
open Cvise Cvise.CD

/-- asking only for the number of instances never rewrites anything -/
theorem wf_query (sk : List Cl) (h : guardedBy isQ sk = true) (i : In) (hq : i.queryOnly = true) (o : Out)
    (ho : o.rewrote = false) : (run sk i o).rewrote = false := by
  induction sk generalizing o with
  | nil => simp [guardedBy] at h
  | cons k rest ih =>
    cases k with
    | q => simp [run, hq, ho]
    | c =>
      simp only [guardedBy, isQ] at h
      simp only [run]
      split
      · exact ho
      · exact ih (by simpa using h) o ho
    | w =>
      simp only [guardedBy, isQ] at h
      simp only [run]
      split
      · exact ho
      · exact ih (by simpa using h) o ho
    | r => simp [guardedBy, isQ] at h
    | x => simp [guardedBy, isQ] at h
    | n =>
      simp only [guardedBy, isQ] at h
      simp only [run]
      exact ih (by simpa using h) o ho

/-- a counter beyond the number of instances (without --warn-on-counter-out-of-bounds) ends in the out-of-range error
    with nothing rewritten — never in unchanged or partially rewritten output -/
theorem wf_range (sk : List Cl) (h : guardedBy isC sk = true) (i : In) (hq : i.queryOnly = false) (ht : i.tooBig = true)
    (hw : i.warn = false) (o : Out) (ho : o.rewrote = false) :
    (run sk i o).maxInstanceError = true ∧ (run sk i o).rewrote = false := by
  induction sk generalizing o with
  | nil => simp [guardedBy] at h
  | cons k rest ih =>
    cases k with
    | q =>
      simp only [guardedBy, isC] at h
      simp only [run, hq]
      exact ih (by simpa using h) o ho
    | c => simp [run, ht, ho]
    | w => simp [run, ht, hw, ho]
    | r => simp [guardedBy, isC] at h
    | x => simp [guardedBy, isC] at h
    | n =>
      simp only [guardedBy, isC] at h
      simp only [run]
      exact ih (by simpa using h) o ho

/-- every registered transformation has an extracted body that is well-formed (the quantifier is the finite table of all
    registrations, regenerated from clang_delta/*.cpp on every run) -/
theorem all_wf : Gen.registrations.all (fun r => match r.skel with | some sk => wf sk | none => false) = true := by
  decide +kernel

/-- each transformation name is registered once -/
theorem names_nodup : (Gen.registrations.map (·.name)).Nodup := by decide +kernel

/-- both protocol clauses, for every registered transformation -/
theorem protocol (r : Reg) (hr : r ∈ Gen.registrations) :
    ∃ sk, r.skel = some sk ∧
      (∀ i : In, i.queryOnly = true → (run sk i {}).rewrote = false) ∧
      (∀ i : In, i.queryOnly = false → i.tooBig = true → i.warn = false →
        (run sk i {}).maxInstanceError = true ∧ (run sk i {}).rewrote = false) := by
  have h := List.all_eq_true.mp all_wf r hr
  cases hs : r.skel with
  | none => simp [hs] at h
  | some sk =>
    simp only [hs] at h
    unfold wf at h
    simp only [Bool.and_eq_true] at h
    exact ⟨sk, rfl, fun i hq => wf_query sk h.1.1 i hq {} rfl, fun i hq ht hw => wf_range sk h.1.2 i hq ht hw {} rfl⟩

/-- the out-of-range error leaves the tool with `ErrorInvalidCounter` (regenerated: the constant, `Die` exiting with
    `ErrorCode`, `doTransformation` setting it for `TransMaxInstanceError`) -/
theorem exit_code_convention :
    Gen.cdInvalidCounter = some 1 ∧ Gen.cdDieUsesErrorCode = true ∧ Gen.cdInvalidCounterOnMaxInstance = true ∧
    Gen.cdMainReturnsZero = true := by decide

/-- the shared helper behind the `w` clauses really is warn-aware and refuses out-of-range counters and to-counters, and a
    pure query returns before the manager opens (creates / truncates) the output — both read off the sources on every run -/
theorem manager_conventions : Gen.cdCheckCounterValidityOk = true ∧ Gen.cdQueryReturnsBeforeOutput = true := by decide

-- non-vacuity
example : Gen.registrations.length = 73 := by decide
example : (run [.n, .q, .c, .n, .r, .n] { queryOnly := false, tooBig := false, warn := false } {}).rewrote = true := by decide
/-- why a silent return before the counter check is not well-formed: the out-of-range counter ends without the error -/
example : (run [.x, .q, .c, .r] { queryOnly := false, tooBig := true, warn := false, silent := true } {}).maxInstanceError = false := by decide
example : wf [.x, .q, .c, .r] = false := by decide

end Cvise.C19
