import Cvise.Model.Clex
import Cvise.Proofs.ClexModes
import Cvise.Gen.Tools
/-!
# C18 — the clex helper never crashes and edits tokens as specified (mode functions of driver.c over a token array)
-/
namespace Cvise.C18
open Cvise Cvise.Clex

/-- the modes that scan with a plain `for` over the array can only exit with one of the two protocol codes -/
theorem exit_codes (b : Bool) (m : Mode) (hm : m ≠ .define) (idx : Nat) (ts : List Tok) :
    (run b m idx ts).exit = .ok ∨ (run b m idx ts).exit = .stop := by
  cases m with
  | print => left; rfl
  | rename => simp only [run, renameToks]; split <;> simp
  | deleteString => simp only [run, deleteString]; split <;> simp
  | shortenString => simp only [run, shortenString]; split <;> simp
  | xString => simp only [run, xString]; split <;> simp
  | rmToks n => simp only [run, rmToks]; split <;> simp
  | rmTokPattern n => simp only [run, rmTokPattern]; split <;> simp
  | define => exact absurd rfl hm

/-- `print`: the output is the concatenation of the tokens (block comments and line continuations produce no token) -/
theorem print_spec (b : Bool) (ts : List Tok) : run b .print 0 ts = ⟨.ok, ts.flatMap (·.str)⟩ := rfl

/-! `rm_toks`: what is printed is a subsequence of the token strings -/
theorem rmToksGo_sublist (n idx : Nat) : ∀ (ts : List Tok) (which : Nat) (started matched : Bool) (acc : List Char),
    ∃ kept : List Tok, kept.Sublist ts ∧ (rmToksGo n idx ts which started matched acc).2 = acc ++ kept.flatMap (·.str) := by
  intro ts
  induction ts with
  | nil => intro which started matched acc; exact ⟨[], List.Sublist.refl _, by simp [rmToksGo]⟩
  | cons t ts ih =>
    intro which started matched acc
    simp only [rmToksGo]
    split
    · split
      · obtain ⟨kept, h1, h2⟩ := ih which started matched (acc ++ t.str)
        exact ⟨t :: kept, List.Sublist.cons_cons _ h1, by rw [h2]; simp [List.append_assoc]⟩
      · obtain ⟨kept, h1, h2⟩ := ih which started matched acc
        exact ⟨kept, List.Sublist.cons _ h1, h2⟩
    · split
      · obtain ⟨kept, h1, h2⟩ := ih (which + 1) (started || decide (which = idx)) (matched || decide (which = idx)) (acc ++ t.str)
        exact ⟨t :: kept, List.Sublist.cons_cons _ h1, by rw [h2]; simp [List.append_assoc]⟩
      · obtain ⟨kept, h1, h2⟩ := ih (which + 1) (started || decide (which = idx)) (matched || decide (which = idx)) acc
        exact ⟨kept, List.Sublist.cons _ h1, h2⟩

/-- token-removal: the output is the input token sequence with some tokens dropped, nothing added or reordered -/
theorem rmToks_output_sublist (b : Bool) (n idx : Nat) (ts : List Tok) :
    ∃ kept : List Tok, kept.Sublist ts ∧ (run b (.rmToks n) idx ts).out = kept.flatMap (·.str) := by
  obtain ⟨kept, h1, h2⟩ := rmToksGo_sublist n idx ts 0 false false []
  refine ⟨kept, h1, ?_⟩
  simp only [run, rmToks]
  simpa using h2

/-- the number of non-blank tokens -/
def nonBlank (ts : List Tok) : Nat := (ts.filter (fun t => !blank t)).length

theorem rmToksGo_matched_true (n idx : Nat) : ∀ (ts : List Tok) (w : Nat) (s : Bool) (a : List Char),
    (rmToksGo n idx ts w s true a).1 = true := by
  intro ts
  induction ts with
  | nil => intros; simp [rmToksGo]
  | cons u us ih =>
    intro w s a
    simp only [rmToksGo, Bool.true_or]
    split
    · exact ih _ _ _
    · exact ih _ _ _

theorem rmToksGo_matched (n idx : Nat) : ∀ (ts : List Tok) (which : Nat) (started : Bool) (acc : List Char), which ≤ idx →
    ((rmToksGo n idx ts which started false acc).1 = true ↔ idx < which + nonBlank ts) := by
  intro ts
  induction ts with
  | nil => intro which started acc h; simp [rmToksGo, nonBlank]; omega
  | cons t ts ih =>
    intro which started acc h
    simp only [rmToksGo]
    by_cases hb : blank t = true
    · simp only [hb, if_true]
      rw [ih which _ _ h]
      simp [nonBlank, hb]
    · have hb' : blank t = false := by simpa using hb
      simp only [hb', Bool.false_eq_true, if_false, Bool.false_or]
      have hnb : nonBlank (t :: ts) = nonBlank ts + 1 := by simp [nonBlank, hb']
      by_cases hw : which = idx
      · subst hw
        simp only [decide_true]
        rw [rmToksGo_matched_true]
        simp [hnb]
      · simp only [hw, decide_false]
        rw [ih (which + 1) _ _ (by omega), hnb]
        omega

/-- for every token array the set of indices that produce output in an `rm-toks-n` mode is the prefix `0 .. k-1`
    (k = number of non-blank tokens): STOP is a suffix of the enumeration, which is what C02's contract needs -/
theorem rmToks_prefix (b : Bool) (n idx : Nat) (ts : List Tok) :
    (run b (.rmToks n) idx ts).exit = .ok ↔ idx < nonBlank ts := by
  simp only [run, rmToks]
  have := rmToksGo_matched n idx ts 0 false [] (Nat.zero_le _)
  cases h : (rmToksGo n idx ts 0 false false []) with
  | mk m out =>
    rw [h] at this
    simp only at this ⊢
    cases m <;> simp_all

/-! ### the other token-editing modes (proofs in `Proofs/ClexModes.lean`) -/

/-- `rm-tok-pattern-n`: the output is the input token sequence with some tokens dropped — nothing is added, changed or
    reordered — and blank tokens (white space, newlines) are never dropped -/
theorem rmTokPattern_output_sublist (b : Bool) (n idx : Nat) (ts : List Tok) :
    ∃ kept : List Tok, kept.Sublist ts ∧ (∀ t ∈ ts, blank t = true → t ∈ kept) ∧ (run b (.rmTokPattern n) idx ts).out = concat kept :=
  rmTokPattern_sublist n idx ts

/-- `rm-tok-pattern-n` (n ≥ 1) says OK exactly for the indices below `2^(n-1) ·` (number of non-blank tokens): index
    `idx` addresses window position `idx / 2^(n-1)`, whose first token is always deleted.  The OK indices are a prefix. -/
theorem rmTokPattern_prefix (b : Bool) (n idx : Nat) (hn : 1 ≤ n) (ts : List Tok) :
    (run b (.rmTokPattern n) idx ts).exit = .ok ↔ idx / 2 ^ (n - 1) < nonBlank ts :=
  rmTokPattern_ok_iff n idx hn ts

/-- `delete-string`: OK exactly when the `idx`-th string literal other than `""` exists; then the output is the input
    with exactly that one token replaced by `""`; on STOP the output is the input -/
theorem deleteString_spec (b : Bool) (idx : Nat) (ts : List Tok) :
    ((run b .deleteString idx ts).exit = .ok ↔ idx < fullStrings ts) ∧
    ((run b .deleteString idx ts).exit = .stop → (run b .deleteString idx ts).out = concat ts) ∧
    ((run b .deleteString idx ts).exit = .ok → ∃ pre t post, ts = pre ++ t :: post ∧ fullString t = true ∧ fullStrings pre = idx ∧
      (run b .deleteString idx ts).out = concat pre ++ emptyStr ++ concat post) := by
  have h := delStrGo_spec idx ts 0 [] (Nat.zero_le _)
  simp only [run, deleteString]
  generalize delStrGo idx ts 0 false [] = r at h ⊢
  obtain ⟨m, out⟩ := r
  simp only [Nat.zero_add, List.nil_append] at h ⊢
  cases m <;> simp_all

/-- `shorten-string`: OK exactly when `idx` addresses a character between the quotes of some string literal; the output
    is then exactly one character shorter than the input; on STOP the output is the input -/
theorem shortenString_spec (b : Bool) (idx : Nat) (ts : List Tok) :
    ((run b .shortenString idx ts).exit = .ok ↔ idx < stringChars ts) ∧
    ((run b .shortenString idx ts).exit = .stop → (run b .shortenString idx ts).out = concat ts) ∧
    ((run b .shortenString idx ts).exit = .ok → (run b .shortenString idx ts).out.length + 1 = (concat ts).length) := by
  have h := shortenGo_spec ts idx []
  simp only [run, shortenString]
  generalize shortenGo ts idx false [] = r at h ⊢
  obtain ⟨m, out⟩ := r
  simp only [List.nil_append, List.length_nil, Nat.zero_add] at h ⊢
  cases m <;> simp_all

/-- `x-string` never changes the length of the text -/
theorem xString_length (b : Bool) (idx : Nat) (ts : List Tok) : (run b .xString idx ts).out.length = (concat ts).length := by
  have h := xStrGo_length idx ts 0 false []
  simp only [run, xString]
  generalize xStrGo idx ts 0 false [] = r at h ⊢
  obtain ⟨m, out⟩ := r
  simpa using h

/-- for these modes the OK indices form a prefix `0 … k-1` of the naturals (STOP is a suffix of the enumeration) -/
theorem ok_indices_are_a_prefix (b : Bool) (ts : List Tok) (i j : Nat) (hij : i ≤ j) :
    ((run b .deleteString j ts).exit = .ok → (run b .deleteString i ts).exit = .ok) ∧
    ((run b .shortenString j ts).exit = .ok → (run b .shortenString i ts).exit = .ok) ∧
    (∀ n, (run b (.rmToks n) j ts).exit = .ok → (run b (.rmToks n) i ts).exit = .ok) ∧
    (∀ n, 1 ≤ n → (run b (.rmTokPattern n) j ts).exit = .ok → (run b (.rmTokPattern n) i ts).exit = .ok) := by
  refine ⟨?_, ?_, ?_, ?_⟩
  · rw [(deleteString_spec b j ts).1, (deleteString_spec b i ts).1]; omega
  · rw [(shortenString_spec b j ts).1, (shortenString_spec b i ts).1]; omega
  · intro n; rw [rmToks_prefix, rmToks_prefix]; omega
  · intro n hn; rw [rmTokPattern_prefix b n j hn, rmTokPattern_prefix b n i hn]
    intro h
    exact Nat.lt_of_le_of_lt (Nat.div_le_div_right hij) h

/-- `rename-toks`: OK exactly for the indices below the number of distinct renameable identifiers (a prefix); then
    **every** occurrence of that one identifier, as an identifier token, is replaced by the one new name and nothing else
    changes; on STOP nothing is printed -/
theorem rename_spec (b : Bool) (idx : Nat) (ts : List Tok) :
    let newname := findUnused ts (ts.length + 2) ['a']
    let index := ((ts.filter fun t => t.kind = .ident && shouldRename t.str newname).map (·.str)).eraseDups
    ((run b .rename idx ts).exit = .ok ↔ idx < index.length) ∧
    ((run b .rename idx ts).exit = .ok → ∃ target, index[idx]? = some target ∧
      (run b .rename idx ts).out = ts.flatMap fun t => if t.kind = .ident ∧ t.str = target then newname else t.str) ∧
    ((run b .rename idx ts).exit = .stop → (run b .rename idx ts).out = []) :=
  renameToks_spec idx ts

/-- non-vacuity: `"ab" "" "c"`, delete-string 1 replaces the third token; shorten-string 1 drops the `b` -/
example : run true .deleteString 1 [⟨.string, "\"ab\"".toList⟩, ⟨.string, "\"\"".toList⟩, ⟨.string, "\"c\"".toList⟩] =
    ⟨.ok, "\"ab\"\"\"\"\"".toList⟩ := by decide
example : run true .shortenString 1 [⟨.string, "\"ab\"".toList⟩] = ⟨.ok, "\"a\"".toList⟩ := by decide
example : run true (.rmTokPattern 2) 1 [⟨.ident, ['a']⟩, ⟨.ws, [' ']⟩, ⟨.ident, ['b']⟩, ⟨.ident, ['c']⟩] = ⟨.ok, " c".toList⟩ := by decide

/-! `define` -/

theorem skipWs_bounded (ts : Array Tok) : ∀ (fuel i : Nat), (skipWs true ts fuel i).isSome = true := by
  intro fuel
  induction fuel with
  | zero => intro i; simp [skipWs]
  | succ f ih =>
    intro i
    simp only [skipWs]
    split
    · simp
    · split
      · exact ih _
      · simp

theorem findNewline_bounded (ts : Array Tok) : ∀ (fuel i : Nat), (findNewline true ts fuel i).isSome = true := by
  intro fuel
  induction fuel with
  | zero => intro i; simp [findNewline]
  | succ f ih =>
    intro i
    simp only [findNewline]
    split
    · simp
    · split
      · simp
      · exact ih _

theorem replaceMacro_bounded (ts : Array Tok) (i : Nat) (h : i < ts.size) : (replaceMacro true ts i).exit = .ok := by
  unfold replaceMacro
  have hi : ts[i]? = some ts[i] := Array.getElem?_eq_getElem h
  simp only [hi]
  have h1 := skipWs_bounded ts (ts.size + 2) (i + 1)
  cases hs : skipWs true ts (ts.size + 2) (i + 1) with
  | none => simp [hs] at h1
  | some b =>
    simp only
    have h2 := findNewline_bounded ts (ts.size + 2) b
    cases hf : findNewline true ts (ts.size + 2) b with
    | none => simp [hf] at h2
    | some e => rfl

/-- with the index tested before every read, `define` exits with a protocol code on every token array and index:
    it never reads outside the array -/
theorem define_in_bounds (idx : Nat) (ts : List Tok) :
    (run true .define idx ts).exit = .ok ∨ (run true .define idx ts).exit = .stop := by
  simp only [run, define]
  generalize ts.toArray = arr
  generalize ts.length + 2 = fuel
  suffices H : ∀ (fuel i found : Nat), (defineGo true arr idx fuel i found).exit = .ok ∨ (defineGo true arr idx fuel i found).exit = .stop from H fuel 0 0
  intro fuel
  induction fuel with
  | zero => intro i found; right; rfl
  | succ f ih =>
    intro i found
    simp only [defineGo]
    split
    · right; rfl
    · split
      · exact ih _ _
      · have h1 := skipWs_bounded arr (arr.size + 2) (i + 1)
        split
        · rename_i hs; simp [hs] at h1
        · split
          · right; first | rfl | simp
          · split
            · exact ih _ _
            · rename_i a _ _ _ _ _
              have h2 := skipWs_bounded arr (arr.size + 2) (a + 1)
              split
              · rename_i hs2; simp [hs2] at h2
              · split
                · right; first | rfl | simp
                · rename_i _ n _ _ name hn
                  split
                  · exact ih _ _
                  · split
                    · left
                      have : n < arr.size := by
                        have := Array.getElem?_eq_some_iff.mp hn
                        exact this.1
                      exact replaceMacro_bounded arr n this
                    · exact ih _ _

/-- the code as it is now tests the index first (regenerated from driver.c) -/
theorem shipped_define_bounded : Gen.clexDefineBounded = true := by decide

/-- finding F4: without those tests, `clex define 0` on the one-token file `#` reads past the end of the array -/
theorem old_define_reads_out_of_bounds : (run false .define 0 [⟨.other, ['#']⟩]).exit = .crash := by decide

end Cvise.C18
