import Cvise.Proofs.BinaryGenEq
import Cvise.Proofs.BinaryMonotone
import Cvise.Proofs.BinaryNoSingle
import Cvise.Proofs.BinaryTerm
import Cvise.Proofs.BinaryVariants
import Cvise.Proofs.GcdaBytes
/-!
# C06 — delta-debugging passes are complete

Model: `Cvise.BS` (the chunk cursor of `cvise/passes/abstract.py`), `Cvise.step`/`run`/`start`
(the one-candidate-at-a-time loop over a list of instances, the candidate being the list with
`[index, end)` cut out).  The theorems quantify over every instance list, every test
`List α → Bool` (= every verdict sequence), and every fuel.
-/
namespace Cvise.C06
open Cvise
variable {α : Type}

/-- the cursor invariant holds initially … -/
theorem init_inv (l : List α) (h : l.length ≠ 0) :
    (⟨l, ⟨0, l.length, l.length⟩⟩ : St α).Inv := ⟨rfl, by simp [BS.Inv]; omega⟩

/-- … and is preserved by every step, whatever the verdict -/
theorem step_preserves_inv (test : List α → Bool) (x y : St α) (h : x.Inv) (hs : step test x = .inl y) : y.Inv :=
  step_inv test x y h hs

/-- accepted removals never cause instances to be visited out of range:
    every requested range `[index, end)` is non-empty and inside the current instance list -/
theorem visit_in_range (x : St α) (h : x.Inv) :
    x.st.index < x.st.end_ ∧ x.st.end_ ≤ x.items.length ∧ x.st.instances = x.items.length := by
  obtain ⟨h1, h2, h3⟩ := h
  simp [BS.end_]; omega

/-- the chunk size only ever changes by halving, and each new granularity starts at index 0 -/
theorem granularity_halves (test : List α → Bool) (x y : St α) (h : x.Inv) (hs : step test x = .inl y) :
    (y.st.chunk = x.st.chunk ∧ x.st.index ≤ y.st.index) ∨ (y.st.chunk = x.st.chunk / 2 ∧ y.st.index = 0) := by
  unfold step at hs
  split at hs
  · split at hs
    · rename_i s hs'; cases hs
      rcases (BS.aos_inv h.2 hs').2.2 with ⟨h1, h2⟩ | ⟨h1, h2, _⟩
      · left; exact ⟨h1, by simp [h2]⟩
      · right; exact ⟨h1, h2⟩
    · cases hs
  · split at hs
    · rename_i s hs'; cases hs
      rcases (BS.advance_inv h.2 hs').2.2 with ⟨h1, h2⟩ | ⟨h1, h2, _⟩
      · left; exact ⟨h1, by simp [h2]⟩
      · right; exact ⟨h1, h2⟩
    · cases hs

/-- a run only finishes at granularity 1 (single instances), or because nothing is left -/
theorem finishes_at_single (test : List α → Bool) (x : St α) (r : List α) (h : x.Inv)
    (hs : step test x = .inr r) : x.st.chunk = 1 ∨ r = [] := by
  unfold step at hs
  split at hs
  · split at hs
    · cases hs
    · rename_i hs'; cases hs
      rcases BS.aos_none h.2 hs' with h0 | ⟨h1, _⟩
      · right; exact List.eq_nil_of_length_eq_zero h0
      · left; exact h1
  · split at hs
    · cases hs
    · rename_i hs'; cases hs
      left; exact (BS.advance_none h.2 hs').1

/-- a completed run always exists (bounded by `2n²+4n+1` candidates): C03 for these passes -/
theorem completes (test : List α → Bool) (l : List α) :
    ∃ r, start test (startFuel l.length) l = some r := start_completes test l

/-- if the completed run accepted nothing (every accept strictly shortens, so this is
    `r.length = l.length`), then no single instance can be removed -/
theorem no_accept_no_single (test : List α → Bool) (l : List α) (fuel : Nat) (r : List α)
    (h : start test fuel l = some r) (hlen : r.length = l.length) :
    ∀ j, j < l.length → test (l.eraseIdx j) = false :=
  Cvise.no_accept_no_single test l fuel r h hlen

/-- monotone test (interesting iff a required subset `R` is retained): the result is exactly `R` -/
theorem monotone_exact [DecidableEq α] (items R : List α) (hn : items.Nodup) (hR : ∀ r ∈ R, r ∈ items)
    (fuel : Nat) (r : List α) (h : start (reqTest R) fuel items = some r) :
    r = items.filter (fun a => decide (a ∈ R)) :=
  Cvise.monotone_exact items R hn hR fuel r h

/-- the two previous theorems are not vacuous: a completed run exists for every input -/
theorem monotone_exact_total [DecidableEq α] (items R : List α) (hn : items.Nodup) (hR : ∀ r ∈ R, r ∈ items) :
    start (reqTest R) (startFuel items.length) items = some (items.filter (fun a => decide (a ∈ R))) := by
  obtain ⟨r, hr⟩ := start_completes (reqTest R) items
  rw [hr, Cvise.monotone_exact items R hn hR _ r hr]

-- non-vacuity: a concrete run with accepts and rejects
example : start (reqTest [1, 3]) (startFuel 5) [0, 1, 2, 3, 4] = some [1, 3] := by decide

/-! ## gcda: `advance_on_success` restarts the search on what is left (`Model/BinaryVariants.lean`) -/

/-- every state of a gcda run satisfies the cursor invariant (and the chunk never exceeds what is left) … -/
theorem gcda_invariant (test : List α → Bool) (l : List α) (h : l.length ≠ 0) :
    (⟨l, ⟨0, l.length, l.length⟩⟩ : St α).GInv ∧
    ∀ x y : St α, x.GInv → gcdaStep test x = .inl y → y.GInv :=
  ⟨fresh_GInv l h, fun x y hx hs => gcdaStep_inv test x y hx hs⟩

/-- … hence every requested range is non-empty and inside the current instance list -/
theorem gcda_visit_in_range (x : St α) (h : x.GInv) :
    x.st.index < x.st.end_ ∧ x.st.end_ ≤ x.items.length ∧ x.st.instances = x.items.length :=
  visit_in_range x h.1

/-- a gcda run ends only at granularity 1, or because nothing is left -/
theorem gcda_finishes_at_single (test : List α → Bool) (x : St α) (r : List α) (h : x.GInv)
    (hs : gcdaStep test x = .inr r) : x.st.chunk = 1 ∨ r = [] := by
  by_cases ht : test x.cand = true
  · simp only [gcdaStep, ht, if_true] at hs
    split at hs
    · cases hs
    · rename_i hc; cases hs; right; exact List.eq_nil_of_length_eq_zero (create_none hc)
  · have ht' : test x.cand = false := by simpa using ht
    rw [gcdaStep_reject test x ht'] at hs
    exact finishes_at_single test x r h.1 hs

/-- a completed gcda run always exists (C03 for this pass: at most `(n+1)·(2n²+4n+1)+1` candidates) -/
theorem gcda_completes (test : List α → Bool) (l : List α) :
    ∃ r, gcdaStart test (gcdaFuel l.length) l = some r := gcdaStart_completes test l

theorem gcda_no_accept_no_single (test : List α → Bool) (l : List α) (fuel : Nat) (r : List α)
    (h : gcdaStart test fuel l = some r) (hlen : r.length = l.length) :
    ∀ j, j < l.length → test (l.eraseIdx j) = false :=
  Cvise.gcda_no_accept_no_single test l fuel r h hlen

theorem gcda_monotone_exact [DecidableEq α] (items R : List α) (hn : items.Nodup) (hR : ∀ r ∈ R, r ∈ items)
    (fuel : Nat) (r : List α) (h : gcdaStart (reqTest R) fuel items = some r) :
    r = items.filter (fun a => decide (a ∈ R)) :=
  Cvise.gcda_monotone_exact items R hn hR fuel r h

theorem gcda_monotone_exact_total [DecidableEq α] (items R : List α) (hn : items.Nodup) (hR : ∀ r ∈ R, r ∈ items) :
    gcdaStart (reqTest R) (gcdaFuel items.length) items = some (items.filter (fun a => decide (a ∈ R))) := by
  obtain ⟨r, hr⟩ := gcdaStart_completes (reqTest R) items
  rw [hr, Cvise.gcda_monotone_exact items R hn hR _ r hr]

/-- the traced run the model driver prints is this run -/
theorem gcda_trace_is_run (test : List α → Bool) (fuel : Nat) (l : List α) :
    (gcdaStartTrace test fuel l).map (·.1) = gcdaStart test fuel l := gcdaStartTrace_fst test fuel l

example : gcdaStart (reqTest [1, 3]) (gcdaFuel 5) [0, 1, 2, 3, 4] = some [1, 3] := by decide

/-- the gcda pass works on bytes (`data[0 : functions[index]] + data[functions[end] :]`); with the function offsets in ascending
    order that candidate *is* the item-level candidate of the run model: the header followed by the records `cut` leaves -/
theorem gcda_bytes_are_items (data offs : List Nat) (i e : Nat) (h : Ascending offs) (hi : i < e) (he : e ≤ offs.length) :
    gcdaBytes data offs i e = data.take (offs.getD 0 0) ++ (cut (gcdaRecs data offs) i e).flatten :=
  gcdaBytes_eq_cut data offs i e h hi he

example : gcdaBytes [9, 9, 1, 1, 2, 3, 3, 3] [2, 4, 5] 1 2 = [9, 9, 1, 1, 3, 3, 3] ∧
    gcdaRecs [9, 9, 1, 1, 2, 3, 3, 3] [2, 4, 5] = [[1, 1], [2], [3, 3, 3]] := by decide

/-! ## ifs: the cursor carries the value the directives are replaced with; the test may depend on it -/

theorem ifs_invariant (test : List α → Bool → Bool) (x y : IfSt α) (h : x.base.Inv)
    (hs : ifsStep test x = .inl y) : y.base.Inv := ifsStep_inv test x y h hs

theorem ifs_visit_in_range (x : IfSt α) (h : x.base.Inv) :
    x.base.st.index < x.base.st.end_ ∧ x.base.st.end_ ≤ x.base.items.length ∧
    x.base.st.instances = x.base.items.length := visit_in_range x.base h

/-- a completed ifs run always exists (at most `2·(2n²+4n+1)+2` candidates) -/
theorem ifs_completes (test : List α → Bool → Bool) (l : List α) :
    ∃ r, ifsStart test (ifsFuel l.length) l = some r := ifsStart_completes test l

/-- nothing accepted ⇒ no single `#if` can be resolved, neither to 0 nor to 1 (any test, value-sensitive or not);
    an accepted candidate never leaves the *value* behind in a state that skips one: only the all-reject run is claimed
    here, see `ifs_sticky_value` for what happens after an accept -/
theorem ifs_no_accept_no_single (test : List α → Bool → Bool) (l : List α) (fuel : Nat) (r : List α)
    (h : ifsStart test fuel l = some r) (hlen : r.length = l.length) :
    ∀ j, j < l.length → ∀ v, test (l.eraseIdx j) v = false :=
  Cvise.ifs_no_accept_no_single test l fuel r h hlen

/-- monotone test (interesting iff the required directives are retained, whatever the value): exactly the required subset -/
theorem ifs_monotone_exact [DecidableEq α] (items R : List α) (hn : items.Nodup) (hR : ∀ r ∈ R, r ∈ items)
    (fuel : Nat) (r : List α) (h : ifsStart (fun l _ => reqTest R l) fuel items = some r) :
    r = items.filter (fun a => decide (a ∈ R)) :=
  Cvise.ifs_monotone_exact items R hn hR fuel r h

theorem ifs_monotone_exact_total [DecidableEq α] (items R : List α) (hn : items.Nodup) (hR : ∀ r ∈ R, r ∈ items) :
    ifsStart (fun l _ => reqTest R l) (ifsFuel items.length) items = some (items.filter (fun a => decide (a ∈ R))) := by
  obtain ⟨r, hr⟩ := ifsStart_completes (fun l _ => reqTest R l) items
  rw [hr, Cvise.ifs_monotone_exact items R hn hR _ r hr]

theorem ifs_trace_is_run (test : List α → Bool → Bool) (fuel : Nat) (l : List α) :
    (ifsStartTrace test fuel l).map (·.1) = ifsStart test fuel l := ifsStartTrace_fst test fuel l

/-- what the property does *not* promise, and the code does not deliver (observed by a sub-agent, DESIGN 10.6): with a
    value-sensitive test the value stays 1 across an accepted removal, so `#if 0` is never tried for the instance that
    slides into the range.  Three directives; 0 resolvable only to 1, 1 only to 0, 2 not at all: the run ends with
    directive 1 still there although resolving it to 0 alone is interesting. -/
def stickyTest (l : List Nat) (v : Bool) : Bool :=
  l.contains 2 && ((!l.contains 0 && l.contains 1 && v) || (l.contains 0 && !l.contains 1 && !v) || (!l.contains 0 && !l.contains 1 && !v) )

theorem ifs_sticky_value :
    ifsStart stickyTest (ifsFuel 3) [0, 1, 2] = some [1, 2] ∧ stickyTest ([1, 2].eraseIdx 0) false = true := by decide

example : ifsStart (fun l _ => reqTest [1, 3] l) (ifsFuel 5) [0, 1, 2, 3, 4] = some [1, 3] := by decide

end Cvise.C06
