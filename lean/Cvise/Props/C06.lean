import Cvise.Proofs.BinaryGenEq
import Cvise.Proofs.BinaryMonotone
import Cvise.Proofs.BinaryNoSingle
import Cvise.Proofs.BinaryTerm
/-!
# C06 — delta-debugging passes are complete

Model: `Cvise.BS` (the chunk cursor of `cvise/passes/abstract.py`), `Cvise.step`/`run`/`start`
(the one-candidate-at-a-time loop over a list of instances, the candidate being the list with
`[index, end)` cut out).  The theorems quantify over every instance list, every test
`List α → Bool` (= every verdict sequence), and every fuel.
-/
namespace Cvise.C06
open Cvise
variable {α : Type}

/-- the cursor invariant holds initially … -/
theorem init_inv (l : List α) (h : l.length ≠ 0) :
    (⟨l, ⟨0, l.length, l.length⟩⟩ : St α).Inv := ⟨rfl, by simp [BS.Inv]; omega⟩

/-- … and is preserved by every step, whatever the verdict -/
theorem step_preserves_inv (test : List α → Bool) (x y : St α) (h : x.Inv) (hs : step test x = .inl y) : y.Inv :=
  step_inv test x y h hs

/-- accepted removals never cause instances to be visited out of range:
    every requested range `[index, end)` is non-empty and inside the current instance list -/
theorem visit_in_range (x : St α) (h : x.Inv) :
    x.st.index < x.st.end_ ∧ x.st.end_ ≤ x.items.length ∧ x.st.instances = x.items.length := by
  obtain ⟨h1, h2, h3⟩ := h
  simp [BS.end_]; omega

/-- the chunk size only ever changes by halving, and each new granularity starts at index 0 -/
theorem granularity_halves (test : List α → Bool) (x y : St α) (h : x.Inv) (hs : step test x = .inl y) :
    (y.st.chunk = x.st.chunk ∧ x.st.index ≤ y.st.index) ∨ (y.st.chunk = x.st.chunk / 2 ∧ y.st.index = 0) := by
  unfold step at hs
  split at hs
  · split at hs
    · rename_i s hs'; cases hs
      rcases (BS.aos_inv h.2 hs').2.2 with ⟨h1, h2⟩ | ⟨h1, h2, _⟩
      · left; exact ⟨h1, by simp [h2]⟩
      · right; exact ⟨h1, h2⟩
    · cases hs
  · split at hs
    · rename_i s hs'; cases hs
      rcases (BS.advance_inv h.2 hs').2.2 with ⟨h1, h2⟩ | ⟨h1, h2, _⟩
      · left; exact ⟨h1, by simp [h2]⟩
      · right; exact ⟨h1, h2⟩
    · cases hs

/-- a run only finishes at granularity 1 (single instances), or because nothing is left -/
theorem finishes_at_single (test : List α → Bool) (x : St α) (r : List α) (h : x.Inv)
    (hs : step test x = .inr r) : x.st.chunk = 1 ∨ r = [] := by
  unfold step at hs
  split at hs
  · split at hs
    · cases hs
    · rename_i hs'; cases hs
      rcases BS.aos_none h.2 hs' with h0 | ⟨h1, _⟩
      · right; exact List.eq_nil_of_length_eq_zero h0
      · left; exact h1
  · split at hs
    · cases hs
    · rename_i hs'; cases hs
      left; exact (BS.advance_none h.2 hs').1

/-- a completed run always exists (bounded by `2n²+4n+1` candidates): C03 for these passes -/
theorem completes (test : List α → Bool) (l : List α) :
    ∃ r, start test (startFuel l.length) l = some r := start_completes test l

/-- if the completed run accepted nothing (every accept strictly shortens, so this is
    `r.length = l.length`), then no single instance can be removed -/
theorem no_accept_no_single (test : List α → Bool) (l : List α) (fuel : Nat) (r : List α)
    (h : start test fuel l = some r) (hlen : r.length = l.length) :
    ∀ j, j < l.length → test (l.eraseIdx j) = false :=
  Cvise.no_accept_no_single test l fuel r h hlen

/-- monotone test (interesting iff a required subset `R` is retained): the result is exactly `R` -/
theorem monotone_exact [DecidableEq α] (items R : List α) (hn : items.Nodup) (hR : ∀ r ∈ R, r ∈ items)
    (fuel : Nat) (r : List α) (h : start (reqTest R) fuel items = some r) :
    r = items.filter (fun a => decide (a ∈ R)) :=
  Cvise.monotone_exact items R hn hR fuel r h

/-- the two previous theorems are not vacuous: a completed run exists for every input -/
theorem monotone_exact_total [DecidableEq α] (items R : List α) (hn : items.Nodup) (hR : ∀ r ∈ R, r ∈ items) :
    start (reqTest R) (startFuel items.length) items = some (items.filter (fun a => decide (a ∈ R))) := by
  obtain ⟨r, hr⟩ := start_completes (reqTest R) items
  rw [hr, Cvise.monotone_exact items R hn hR _ r hr]

-- non-vacuity: a concrete run with accepts and rejects
example : start (reqTest [1, 3]) (startFuel 5) [0, 1, 2, 3, 4] = some [1, 3] := by decide

end Cvise.C06
