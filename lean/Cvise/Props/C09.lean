import Cvise.Proofs.DriverAccept
import Cvise.Proofs.DriverTimeouts
import Cvise.Proofs.DriverDirs
import Cvise.Proofs.DriverTotal
import Cvise.Gen.Const
/-!
# C09 — failing, hanging or crashing tests and tools are never accepted (decision logic)
-/
namespace Cvise.C09
open Cvise Cvise.D
variable {C σ : Type} [DecidableEq C]

/-- ACCEPT iff the helper said OK, the test exited 0, the file changed and the step is within `--max-improvement`.
    In particular: a non-zero exit, a signal (negative code), a timeout, a swallowed exception (`broken`) or a helper
    result other than OK can never be accepted. -/
theorem accept_requires_ok0 (cfg : Cfg) (size : C → Nat) (cur : C) (e : EnvRes C σ) (g : Side C) (gu : Bool) :
    (check cfg size cur e g gu).1 = .accept ↔
      e.pr = .ok ∧ e.exit = some (.code 0) ∧ e.cand ≠ cur ∧ (∀ m, cfg.maxImp = some m → (size cur : Int) - size e.cand ≤ m) := by
  rw [← isAccept_iff]
  constructor
  · intro h
    cases hc : check cfg size cur e g gu with
    | mk o rest =>
      obtain ⟨g', gu'⟩ := rest
      rw [hc] at h; simp only at h; subst h
      exact (check_accept cfg size cur e g g' gu gu' hc).1
  · intro h; rw [check_of_isAccept cfg size cur e g gu h]

/-- accepting has no side effect (which is why the winner may be judged twice) -/
theorem accept_pure (cfg : Cfg) (size : C → Nat) (cur : C) (e : EnvRes C σ) (g g' : Side C) (gu gu' : Bool)
    (h : check cfg size cur e g gu = (.accept, g', gu')) : g' = g ∧ gu' = gu :=
  (check_accept cfg size cur e g g' gu gu' h).2

/-- for every schedule, every fault assignment, every fuel: what a round returns as the winner was accepted -/
theorem loop_sound (cfg : Cfg) (size : C → Nat) (pkey : Nat) (cur : C) (env : Nat → EnvRes C σ) (more : Nat → Bool)
    (done : Nat → Nat → Bool) (fuel t : Nat) (futs : List Nat) (g g' : Side C) (rs : RS) (i : Nat)
    (h : roundLoop cfg size pkey cur env more done fuel t futs g rs = .inl (some i, g')) :
    (env i).pr = .ok ∧ (env i).exit = some (.code 0) :=
  let h' := (isAccept_iff cfg size cur (env i)).mp (roundLoop_sound cfg size pkey cur env more done fuel t futs g g' rs i h)
  ⟨h'.1, h'.2.1⟩

/-- a judgement creates at most one bug-report directory, and none once `MAX_CRASH_DIRS + 1` exist -/
theorem bug_dirs_step (cfg : Cfg) (size : C → Nat) (cur : C) (e : EnvRes C σ) (g g' : Side C) (gu gu' : Bool) (o : Outcome)
    (h : check cfg size cur e g gu = (o, g', gu')) :
    g.bug ≤ g'.bug ∧ (g'.bug = g.bug ∨ (g'.bug = g.bug + 1 ∧ g.bug ≤ cfg.maxCrash)) := check_bug cfg size cur e g g' gu gu' o h

theorem extra_dirs_step (cfg : Cfg) (size : C → Nat) (cur : C) (e : EnvRes C σ) (g g' : Side C) (gu gu' : Bool) (o : Outcome)
    (h : check cfg size cur e g gu = (o, g', gu')) :
    g.extra ≤ g'.extra ∧ (g'.extra = g.extra ∨ (g'.extra = g.extra + 1 ∧ g.extra ≤ cfg.maxExtra)) := check_extra cfg size cur e g g' gu gu' o h

/-- **a stream of timeouts ends the current round after a fixed number of them**: `Side.timeouts` counts every candidate
    the scan finds timed out (ghost counter).  Whatever the schedule, the per-candidate faults, the number of candidates
    and the way the round ends (winner, no winner, error), a round counts at most `MAX_TIMEOUTS` of them. -/
theorem timeouts_end_the_round (cfg : Cfg) (hM : 1 ≤ cfg.maxTimeouts) (size : C → Nat) (pkey : Nat) (cur : C)
    (env : Nat → EnvRes C σ) (more : Nat → Bool) (done : Nat → Nat → Bool) (fuel : Nat) (g : Side C) :
    (RRes.side (roundLoop cfg size pkey cur env more done fuel 0 [] g {})).timeouts ≤ g.timeouts + cfg.maxTimeouts := by
  have := roundLoop_timeouts cfg size pkey cur env more done fuel 0 [] g {} (by show (0 : Nat) < cfg.maxTimeouts; omega)
  simpa using this

/-- **saved timeout / bug report directories stay within their documented limits**, over a whole reduction: whatever the
    passes, the test, the faults, the schedule and the outcome (normal or error), at most `MAX_CRASH_DIRS + 1`
    `cvise_bug_*` and `MAX_EXTRA_DIRS + 1` `cvise_extra_*` directories exist at the end (indices `0 … MAX`) -/
theorem report_dirs_within_limits [Inhabited σ] [Inhabited C] (cfg : Cfg) (W : World C) (dn : Sched)
    (orderOf : List C → List Nat) (fuel : Nat) (first main last : List (PassI C σ)) (x : St C)
    (h : x.side.bug ≤ cfg.maxCrash + 1 ∧ x.side.extra ≤ cfg.maxExtra + 1) :
    (LRes.st' (reduce cfg W dn orderOf fuel first main last x)).side.bug ≤ cfg.maxCrash + 1 ∧
    (LRes.st' (reduce cfg W dn orderOf fuel first main last x)).side.extra ≤ cfg.maxExtra + 1 :=
  reduce_dirs cfg W dn orderOf fuel first main last x h

/-- the shipped limit meets the hypothesis -/
theorem shipped_max_timeouts : 1 ≤ Gen.MAX_TIMEOUTS := by decide

/-- the bound is attained: with every candidate timing out and a limit of 2, a round over five candidates counts
    exactly 2 timeouts and schedules no more than the in-flight window allows -/
example : (RRes.side (roundLoop ({ maxTimeouts := 2 } : Cfg) (fun (c : Nat) => c) 0 5
    (fun i => ({ order := i + 1, pr := .ok, cand := 3, st := (), exit := some .timeout } : EnvRes Nat Unit))
    (fun t => decide (t < 5)) (fun _ _ => true) 100 0 [] {} {})).timeouts = 2 := by decide +kernel

-- non-vacuity: an env that is accepted and one with a signal exit that is not
example : (check ({} : Cfg) (fun (c : Nat) => c) 5 ({ order := 1, pr := .ok, cand := 3, st := (), exit := some (.code 0) } : EnvRes Nat Unit) {} false).1 = .accept := by decide
example : (check ({} : Cfg) (fun (c : Nat) => c) 5 ({ order := 1, pr := .ok, cand := 3, st := (), exit := some (.code (-9)) } : EnvRes Nat Unit) {} false).1 = .ignore := by decide

/-- **failing, hanging or crashing candidates never wedge a pass run**: `W.fault` assigns any outcome (non-zero exit,
    signal, timeout, foreign exception, swallowed exception) to any candidate of any round, `dn` is any completion order —
    for a pass with a measure (`D.Measured`) the rounds on a file still end, and the result does not depend on the
    fuel of the executable model.  Whole reductions: `C03.reduction_terminates`. -/
theorem pass_run_completes_under_faults [Inhabited σ] [Inhabited C] (cfg : Cfg) (size : C → Nat) (test : List C → Exit)
    (fault : Nat → Nat → Option Exit) (dn : Sched) (P : PassI C σ) (I : C → σ → Prop) (μ : C → σ → Nat) (hμ : Measured P I μ)
    (k startSize j fuel rid : Nat) (s : σ) (succ : Nat) (x : St C) (hk : k < x.disk.length) (hI : I (x.disk.getD k default) s)
    (h1 : μ (x.disk.getD k default) s < fuel) (h2 : μ (x.disk.getD k default) s < cfg.giveup + 1000) :
    fileLoop cfg ⟨size, test, fault⟩ dn P k startSize fuel rid s succ x =
    fileLoop cfg ⟨size, test, fault⟩ dn P k startSize (fuel + j) rid s succ x :=
  fileLoop_total cfg ⟨size, test, fault⟩ dn P I μ hμ k startSize j fuel rid s succ x hk hI h1 h2

end Cvise.C09
