import Cvise.Model.World
import Cvise.Gen.World
/-!
# C05 — each interestingness test runs isolated, on exactly the candidate set (directory contents)
-/
namespace Cvise.C05
open Cvise Cvise.W

/-- the private directory holds exactly the test cases at their relative paths … -/
theorem manifest_paths (disk : FS) (cur : String) (cand : Bytes) :
    (envAfterTransform disk cur cand []).map (·.1) = disk.map (·.1) := by
  simp only [envAfterTransform, List.map_nil, List.append_nil, List.map_map]
  apply List.map_congr_left
  intro x _
  simp only [Function.comp]
  split <;> rfl

/-- … every other test case byte-identical to its accepted version, the current one holding the candidate -/
theorem manifest_contents (disk : FS) (cur : String) (cand : Bytes) (p : String) (b : Bytes)
    (h : (p, b) ∈ envAfterTransform disk cur cand []) :
    (p = cur ∧ b = cand) ∨ (p ≠ cur ∧ (p, b) ∈ disk) := by
  simp only [envAfterTransform, List.map_nil, List.append_nil, List.mem_map] at h
  obtain ⟨⟨q, c⟩, hq, heq⟩ := h
  by_cases hc : q = cur
  · simp only [hc, if_true] at heq
    cases heq
    exact Or.inl ⟨rfl, rfl⟩
  · simp only [hc, if_false] at heq
    cases heq
    exact Or.inr ⟨hc, hq⟩

/-- a pass that leaves a scratch entry breaks "nothing else is present" — so every pass must be scratch free -/
theorem scratch_shows (disk : FS) (cur : String) (cand : Bytes) (s : String) (hs : s ∉ disk.map (·.1)) :
    (envAfterTransform disk cur cand [s]).map (·.1) ≠ disk.map (·.1) := by
  intro h
  have : s ∈ (envAfterTransform disk cur cand [s]).map (·.1) := by simp [envAfterTransform]
  rw [h] at this
  exact hs this

/-- the one built-in pass that used a scratch file next to the candidate removes it again, and test-case paths cannot
    leave their private directory (regenerated facts) -/
theorem shipped_scratch_free : Gen.ifsScratchRemoved = true ∧ Gen.validation.refusesDotDot = true := by decide

end Cvise.C05
