import Cvise.Proofs.Effects
import Cvise.Gen.Effects
import Cvise.Gen.World
import Cvise.Model.Passes
/-!
# C11 — pass states are values: enumeration never disturbs scheduled candidates

(a) the cursor passed to `advance` is left untouched: effect analysis of every control-flow path of every `advance`
    body (regenerated), sound w.r.t. a heap semantics;
(b) producing a candidate is a deterministic function of content, cursor and configuration: the pass models are
    functions (and tied to the code by K-pass); no scratch file stays next to the candidate (regenerated fact for the
    one pass that used one, manifests in C05);
(c) cursors survive being sent to a worker: pickling is outside any Lean model; decided by the pass explorer (partial).
-/
namespace Cvise.C11
open Cvise Cvise.Eff

/-- soundness of the analysis: a path judged non-mutating leaves the object the parameter points to unwritten -/
theorem analysis_sound (p : List Stmt) (h : mayMutateParam p = false) : 0 ∉ (exec p State.init).written :=
  no_mutation p h

/-- every control-flow path of every `advance` in cvise/passes/*.py and of `BinaryState.advance` is judged non-mutating
    (finite table, regenerated on every run) -/
theorem advance_paths_pure :
    Gen.advancePaths.all (fun np => np.2.all (fun p => !mayMutateParam p)) = true := by decide +kernel

/-- hence: whichever path an `advance` takes, the cursor object it was given is not written -/
theorem advance_leaves_cursor_untouched (name : String) (paths : List (List Stmt)) (h : (name, paths) ∈ Gen.advancePaths)
    (p : List Stmt) (hp : p ∈ paths) : 0 ∉ (exec p State.init).written := by
  have h1 := List.all_eq_true.mp advance_paths_pure (name, paths) h
  have h2 := List.all_eq_true.mp h1 p hp
  exact no_mutation p (by simpa using h2)

/-- the analysis is not vacuous: an in-place update of the parameter is flagged (this is what
    `BinaryState.advance_on_success` does, which is why it is only applied to the winner's private copy) -/
example : mayMutateParam [.write 0] = true := by decide
example : mayMutateParam [.alias 1 0, .write 1] = true := by decide
example : mayMutateParam [.copyOf 1 0, .write 1] = false := by decide

/-- candidates are a function of (content, cursor): two evaluations agree (the models are pure functions) -/
theorem transform_deterministic {σ : Type} (Q : Cvise.P.TextPass σ) (s s' : Cvise.P.Text) (st st' : σ) (h1 : s = s') (h2 : st = st') :
    Q.transform s st = Q.transform s' st' := by rw [h1, h2]

theorem scratch_removed : Gen.ifsScratchRemoved = true := by decide

/-- every pass method that creates a temporary file next to the candidate unlinks or moves it on every return path
    (finite table, regenerated on every run by a path-sensitive reading of the method bodies) -/
theorem scratch_removed_on_every_path : Gen.scratchFacts.all (fun f => f.2) = true := by decide

example : Gen.scratchFacts.length ≥ 8 := by decide

end Cvise.C11
