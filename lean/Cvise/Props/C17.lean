import Cvise.Model.World
import Cvise.Gen.World
/-!
# C17 — misuse is refused cleanly with a readable C-Vise error (start-up validation and error rendering)
-/
namespace Cvise.C17
open Cvise Cvise.W

def GoodValidation (v : Validation) : Prop :=
  v.accessBeforeStat = true ∧ v.refusesDotDot = true ∧ v.unknownArgRenders = true ∧
  v.ternaryValidatesInNew = true ∧ v.indentValidatesInNew = true

/-- a test case is misused: missing, unreadable, unwritable, absolute, or leaving the directory -/
def Misused (t : TestCase) : Prop :=
  t.exists_ = false ∨ t.readable = false ∨ t.writable = false ∨ t.absolute = true ∨ t.dotdot = true

/-- with a good validation order, a misused test case anywhere in the list, or a test script that cannot be executed,
    ends construction in a C-Vise error — never in a foreign exception and never in success -/
theorem misuse_is_cvise_error (v : Validation) (hv : GoodValidation v) (cases : List TestCase) (script : String) (scriptOK : Bool)
    (h : (∃ t ∈ cases, Misused t) ∨ scriptOK = false) :
    ∃ e, construct v cases script scriptOK = .cvise e := by
  obtain ⟨h1, h2, _, _, _⟩ := hv
  have hcase : ∀ t, Misused t → ∃ e, checkCase v t = some (.cvise e) := by
    intro t ht
    unfold checkCase
    simp only [h1, h2, Bool.not_true, Bool.false_and, Bool.false_eq_true, if_false, Bool.true_and]
    rcases ht with h | h | h | h | h
    · simp [h]
    · by_cases a : t.exists_ = false <;> simp [a, h]
    · by_cases a : t.exists_ = false <;> by_cases b : t.readable = false <;> simp [a, b, h]
    · by_cases a : t.exists_ = false <;> by_cases b : t.readable = false <;> by_cases c : t.writable = false <;> simp [a, b, c, h]
    · by_cases a : t.exists_ = false <;> by_cases b : t.readable = false <;> by_cases c : t.writable = false <;>
        by_cases d : t.absolute = true <;> simp [a, b, c, d, h]
  have hnone : ∀ t, (∀ e, checkCase v t ≠ some (.cvise e)) → checkCase v t = none := by
    intro t ht
    unfold checkCase at ht ⊢
    simp only [h1, h2, Bool.not_true, Bool.false_and, Bool.false_eq_true, if_false, Bool.true_and] at ht ⊢
    split <;> (try split) <;> (try split) <;> (try split) <;> (try split) <;> simp_all
  unfold construct
  -- whatever `findSome?` returns is a result of `checkCase`, hence a C-Vise error
  have hall : ∀ r, cases.findSome? (checkCase v) = some r → ∃ e, r = .cvise e := by
    intro r hr
    obtain ⟨t, _, ht⟩ := List.exists_of_findSome?_eq_some hr
    by_cases hm : ∃ e, checkCase v t = some (.cvise e)
    · obtain ⟨e, he⟩ := hm; rw [he] at ht; cases ht; exact ⟨e, rfl⟩
    · have := hnone t (fun e he => hm ⟨e, he⟩); rw [this] at ht; cases ht
  cases hf : cases.findSome? (checkCase v) with
  | some r => obtain ⟨e, he⟩ := hall r hf; exact ⟨e, by simp [he]⟩
  | none =>
    simp only
    rcases h with ⟨t, ht, hm⟩ | hs
    · obtain ⟨e, he⟩ := hcase t hm
      have := List.findSome?_eq_none_iff.mp hf t ht
      rw [he] at this; cases this
    · simp [hs]

/-- every error the model can produce can be printed … -/
theorem render_total (v : Validation) (hv : GoodValidation v) (e : CErr) : ∃ s, render v e = some s := by
  obtain ⟨_, _, h3, _, _⟩ := hv
  cases e <;> simp [render, h3]

def isInfixL : List Char → List Char → Bool
  | [], _ => true
  | _ :: _, [] => false
  | p, c :: cs => (p.isPrefixOf (c :: cs)) || isInfixL p cs

/-- … and the message names the offending item (path or argument): stated on the construction of the messages -/
theorem render_names_item (v : Validation) (hv : GoodValidation v) :
    (∀ p w, ∃ a b, render v (.invalidTestCase p w) = some (a ++ p ++ b)) ∧
    (∀ p, ∃ a b, render v (.absolutePath p) = some (a ++ p ++ b)) ∧
    (∀ p, ∃ a b, render v (.dotDotPath p) = some (a ++ p ++ b)) ∧
    (∀ p, ∃ a b, render v (.invalidTest p) = some (a ++ p ++ b)) ∧
    (∀ c x, ∃ a b, render v (.unknownArgument c x) = some (a ++ x ++ b)) := by
  obtain ⟨_, _, h3, _, _⟩ := hv
  refine ⟨fun p w => ⟨"The specified test case '", "' cannot be " ++ w ++ "!", by simp [render, String.append_assoc]⟩,
    fun p => ⟨"Test case path cannot be absolute: '", "'!", by simp [render]⟩,
    fun p => ⟨"Test case path cannot contain '..': '", "'!", by simp [render]⟩,
    fun p => ⟨"The specified interestingness test '", "' cannot be executed!", by simp [render]⟩,
    fun c x => ⟨"The argument '", "' is not valid for pass '" ++ c ++ "'!", by simp [render, h3, String.append_assoc]⟩⟩

/-- the code as it is now validates in that order (regenerated on every run) -/
theorem shipped_validation : GoodValidation Gen.validation := by unfold GoodValidation; decide

/-- the snapshot 6d25a67 did not (findings F2, F10, F11): a missing test case raised FileNotFoundError, a `..` path was
    accepted, and the unknown-argument error could not be printed -/
theorem old_validation_counterexamples :
    let old : Validation := { accessBeforeStat := false, refusesDotDot := false, unknownArgRenders := false,
                              ternaryValidatesInNew := false, indentValidatesInNew := false }
    construct old [{ path := "nosuch.c", exists_ := false, readable := false, writable := false, absolute := false, dotdot := false }] "t.sh" true
      = .foreign "FileNotFoundError" ∧
    construct old [{ path := "../x.c", exists_ := true, readable := true, writable := true, absolute := false, dotdot := true }] "t.sh" true = .ok ∧
    render old (.unknownArgument "BalancedPass" "bogus") = none := by decide

end Cvise.C17
