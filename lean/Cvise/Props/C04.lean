import Cvise.Model.World
import Cvise.Gen.World
/-!
# C04 — originals are preserved (`backup_test_cases` over a file map)
-/
namespace Cvise.C04
open Cvise Cvise.W

theorem lookup_append_of_some (fs : FS) (x : String × Bytes) (p : String) (b : Bytes)
    (h : lookupFS fs p = some b) : lookupFS (fs ++ [x]) p = some b := by
  unfold lookupFS at *
  induction fs with
  | nil => simp [List.lookup] at h
  | cons y ys ih =>
    obtain ⟨q, c⟩ := y
    simp only [List.cons_append, List.lookup] at h ⊢
    split
    · rename_i heq; simp only [heq] at h; exact h
    · rename_i hne; simp only [hne] at h; exact ih h

/-- whatever was there before the backup is there afterwards, unchanged: an existing `X.orig` is never overwritten and no
    other file is touched -/
theorem backup_preserves (tcs : List String) : ∀ (fs : FS) (p : String) (b : Bytes),
    lookupFS fs p = some b → lookupFS (backup fs tcs) p = some b := by
  induction tcs with
  | nil => intro fs p b h; exact h
  | cons f rest ih =>
    intro fs p b h
    simp only [backup]
    split
    · exact ih _ p b (lookup_append_of_some fs _ p b h)
    · exact ih fs p b h

theorem lookup_append_new (fs : FS) (p : String) (b : Bytes) (h : lookupFS fs p = none) :
    lookupFS (fs ++ [(p, b)]) p = some b := by
  unfold lookupFS at *
  induction fs with
  | nil => simp [List.lookup]
  | cons y ys ih =>
    obtain ⟨q, c⟩ := y
    simp only [List.cons_append, List.lookup] at h ⊢
    split
    · rename_i heq; simp [heq] at h
    · rename_i hne; simp only [hne] at h; exact ih h

/-- after the backup every test case `X` that exists has an `X.orig`; if there was none it holds exactly the bytes `X` had -/
theorem backup_creates (tcs : List String) : ∀ (fs : FS) (f : String) (b : Bytes), f ∈ tcs →
    lookupFS fs f = some b → lookupFS fs (f ++ ".orig") = none →
    lookupFS (backup fs tcs) (f ++ ".orig") = some b := by
  induction tcs with
  | nil => intro fs f b hf; cases hf
  | cons g rest ih =>
    intro fs f b hf hb hn
    simp only [backup]
    simp only [List.mem_cons] at hf
    by_cases hfg : f = g
    · subst hfg
      simp only [hn, hb]
      exact backup_preserves rest _ _ b (lookup_append_new fs _ b hn)
    · have hfr : f ∈ rest := by rcases hf with h | h; exact absurd h hfg; exact h
      split
      · rename_i bg _ _
        by_cases hsame : g ++ ".orig" = f ++ ".orig"
        · -- cannot happen for f ≠ g (appending the same suffix is injective)
          have : g = f := by
            have := congrArg String.toList hsame
            simp only [String.toList_append] at this
            exact String.toList_inj.mp (List.append_cancel_right this)
          exact absurd this.symm hfg
        · apply ih _ f b hfr (lookup_append_of_some fs _ f b hb)
          unfold lookupFS at *
          rw [List.lookup_append]
          have hne : (f ++ ".orig" == g ++ ".orig") = false := by
            simp only [beq_eq_false_iff_ne, ne_eq]; exact fun h => hsame h.symm
          simp [hn, List.lookup, hne]
      · exact ih fs f b hfr hb hn

/-- the model's guard (`lookupFS fs (f ++ ".orig") = none`) is the code's: the backup is written only if `X.orig` does not exist
    (read off `backup_test_cases` on every run; an "exists but empty" exception, say, makes this false) -/
theorem shipped_backup_guard : Gen.backupOnlyIfMissing = true := by decide

/-- whenever a pass completes the modes of the test cases are the original ones, whatever happened to them during the
    pass (`Gen.restoreModeAtPassEnd` is read off `run_pass` on every run) -/
theorem modes_back_when_pass_completes (orig : List Nat) (steps : List (List Nat → List Nat)) :
    passModes Gen.restoreModeAtPassEnd orig steps = orig := by
  unfold passModes
  rw [show Gen.restoreModeAtPassEnd = true from by decide]
  rfl

/-- without the call at the end a pass that resets the mode and accepts nothing leaves the file at 0600 -/
theorem modes_lost_without_restore : passModes false [0o640] [fun _ => [0o600]] = [0o600] := by decide

end Cvise.C04
