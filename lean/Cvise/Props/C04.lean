import Cvise.Model.World
import Cvise.Proofs.WorldFS
import Cvise.Proofs.DriverStats
import Cvise.Gen.World
/-!
# C04 — originals are preserved (`backup_test_cases` over a file map)
-/
namespace Cvise.C04
open Cvise Cvise.W

theorem lookup_append_of_some (fs : FS) (x : String × Bytes) (p : String) (b : Bytes)
    (h : lookupFS fs p = some b) : lookupFS (fs ++ [x]) p = some b := by
  unfold lookupFS at *
  induction fs with
  | nil => simp [List.lookup] at h
  | cons y ys ih =>
    obtain ⟨q, c⟩ := y
    simp only [List.cons_append, List.lookup] at h ⊢
    split
    · rename_i heq; simp only [heq] at h; exact h
    · rename_i hne; simp only [hne] at h; exact ih h

/-- whatever was there before the backup is there afterwards, unchanged: an existing `X.orig` is never overwritten and no
    other file is touched -/
theorem backup_preserves (tcs : List String) : ∀ (fs : FS) (p : String) (b : Bytes),
    lookupFS fs p = some b → lookupFS (backup fs tcs) p = some b := by
  induction tcs with
  | nil => intro fs p b h; exact h
  | cons f rest ih =>
    intro fs p b h
    simp only [backup]
    split
    · exact ih _ p b (lookup_append_of_some fs _ p b h)
    · exact ih fs p b h

theorem lookup_append_new (fs : FS) (p : String) (b : Bytes) (h : lookupFS fs p = none) :
    lookupFS (fs ++ [(p, b)]) p = some b := by
  unfold lookupFS at *
  induction fs with
  | nil => simp [List.lookup]
  | cons y ys ih =>
    obtain ⟨q, c⟩ := y
    simp only [List.cons_append, List.lookup] at h ⊢
    split
    · rename_i heq; simp [heq] at h
    · rename_i hne; simp only [hne] at h; exact ih h

/-- after the backup every test case `X` that exists has an `X.orig`; if there was none it holds exactly the bytes `X` had -/
theorem backup_creates (tcs : List String) : ∀ (fs : FS) (f : String) (b : Bytes), f ∈ tcs →
    lookupFS fs f = some b → lookupFS fs (f ++ ".orig") = none →
    lookupFS (backup fs tcs) (f ++ ".orig") = some b := by
  induction tcs with
  | nil => intro fs f b hf; cases hf
  | cons g rest ih =>
    intro fs f b hf hb hn
    simp only [backup]
    simp only [List.mem_cons] at hf
    by_cases hfg : f = g
    · subst hfg
      simp only [hn, hb]
      exact backup_preserves rest _ _ b (lookup_append_new fs _ b hn)
    · have hfr : f ∈ rest := by rcases hf with h | h; exact absurd h hfg; exact h
      split
      · rename_i bg _ _
        by_cases hsame : g ++ ".orig" = f ++ ".orig"
        · -- cannot happen for f ≠ g (appending the same suffix is injective)
          have : g = f := by
            have := congrArg String.toList hsame
            simp only [String.toList_append] at this
            exact String.toList_inj.mp (List.append_cancel_right this)
          exact absurd this.symm hfg
        · apply ih _ f b hfr (lookup_append_of_some fs _ f b hb)
          unfold lookupFS at *
          rw [List.lookup_append]
          have hne : (f ++ ".orig" == g ++ ".orig") = false := by
            simp only [beq_eq_false_iff_ne, ne_eq]; exact fun h => hsame h.symm
          simp [hn, List.lookup, hne]
      · exact ih fs f b hfr hb hn

/-- the model's guard (`lookupFS fs (f ++ ".orig") = none`) is the code's: the backup is written only if `X.orig` does not exist
    (read off `backup_test_cases` on every run; an "exists but empty" exception, say, makes this false) -/
theorem shipped_backup_guard : Gen.backupOnlyIfMissing = true := by decide

/-- whenever a pass completes the modes of the test cases are the original ones, whatever happened to them during the
    pass (`Gen.restoreModeAtPassEnd` is read off `run_pass` on every run) -/
theorem modes_back_when_pass_completes (orig : List Nat) (steps : List (List Nat → List Nat)) :
    passModes Gen.restoreModeAtPassEnd orig steps = orig := by
  unfold passModes
  rw [show Gen.restoreModeAtPassEnd = true from by decide]
  rfl

/-- without the call at the end a pass that resets the mode and accepts nothing leaves the file at 0600 -/
theorem modes_lost_without_restore : passModes false [0o640] [fun _ => [0o600]] = [0o600] := by decide

/-! ### the frame: what a reduction can touch in the working directory

`W.afterReduceD names … tidy fs log disk` is the working directory after a reduction whose ghost log is `log` and whose
test cases end as `disk`: backups first
(unless `--tidy`), then one action per logged event — a commit or a replay writes the named test case, a bug / extra report
creates an entry under a report-directory name.  The theorems hold for **every** event list, hence for the log of every
run of the driver model (`frame_for_every_run`), whatever the passes, the test, the schedule and the limits. -/

/-- **only the named test cases are touched**: a path that is not a test case, not the `.orig` of one and not under a
    report-directory name holds after the reduction what it held before -/
theorem only_test_cases_touched (names : List String) (bugName extraName : Nat → String)
    (hb : ∀ n, isReportPath (bugName n) = true) (he : ∀ n, isReportPath (extraName n) = true)
    (tidy : Bool) (fs : FS) (log : List (D.Ev Bytes)) (disk : List Bytes) (p : String) (hp : Untouchable names p) :
    lookupFS (afterReduceD names bugName extraName tidy fs log disk) p = lookupFS fs p :=
  reduceD_frame names bugName extraName hb he tidy fs log disk p hp

/-- **the original survives**: nothing a reduction does writes a backup path, so `X.orig` holds after the reduction what
    `backup_test_cases` put there at the start (`backup_creates`: the original bytes of `X`) or found there
    (`backup_preserves`: the backup that already existed) -/
theorem original_survives (names : List String) (bugName extraName : Nat → String)
    (hb : ∀ n, isReportPath (bugName n) = true) (he : ∀ n, isReportPath (extraName n) = true)
    (fs : FS) (log : List (D.Ev Bytes)) (disk : List Bytes) (f : String)
    (hn : f ++ ".orig" ∉ names) (hr : isReportPath (f ++ ".orig") = false) :
    lookupFS (afterReduceD names bugName extraName false fs log disk) (f ++ ".orig") = lookupFS (backup fs names) (f ++ ".orig") :=
  reduceD_keeps_backups names bugName extraName hb he fs log disk f hn hr

/-- … in particular for the log of every run of the L2 driver model over byte contents -/
theorem frame_for_every_run {σ : Type} [Inhabited σ] (cfg : D.Cfg) (Wd : D.World Bytes) (dn : D.Sched) (orderOf : List Bytes → List Nat) (fuel : Nat)
    (first main last : List (D.PassI Bytes σ)) (x : D.St Bytes)
    (names : List String) (bugName extraName : Nat → String)
    (hb : ∀ n, isReportPath (bugName n) = true) (he : ∀ n, isReportPath (extraName n) = true)
    (tidy : Bool) (fs : FS) (p : String) (hp : Untouchable names p) :
    lookupFS (afterReduceD names bugName extraName tidy fs (D.LRes.st' (D.reduce cfg Wd dn orderOf fuel first main last x)).side.log
      (D.LRes.st' (D.reduce cfg Wd dn orderOf fuel first main last x)).disk) p = lookupFS fs p :=
  reduceD_frame names bugName extraName hb he tidy fs _ _ p hp

/-- non-vacuity: test cases `a.c`, `b.c`; `notes.txt` is untouchable; a commit on `a.c` and a bug report leave it alone
    and rewrite `a.c` -/
example : Untouchable ["a.c", "b.c"] "notes.txt" := by
  refine ⟨by decide, ?_, by decide⟩
  intro f hf
  simp only [List.mem_cons, List.mem_nil_iff, or_false] at hf
  rcases hf with rfl | rfl <;> decide
example : lookupFS (afterReduce ["a.c", "b.c"] (fun n => s!"cvise_bug_{n}") (fun n => s!"cvise_extra_{n}") false
    [("a.c", [1]), ("b.c", [2]), ("notes.txt", [3])] [.commit 0 0 [9], .bugdir]) "a.c" = some [9] := by decide
example : lookupFS (afterReduce ["a.c", "b.c"] (fun n => s!"cvise_bug_{n}") (fun n => s!"cvise_extra_{n}") false
    [("a.c", [1]), ("b.c", [2]), ("notes.txt", [3])] [.commit 0 0 [9], .bugdir]) "a.c.orig" = some [1] := by decide

/-! ### `--to-utf8`: the conversion happens in the front end, before the reduction makes its backup (F18) -/

theorem append_orig_inj {f g : String} (h : f ++ ".orig" = g ++ ".orig") : f = g := by
  have := congrArg String.toList h
  simp only [String.toList_append] at this
  exact String.toList_inj.mp (List.append_cancel_right this)

theorem lookup_append_other (fs : FS) (q p : String) (b : Bytes) (h : q ≠ p) :
    lookupFS (fs ++ [(q, b)]) p = lookupFS fs p := by
  unfold lookupFS
  rw [List.lookup_append]
  have : (p == q) = false := by simp only [beq_eq_false_iff_ne, ne_eq]; exact fun e => h e.symm
  cases List.lookup p fs <;> simp [List.lookup, this]

/-- a conversion step for other test cases leaves `f` and `f.orig` alone -/
theorem toUtf8_other (bf tidy : Bool) (isUtf8 : Bytes → Bool) (conv : Bytes → Bytes) (p : String) :
    ∀ (names : List String) (fs : FS), p ∉ names → (∀ g ∈ names, g ++ ".orig" ≠ p) →
    lookupFS (toUtf8Step bf tidy isUtf8 conv fs names) p = lookupFS fs p := by
  intro names
  induction names with
  | nil => intro fs _ _; rfl
  | cons g rest ih =>
    intro fs hp ho
    have hg : g ≠ p := fun e => hp (e ▸ List.mem_cons_self)
    have hrest : p ∉ rest := fun h => hp (List.mem_cons_of_mem _ h)
    have horest : ∀ x ∈ rest, x ++ ".orig" ≠ p := fun x hx => ho x (List.mem_cons_of_mem _ hx)
    simp only [toUtf8Step]
    split
    · exact ih fs hrest horest
    · split
      · exact ih fs hrest horest
      · rw [ih _ hrest horest, lookup_writeFS_ne _ _ _ _ (fun e => hg e.symm)]
        split
        · exact lookup_append_other fs _ p _ (ho g List.mem_cons_self)
        · rfl

/-- **with `--to-utf8` the original survives too**: for a test case `f` that exists with bytes `b` and has no backup yet
    (no test case is named like a backup, no name occurs twice), after the conversion step *and* any reduction, `f.orig`
    holds `b` — the bytes before the program touched the file, converted or not -/
theorem to_utf8_keeps_original (isUtf8 : Bytes → Bool) (conv : Bytes → Bytes)
    (names : List String) (bugName extraName : Nat → String)
    (hb : ∀ n, isReportPath (bugName n) = true) (he : ∀ n, isReportPath (extraName n) = true)
    (hnd : names.Nodup) (hno : ∀ g ∈ names, g ++ ".orig" ∉ names)
    (fs : FS) (log : List (D.Ev Bytes)) (disk : List Bytes) (f : String) (b : Bytes)
    (hf : f ∈ names) (hfb : lookupFS fs f = some b) (hfo : lookupFS fs (f ++ ".orig") = none)
    (hr : isReportPath (f ++ ".orig") = false) :
    lookupFS (afterReduceD names bugName extraName false (toUtf8Step true false isUtf8 conv fs names) log disk) (f ++ ".orig")
      = some b := by
  rw [original_survives names bugName extraName hb he _ log disk f (hno f hf) hr]
  -- what the conversion step leaves at `f` and `f.orig`
  have key : ∀ (ns : List String) (fs : FS), ns.Nodup → (∀ g ∈ ns, g ++ ".orig" ∉ names) → (∀ g ∈ ns, g ∈ names) → f ∈ ns →
      lookupFS fs f = some b → lookupFS fs (f ++ ".orig") = none →
      (lookupFS (toUtf8Step true false isUtf8 conv fs ns) (f ++ ".orig") = some b) ∨
      (lookupFS (toUtf8Step true false isUtf8 conv fs ns) f = some b ∧
       lookupFS (toUtf8Step true false isUtf8 conv fs ns) (f ++ ".orig") = none) := by
    intro ns
    induction ns with
    | nil => intro fs _ _ _ h; cases h
    | cons g rest ih =>
      intro fs hnd' hno' hsub hmem hfb' hfo'
      have hnd2 := List.nodup_cons.mp hnd'
      have hno2 : ∀ x ∈ rest, x ++ ".orig" ∉ names := fun x hx => hno' x (List.mem_cons_of_mem _ hx)
      have hsub2 : ∀ x ∈ rest, x ∈ names := fun x hx => hsub x (List.mem_cons_of_mem _ hx)
      by_cases hgf : g = f
      · subst hgf
        -- this is `g`'s own step; the rest does not touch `g` nor `g.orig`
        have hrest1 : g ∉ rest := hnd2.1
        have hrest2 : ∀ x ∈ rest, x ++ ".orig" ≠ g := fun x hx e => hno2 x hx (e ▸ hf)
        have hrest3 : g ++ ".orig" ∉ rest := fun h => hno' g List.mem_cons_self (hsub2 _ h)
        have hrest4 : ∀ x ∈ rest, x ++ ".orig" ≠ g ++ ".orig" := fun x hx e => hrest1 (append_orig_inj e ▸ hx)
        simp only [toUtf8Step, hfb']
        split
        · right
          exact ⟨by rw [toUtf8_other _ _ _ _ g rest fs hrest1 hrest2]; exact hfb',
                 by rw [toUtf8_other _ _ _ _ (g ++ ".orig") rest fs hrest3 hrest4]; exact hfo'⟩
        · left
          rw [toUtf8_other _ _ _ _ (g ++ ".orig") rest _ hrest3 hrest4]
          have hne : g ++ ".orig" ≠ g := fun e => hno' g List.mem_cons_self (by rw [e]; exact hf)
          rw [lookup_writeFS_ne _ _ _ _ hne]
          simp only [hfo', Option.isNone_none, Bool.not_false, Bool.and_self, if_true]
          exact lookup_append_new fs _ b hfo'
      · have hfr : f ∈ rest := by
          simp only [List.mem_cons] at hmem
          rcases hmem with h | h
          · exact absurd h.symm hgf
          · exact h
        have hgn : g ∈ names := hsub g List.mem_cons_self
        have h1 : g ≠ f := hgf
        have h2 : g ++ ".orig" ≠ f := fun e => hno' g List.mem_cons_self (e ▸ hf)
        have h3 : g ≠ f ++ ".orig" := fun e => hno f hf (e ▸ hgn)
        have h4 : g ++ ".orig" ≠ f ++ ".orig" := fun e => hgf (append_orig_inj e)
        simp only [toUtf8Step]
        split
        · exact ih fs hnd2.2 hno2 hsub2 hfr hfb' hfo'
        · split
          · exact ih fs hnd2.2 hno2 hsub2 hfr hfb' hfo'
          · apply ih _ hnd2.2 hno2 hsub2 hfr
            · rw [lookup_writeFS_ne _ _ _ _ (fun e => h1 e.symm)]
              split
              · rw [lookup_append_other fs _ f _ h2]; exact hfb'
              · exact hfb'
            · rw [lookup_writeFS_ne _ _ _ _ (fun e => h3 e.symm)]
              split
              · rw [lookup_append_other fs _ (f ++ ".orig") _ h4]; exact hfo'
              · exact hfo'
  rcases key names fs hnd hno (fun g hg => hg) hf hfb hfo with h | ⟨h1, h2⟩
  · exact backup_preserves names _ _ b h
  · exact backup_creates names _ f b hf h1 h2

/-- the guard is the code's (regenerated from the `--to-utf8` block of `cvise.py` on every run) -/
theorem shipped_to_utf8_backup_first : Gen.toUtf8BackupFirst = true := by decide

/-- without the copy (the code before `39f513f`) the backup holds the *converted* bytes: `a.c` is Latin-1 (`[233]`),
    its conversion is `[195, 169]` -/
theorem old_to_utf8_loses_original :
    lookupFS (afterReduceD ["a.c"] (fun n => s!"cvise_bug_{n}") (fun n => s!"cvise_extra_{n}") false
      (toUtf8Step false false (fun b => b.all (· < 128)) (fun _ => [195, 169]) [("a.c", [233])] ["a.c"]) [] [[195, 169]]) "a.c.orig"
      = some [195, 169] := by decide

example :
    lookupFS (afterReduceD ["a.c"] (fun n => s!"cvise_bug_{n}") (fun n => s!"cvise_extra_{n}") false
      (toUtf8Step true false (fun b => b.all (· < 128)) (fun _ => [195, 169]) [("a.c", [233])] ["a.c"]) [] [[195, 169]]) "a.c.orig"
      = some [233] := by decide

end Cvise.C04
