import Cvise.Proofs.RoundPar
import Cvise.Proofs.DriverPar
import Cvise.Proofs.DriverSafe
/-!
# C02 — parallel speculative reduction equals the sequential greedy reduction (round level)

`R.loop` is `run_parallel_tests` reduced to its scheduling skeleton: an ordered list of in-flight candidates, the scan
of `process_done_futures`, the final `wait_for_first_success`.  `done t i` — is candidate `i` finished when the scan of
iteration `t` looks at it — is an arbitrary oracle: the number of parallel tests and the timing of the workers only
decide *which* oracle occurs, so a theorem for all oracles covers every `N` and every completion order.
`WB`: no timeouts and STOP only as a suffix of the enumeration (the contract of well-behaved passes).
-/
namespace Cvise.C02
open Cvise.R

/-- for every completion schedule the round returns what the one-candidate-at-a-time scan returns -/
theorem round_par_eq_seq (MAXT : Nat) (res : Nat → Verdict) (wb : WB res) (done : Nat → Nat → Bool) (m : Nat) (hm : 0 < m) (tc : Nat) :
    loop MAXT res done m 0 [] tc = seqFirst res m 0 := R.round_par_eq_seq MAXT res wb done m hm tc

/-- the sequential scan returns the first candidate that is not ignored, and only if it is an accept:
    no earlier candidate is left untested or overtaken -/
theorem seq_first_is_first (res : Nat → Verdict) (m : Nat) : ∀ (k i w : Nat), m - i = k → seqFirst res m i = some w →
    i ≤ w ∧ w < m ∧ res w = .accept ∧ ∀ j, i ≤ j → j < w → res j = .ignore := by
  intro k
  induction k with
  | zero =>
    intro i w hk h
    unfold seqFirst at h
    have : i ≥ m := by omega
    simp [this] at h
  | succ k ih =>
    intro i w hk h
    unfold seqFirst at h
    have hi : ¬ i ≥ m := by omega
    simp only [hi, dite_false] at h
    cases hr : res i with
    | accept =>
      simp only [hr] at h
      cases h
      exact ⟨Nat.le_refl _, by omega, hr, by intro j h1 h2; omega⟩
    | ignore =>
      simp only [hr] at h
      obtain ⟨a, b, c, d⟩ := ih (i+1) w (by omega) h
      refine ⟨by omega, b, c, ?_⟩
      intro j h1 h2
      by_cases hj : j = i
      · subst hj; exact hr
      · exact d j (by omega) h2
    | quit => simp [hr] at h
    | timeout => simp [hr] at h

/-- both together: the winner of the parallel round is the first interesting candidate in enumeration order -/
theorem round_no_skip (MAXT : Nat) (res : Nat → Verdict) (wb : WB res) (done : Nat → Nat → Bool) (m : Nat) (hm : 0 < m) (tc w : Nat)
    (h : loop MAXT res done m 0 [] tc = some w) :
    w < m ∧ res w = .accept ∧ ∀ j, j < w → res j = .ignore := by
  rw [round_par_eq_seq MAXT res wb done m hm tc] at h
  obtain ⟨_, b, c, d⟩ := seq_first_is_first res m _ 0 w rfl h
  exact ⟨b, c, fun j hj => d j (Nat.zero_le _) hj⟩

/-- the round of the driver model (the one tied to `testing.py` by the correspondence check) returns the first
    interesting candidate, for every schedule oracle, whenever the candidates are well-behaved -/
theorem round_winner_eq_seq {C σ : Type} [DecidableEq C] (cfg : D.Cfg) (size : C → Nat) (pkey : Nat) (cur : C)
    (env : Nat → D.EnvRes C σ) (done : Nat → Nat → Bool) (m : Nat) (hm : 0 < m)
    (ht : ∀ i, i < m → D.Tame cfg cur (env i))
    (hstop : ∀ i j, i < j → j < m → (env i).pr = .stop → (env j).pr = .stop)
    (fuel : Nat) (hf : m ≤ fuel) (g : D.Side C) :
    ∃ g', D.roundLoop cfg size pkey cur env (fun t => decide (t < m)) done fuel 0 [] g {} =
      .inl (seqFirst (fun i => D.vd cfg size cur (env i)) m 0, g') :=
  D.round_winner_eq_seq cfg size pkey cur env done m hm ht hstop fuel hf g

/-- whole reduction: final files, replay table and control flow are the same for any two schedules -/
theorem reduce_schedule_irrelevant {C σ : Type} [DecidableEq C] [Inhabited σ] [Inhabited C]
    (cfg : D.Cfg) (W : D.World C) (d d' : D.Sched) (orderOf : List C → List Nat) (fuel : Nat)
    (first main last : List (D.PassI C σ))
    (hg : ∀ P, P ∈ first ∨ P ∈ main ∨ P ∈ last → D.GoodPass cfg W P) (x : D.St C) :
    D.SimR (D.reduce cfg W d orderOf fuel first main last x) (D.reduce cfg W d' orderOf fuel first main last x) :=
  D.reduce_schedule_irrelevant cfg W d d' orderOf fuel first main last hg x

/-- … and so is the sequence of accepted variants (the commit log), not only the final files -/
theorem accepted_sequence_schedule_irrelevant {C σ : Type} [DecidableEq C] [Inhabited σ] [Inhabited C]
    (cfg : D.Cfg) (W : D.World C) (d d' : D.Sched) (orderOf : List C → List Nat) (fuel : Nat)
    (first main last : List (D.PassI C σ))
    (hg : ∀ P, P ∈ first ∨ P ∈ main ∨ P ∈ last → D.GoodPass cfg W P) (x : D.St C) :
    D.commits (D.LRes.st (D.reduce cfg W d orderOf fuel first main last x)).side.log =
    D.commits (D.LRes.st (D.reduce cfg W d' orderOf fuel first main last x)).side.log ∧
    (D.LRes.st (D.reduce cfg W d orderOf fuel first main last x)).disk =
    (D.LRes.st (D.reduce cfg W d' orderOf fuel first main last x)).disk := by
  have h := D.reduce_schedule_irrelevant cfg W d d' orderOf fuel first main last hg x
  generalize D.reduce cfg W d orderOf fuel first main last x = r at h ⊢
  generalize D.reduce cfg W d' orderOf fuel first main last x = r' at h ⊢
  rcases r with ⟨a, n⟩ | ⟨e, a⟩ <;> rcases r' with ⟨b, m⟩ | ⟨e', b⟩ <;> simp only [D.SimR] at h
  · exact ⟨h.1.2.2.2, h.1.1⟩
  · exact ⟨h.2.2.2.2, h.2.1⟩

-- non-vacuity: a verdict vector satisfying WB with a non-first winner
example : WB (fun i => if i = 2 then Verdict.accept else if i < 2 then .ignore else .quit) := by
  constructor
  · intro i; split <;> (try split) <;> simp
  · intro i j hij h
    have hi : 2 < i := by
      by_cases h2 : i = 2
      · simp [h2] at h
      · by_cases h3 : i < 2
        · simp [h2, h3] at h
        · omega
    have : ¬ j = 2 := by omega
    have : ¬ j < 2 := by omega
    simp [*]

end Cvise.C02
