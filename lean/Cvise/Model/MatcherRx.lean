import Cvise.Model.Matcher
import Cvise.Model.Rx
/-! the regular-expression parts of the matcher, instantiated with the `Rx` engine over a pattern table -/
namespace Cvise.M
open Cvise

def rxOracle (tbl : Array Rx) : RxO := fun id s p mode =>
  match tbl[id]? with
  | none => none
  | some r =>
    if mode then (rxSearchFrom r (toArr s) p).map fun (a, e, _) => (a, e)
    else (rxMatchAt r (toArr s) p).map fun (e, _) => (p, e)

end Cvise.M
