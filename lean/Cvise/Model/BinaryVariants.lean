import Cvise.Model.Binary
/-!
The two chunk-cursor passes whose glue around `BinaryState` differs from the generic run of `Model/Binary.lean`:

* **gcda** (`cvise/passes/gcdabinary.py`): `advance_on_success` builds a *fresh* cursor from the new file
  (`__create_state`), i.e. the search restarts at index 0 with the chunk covering everything that is left;
* **ifs** (`cvise/passes/ifs.py`): the cursor carries a `value` (the directives of the range are replaced by `#if 0`, then by
  `#if 1`); `advance` flips the value before it moves the range, `advance_on_success` keeps the value as it is.
-/
namespace Cvise
variable {α : Type}

/-! ### gcda: restart after every accepted removal -/

def gcdaStep (test : List α → Bool) (x : St α) : Sum (St α) (List α) :=
  if test x.cand then
    match BS.create x.cand.length with
    | some s => .inl ⟨x.cand, s⟩
    | none => .inr x.cand
  else
    match x.st.advance with
    | some s => .inl ⟨x.items, s⟩
    | none => .inr x.items

def gcdaRun (test : List α → Bool) : Nat → St α → Option (List α)
  | 0, _ => none
  | f+1, x => match gcdaStep test x with
    | .inl y => gcdaRun test f y
    | .inr r => some r

def gcdaStart (test : List α → Bool) (fuel : Nat) (l : List α) : Option (List α) :=
  match BS.create l.length with
  | none => some l
  | some s => gcdaRun test fuel ⟨l, s⟩

/-- fuel that is always enough: each of at most `n` restarts costs at most one generic level walk -/
def gcdaFuel (n : Nat) : Nat := (n + 1) * startFuel n + 1

def gcdaRunTrace (test : List α → Bool) : Nat → St α → List (Nat × Nat × Bool) → Option (List α × List (Nat × Nat × Bool))
  | 0, _, _ => none
  | f+1, x, acc =>
    let acc' := acc ++ [(x.st.index, x.st.end_, test x.cand)]
    match gcdaStep test x with
    | .inl y => gcdaRunTrace test f y acc'
    | .inr r => some (r, acc')

def gcdaStartTrace (test : List α → Bool) (fuel : Nat) (l : List α) : Option (List α × List (Nat × Nat × Bool)) :=
  match BS.create l.length with
  | none => some (l, [])
  | some s => gcdaRunTrace test fuel ⟨l, s⟩ []

/-! ### ifs: the cursor with its value -/

structure IfSt (α : Type) where
  base : St α
  value : Bool            -- `false` = `#if 0`, `true` = `#if 1`

def ifsStep (test : List α → Bool → Bool) (x : IfSt α) : Sum (IfSt α) (List α) :=
  if test x.base.cand x.value then
    match x.base.st.advanceOnSuccess x.base.cand.length with
    | some s => .inl ⟨⟨x.base.cand, s⟩, x.value⟩           -- `advance_on_success` does not touch the value
    | none => .inr x.base.cand
  else if x.value = false then .inl ⟨x.base, true⟩
  else
    match x.base.st.advance with
    | some s => .inl ⟨⟨x.base.items, s⟩, false⟩
    | none => .inr x.base.items

def ifsRun (test : List α → Bool → Bool) : Nat → IfSt α → Option (List α)
  | 0, _ => none
  | f+1, x => match ifsStep test x with
    | .inl y => ifsRun test f y
    | .inr r => some r

def ifsStart (test : List α → Bool → Bool) (fuel : Nat) (l : List α) : Option (List α) :=
  match BS.create l.length with
  | none => some l
  | some s => ifsRun test fuel ⟨⟨l, s⟩, false⟩

def ifsFuel (n : Nat) : Nat := 2 * startFuel n + 2

def ifsRunTrace (test : List α → Bool → Bool) : Nat → IfSt α → List (Nat × Nat × Bool × Bool) →
    Option (List α × List (Nat × Nat × Bool × Bool))
  | 0, _, _ => none
  | f+1, x, acc =>
    let acc' := acc ++ [(x.base.st.index, x.base.st.end_, x.value, test x.base.cand x.value)]
    match ifsStep test x with
    | .inl y => ifsRunTrace test f y acc'
    | .inr r => some (r, acc')

def ifsStartTrace (test : List α → Bool → Bool) (fuel : Nat) (l : List α) :
    Option (List α × List (Nat × Nat × Bool × Bool)) :=
  match BS.create l.length with
  | none => some (l, [])
  | some s => ifsRunTrace test fuel ⟨⟨l, s⟩, false⟩ []

end Cvise
