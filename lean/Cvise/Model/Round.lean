/-! L1 core: one speculative round without side state (verdicts are given).  `loop` is `run_parallel_tests`,
    `processDone` is the scan of `process_done_futures`, `wfs` is `wait_for_first_success`; `done t i` says whether future `i`
    is finished when the scan of iteration `t` looks at it (the schedule oracle; `N` only restricts which oracles occur). -/
namespace Cvise.R
inductive Verdict | accept | ignore | quit | timeout deriving DecidableEq, Repr, Inhabited, BEq


/-- scan of process_done_futures: returns (kept futures, timeout count, quit) -/
def processDone (MAXT : Nat) (done : Nat → Bool) (res : Nat → Verdict) :
    List Nat → Nat → Bool → List Nat × Nat × Bool
  | [], tc, q => ([], tc, q)
  | i :: rest, tc, q =>
    if q then processDone MAXT done res rest tc q   -- cancelled, dropped
    else if done i then
      match res i with
      | .timeout =>
        let tc := tc + 1
        processDone MAXT done res rest tc (decide (tc ≥ MAXT))
      | .accept => let (k, tc', q') := processDone MAXT done res rest tc true; (i :: k, tc', q')
      | .ignore => processDone MAXT done res rest tc false
      | .quit => processDone MAXT done res rest tc true
    else let (k, tc', q') := processDone MAXT done res rest tc false; (i :: k, tc', q')

def wfs (res : Nat → Verdict) : List Nat → Option Nat
  | [] => none
  | i :: rest => if res i = .accept then some i else wfs res rest

def loop (MAXT : Nat) (res : Nat → Verdict) (done : Nat → Nat → Bool) (m : Nat) (t : Nat) (futs : List Nat) (tc : Nat) : Option Nat :=
  let (futs', tc', quit) := processDone MAXT (done t) res futs tc false
  if quit then wfs res futs'
  else
    let futs'' := futs' ++ [t]
    if h : t + 1 ≥ m then wfs res futs''
    else loop MAXT res done m (t+1) futs'' tc'
termination_by m - t

def seqFirst (res : Nat → Verdict) (m : Nat) (i : Nat := 0) : Option Nat :=
  if h : i ≥ m then none else
  match res i with
  | .accept => some i
  | .ignore => seqFirst res m (i+1)
  | _ => none
termination_by m - i

end Cvise.R
