import Cvise.Model.MatcherRx
import Cvise.Model.Binary
import Cvise.Model.Driver
import Cvise.Gen.Regex
import Cvise.Gen.Parts
/-!
Models of the built-in text passes (`cvise/passes/*.py`) over `List Char` (a Python `str` after text-mode decoding;
see `Model/TextIO.lean` for the bytes ↔ str step).  Regular expressions, part lists, replacement recipes and tables are
the generated ones (`Gen/`), so these models are about what the sources say now.
-/
namespace Cvise.P
open Cvise Cvise.M Cvise.D

abbrev Text := List Char

structure TextPass (σ : Type) where
  new : Text → Option σ
  advance : Text → σ → Option σ
  aos : Text → σ → Option σ            -- text = the accepted candidate
  transform : Text → σ → PR × Text × σ

def rxo : RxO := rxOracle Gen.rxTable

/-! ### helpers -/

/-- `readlines()`: split after every newline, keeping it -/
def splitLines : Text → List Text
  | [] => []
  | s => go s [] []
where
  go : Text → Text → List Text → List Text
    | [], cur, acc => if cur.isEmpty then acc.reverse else (cur.reverse :: acc).reverse
    | c :: cs, cur, acc => if c = '\n' then go cs [] ((c :: cur).reverse :: acc) else go cs (c :: cur) acc

def rxTbl (id : Nat) : Rx := Gen.rxTable.getD id (.alt [])

/-- `re.match(pattern, line)` succeeds -/
def lineMatches (id : Nat) (line : Text) : Bool := (rxMatchAt (rxTbl id) (toArr line) 0).isSome
/-- `regex.search(line)` succeeds -/
def lineSearches (id : Nat) (line : Text) : Bool := (rxSearchFrom (rxTbl id) (toArr line) 0).isSome

/-- `re.sub(pattern, repl, s)` for patterns that never match the empty string -/
def rxSub (id : Nat) (repl : Text) (s : Text) : Text :=
  let ms := rxFindAll (rxTbl id) (toArr s) (s.length + 2) 0
  let rec build (ms : List (Nat × Nat × Caps)) (pos : Nat) (acc : Text) : Text :=
    match ms with
    | [] => acc ++ s.drop pos
    | (a, e, _) :: rest => build rest e (acc ++ (s.drop pos).take (a - pos) ++ repl)
  build ms 0 []

/-! ### balanced -/

structure BalCfg where
  o : Char
  c : Char
  pre : Option Nat
  recipe : Recipe

def balCfg (arg : String) : Option BalCfg :=
  (Gen.balancedCfg.find? (·.1 = arg)).map fun (_, o, c, pre, r) => ⟨o, c, pre, r⟩

def balFind (cfg : BalCfg) (s : Text) (pos : Int) : Option Span := find rxo cfg.o cfg.c cfg.pre s pos

def balTransformLoop (cfg : BalCfg) (s : Text) : Nat → Span → PR × Text × Span
  | 0, st => (.stop, s, st)
  | fuel+1, st =>
    let s2 := cfg.recipe.eval s [st.1, st.2]
    if s2 ≠ s then (.ok, s2, st)
    else match balFind cfg s (st.1 + 1) with
      | none => (.stop, s, st)
      | some st' => balTransformLoop cfg s fuel st'

def balanced (cfg : BalCfg) : TextPass Span where
  new := fun s => balFind cfg s 0
  advance := fun s st => balFind cfg s (st.1 + 1)
  aos := fun s st => balFind cfg s st.1
  transform := fun s st => balTransformLoop cfg s (s.length + 2) st

/-! ### ternary -/

def partIdx (parts : List (Pat × Option String)) (name : String) : Nat :=
  (parts.findIdx? (fun p => p.2 = some name)).getD 0

abbrev TernSt := Span × List Span     -- `all` and the span of every part

def ternSearch (s : Text) (pos : Int) : Option TernSt := search rxo (Gen.ternaryParts.map (·.1)) s pos true

def ternTransformLoop (arg : String) (s : Text) : Nat → TernSt → PR × Text × TernSt
  | 0, st => (.stop, s, st)
  | fuel+1, st =>
    let sp (n : String) : Span := st.2.getD (partIdx Gen.ternaryParts n) (0, 0)
    let keep := sp arg
    let s2 := s.take (sp "del1").2 ++ (s.take keep.2).drop keep.1 ++ s.drop (sp "del2").1
    if s2 ≠ s then (.ok, s2, st)
    else match ternSearch s (st.1.1 + 1) with
      | none => (.stop, s, st)
      | some st' => ternTransformLoop arg s fuel st'

def ternary (arg : String) : TextPass TernSt where
  new := fun s => ternSearch s 0
  advance := fun s st => ternSearch s (st.1.1 + 1)
  aos := fun s st => ternSearch s st.1.1
  transform := fun s st => ternTransformLoop arg s (s.length + 2) st

/-! ### peep -/

structure PeepSt where
  pos : Nat
  regex : Nat
deriving Repr, DecidableEq

def peepLim (arg : String) : Nat :=
  if arg = "a" then Gen.peepA.length else if arg = "b" then Gen.peepB.length else 1

def peepAdvance (arg : String) (s : Text) (st : PeepSt) : Option PeepSt :=
  let r := st.regex + 1
  let st' : PeepSt := if r ≥ peepLim arg then ⟨st.pos + 1, 0⟩ else ⟨st.pos, r⟩
  if st'.pos ≥ s.length then none else some st'

def peepTransform (arg : String) (s : Text) (st : PeepSt) : PR × Text × PeepSt :=
  if st.pos > s.length then (.stop, s, st) else
  let finish (s2 : Text) : PR × Text × PeepSt := if s2 ≠ s then (.ok, s2, st) else (.invalid, s, st)
  if arg = "a" then
    match Gen.peepA[st.regex]? with
    | none => (.crash, s, st)
    | some (parts, repl) =>
      match search rxo (parts.map (·.1)) s st.pos false with
      | none => (.invalid, s, st)
      | some (all, _) => finish (s.take all.1 ++ repl.toList ++ s.drop all.2)
  else if arg = "b" then
    match Gen.peepB[st.regex]? with
    | none => (.crash, s, st)
    | some (parts, repl) =>
      let front := if s.head? = some ',' then Gen.peepBorderOpt else Gen.peepBorder
      let back := if s.getLast? = some ',' then Gen.peepBorderOpt else Gen.peepBorder
      let ps := [front] ++ parts.map (·.1) ++ [back]
      match search rxo ps s st.pos false with
      | none => (.invalid, s, st)
      | some (_, spans) =>
        let d1 := spans.getD 0 (0, 0)
        let d2 := spans.getD (ps.length - 1) (0, 0)
        finish (s.take d1.2 ++ repl.toList ++ s.drop d2.1)
  else
    match search rxo (Gen.peepC.map (·.1)) s st.pos false with
    | none => (.invalid, s, st)
    | some (all, spans) =>
      let b := spans.getD (partIdx Gen.peepC "body") (0, 0)
      let body := rxSub Gen.peepCSub.1 Gen.peepCSub.2.toList ((s.take b.2).drop b.1)
      finish (s.take all.1 ++ body ++ s.drop all.2)

def peep (arg : String) : TextPass PeepSt where
  new := fun _ => some ⟨0, 0⟩
  advance := peepAdvance arg
  aos := fun _ st => some st
  transform := peepTransform arg

/-! ### comments -/

/-- state −2, −1 of the code are 0, 1 here -/
def commentsLoop (s : Text) : Nat → Nat → PR × Text × Nat
  | 0, st => (.stop, s, st)
  | fuel+1, st =>
    match Gen.commentsSubs[st]? with
    | none => (.stop, s, st)
    | some (id, repl) =>
      let s2 := rxSub id repl.toList s
      if s2 ≠ s then (.ok, s2, st) else commentsLoop s fuel (st + 1)

def comments : TextPass Nat where
  new := fun _ => some 0
  advance := fun _ st => some (st + 1)
  aos := fun _ st => some st
  transform := fun s st => commentsLoop s (Gen.commentsSubs.length + 1) st

/-! ### blank -/

def blankOne (s : Text) (id : Nat) : Option Text :=
  let ls := splitLines s
  let kept := ls.filter (fun l => !lineMatches id l)
  if kept.length = ls.length then none else some kept.flatten

def blankLoop (s : Text) : Nat → Nat → PR × Text × Nat
  | 0, st => (.stop, s, st)
  | fuel+1, st =>
    match Gen.blankPatterns[st]? with
    | none => (.stop, s, st)
    | some id =>
      match blankOne s id with
      | some s2 => (.ok, s2, st + 1)
      | none => blankLoop s fuel (st + 1)

def blank : TextPass Nat where
  new := fun _ => some 0
  advance := fun _ st => some (st + 1)
  aos := fun _ st => some st
  transform := fun s st => if st ≥ Gen.blankPatterns.length then (.stop, s, st) else blankLoop s (Gen.blankPatterns.length + 1) st

/-! ### includes -/

/-- remove the `n`-th (1-based) line matching the include pattern -/
def removeNth (id : Nat) : List Text → Nat → Option (List Text)
  | [], _ => none
  | l :: ls, n =>
    if lineMatches id l then
      if n = 1 then some ls else (removeNth id ls (n - 1)).map (l :: ·)
    else (removeNth id ls n).map (l :: ·)

def includes : TextPass Nat where
  new := fun _ => some 1
  advance := fun _ st => some (st + 1)
  aos := fun _ st => some st
  transform := fun s st =>
    if st = 0 then (.stop, s, st) else
    match removeNth Gen.includesRx (splitLines s) st with
    | some ls => (.ok, ls.flatten, st)
    | none => (.stop, s, st)

/-! ### lines (arg None) and line_markers -/

def linesPass : TextPass BS where
  new := fun s => BS.create (splitLines s).length
  advance := fun _ st => st.advance
  aos := fun s st => st.advanceOnSuccess (splitLines s).length
  transform := fun s st => (.ok, (cut (splitLines s) st.index st.end_).flatten, st)

/-- drop the marker lines whose running index is in `[lo, hi)` -/
def dropMarkers (id : Nat) (lo hi : Nat) : List Text → Nat → List Text
  | [], _ => []
  | l :: ls, i =>
    if lineSearches id l then
      (if i < lo ∨ i ≥ hi then [l] else []) ++ dropMarkers id lo hi ls (i + 1)
    else l :: dropMarkers id lo hi ls i

def markerCount (id : Nat) (s : Text) : Nat := ((splitLines s).filter (lineSearches id)).length

def lineMarkers : TextPass BS where
  new := fun s => BS.create (markerCount Gen.lineMarkersRx s)
  advance := fun _ st => st.advance
  aos := fun s st => st.advanceOnSuccess (markerCount Gen.lineMarkersRx s)
  transform := fun s st => (.ok, (dropMarkers Gen.lineMarkersRx st.index st.end_ (splitLines s) 0).flatten, st)

/-! ### ints and special: `finditer` modifications, applied back to front -/

structure ModSt where
  mods : List (Span × Text)    -- reversed order of occurrence
  index : Nat
deriving Repr, DecidableEq

def digitsOf (n : Nat) : Text := (Nat.repr n).toList

def hexVal (t : Text) : Nat :=
  -- int(x, 16) of `0x…` / `0X…`
  let ds := if t.take 2 = ['0', 'x'] ∨ t.take 2 = ['0', 'X'] then t.drop 2 else t
  ds.foldl (fun acc c =>
    let v := if c.isDigit then c.toNat - 48 else if 'a' ≤ c ∧ c ≤ 'f' then c.toNat - 87 else if 'A' ≤ c ∧ c ≤ 'F' then c.toNat - 55 else 0
    16 * acc + v) 0

def grpText (s : Text) (c : Caps) (id : Nat) : Text :=
  match capOf c id with
  | some (a, e) => (s.take e).drop a
  | none => []

def evalRPiece (s : Text) (c : Caps) : RPiece → Text
  | .grp id => grpText s c id
  | .const k => k.toList
  | .hexToDec id => digitsOf (hexVal (grpText s c id))
  | .firstField id sep => (grpText s c id).takeWhile (fun ch => ch.toNat ≠ sep)

def modsOf (id : Nat) (rec : List RPiece) (s : Text) : List (Span × Text) :=
  ((rxFindAll (rxTbl id) (toArr s) (s.length + 2) 0).map fun (a, e, c) => ((a, e), rec.flatMap (evalRPiece s c))).reverse

def modNew (id : Nat) (rec : List RPiece) (s : Text) : Option ModSt :=
  let ms := modsOf id rec s
  if ms.isEmpty then none else some ⟨ms, 0⟩

def modPass (id : Nat) (rec : List RPiece) : TextPass ModSt where
  new := modNew id rec
  advance := fun _ st => if st.index + 1 ≥ st.mods.length then none else some { st with index := st.index + 1 }
  aos := fun s _ => modNew id rec s
  transform := fun s st =>
    match st.mods[st.index]? with
    | none => (.crash, s, st)
    | some ((a, e), r) => (.ok, s.take a ++ r ++ s.drop e, st)

def intsPass (arg : String) : Option (TextPass ModSt) :=
  (Gen.intsCfg.find? (·.1 = arg)).map fun (_, id, rec) => modPass id rec
def specialPass (arg : String) : Option (TextPass ModSt) :=
  (Gen.specialCfg.find? (·.1 = arg)).map fun (_, id, rec) => modPass id rec

/-! ### driving a pass through an accept/reject history (the reference loop, for the correspondence check) -/

/-- one observation per candidate: (result, candidate text); `accept` letters advance on success when the result is OK -/
def runHistory {σ : Type} (P : TextPass σ) : List Bool → Text → Option σ → List (PR × Text) → List (PR × Text) × Bool
  | [], _, st, acc => (acc, st.isSome)
  | _ :: _, _, none, acc => (acc, false)
  | a :: hs, s, some st, acc =>
    let (pr, s2, st2) := P.transform s st
    let acc := acc ++ [(pr, s2)]
    if pr = .stop ∨ pr = .error ∨ pr = .crash then (acc, false)
    else if a ∧ pr = .ok then runHistory P hs s2 (P.aos s2 st2) acc
    else runHistory P hs s (P.advance s st) acc

end Cvise.P
