/-! The counter protocol of clang_delta: the order of the protocol clauses in a `HandleTranslationUnit` body, and
    what `TransformationManager::doTransformation` / `main` make of the result. -/
namespace Cvise.CD

/-- clause kinds of a `HandleTranslationUnit` body, in source order -/
inductive Cl
  | q      -- `if (QueryInstanceOnly) return;`
  | c      -- `if (TransformationCounter > ValidInstanceNum) { TransError = TransMaxInstanceError; return; }`
  | w      -- `if (!checkCounterValidity()) return;`  (the same, but only a warning under --warn-on-counter-out-of-bounds)
  | r      -- a statement that (transitively, by name) reaches `TheRewriter` / `RewriteHelper`
  | x      -- a `return` that sets no error and is not the query return (taken under a condition the model cannot see)
  | n      -- anything else
deriving Repr, DecidableEq

structure Reg where
  name : String
  cls : String
  file : String
  multi : Bool
  skel : Option (List Cl)
deriving Repr

structure In where
  queryOnly : Bool
  tooBig : Bool        -- counter (or to-counter) > number of instances
  warn : Bool          -- --warn-on-counter-out-of-bounds
  silent : Bool := false   -- the condition of an `x` clause holds (e.g. the input language it special-cases)
deriving Repr

structure Out where
  rewrote : Bool := false
  maxInstanceError : Bool := false
deriving Repr, DecidableEq

def run : List Cl → In → Out → Out
  | [], _, o => o
  | .q :: rest, i, o => if i.queryOnly then o else run rest i o
  | .c :: rest, i, o => if i.tooBig then { o with maxInstanceError := true } else run rest i o
  | .w :: rest, i, o => if i.tooBig && !i.warn then { o with maxInstanceError := true } else run rest i o
  | .r :: rest, i, o => run rest i { o with rewrote := true }
  | .x :: rest, i, o => if i.silent then o else run rest i o
  | .n :: rest, i, o => run rest i o

/-- no rewriting clause and no silent return before the first clause satisfying `p`, and such a clause exists -/
def guardedBy (p : Cl → Bool) : List Cl → Bool
  | [] => false
  | k :: rest => if p k then true else if k = .r || k = .x then false else guardedBy p rest

def isQ : Cl → Bool | .q => true | _ => false
def isC : Cl → Bool | .c => true | .w => true | _ => false

/-- well-formed body: a query return and a counter check both precede every rewriting clause, and the extractor found
    the rewriting (otherwise the unit is unverified, not vacuously fine) -/
def wf (sk : List Cl) : Bool := guardedBy isQ sk && guardedBy isC sk && sk.contains .r

/-- exit status of the tool for a transformation run (`doTransformation` + `main`/`Die`), as an `int` before truncation -/
def exitOf (invalidCounterCode defaultError : Int) (o : Out) : Int :=
  if o.maxInstanceError then invalidCounterCode else 0

end Cvise.CD
