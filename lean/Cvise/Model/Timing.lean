/-! Pass timing (`PassStatistic.start/stop`, the elapsed time of `cvise.py`): a run is a sequence of clock readings
    `T₀, s₁, e₁, s₂, e₂, …, T₁` (start of the reduction, start/stop of every pass run, end of the reduction), all taken
    from one clock.  Times are integers (any unit). -/
namespace Cvise.Tm

/-- total time attributed to passes: Σ (eᵢ − sᵢ) -/
def attributed : List (Int × Int) → Int
  | [] => 0
  | (s, e) :: rest => (e - s) + attributed rest

/-- the readings are in order: `lo ≤ s₁ ≤ e₁ ≤ s₂ ≤ … ≤ hi` (what a monotonic clock guarantees, since the pass runs do
    not overlap: `start` asserts that no pass is running) -/
def Ordered (lo : Int) : List (Int × Int) → Int → Prop
  | [], hi => lo ≤ hi
  | (s, e) :: rest, hi => lo ≤ s ∧ s ≤ e ∧ Ordered e rest hi

/-- what a wall clock stepped between two readings does to one interval -/
def stepped (s e step : Int) : Int := (e + step) - s

end Cvise.Tm
