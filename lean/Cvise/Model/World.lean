/-! L3: the bookkeeping of `testing.py` / `cvise.py` that touches the outside world, as small pure models:
    * the life of the pass root directory along every exit of `run_pass` (C08),
    * what a candidate's private directory contains (C05),
    * `backup_test_cases` over a file map (C04),
    * the start-up validation of `TestManager.__init__` / `CVise.reduce` and the rendering of the errors (C17).
    The *shape* facts (`Shape`, `Validation`) are read from the current source by the translator. -/
namespace Cvise.W

/-! ### C08: temporary directories -/

/-- control-flow facts of `run_pass`, regenerated -/
structure Shape where
  rootAfterZeroCheck : Bool     -- `create_root()` comes after the `total_file_size == 0` raise
  removeRootOnError : Bool      -- some handler for exceptions other than KeyboardInterrupt removes the root and re-raises
  removeRootOnInterrupt : Bool
  removeRootOnReturn : Bool
  sanityDirRemoved : Bool       -- check_sanity removes its directory on success, and on failure unless save_temps
  candidateDirsInsideRoot : Bool -- candidate directories are created with `dir=self.root`
  killAfterEveryRound : Bool := true   -- `kill_pid_queue()` follows every `run_parallel_tests()` unconditionally
  killOnError : Bool := true           -- the handler for exceptions other than KeyboardInterrupt calls `kill_pid_queue()`
  killOnInterrupt : Bool := true
  setupBeforeRoot : Bool := true       -- between `create_root()` and the `try` only the statistics are started: whatever can
                                       -- fail while the pass is set up (the key reader) comes before the root exists
deriving Repr, DecidableEq

inductive PassExit | gated | zeroSize | normal | cviseError | foreign | interrupt | setupFails
deriving Repr, DecidableEq

/-- is the pass root still on disk after `run_pass` left through this exit -/
def rootLeft (sh : Shape) (saveTemps : Bool) : PassExit → Bool
  | .gated => false                                        -- returned before anything was created
  | .zeroSize => !sh.rootAfterZeroCheck && !(false)         -- created before the raise, nothing removes it
  | .normal => saveTemps || !sh.removeRootOnReturn
  | .cviseError => saveTemps || !sh.removeRootOnError
  | .foreign => saveTemps || !sh.removeRootOnError
  | .interrupt => saveTemps || !sh.removeRootOnInterrupt
  | .setupFails => !sh.setupBeforeRoot                     -- raised outside the `try`: no handler removes anything

/-- can a test script announced as started (and its children) still be running after `run_pass` left through this exit?
    Workers are torn down with the pool; the scripts they started are only reached by `kill_pid_queue()` -/
def scriptsLeft (sh : Shape) : PassExit → Bool
  | .gated => false
  | .zeroSize => false                               -- nothing was started yet
  | .normal => !sh.killAfterEveryRound
  | .cviseError => !sh.killOnError
  | .foreign => !sh.killOnError
  | .interrupt => !sh.killOnInterrupt
  | .setupFails => false                             -- nothing was started yet

/-- candidate directories outlive the pass only if the root does (they live inside it) or they were moved out on purpose
    (`cvise_extra_*`, which is in the working directory, not under TMPDIR) -/
def candidateDirsLeft (sh : Shape) (saveTemps : Bool) (e : PassExit) : Bool :=
  if sh.candidateDirsInsideRoot then rootLeft sh saveTemps e else true

/-! ### C05: contents of a candidate's private directory -/

abbrev Bytes := List Nat
abbrev FS := List (String × Bytes)        -- relative path ↦ contents

/-- `TestEnvironment.__init__`: every test case copied to its relative path -/
def envInit (disk : FS) : FS := disk

/-- after `transform` of file `cur` with a pass that leaves `scratch` extra entries next to it -/
def envAfterTransform (disk : FS) (cur : String) (cand : Bytes) (scratch : List String) : FS :=
  (disk.map fun (p, b) => if p = cur then (p, cand) else (p, b)) ++ scratch.map (fun s => (s, []))

/-! ### C04: originals -/

def lookupFS (fs : FS) (p : String) : Option Bytes := fs.lookup p

/-- `backup_test_cases`: copy `f` to `f.orig` only if that does not exist -/
def backup (fs : FS) : List String → FS
  | [] => fs
  | f :: rest =>
    match lookupFS fs (f ++ ".orig"), lookupFS fs f with
    | none, some b => backup (fs ++ [(f ++ ".orig", b)]) rest
    | _, _ => backup fs rest

/-- the permission bits of the test cases along one `run_pass`: whatever the pass and `process_result` do to them in between
    (`steps`: a pass that rewrites the file through a private temporary file leaves 0600), `restore_mode()` puts the modes
    recorded at start-up back — if it is called when the pass completes (`restoreAtEnd`, read from the source) -/
def passModes (restoreAtEnd : Bool) (orig : List Nat) (steps : List (List Nat → List Nat)) : List Nat :=
  let m := steps.foldl (fun m f => f m) orig
  if restoreAtEnd then orig else m

/-! ### C17: start-up validation -/

structure Validation where
  accessBeforeStat : Bool        -- the F_OK/R_OK/W_OK check precedes the first `stat()` of the test case
  refusesDotDot : Bool           -- a test-case path with a `..` component is refused
  unknownArgRenders : Bool       -- `str(UnknownArgumentError(cls_name, arg))` does not dereference `.__name__` of a str
  ternaryValidatesInNew : Bool
  indentValidatesInNew : Bool
deriving Repr, DecidableEq

structure TestCase where
  path : String
  exists_ : Bool
  readable : Bool
  writable : Bool
  absolute : Bool
  dotdot : Bool
deriving Repr

inductive CErr
  | invalidTestCase (path : String) (what : String)
  | absolutePath (path : String)
  | dotDotPath (path : String)
  | invalidTest (path : String)
  | insane (paths : List String) (test : String)
  | unknownArgument (cls arg : String)
deriving Repr, DecidableEq

/-- outcome of construction: a C-Vise error, a foreign exception (name), or success -/
inductive Ctor | ok | cvise (e : CErr) | foreign (name : String)
deriving Repr, DecidableEq

def checkCase (v : Validation) (t : TestCase) : Option Ctor :=
  if !v.accessBeforeStat && !t.exists_ then some (.foreign "FileNotFoundError")
  else if !t.exists_ then some (.cvise (.invalidTestCase t.path "accessed"))
  else if !t.readable then some (.cvise (.invalidTestCase t.path "read"))
  else if !t.writable then some (.cvise (.invalidTestCase t.path "written"))
  else if t.absolute then some (.cvise (.absolutePath t.path))
  else if v.refusesDotDot && t.dotdot then some (.cvise (.dotDotPath t.path))
  else none

def construct (v : Validation) (cases : List TestCase) (scriptPath : String) (scriptOK : Bool) : Ctor :=
  match cases.findSome? (checkCase v) with
  | some r => r
  | none => if scriptOK then .ok else .cvise (.invalidTest scriptPath)

/-- `str(err)`: `none` = rendering raises -/
def render (v : Validation) : CErr → Option String
  | .invalidTestCase p w => some ("The specified test case '" ++ p ++ "' cannot be " ++ w ++ "!")
  | .absolutePath p => some ("Test case path cannot be absolute: '" ++ p ++ "'!")
  | .dotDotPath p => some ("Test case path cannot contain '..': '" ++ p ++ "'!")
  | .invalidTest p => some ("The specified interestingness test '" ++ p ++ "' cannot be executed!")
  | .insane ps t => some ("C-Vise cannot run because the interestingness test does not return zero. " ++ " ".intercalate ps ++ " " ++ t)
  | .unknownArgument c a => if v.unknownArgRenders then some ("The argument '" ++ a ++ "' is not valid for pass '" ++ c ++ "'!") else none

end Cvise.W
