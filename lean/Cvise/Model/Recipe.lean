/-! slice-and-concatenate recipes (`string[a:b] + "c" + string[d:]`) as data, with Python slice semantics
    for non-negative indices (indices clamp to the length; an empty or inverted range is empty) -/
namespace Cvise

inductive Bound
  | abs (k : Nat)                 -- a literal index
  | len                           -- omitted upper bound
  | m (idx : Nat) (off : Int)     -- match[idx] + off
deriving Repr, DecidableEq

inductive Piece
  | slice (a b : Bound)
  | const (s : String)
deriving Repr, DecidableEq

abbrev Recipe := List Piece

def Bound.eval (b : Bound) (n : Nat) (mt : List Nat) : Nat :=
  match b with
  | .abs k => k
  | .len => n
  | .m idx off => ((mt.getD idx 0 : Int) + off).toNat

def pySlice (s : List Char) (a b : Nat) : List Char := (s.take b).drop a

def Piece.eval (p : Piece) (s : List Char) (mt : List Nat) : List Char :=
  match p with
  | .slice a b => pySlice s (a.eval s.length mt) (b.eval s.length mt)
  | .const c => c.toList

def Recipe.eval (r : Recipe) (s : List Char) (mt : List Nat) : List Char :=
  r.flatMap (·.eval s mt)

end Cvise

namespace Cvise

/-- pieces of a regex replacement function `replace_fn(m)` -/
inductive RPiece
  | grp (id : Nat)                       -- m.group(id)
  | const (s : String)
  | hexToDec (id : Nat)                  -- str(int(m.group(id), 16))
  | firstField (id : Nat) (sep : Nat)    -- m.group(id).split(chr(sep))[0]
deriving Repr, DecidableEq

end Cvise
