/-! Model of `CVise.parse_pass_group_dict`: filtering a pass-group dictionary by the active options.
    `eager = false` is the code as shipped (an entry is validated only if the include/exclude filter lets it through);
    `eager = true` validates the pass name and the option lists of every entry first. -/
namespace Cvise.PG

structure Entry where
  pass? : Option String
  arg : Option String := none
  incl : Option (List String) := none
  excl : Option (List String) := none
  c : Bool := false              -- truthiness of the "c" value
  ren : Bool := false
  maxT : Option Nat := none
deriving Repr, DecidableEq

structure Opts where
  active : List String           -- subset of the valid option names
  removed : List String          -- `--remove-pass` split at commas
  notC : Bool
  ren : Bool
deriving Repr

/-- what the parser knows: option names and pass name ↦ class name -/
structure Known where
  options : List String
  passes : List (String × String)

inductive PErr
  | missingCategory (cat : String)
  | invalidPass (cat : String)
  | unknownPass (name : String)
  | badOption (opt : String)
deriving Repr, DecidableEq

structure Sel where
  cls : String
  arg : Option String
  maxT : Option Nat
deriving Repr, DecidableEq

/-- `parse_options`: the first unknown option raises -/
def badOpt (K : Known) (l : List String) : Option String := l.find? (fun o => !K.options.contains o)

def meets (l active : List String) : Bool := l.any (fun o => active.contains o)

/-- `str(pass_instance)` before max_transforms is set -/
def reprOf (cls : String) (arg : Option String) : String :=
  match arg with
  | some a => cls ++ "::" ++ a
  | none => cls

/-- the include/exclude filter in evaluation order (`and` short-circuits: exclude is parsed only if include passes) -/
def includePass (K : Known) (o : Opts) (e : Entry) : Except PErr Bool :=
  let inc : Except PErr Bool := match e.incl with
    | none => .ok true
    | some l => match badOpt K l with
      | some b => .error (.badOption b)
      | none => .ok (meets l o.active)
  match inc with
  | .error x => .error x
  | .ok false => .ok false
  | .ok true => match e.excl with
    | none => .ok true
    | some l => match badOpt K l with
      | some b => .error (.badOption b)
      | none => .ok (!meets l o.active)

/-- validation of one entry that does not depend on the options -/
def validate (K : Known) (cat : String) (e : Entry) : Except PErr String :=
  match e.incl.bind (badOpt K) with
  | some b => .error (.badOption b)
  | none => match e.excl.bind (badOpt K) with
    | some b => .error (.badOption b)
    | none => match e.pass? with
      | none => .error (.invalidPass cat)
      | some n => match K.passes.lookup n with
        | none => .error (.unknownPass n)
        | some cls => .ok cls

/-- one entry: `none` = skipped, `some sel` = scheduled -/
def entry (eager : Bool) (K : Known) (o : Opts) (cat : String) (e : Entry) : Except PErr (Option Sel) :=
  let pre : Except PErr Unit := if eager then (validate K cat e).map (fun _ => ()) else .ok ()
  match pre with
  | .error x => .error x
  | .ok () =>
    match includePass K o e with
    | .error x => .error x
    | .ok false => .ok none
    | .ok true =>
      match e.pass? with
      | none => .error (.invalidPass cat)
      | some n => match K.passes.lookup n with
        | none => .error (.unknownPass n)
        | some cls =>
          if o.removed.contains (reprOf cls e.arg) then .ok none
          else if o.notC && e.c then .ok none
          else if !o.ren && e.ren then .ok none
          else .ok (some { cls := cls, arg := e.arg, maxT := e.maxT })

def entries (eager : Bool) (K : Known) (o : Opts) (cat : String) : List Entry → Except PErr (List Sel)
  | [] => .ok []
  | e :: es =>
    match entry eager K o cat e with
    | .error x => .error x
    | .ok r => match entries eager K o cat es with
      | .error x => .error x
      | .ok rs => .ok (match r with | some s => s :: rs | none => rs)

def categories : List String := ["first", "main", "last"]

/-- the dictionary: category ↦ entries (absent categories are absent from the list) -/
abbrev Group := List (String × List Entry)

def parseCats (eager : Bool) (K : Known) (o : Opts) (g : Group) : List String → Except PErr (List (String × List Sel))
  | [] => .ok []
  | cat :: cs =>
    match g.lookup cat with
    | none => .error (.missingCategory cat)
    | some es => match entries eager K o cat es with
      | .error x => .error x
      | .ok sel => match parseCats eager K o g cs with
        | .error x => .error x
        | .ok rest => .ok ((cat, sel) :: rest)

def parse (eager : Bool) (K : Known) (o : Opts) (g : Group) : Except PErr (List (String × List Sel)) :=
  parseCats eager K o g categories

/-! the documented rule -/
def inclOk (o : Opts) (e : Entry) : Bool := match e.incl with | none => true | some l => meets l o.active
def exclOk (o : Opts) (e : Entry) : Bool := match e.excl with | none => true | some l => !meets l o.active

def selected (o : Opts) (e : Entry) (cls : String) : Bool :=
  inclOk o e && exclOk o e &&
  !o.removed.contains (reprOf cls e.arg) &&
  !(o.notC && e.c) && !(!o.ren && e.ren)

end Cvise.PG
