import Cvise.Model.Round
/-!
L1 with side state and L2: `check_pass_result`, `process_done_futures`, `wait_for_first_success`,
`run_parallel_tests`, `run_pass` (file loop, cache, limits, growth bail-out), `reduce` (first / main / last).

Contents are an abstract type `C` with a byte size.  The pass is an interface of four functions, the interestingness
test is a function of the joint contents, the round id and the candidate order (so per-invocation faults can be
assigned), the schedule is an oracle.  Everything the round touches besides the verdict lives in `Side`, so a round
cannot change the files or the cache *by typing*.
-/
namespace Cvise.D

inductive PR | ok | invalid | stop | error | crash deriving DecidableEq, Repr, Inhabited
/-- what became of the test of one candidate: exit code (negative = killed by a signal), timeout of the whole
    candidate, a foreign exception delivered by the pool, or `broken` (the worker swallowed an exception and left
    `exitcode = None`) -/
inductive Exit | code (n : Int) | timeout | foreign | broken deriving DecidableEq, Repr, Inhabited

structure PassI (C σ : Type) where
  key : Nat                       -- repr(pass): class, argument, max_transforms
  maxT : Option Nat
  new : C → Option σ
  advance : C → σ → Option σ
  aos : C → σ → Option σ          -- advance_on_success, given the accepted candidate
  transform : C → σ → PR × C × σ
  /-- `new` may rewrite the test case in place before enumerating (LinesPass reformats through topformflat): the
      alternatives it tries, in order; each is kept only if the sanity check passes on it.  `[]`: `new` leaves the file alone -/
  fmt : C → List C := fun _ => []
  /-- if no alternative passes the sanity check the file is restored; `bail`: the pass then gives up (`new` returns None) -/
  bail : Bool := false

structure Cfg where
  cacheOn : Bool := true
  jointKey : Bool := true      -- the replay table is keyed on the contents of all test cases (false: of the one file only)
  maxImp : Option Int := none
  skipN : Option Nat := none
  silent : Bool := false
  die : Bool := false
  noGiveUp : Bool := false
  alsoInteresting : Option Int := none
  giveup : Nat := 50000
  maxTimeouts : Nat := 20
  maxCrash : Nat := 10
  maxExtra : Nat := 25000
  growth : Nat := 3
  releaseBeforeBail : Bool := false   -- does the growth bail-out release the round's futures first? (read from the source)
deriving Repr

inductive Ev (C : Type)
  | tested (joint : List C) (e : Exit)      -- at commit: what the winning test saw and how it exited
  | commit (pass : Nat) (file : Nat) (content : C)
  | replay (pass : Nat) (file : Nat) (content : C)
  | sched (pass : Nat) (order : Nat)
  | fail (pass : Nat)
  | bugdir | extradir
deriving Repr

/-- everything a round may touch -/
structure Side (C : Type) where
  bug : Nat := 0            -- cvise_bug_* directories that exist
  extra : Nat := 0          -- cvise_extra_* directories that exist
  failed : Nat → Nat := fun _ => 0      -- per pass key, as `PassStatistic.stats[repr(pass)]`
  worked : Nat → Nat := fun _ => 0
  executed : Nat → Nat := fun _ => 0
  curPass : Nat := 0        -- key of the pass being run
  timeouts : Nat := 0       -- ghost: candidates found timed out by the scan so far (not a field of the code)
  log : List (Ev C) := []

/-- `f[k] += 1` -/
def bump (f : Nat → Nat) (k : Nat) : Nat → Nat := fun p => if p = k then f p + 1 else f p

structure St (C : Type) where
  disk : List C
  cache : List ((Nat × List C × Nat) × C) := []    -- (pass key, joint contents before, file index) ↦ file after
  leftover : Bool := false  -- futures of a round left in `self.futures` (growth bail-out without release)
  side : Side C := {}

inductive Err | zeroSize | passBug (why : Nat) | assertion | foreign | fileNotFound deriving Repr, DecidableEq
inductive Outcome | accept | ignore | quit | raise (e : Err) deriving Repr, DecidableEq

/-- result of running one env (transform + test), a pure function of the round's base files -/
structure EnvRes (C σ : Type) where
  order : Nat
  pr : PR
  cand : C
  st : σ
  exit : Option Exit     -- none: test not run

/-- report_pass_bug: returns (created?, side') ; with `die` the caller raises -/
def reportBug {C} (cfg : Cfg) (g : Side C) : Bool × Side C :=
  if g.bug ≤ cfg.maxCrash then (true, { g with bug := g.bug + 1, log := g.log ++ [.bugdir] }) else (false, g)

def saveExtra {C} (cfg : Cfg) (g : Side C) : Side C :=
  if g.extra ≤ cfg.maxExtra then { g with extra := g.extra + 1, log := g.log ++ [.extradir] } else g

/-- `test_env.success and within max_improvement and changed`: the only way to ACCEPT -/
def isAccept {C σ} [DecidableEq C] (cfg : Cfg) (size : C → Nat) (cur : C) (e : EnvRes C σ) : Bool :=
  e.pr = .ok && e.exit = some (.code 0) &&
  !(match cfg.maxImp with | some m => decide ((size cur : Int) - size e.cand > m) | none => false) &&
  !(e.cand = cur)

/-- check_pass_result; `gu` = giveup_reported -/
def check {C σ} [DecidableEq C] (cfg : Cfg) (size : C → Nat) (cur : C) (e : EnvRes C σ) (g : Side C) (gu : Bool) :
    Outcome × Side C × Bool :=
  if e.pr = .ok ∧ e.exit = some (.code 0) then
    if (match cfg.maxImp with | some m => decide ((size cur : Int) - size e.cand > m) | none => false) then (.ignore, g, gu)
    else if e.cand = cur then
      if !cfg.silent then
        let (made, g') := reportBug cfg g
        if made && cfg.die then (.raise (.passBug 0), g', gu)
        else if !made then (.quit, g', gu) else (.ignore, g', gu)
      else (.ignore, g, gu)
    else (.accept, g, gu)
  else
    let g := { g with failed := bump g.failed g.curPass, log := g.log ++ [.fail g.curPass] }
    -- `moved`: the candidate file was moved into a cvise_extra_* directory just before (also_interesting)
    let fall (g : Side C) (moved : Bool := false) : Outcome × Side C × Bool :=
      if !cfg.noGiveUp && e.order > cfg.giveup then
        if !gu then
          let (made, g') := reportBug cfg g
          if made && moved then (.raise .fileNotFound, g', gu)      -- `dump` copies a file that is no longer there
          else if made && cfg.die then (.raise (.passBug 2), g', true) else (.quit, g', true)
        else (.quit, g, gu)
      else (.ignore, g, gu)
    match e.pr with
    | .ok =>
      match e.exit with
      | some (.code n) =>
        let hit := match cfg.alsoInteresting with
          | some a => decide (n = a)
          | none => false
        let moved := hit && decide (g.extra ≤ cfg.maxExtra)
        let g := if hit then saveExtra cfg g else g
        fall g moved
      | _ => (.raise .assertion, g, gu)      -- `assert test_env.exitcode` on `None`
    | .stop => (.quit, g, gu)
    | .error =>
      if !cfg.silent then
        let (made, g') := reportBug cfg g
        if made && cfg.die then (.raise (.passBug 1), g', gu) else (.quit, g', gu)
      else fall g
    | _ => fall g

structure RS where   -- round-local
  tc : Nat := 0
  gu : Bool := false
deriving Repr

abbrev RRes (C : Type) (α : Type) := (α × Side C) ⊕ (Err × Side C)

/-- process_done_futures over the ordered in-flight list -/
def processDone {C σ} [DecidableEq C] (cfg : Cfg) (size : C → Nat) (cur : C) (env : Nat → EnvRes C σ) (done : Nat → Bool) :
    List Nat → Side C → RS → Bool → RRes C (List Nat × RS × Bool)
  | [], g, rs, q => .inl (([], rs, q), g)
  | i :: rest, g, rs, q =>
    if q then processDone cfg size cur env done rest g rs q
    else if done i then
      match (env i).exit with
      | some .timeout =>
        let rs := { rs with tc := rs.tc + 1 }
        let g := saveExtra cfg { g with timeouts := g.timeouts + 1 }
        processDone cfg size cur env done rest g rs (decide (rs.tc ≥ cfg.maxTimeouts))
      | some .foreign => .inr (.foreign, g)
      | _ =>
        match check cfg size cur (env i) g rs.gu with
        | (.accept, g, gu) =>
          match processDone cfg size cur env done rest g { rs with gu := gu } true with
          | .inl ((k, rs, q), g) => .inl ((i :: k, rs, q), g)
          | .inr e => .inr e
        | (.ignore, g, gu) => processDone cfg size cur env done rest g { rs with gu := gu } false
        | (.quit, g, gu) => processDone cfg size cur env done rest g { rs with gu := gu } true
        | (.raise e, g, _) => .inr (e, g)
    else
      match processDone cfg size cur env done rest g rs false with
      | .inl ((k, rs, q), g) => .inl ((i :: k, rs, q), g)
      | .inr e => .inr e

/-- wait_for_first_success -/
def wfs {C σ} [DecidableEq C] (cfg : Cfg) (size : C → Nat) (cur : C) (env : Nat → EnvRes C σ) :
    List Nat → Side C → RS → RRes C (Option Nat)
  | [], g, _ => .inl (none, g)
  | i :: rest, g, rs =>
    match (env i).exit with
    | some .timeout => wfs cfg size cur env rest g rs
    | some .foreign => .inr (.foreign, g)
    | _ =>
      match check cfg size cur (env i) g rs.gu with
      | (.accept, g, _) => .inl (some i, g)
      | (.raise e, g, _) => .inr (e, g)
      | (_, g, gu) => wfs cfg size cur env rest g { rs with gu := gu }

/-- run_parallel_tests; `more t` says whether a `t`-th cursor exists (the enumeration has not ended) -/
def roundLoop {C σ} [DecidableEq C] (cfg : Cfg) (size : C → Nat) (pkey : Nat) (cur : C) (env : Nat → EnvRes C σ) (more : Nat → Bool)
    (done : Nat → Nat → Bool) : Nat → Nat → List Nat → Side C → RS → RRes C (Option Nat)
  | 0, _, _, g, _ => .inl (none, g)         -- out of fuel (only for non-terminating enumerations)
  | fuel+1, t, futs, g, rs =>
    match processDone cfg size cur env (done t) futs g rs false with
    | .inr e => .inr e
    | .inl ((futs', rs, quit), g) =>
      if quit then wfs cfg size cur env futs' g rs
      else
        let g := { g with executed := bump g.executed g.curPass, log := g.log ++ [.sched pkey (t+1)] }
        let futs'' := futs' ++ [t]
        if more (t+1) then roundLoop cfg size pkey cur env more done fuel (t+1) futs'' g rs
        else wfs cfg size cur env futs'' g rs

/-- the cursors of a round: s, advance s, advance (advance s), … -/
def nthState {C σ} (P : PassI C σ) (cur : C) (s : σ) : Nat → Option σ
  | 0 => some s
  | n+1 => (nthState P cur s n).bind (P.advance cur)

/-- the schedule oracle: round id, iteration, env index ↦ is that future done when the scan looks -/
abbrev Sched := Nat → Nat → Nat → Bool

structure World (C : Type) where
  size : C → Nat
  test : List C → Exit                      -- the interestingness test: a deterministic function of the joint contents
  fault : Nat → Nat → Option Exit           -- per-invocation fault (round id, order): overrides the test's answer

/-- the env of candidate `i` of a round that starts from cursor `s` on `disk` (file `k` being reduced) -/
def envOf {C σ} [Inhabited σ] (W : World C) (P : PassI C σ) (disk : List C) (k : Nat) (cur : C) (s : σ) (rid : Nat) (i : Nat) : EnvRes C σ :=
  match nthState P cur s i with
  | none => { order := i+1, pr := .crash, cand := cur, st := default, exit := none }
  | some si =>
    let (pr, c', s') := P.transform cur si
    let ex := match W.fault rid (i+1) with
      | some .timeout => some .timeout            -- the pool reports a timeout whatever the worker was doing
      | some .foreign => some .foreign
      | some f => if pr = .ok then some f else none
      | none => if pr = .ok then some (W.test (disk.set k c')) else none
    { order := i+1, pr := pr, cand := c', st := s', exit := ex }

def limitHit (o : Option Nat) (succ : Nat) : Bool :=
  match o with
  | some n => n != 0 && succ ≥ n      -- Python truthiness: a limit of 0 is "no limit"
  | none => false

abbrev LRes (C : Type) := (St C × Nat) ⊕ (Err × St C)

/-- `process_result`: the winning candidate replaces file `k` -/
def commitSt {C} (x : St C) (k : Nat) (cand : C) (g : Side C) : St C := { x with disk := x.disk.set k cand, side := g }

/-- all rounds on one file (the `while self.state is not None` loop of `run_pass`) -/
def fileLoop {C σ} [DecidableEq C] [Inhabited σ] [Inhabited C] (cfg : Cfg) (W : World C) (dn : Sched) (P : PassI C σ) (k : Nat) (startSize : Nat) :
    Nat → Nat → σ → Nat → St C → LRes C     -- fuel, round id, state, success count
  | 0, rid, _, _, x => .inl (x, rid)
  | fuel+1, rid, s, succ, x =>
    if x.leftover then .inr (.assertion, x) else     -- `assert not self.futures` in run_parallel_tests
    let cur := x.disk.getD k default
    let env := envOf W P x.disk k cur s rid
    let more := fun t => (nthState P cur s t).isSome
    match roundLoop cfg W.size P.key cur env more (dn rid) (cfg.giveup + 1000) 0 [] x.side {} with
    | .inr (e, g) => .inr (e, { x with side := g })
    | .inl (none, g) => .inl ({ x with side := g }, rid + 1)
    | .inl (some i, g) =>
      let e := env i
      let tested := match e.exit with | some ex => [Ev.tested (x.disk.set k e.cand) ex] | none => []
      let g := { g with worked := bump g.worked g.curPass, log := g.log ++ tested ++ [.commit P.key k e.cand] }
      let x := commitSt x k e.cand g
      let succ := succ + 1
      if W.size e.cand ≥ cfg.growth * startSize then .inl ({ x with leftover := !cfg.releaseBeforeBail }, rid + 1)
      else
        match P.aos e.cand e.st with
        | none => .inl (x, rid + 1)
        | some s' =>
          if limitHit cfg.skipN succ || limitHit P.maxT succ then .inl (x, rid + 1)
          else fileLoop cfg W dn P k startSize fuel (rid + 1) s' succ x

def totalSize {C} (size : C → Nat) (disk : List C) : Nat := (disk.map size).foldl (· + ·) 0

/-- the in-place rewriting a pass's `new` may do (`LinesPass.__format` with the `check_sanity` callback): the first
    alternative on which the interestingness test — run directly, on a copy of all test cases — exits 0 is kept;
    if there is none the file is as before and the pass may give up.  Returns the state and the content enumeration
    starts from (`none`: the pass gave up) -/
def fmtStep {C σ} [DecidableEq C] (W : World C) (P : PassI C σ) (x : St C) (k : Nat) (before : C) : St C × Option C :=
  match P.fmt before with
  | [] => (x, some before)
  | c :: cs =>
    match (c :: cs).find? (fun c' => W.test (x.disk.set k c') = .code 0) with
    | some c' => ({ x with disk := x.disk.set k c' }, some c')
    | none => (x, if P.bail then none else some before)

/-- `new` + all rounds on one file -/
def newLoop {C σ} [DecidableEq C] [Inhabited σ] [Inhabited C] (cfg : Cfg) (W : World C) (dn : Sched) (P : PassI C σ) (k : Nat) (fuel rid : Nat)
    (x : St C) (before : C) : LRes C :=
  match (fmtStep W P x k before).2 with
  | none => .inl ((fmtStep W P x k before).1, rid)
  | some c =>
    match P.new c with
    | none => .inl ((fmtStep W P x k before).1, rid)
    | some s => fileLoop cfg W dn P k (W.size before) fuel rid s 0 (fmtStep W P x k before).1

/-- one file of `run_pass`: skip if empty, replay from the cache, else reduce and store -/
def fileStep {C σ} [DecidableEq C] [Inhabited σ] [Inhabited C] (cfg : Cfg) (W : World C) (dn : Sched) (P : PassI C σ) (fuel : Nat)
    (acc : LRes C) (k : Nat) : LRes C :=
  match acc with
  | .inr e => .inr e
  | .inl (x, rid) =>
    let before := x.disk.getD k default
    if W.size before = 0 then .inl (x, rid) else
    let ckey : Nat × List C × Nat := if cfg.jointKey then (P.key, x.disk, k) else (P.key, [before], 0)
    match (if cfg.cacheOn then x.cache.lookup ckey else none) with
    | some after =>
      .inl ({ x with disk := x.disk.set k after,
                     side := { x.side with log := x.side.log ++ [.replay P.key k after] } }, rid)
    | none =>
      match newLoop cfg W dn P k fuel rid x before with
      | .inr e => .inr e
      | .inl (y, rid) =>
        if cfg.cacheOn then .inl ({ y with cache := (ckey, y.disk.getD k default) :: y.cache }, rid)
        else .inl (y, rid)

/-- run_pass over the files in the given order (sorted by size by the caller) -/
def runPass {C σ} [DecidableEq C] [Inhabited σ] [Inhabited C] (cfg : Cfg) (W : World C) (dn : Sched) (P : PassI C σ) (order : List Nat) (fuel : Nat)
    (rid : Nat) (x : St C) : LRes C :=
  let x := { x with leftover := false, side := { x.side with curPass := P.key } }
  if totalSize W.size x.disk = 0 then .inr (.zeroSize, x) else
  order.foldl (fileStep cfg W dn P fuel) (.inl (x, rid))


/-- `_run_additional_passes` -/
def runPasses {C σ} [DecidableEq C] [Inhabited σ] [Inhabited C] (cfg : Cfg) (W : World C) (dn : Sched) (orderOf : List C → List Nat) (fuel : Nat) :
    List (PassI C σ) → LRes C → LRes C
  | [], acc => acc
  | P :: ps, acc =>
    match acc with
    | .inr e => .inr e
    | .inl (x, rid) => runPasses cfg W dn orderOf fuel ps (runPass cfg W dn P (orderOf x.disk) fuel rid x)

/-- `_run_main_passes`: repeat the main passes while a round made the total strictly smaller
    (`stopLt = true` models the comparison read from the source: stop when `new >= old`) -/
def mainLoop {C σ} [DecidableEq C] [Inhabited σ] [Inhabited C] (cfg : Cfg) (W : World C) (dn : Sched) (orderOf : List C → List Nat) (fuel : Nat)
    (passes : List (PassI C σ)) : Nat → LRes C → LRes C
  | 0, acc => acc
  | rounds+1, acc =>
    match acc with
    | .inr e => .inr e
    | .inl (x, rid) =>
      let before := totalSize W.size x.disk
      if before = 0 then .inl (x, rid) else     -- stopping threshold 1.0 is met only by an empty input; nothing runs
      match runPasses cfg W dn orderOf fuel passes (.inl (x, rid)) with
      | .inr e => .inr e
      | .inl (y, rid') =>
        if totalSize W.size y.disk ≥ before then .inl (y, rid')
        else mainLoop cfg W dn orderOf fuel passes rounds (.inl (y, rid'))

/-- `CVise.reduce` after the sanity check: first, main (to a fixpoint), last -/
def reduce {C σ} [DecidableEq C] [Inhabited σ] [Inhabited C] (cfg : Cfg) (W : World C) (dn : Sched) (orderOf : List C → List Nat) (fuel : Nat)
    (first main last : List (PassI C σ)) (x : St C) : LRes C :=
  let r1 := runPasses cfg W dn orderOf fuel first (.inl (x, 0))
  let r2 := mainLoop cfg W dn orderOf fuel main (totalSize W.size x.disk + 2) r1
  runPasses cfg W dn orderOf fuel last r2

/-! ### `--start-with-pass` and missing prerequisites

`run_pass` begins with a gate: while `self.start_with_pass` is set, a call for a pass whose `str()` (= `repr()`, the pass
key) differs returns at once; the first call for the named pass clears the option and runs normally.  The callers in
`cvise.py` skip a pass whose `check_prerequisites()` fails *before* calling `run_pass`, so such a pass never clears the gate.
`sw` is the option (`none`: not given, or already cleared); `avail` says which passes have their prerequisites. -/

/-- `run_pass` with its gate: returns the result and what is left of the option -/
def runPassG {C σ} [DecidableEq C] [Inhabited σ] [Inhabited C] (cfg : Cfg) (W : World C) (dn : Sched) (P : PassI C σ) (order : List Nat)
    (fuel rid : Nat) (x : St C) (sw : Option Nat) : LRes C × Option Nat :=
  match sw with
  | none => (runPass cfg W dn P order fuel rid x, none)
  | some n => if n = P.key then (runPass cfg W dn P order fuel rid x, none) else (.inl (x, rid), some n)

/-- `_run_additional_passes` (and the `for` loop of `_run_main_passes`) with prerequisites and the gate -/
def runPassesG {C σ} [DecidableEq C] [Inhabited σ] [Inhabited C] (cfg : Cfg) (W : World C) (dn : Sched) (orderOf : List C → List Nat) (fuel : Nat)
    (avail : PassI C σ → Bool) : List (PassI C σ) → LRes C × Option Nat → LRes C × Option Nat
  | [], acc => acc
  | P :: ps, (acc, sw) =>
    match acc with
    | .inr e => (.inr e, sw)
    | .inl (x, rid) =>
      if avail P then runPassesG cfg W dn orderOf fuel avail ps (runPassG cfg W dn P (orderOf x.disk) fuel rid x sw)
      else runPassesG cfg W dn orderOf fuel avail ps (.inl (x, rid), sw)

def mainLoopG {C σ} [DecidableEq C] [Inhabited σ] [Inhabited C] (cfg : Cfg) (W : World C) (dn : Sched) (orderOf : List C → List Nat) (fuel : Nat)
    (avail : PassI C σ → Bool) (passes : List (PassI C σ)) : Nat → LRes C × Option Nat → LRes C × Option Nat
  | 0, acc => acc
  | rounds+1, (acc, sw) =>
    match acc with
    | .inr e => (.inr e, sw)
    | .inl (x, rid) =>
      let before := totalSize W.size x.disk
      if before = 0 then (.inl (x, rid), sw) else
      match runPassesG cfg W dn orderOf fuel avail passes (.inl (x, rid), sw) with
      | (.inr e, sw') => (.inr e, sw')
      | (.inl (y, rid'), sw') =>
        if totalSize W.size y.disk ≥ before then (.inl (y, rid'), sw')
        else mainLoopG cfg W dn orderOf fuel avail passes rounds (.inl (y, rid'), sw')

/-- `CVise.reduce` after the sanity check, with `--start-with-pass`, `skip_initial` and prerequisites -/
def reduceG {C σ} [DecidableEq C] [Inhabited σ] [Inhabited C] (cfg : Cfg) (W : World C) (dn : Sched) (orderOf : List C → List Nat) (fuel : Nat)
    (avail : PassI C σ → Bool) (skipInitial : Bool) (first main last : List (PassI C σ)) (x : St C) (sw : Option Nat) : LRes C × Option Nat :=
  let r1 := if skipInitial then (.inl (x, 0), sw) else runPassesG cfg W dn orderOf fuel avail first (.inl (x, 0), sw)
  let r2 := mainLoopG cfg W dn orderOf fuel avail main (totalSize W.size x.disk + 2) r1
  runPassesG cfg W dn orderOf fuel avail last r2

end Cvise.D
