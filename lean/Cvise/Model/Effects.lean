/-! C11(a): a tiny effect language for the bodies of `advance` (straight-line paths, as enumerated by the translator),
    its heap semantics, and a may-alias analysis that decides "the cursor passed in is left untouched". -/
namespace Cvise.Eff

/-- variables are numbers; variable 0 is the cursor parameter (`state`, or `self` for `BinaryState.advance`) -/
inductive Stmt
  | copyOf (x y : Nat)     -- x = y.copy() / copy.copy(y) / dict(y) / list(y)
  | fresh (x : Nat)        -- x = <new object or immutable value not reachable from the parameter>
  | alias (x y : Nat)      -- x = y
  | write (x : Nat)        -- x.attr = e / x[k] = e / x.attr += e / x.append(e) …
deriving Repr, DecidableEq

/-- concrete state: where each variable points, the next unused location, and the set of locations written so far;
    the parameter object lives at location 0 -/
structure State where
  env : Nat → Nat
  next : Nat
  written : List Nat

def State.init : State := { env := fun v => if v = 0 then 0 else v + 1000000, next := 1, written := [] }

def step (s : State) : Stmt → State
  | .copyOf x _ => { s with env := fun v => if v = x then s.next else s.env v, next := s.next + 1 }
  | .fresh x => { s with env := fun v => if v = x then s.next else s.env v, next := s.next + 1 }
  | .alias x y => { s with env := fun v => if v = x then s.env y else s.env v }
  | .write x => { s with written := s.env x :: s.written }

def exec (p : List Stmt) (s : State) : State := p.foldl step s

/-- the analysis: the set of variables that may point to the parameter object, and whether it may have been written -/
def analyse : List Stmt → List Nat → Bool → Bool
  | [], _, w => w
  | .copyOf x _ :: rest, a, w => analyse rest (a.filter (· ≠ x)) w
  | .fresh x :: rest, a, w => analyse rest (a.filter (· ≠ x)) w
  | .alias x y :: rest, a, w => analyse rest (if a.contains y then x :: a else a.filter (· ≠ x)) w
  | .write x :: rest, a, w => analyse rest a (w || a.contains x)

/-- `true` = the path may write the object the parameter points to -/
def mayMutateParam (p : List Stmt) : Bool := analyse p [0] false

end Cvise.Eff
