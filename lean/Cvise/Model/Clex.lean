/-! Model of the mode functions of `clex/driver.c` over a token array.  Indexing is checked: reading `tok_list[i]` with
    `i ≥ toks` is the observable outcome `crash` (what AddressSanitizer reports on the real program). -/
namespace Cvise.Clex

inductive Kind | keyword | op | ident | other | number | ws | newline | string | unknown
deriving Repr, DecidableEq

structure Tok where
  kind : Kind
  str : List Char
deriving Repr, DecidableEq

inductive Exit | ok | stop | crash
deriving Repr, DecidableEq

structure Res where
  exit : Exit
  out : List Char
deriving Repr, DecidableEq

def blank (t : Tok) : Bool := t.kind = .ws || t.kind = .newline

def concat (ts : List Tok) : List Char := ts.flatMap (·.str)

/-- `print_toks` -/
def printToks (ts : List Tok) : Res := ⟨.ok, concat ts⟩

/-- `rm_toks(idx)` with `n_toks = n`: state (which, started, matched) threaded through the loop -/
def rmToksGo (n idx : Nat) : List Tok → Nat → Bool → Bool → List Char → Bool × List Char
  | [], _, _, matched, acc => (matched, acc)
  | t :: ts, which, started, matched, acc =>
    if blank t then
      rmToksGo n idx ts which started matched (if !started || decide (which > idx + n) then acc ++ t.str else acc)
    else
      rmToksGo n idx ts (which + 1) (started || decide (which = idx)) (matched || decide (which = idx))
        (if !(started || decide (which = idx)) || decide (which + 1 > idx + n) then acc ++ t.str else acc)

def rmToks (n idx : Nat) (ts : List Tok) : Res :=
  let (m, out) := rmToksGo n idx ts 0 false false []
  ⟨if m then .ok else .stop, out⟩

/-- `rm_tok_pattern(idx)` with `n_toks = n` (2 ≤ n ≤ 8) -/
def rmPatGo (n idx : Nat) : List Tok → Nat → Bool → Bool → Bool → Nat → List Char → Bool × Bool × List Char
  | [], _, _, matched, deleted, _, acc => (matched, deleted, acc)
  | t :: ts, which, started, matched, deleted, pat, acc =>
    if blank t then rmPatGo n idx ts which started matched deleted pat (acc ++ t.str)
    else
      let started := if which = idx then true else started
      let matched := matched || which = idx
      let started := if which = idx + n then false else started
      let which := which + 1
      if !started then rmPatGo n idx ts which started matched deleted pat (acc ++ t.str)
      else if pat % 2 = 1 then rmPatGo n idx ts which started matched true (pat / 2) acc
      else rmPatGo n idx ts which started matched deleted (pat / 2) (acc ++ t.str)

def rmTokPattern (n idx : Nat) (ts : List Tok) : Res :=
  let nPat := 2 ^ (n - 1)
  let pat := (1 + 2 * (idx % nPat)) % 256
  let idx' := idx / nPat
  let (m, d, out) := rmPatGo n idx' ts 0 false false false pat []
  ⟨if m && d then .ok else .stop, out⟩

def emptyStr : List Char := ['"', '"']

/-- `delete_string(idx)` -/
def delStrGo (idx : Nat) : List Tok → Nat → Bool → List Char → Bool × List Char
  | [], _, matched, acc => (matched, acc)
  | t :: ts, which, matched, acc =>
    if t.kind = .string ∧ t.str ≠ emptyStr then
      if which = idx then delStrGo idx ts (which + 1) true (acc ++ emptyStr)
      else delStrGo idx ts (which + 1) matched (acc ++ t.str)
    else delStrGo idx ts which matched (acc ++ t.str)

def deleteString (idx : Nat) (ts : List Tok) : Res :=
  let (m, out) := delStrGo idx ts 0 false []
  ⟨if m then .ok else .stop, out⟩

/-- `shorten_string(idx)`: drop the character at offset `idx` inside the quotes, counting over all strings -/
def shortenGo : List Tok → Nat → Bool → List Char → Bool × List Char
  | [], _, matched, acc => (matched, acc)
  | t :: ts, idx, matched, acc =>
    if !matched && t.kind = .string then
      let len := t.str.length - 2
      if idx ≥ len then shortenGo ts (idx - len) matched (acc ++ t.str)
      else shortenGo ts idx true (acc ++ (t.str.take (idx + 1) ++ t.str.drop (idx + 2)))
    else shortenGo ts idx matched (acc ++ t.str)

def shortenString (idx : Nat) (ts : List Tok) : Res :=
  let (m, out) := shortenGo ts idx false []
  ⟨if m then .ok else .stop, out⟩

/-- `x_string(idx)`: turn the `idx`-th non-`x` character of the string tokens into `x` -/
def xChars (idx : Nat) : List Char → Nat → Bool → List Char → Nat × Bool × List Char
  | [], which, matched, acc => (which, matched, acc)
  | c :: cs, which, matched, acc =>
    if c ≠ 'x' then
      if which = idx then xChars idx cs (which + 1) true (acc ++ ['x'])
      else xChars idx cs (which + 1) matched (acc ++ [c])
    else xChars idx cs which matched (acc ++ [c])

def xStrGo (idx : Nat) : List Tok → Nat → Bool → List Char → Bool × List Char
  | [], _, matched, acc => (matched, acc)
  | t :: ts, which, matched, acc =>
    if !matched && t.kind = .string then
      let (w, m, s) := xChars idx t.str which matched []
      xStrGo idx ts w m (acc ++ s)
    else xStrGo idx ts which matched (acc ++ t.str)

def xString (idx : Nat) (ts : List Tok) : Res :=
  let (m, out) := xStrGo idx ts 0 false []
  ⟨if m then .ok else .stop, out⟩

/-! `rename_toks` -/

/-- successor in a, b, …, z, aa, ab, … (names as lists of letters) -/
def nextName (name : List Char) : List Char :=
  let rec go : List Char → Bool × List Char     -- over the reversed name: returns (carry, result reversed)
    | [] => (true, [])
    | c :: cs => if c = 'z' then
                   let (carry, r) := go cs
                   (carry, 'a' :: r)
                 else (false, Char.ofNat (c.toNat + 1) :: cs)
  let (carry, r) := go name.reverse
  if carry then 'a' :: r.reverse else r.reverse

def findUnused (ts : List Tok) : Nat → List Char → List Char
  | 0, name => name
  | fuel+1, name => if ts.any (·.str = name) then findUnused ts fuel (nextName name) else name

def strLt (a b : List Char) : Bool :=      -- strcmp(a, b) < 0 on bytes
  match a, b with
  | [], [] => false
  | [], _ :: _ => true
  | _ :: _, [] => false
  | x :: xs, y :: ys => if x.toNat < y.toNat then true else if x.toNat > y.toNat then false else strLt xs ys

def shouldRename (name newname : List Char) : Bool :=
  if name.any (fun c => c.toNat < 97 || c.toNat > 122) then true
  else if newname.length > name.length then false
  else strLt newname name

def renameToks (idx : Nat) (ts : List Tok) : Res :=
  let newname := findUnused ts (ts.length + 2) ['a']
  let idents := (ts.filter fun t => t.kind = .ident && shouldRename t.str newname).map (·.str)
  let index := idents.eraseDups
  match index[idx]? with
  | none => ⟨.stop, []⟩
  | some target =>
    ⟨.ok, ts.flatMap fun t => if t.kind = .ident && shouldRename t.str newname && t.str = target then newname else t.str⟩

/-! `define` / `replace_macro`, with checked indexing.  `bounded` = the three scanning loops test `i < toks` first
    (regenerated from driver.c); without it a scan that runs off the end of the array is the outcome `crash`. -/

def skipWs (bounded : Bool) (ts : Array Tok) : Nat → Nat → Option Nat   -- fuel, i ↦ first i' ≥ i that is not WS (or the end)
  | 0, i => if bounded then some i else none
  | fuel+1, i => match ts[i]? with
    | none => if bounded then some i else none
    | some t => if t.kind = .ws then skipWs bounded ts fuel (i + 1) else some i

def findNewline (bounded : Bool) (ts : Array Tok) : Nat → Nat → Option Nat
  | 0, i => if bounded then some i else none
  | fuel+1, i => match ts[i]? with
    | none => if bounded then some i else none
    | some t => if t.kind = .newline then some i else findNewline bounded ts fuel (i + 1)

def replaceMacro (bounded : Bool) (ts : Array Tok) (i : Nat) : Res :=
  match ts[i]? with
  | none => ⟨.crash, []⟩
  | some m =>
    match skipWs bounded ts (ts.size + 2) (i + 1) with
    | none => ⟨.crash, []⟩
    | some b =>
      match findNewline bounded ts (ts.size + 2) b with
      | none => ⟨.crash, []⟩
      | some e =>
        let body := ((ts.toList.drop b).take (e - b)).flatMap (·.str)
        ⟨.ok, (ts.toList.zipIdx).flatMap fun (t, x) => if x ≠ i && t.str = m.str then body else t.str⟩

def defineGo (bounded : Bool) (ts : Array Tok) (idx : Nat) : Nat → Nat → Nat → Res       -- fuel, i, found
  | 0, _, _ => ⟨.stop, []⟩
  | fuel+1, i, found =>
    match ts[i]? with
    | none => ⟨.stop, []⟩
    | some t =>
      if t.str ≠ ['#'] then defineGo bounded ts idx fuel (i + 1) found else
      match skipWs bounded ts (ts.size + 2) (i + 1) with
      | none => ⟨.crash, []⟩
      | some a =>
        match ts[a]? with
        | none => if bounded then ⟨.stop, []⟩ else ⟨.crash, []⟩
        | some d =>
          if d.str ≠ "define".toList then defineGo bounded ts idx fuel (a + 1) found else
          match skipWs bounded ts (ts.size + 2) (a + 1) with
          | none => ⟨.crash, []⟩
          | some n =>
            match ts[n]? with
            | none => if bounded then ⟨.stop, []⟩ else ⟨.crash, []⟩
            | some name =>
              let used := (ts.toList.zipIdx).any fun (t, j) => j ≠ n && t.str = name.str
              if !used then defineGo bounded ts idx fuel (n + 1) found
              else if found = idx then replaceMacro bounded ts n
              else defineGo bounded ts idx fuel (n + 1) (found + 1)

def define (bounded : Bool) (idx : Nat) (ts : List Tok) : Res := defineGo bounded ts.toArray idx (ts.length + 2) 0 0

/-- dispatch on the command string of `main` -/
inductive Mode | print | rename | deleteString | shortenString | xString | rmToks (n : Nat) | rmTokPattern (n : Nat) | define
deriving Repr, DecidableEq

def run (bounded : Bool) (m : Mode) (idx : Nat) (ts : List Tok) : Res :=
  match m with
  | .print => printToks ts
  | .rename => renameToks idx ts
  | .deleteString => deleteString idx ts
  | .shortenString => shortenString idx ts
  | .xString => xString idx ts
  | .rmToks n => rmToks n idx ts
  | .rmTokPattern n => rmTokPattern n idx ts
  | .define => define bounded idx ts

end Cvise.Clex
