/-! A small backtracking regular-expression engine with Python `re` priority semantics.
    `ends s r p c` lists every (end position, captures) at which `r` can match starting at `p`, in backtracking
    order: the head is what `re.match` returns; the maximum end is what a longest-match lexer returns.
    Text is an `Array Nat` of code points. -/
namespace Cvise

inductive CItem | lit (c : Nat) | range (a b : Nat) | space | digit | word | notSpace | notDigit | notWord
deriving Repr, DecidableEq

/-- `str.isspace`-style whitespace as used by `\s` on `str` patterns -/
def isSpacePy (c : Nat) : Bool :=
  (9 ≤ c && c ≤ 13) || (28 ≤ c && c ≤ 32) || c = 0x85 || c = 0xa0 || c = 0x1680 ||
  (0x2000 ≤ c && c ≤ 0x200a) || c = 0x2028 || c = 0x2029 || c = 0x202f || c = 0x205f || c = 0x3000

def isDigitAscii (c : Nat) : Bool := 48 ≤ c && c ≤ 57
def isWordAscii (c : Nat) : Bool := (48 ≤ c && c ≤ 57) || (65 ≤ c && c ≤ 90) || (97 ≤ c && c ≤ 122) || c = 95

def CItem.has (i : CItem) (c : Nat) : Bool :=
  match i with
  | .lit x => c = x
  | .range a b => a ≤ c && c ≤ b
  | .space => isSpacePy c
  | .digit => isDigitAscii c     -- generated inputs are restricted to code points where ASCII and Unicode classes agree
  | .word => isWordAscii c
  | .notSpace => !isSpacePy c
  | .notDigit => !isDigitAscii c
  | .notWord => !isWordAscii c

inductive Rx
  | cls (neg : Bool) (items : List CItem)
  | any (dotall : Bool)
  | seq (rs : List Rx)
  | alt (rs : List Rx)
  | rep (min : Nat) (max : Option Nat) (greedy : Bool) (r : Rx)
  | grp (id : Nat) (r : Rx)
  | nla (r : Rx)          -- negative lookahead
  | bos                   -- ^ without MULTILINE
  | bolM                  -- ^ with MULTILINE
  | eolM                  -- $ with MULTILINE
  | eol                   -- $ without MULTILINE
deriving Repr

abbrev Caps := List (Nat × Nat × Nat)

mutual
def ends (s : Array Nat) : Rx → Nat → Caps → List (Nat × Caps)
  | .cls neg items, p, c =>
    if h : p < s.size then
      if (items.any (·.has s[p])) != neg then [(p+1, c)] else []
    else []
  | .any dotall, p, c =>
    if h : p < s.size then (if dotall || s[p] != 10 then [(p+1, c)] else []) else []
  | .seq rs, p, c => endsSeq s rs p c
  | .alt rs, p, c => endsAlt s rs p c
  | .rep mn mx g r, p, c => endsRep s r mn mx g (s.size + 1) p c
  | .grp id r, p, c => (ends s r p c).map fun (e, c') => (e, (id, p, e) :: c')
  | .nla r, p, c => if (ends s r p c).isEmpty then [(p, c)] else []
  | .bos, p, c => if p = 0 then [(p, c)] else []
  | .bolM, p, c => if p = 0 || s[p - 1]! = 10 then [(p, c)] else []
  | .eolM, p, c => if p = s.size || s[p]! = 10 then [(p, c)] else []
  | .eol, p, c => if p = s.size || (p + 1 = s.size && s[p]! = 10) then [(p, c)] else []
termination_by r _ _ => (sizeOf r, 0)
def endsSeq (s : Array Nat) : List Rx → Nat → Caps → List (Nat × Caps)
  | [], p, c => [(p, c)]
  | r :: rs, p, c => (ends s r p c).flatMap fun (e, c') => endsSeq s rs e c'
termination_by rs _ _ => (sizeOf rs, 0)
def endsAlt (s : Array Nat) : List Rx → Nat → Caps → List (Nat × Caps)
  | [], _, _ => []
  | r :: rs, p, c => ends s r p c ++ endsAlt s rs p c
termination_by rs _ _ => (sizeOf rs, 0)
/-- repetition with fuel; an iteration must consume (e > p) once `min` is satisfied (as `re` does to avoid empty loops) -/
def endsRep (s : Array Nat) (r : Rx) (mn : Nat) (mx : Option Nat) (g : Bool) : Nat → Nat → Caps → List (Nat × Caps)
  | 0, _, _ => []
  | fuel+1, p, c =>
    let canMore := match mx with | some 0 => false | _ => true
    let more : List (Nat × Caps) :=
      if canMore then
        (ends s r p c).flatMap fun (e, c') =>
          if e > p || mn > 0 then endsRep s r (mn - 1) (mx.map (· - 1)) g fuel e c' else []
      else []
    let stop : List (Nat × Caps) := if mn = 0 then [(p, c)] else []
    if g then more ++ stop else stop ++ more
termination_by fuel _ _ => (sizeOf r, fuel + 1)
end

/-- `re.match(pattern, s, pos)`: (end, captures) of the first alternative in priority order -/
def rxMatchAt (r : Rx) (s : Array Nat) (p : Nat) : Option (Nat × Caps) :=
  if p > s.size then none else (ends s r p []).head?

/-- `re.search(pattern, s, pos)`: the first start in `[p, |s|]` at which `match` succeeds -/
def rxSearchFrom (r : Rx) (s : Array Nat) (p : Nat) : Option (Nat × Nat × Caps) :=
  if h : p > s.size then none
  else match rxMatchAt r s p with
    | some (e, c) => some (p, e, c)
    | none => rxSearchFrom r s (p + 1)
termination_by s.size + 1 - p

/-- longest match (lex semantics): the maximal end among all alternatives, if any -/
def rxLongest (r : Rx) (s : Array Nat) (p : Nat) : Option Nat :=
  (ends s r p []).foldl (fun acc (e, _) => match acc with | none => some e | some a => some (max a e)) none

/-- `finditer`: successive non-overlapping matches from `p`; an empty match advances by one -/
def rxFindAll (r : Rx) (s : Array Nat) : Nat → Nat → List (Nat × Nat × Caps)
  | 0, _ => []
  | fuel+1, p =>
    match rxSearchFrom r s p with
    | none => []
    | some (a, e, c) => (a, e, c) :: rxFindAll r s fuel (if e = a then e + 1 else e)

def capOf (c : Caps) (id : Nat) : Option (Nat × Nat) := (c.find? (·.1 = id)).map (·.2)

def toArr (s : List Char) : Array Nat := (s.map Char.toNat).toArray

end Cvise
