/-! Model of `cvise/utils/nestedmatcher.py`.  Strings are `List Char` (Python `str` = sequence of code points).
    Regular-expression parts are a parameter (`RxO`): `rx id s pos search` is what `re.match`/`re.search` (DOTALL)
    return for pattern `id` — instantiated with the `Rx` engine in the driver, characterised by hypotheses in theorems. -/
namespace Cvise.M

abbrev Span := Nat × Nat

inductive Pat where
  | rx (id : Nat)
  | bal (o c : Char)
  | or (l r : Pat)
deriving Repr, DecidableEq

abbrev RxO := Nat → List Char → Nat → Bool → Option Span

/-- `__match_helper` after the opening delimiter: scan `xs` at depth `d` (> 0);
    returns the number of characters consumed when depth first reaches 0 (the opener is tested first) -/
def scan (o c : Char) : List Char → Nat → Option Nat
  | _, 0 => some 0
  | [], _+1 => none
  | x :: xs, d+1 =>
    if x = o then (scan o c xs (d+2)).map (· + 1)
    else if x = c then (scan o c xs d).map (· + 1)
    else (scan o c xs (d+1)).map (· + 1)

/-- non-search mode at `pos` -/
def matchAt (o c : Char) (s : List Char) (pos : Nat) : Option Span :=
  match s.drop pos with
  | [] => none
  | x :: rest => if x = o then (scan o c rest 1).map (fun k => (pos, pos + 1 + k)) else none

/-- search mode: first position ≥ pos where matchAt succeeds -/
def balSearch (o c : Char) (s : List Char) (pos : Nat) : Option Span :=
  if h : pos < s.length then
    match matchAt o c s pos with
    | some m => some m
    | none => balSearch o c s (pos + 1)
  else none
termination_by s.length - pos

/-- `__get_balanced_match` -/
def balMatch (o c : Char) (s : List Char) (pos : Nat) (search : Bool) : Option Span :=
  if pos ≥ s.length then none
  else if search then balSearch o c s pos else matchAt o c s pos

/-- `__get_leftmost_match` of two results: ties go to the left operand -/
def leftmost : Option Span → Option Span → Option Span
  | none, r => r
  | some l, none => some l
  | some l, some r => if r.1 < l.1 then some r else some l

/-- `__match_pattern` -/
def matchPat (rx : RxO) : Pat → List Char → Nat → Bool → Option Span
  | .rx id, s, p, m => rx id s p m
  | .bal o c, s, p, m => balMatch o c s p m
  | .or l r, s, p, m => leftmost (matchPat rx l s p m) (matchPat rx r s p m)

/-- the `for part in parts` loop: every part matched (non-search) back to back; returns the end position and spans -/
def matchSeq (rx : RxO) (s : List Char) : List Pat → Nat → Option (Nat × List Span)
  | [], pos => some (pos, [])
  | p :: ps, pos =>
    match matchPat rx p s pos false with
    | none => none
    | some m => (matchSeq rx s ps (pos + (m.2 - m.1))).map fun (e, sp) => (e, m :: sp)

/-- the `while not found_complete_match and start_pos < len(string)` loop -/
def searchLoop (rx : RxO) (parts : List Pat) (first : Pat) (s : List Char) (mode : Bool) (start : Nat) :
    Option (Span × List Span) :=
  if h : start < s.length then
    match matchPat rx first s start mode with
    | none => none
    | some m =>
      if hm : m.1 < start then none   -- cannot happen for `re`/balanced (contract `start ≤ m.1`); keeps the definition total
      else
        match matchSeq rx s parts m.1 with
        | some (e, sp) => some ((m.1, e), sp)
        | none => searchLoop rx parts first s mode (m.1 + 1)
  else none
termination_by s.length - start

/-- `nestedmatcher.search(parts, string, pos, search)`; `pos` may be any integer -/
def search (rx : RxO) (parts : List Pat) (s : List Char) (pos : Int) (mode : Bool) : Option (Span × List Span) :=
  match parts with
  | [] => none
  | first :: _ =>
    if pos < 0 ∨ pos ≥ s.length then none
    else searchLoop rx parts first s mode pos.toNat

/-- `nestedmatcher.find(expr, string, pos, prefix)`: prefix regex id (if any) followed by the balanced pair -/
def find (rx : RxO) (o c : Char) (prefix? : Option Nat) (s : List Char) (pos : Int) : Option Span :=
  let parts := match prefix? with
    | some id => [Pat.rx id, Pat.bal o c]
    | none => [Pat.bal o c]
  (search rx parts s pos true).map (·.1)

/-! declarative spec -/
def depth (o c : Char) : List Char → Int → Int
  | [], d => d
  | x :: xs, d => depth o c xs (if x = o then d + 1 else if x = c then d - 1 else d)

/-- after the opener, at natural depth `d`, the group closes after exactly `k` characters:
    depth is 0 after `k` characters and positive after every shorter prefix -/
def ClosesAt (o c : Char) (xs : List Char) (d : Nat) (k : Nat) : Prop :=
  k ≤ xs.length ∧ depth o c (xs.take k) d = 0 ∧ ∀ j, j < k → 0 < depth o c (xs.take j) d

/-- `[a, b)` is a genuinely balanced group of `s`: opens with `o` at `a` and closes at the same nesting depth at `b` -/
def Bal (o c : Char) (s : List Char) (a b : Nat) : Prop :=
  a < s.length ∧ s[a]? = some o ∧ a + 1 ≤ b ∧ ClosesAt o c (s.drop (a + 1)) 1 (b - (a + 1))

end Cvise.M
