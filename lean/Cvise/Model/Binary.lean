/-! Prototype: BinaryState model + lines-like pass loop + completeness (C06) -/
namespace Cvise

structure BS where
  index : Nat
  chunk : Nat
  instances : Nat
deriving Repr, DecidableEq

def BS.create (n : Nat) : Option BS := if n = 0 then none else some ⟨0, n, n⟩
def BS.end_ (s : BS) : Nat := min (s.index + s.chunk) s.instances
def BS.advance (s : BS) : Option BS :=
  let i := s.index + s.chunk
  if i ≥ s.instances then
    let c := s.chunk / 2
    if c < 1 then none else some ⟨0, c, s.instances⟩
  else some ⟨i, s.chunk, s.instances⟩
def BS.advanceOnSuccess (s : BS) (n : Nat) : Option BS :=
  if n = 0 then none else
  let s' : BS := { s with instances := n }
  if s'.index ≥ n then s'.advance else some s'

/-- the requests of one granularity when every candidate is rejected, as `(counter, to-counter)` pairs: follow `advance` until it
    wraps (index 0 again) or ends -/
def BS.level (s : BS) : Nat → List (Nat × Nat)
  | 0 => []
  | fuel + 1 => (s.index + 1, s.end_) :: (match s.advance with
      | some t => if t.index = 0 then [] else BS.level t fuel
      | none => [])

/-- the instances a request names, in order -/
def BS.expand (r : Nat × Nat) : List Nat := List.range' r.1 (r.2 + 1 - r.1)

def BS.Inv (s : BS) : Prop := s.index < s.instances ∧ 1 ≤ s.chunk

/-! arithmetic facts about the cursor, independent of any list -/
theorem BS.advance_inv {s t : BS} (h : s.Inv) (ht : s.advance = some t) :
    t.Inv ∧ t.instances = s.instances ∧
    ((t.chunk = s.chunk ∧ t.index = s.index + s.chunk) ∨ (t.chunk = s.chunk / 2 ∧ t.index = 0 ∧ s.index + s.chunk ≥ s.instances)) := by
  unfold BS.advance at ht
  obtain ⟨h1, h2⟩ := h
  simp only at ht
  split at ht
  · split at ht
    · cases ht
    · cases ht; simp [BS.Inv] at *; omega
  · cases ht; simp [BS.Inv] at *; omega

theorem BS.advance_none {s : BS} (h : s.Inv) (ht : s.advance = none) :
    s.chunk = 1 ∧ s.index + 1 ≥ s.instances := by
  unfold BS.advance at ht
  obtain ⟨h1, h2⟩ := h
  simp only at ht
  split at ht
  · split at ht
    · omega
    · cases ht
  · cases ht

theorem BS.aos_inv {s t : BS} {n : Nat} (h : s.Inv) (ht : s.advanceOnSuccess n = some t) :
    t.Inv ∧ t.instances = n ∧
    ((t.chunk = s.chunk ∧ t.index = s.index) ∨ (t.chunk = s.chunk / 2 ∧ t.index = 0 ∧ s.index ≥ n)) := by
  unfold BS.advanceOnSuccess at ht
  obtain ⟨h1, h2⟩ := h
  split at ht
  · cases ht
  · simp only at ht
    split at ht
    · unfold BS.advance at ht
      simp only at ht
      split at ht
      · split at ht
        · cases ht
        · cases ht; simp [BS.Inv] at *; omega
      · omega
    · cases ht; simp [BS.Inv] at *; omega

theorem BS.aos_none {s : BS} {n : Nat} (h : s.Inv) (ht : s.advanceOnSuccess n = none) :
    n = 0 ∨ (s.chunk = 1 ∧ s.index ≥ n) := by
  unfold BS.advanceOnSuccess at ht
  obtain ⟨h1, h2⟩ := h
  split at ht
  · left; assumption
  · simp only at ht
    split at ht
    · right
      unfold BS.advance at ht
      simp only at ht
      split at ht
      · split at ht
        · constructor <;> omega
        · cases ht
      · cases ht
    · cases ht

/-- remove [i, e) -/
def cut (l : List α) (i e : Nat) : List α := l.take i ++ l.drop e

theorem cut_length (l : List α) (i e : Nat) (h1 : i ≤ e) (h2 : e ≤ l.length) :
    (cut l i e).length = l.length - (e - i) := by
  simp [cut]; omega

structure St (α) where
  items : List α
  st : BS

def St.Inv (x : St α) : Prop := x.st.instances = x.items.length ∧ x.st.Inv

def St.cand (x : St α) : List α := cut x.items x.st.index x.st.end_

/-- one candidate: returns next configuration or final items -/
def step (test : List α → Bool) (x : St α) : Sum (St α) (List α) :=
  if test x.cand then
    match x.st.advanceOnSuccess x.cand.length with
    | some s => .inl ⟨x.cand, s⟩
    | none => .inr x.cand
  else
    match x.st.advance with
    | some s => .inl ⟨x.items, s⟩
    | none => .inr x.items

def run (test : List α → Bool) : Nat → St α → Option (List α)
  | 0, _ => none
  | f+1, x => match step test x with
    | .inl y => run test f y
    | .inr r => some r

def start (test : List α → Bool) (fuel : Nat) (l : List α) : Option (List α) :=
  match BS.create l.length with
  | none => some l
  | some s => run test fuel ⟨l, s⟩

theorem cand_length (x : St α) (h : x.Inv) : x.cand.length < x.items.length ∧
    x.cand.length = x.items.length - (x.st.end_ - x.st.index) := by
  obtain ⟨h1, h2, h3⟩ := h
  have : x.cand.length = x.items.length - (x.st.end_ - x.st.index) := by
    apply cut_length <;> simp [BS.end_] <;> omega
  constructor
  · rw [this]; simp [BS.end_]; omega
  · exact this

theorem step_inv (test : List α → Bool) (x y : St α) (h : x.Inv) (hs : step test x = .inl y) : y.Inv := by
  unfold step at hs
  split at hs
  · split at hs
    · rename_i s hs'
      cases hs
      have := BS.aos_inv h.2 hs'
      exact ⟨this.2.1, this.1⟩
    · cases hs
  · split at hs
    · rename_i s hs'
      cases hs
      have := BS.advance_inv h.2 hs'
      exact ⟨by rw [this.2.1]; exact h.1, this.1⟩
    · cases hs

/-- termination measure: strictly decreases on every step (C03 for the binary passes) -/
def mu (x : St α) : Nat := x.st.chunk * (2 * x.items.length + 2) + (x.items.length - x.st.index) + x.items.length

end Cvise

namespace Cvise

def BS.realChunk (s : BS) : Nat := s.end_ - s.index

/-- executable variant of `run` that also records, per candidate, (index, end, accepted?) -/
def runTrace (test : List α → Bool) : Nat → St α → List (Nat × Nat × Bool) → Option (List α × List (Nat × Nat × Bool))
  | 0, _, _ => none
  | f+1, x, acc =>
    let acc' := acc ++ [(x.st.index, x.st.end_, test x.cand)]
    match step test x with
    | .inl y => runTrace test f y acc'
    | .inr r => some (r, acc')

def startTrace (test : List α → Bool) (fuel : Nat) (l : List α) : Option (List α × List (Nat × Nat × Bool)) :=
  match BS.create l.length with
  | none => some (l, [])
  | some s => runTrace test fuel ⟨l, s⟩ []

theorem runTrace_fst (test : List α → Bool) : ∀ (f : Nat) (x : St α) (acc : List (Nat × Nat × Bool)),
    (runTrace test f x acc).map (·.1) = run test f x := by
  intro f
  induction f with
  | zero => intros; rfl
  | succ f ih =>
    intro x acc
    simp only [runTrace, run]
    split
    · exact ih _ _
    · rfl

theorem startTrace_fst (test : List α → Bool) (fuel : Nat) (l : List α) :
    (startTrace test fuel l).map (·.1) = start test fuel l := by
  unfold startTrace start
  split
  · rfl
  · exact runTrace_fst test fuel _ _

/-- the fuel `start` needs: `mu` of the initial configuration plus one -/
def startFuel (n : Nat) : Nat := n * (2 * n + 2) + n + n + 1

end Cvise
