import Cvise.Model.World
import Cvise.Model.Driver
/-!
The effect of a whole reduction on the user's working directory, as a function of the ghost event log of the L2 driver
model: `backup_test_cases` first (`W.backup`), then one file-system action per logged event — a commit or a cache replay
writes the named test case, a bug / extra report creates an entry under a report-directory name; nothing else of the run
touches the working directory (candidates live under TMPDIR).  Contents are bytes.
-/
namespace Cvise.W
open Cvise

/-- write `b` at path `p` (replace the entry, or add it) -/
def writeFS : FS → String → Bytes → FS
  | [], p, b => [(p, b)]
  | (q, c) :: rest, p, b => if q = p then (q, b) :: rest else (q, c) :: writeFS rest p b

/-- names of the report directories C-Vise creates in the working directory -/
def isReportPath (p : String) : Bool := p.startsWith "cvise_bug_" || p.startsWith "cvise_extra_"

/-- one logged event as an action on the working directory; `names`: the test cases by index, `bugName` / `extraName`:
    the directory names the run picks (any names of the two report-directory forms) -/
def applyEv (names : List String) (bugName extraName : Nat → String) (st : FS × Nat × Nat) : D.Ev Bytes → FS × Nat × Nat
  | .commit _ k c => (match names[k]? with | some p => writeFS st.1 p c | none => st.1, st.2)
  | .replay _ k c => (match names[k]? with | some p => writeFS st.1 p c | none => st.1, st.2)
  | .bugdir => (writeFS st.1 (bugName st.2.1) [], st.2.1 + 1, st.2.2)
  | .extradir => (writeFS st.1 (extraName st.2.2) [], st.2.1, st.2.2 + 1)
  | _ => st

/-- the working directory after a reduction that wrote `log` (without `--tidy`: backups first) -/
def afterReduce (names : List String) (bugName extraName : Nat → String) (tidy : Bool) (fs : FS) (log : List (D.Ev Bytes)) : FS :=
  (log.foldl (applyEv names bugName extraName) (if tidy then fs else backup fs names, 0, 0)).1

/-- … and the test cases hold what the driver's state says they hold at the end (a pass whose `new` rewrites the file in
    place — `D.fmtStep` — changes a test case without an event of its own) -/
def writeDisk (fs : FS) : List String → List Bytes → FS
  | p :: ps, c :: cs => writeDisk (writeFS fs p c) ps cs
  | _, _ => fs

def afterReduceD (names : List String) (bugName extraName : Nat → String) (tidy : Bool) (fs : FS) (log : List (D.Ev Bytes))
    (disk : List Bytes) : FS :=
  writeDisk (afterReduce names bugName extraName tidy fs log) names disk

/-! ### the front end's `--to-utf8` step (`cvise.py`, before the `TestManager` is built)

Every test case whose bytes are not already ASCII / UTF-8 (`isUtf8`, the verdict of the encoding detector) is rewritten with
its conversion (`conv`).  `backupFirst` is read from the source: the unconverted bytes are copied to `X.orig` first, under
the rule of the regular backup (not with `--tidy`, never over an existing `X.orig`). -/
def toUtf8Step (backupFirst tidy : Bool) (isUtf8 : Bytes → Bool) (conv : Bytes → Bytes) (fs : FS) : List String → FS
  | [] => fs
  | f :: rest =>
    match lookupFS fs f with
    | none => toUtf8Step backupFirst tidy isUtf8 conv fs rest
    | some b =>
      if isUtf8 b then toUtf8Step backupFirst tidy isUtf8 conv fs rest
      else
        let fs1 := if backupFirst && !tidy && (lookupFS fs (f ++ ".orig")).isNone then fs ++ [(f ++ ".orig", b)] else fs
        toUtf8Step backupFirst tidy isUtf8 conv (writeFS fs1 f (conv b)) rest

end Cvise.W
