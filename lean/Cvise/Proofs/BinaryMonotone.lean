import Cvise.Model.Binary
namespace Cvise
variable {α : Type} [DecidableEq α]

def reqTest (R : List α) (l : List α) : Bool := R.all (fun r => decide (r ∈ l))

structure J (items0 R : List α) (x : St α) : Prop where
  inv : x.Inv
  sub : x.items.Sublist items0
  req : ∀ r ∈ R, r ∈ x.items
  pre : x.st.chunk = 1 → ∀ a ∈ x.items.take x.st.index, a ∈ R

structure Done (items0 R : List α) (r : List α) : Prop where
  sub : r.Sublist items0
  req : ∀ a ∈ R, a ∈ r
  only : ∀ a ∈ r, a ∈ R

theorem cand_take (x : St α) (h : x.Inv) : x.cand.take x.st.index = x.items.take x.st.index := by
  unfold St.cand cut
  have : x.st.index ≤ x.items.length := by have := h.2.1; have := h.1; omega
  rw [List.take_append_of_le_length (by simp; omega)]
  simp [List.take_take]

theorem reject_mem (R : List α) (x : St α) (h : x.Inv) (hc : x.st.chunk = 1)
    (hreq : ∀ r ∈ R, r ∈ x.items) (ht : reqTest R x.cand = false) :
    ∃ hlt : x.st.index < x.items.length, x.items[x.st.index] ∈ R := by
  have hlt : x.st.index < x.items.length := by have := h.2.1; have := h.1; omega
  refine ⟨hlt, ?_⟩
  simp only [reqTest, List.all_eq_false] at ht
  obtain ⟨r, hr, hnot⟩ := ht
  simp only [decide_eq_true_eq] at hnot
  have hmem := hreq r hr
  have hend : x.st.end_ = x.st.index + 1 := by simp [BS.end_, hc]; have := h.1; omega
  have hsplit : x.items = x.items.take x.st.index ++ x.items[x.st.index] :: x.items.drop (x.st.index + 1) := by
    simp
  rw [hsplit] at hmem
  simp only [List.mem_append, List.mem_cons] at hmem
  simp only [St.cand, cut, hend, List.mem_append] at hnot
  rcases hmem with h1 | h2 | h3
  · exact absurd (Or.inl h1) hnot
  · rw [← h2]; exact hr
  · exact absurd (Or.inr h3) hnot

theorem cand_sublist (x : St α) (hx : x.Inv) : x.cand.Sublist x.items := by
  unfold St.cand cut
  conv => rhs; rw [← List.take_append_drop x.st.index x.items]
  apply List.Sublist.append_left
  by_cases h : x.st.index ≤ x.st.end_
  · have : x.items.drop x.st.end_ = (x.items.drop x.st.index).drop (x.st.end_ - x.st.index) := by
      rw [List.drop_drop]; congr 1; omega
    rw [this]; exact List.drop_sublist _ _
  · have : x.st.end_ ≤ x.st.index := by omega
    have := hx.2.1; have := hx.2.2
    simp [BS.end_] at h
    omega

theorem test_true (R : List α) (l : List α) (h : reqTest R l = true) : ∀ r ∈ R, r ∈ l := by
  simpa [reqTest] using h

theorem step_J (items0 R : List α) (x : St α) (hJ : J items0 R x) :
    match step (reqTest R) x with
    | .inl y => J items0 R y
    | .inr r => Done items0 R r := by
  have hcl := cand_length x hJ.inv
  have hcsub := cand_sublist x hJ.inv
  have hidx : x.st.index < x.items.length := by have := hJ.inv.2.1; have := hJ.inv.1; omega
  unfold step
  by_cases ht : reqTest R x.cand = true
  · simp only [ht, if_true]
    have hreq := test_true R _ ht
    cases haos : x.st.advanceOnSuccess x.cand.length with
    | some s =>
      simp only
      have := BS.aos_inv hJ.inv.2 haos
      refine ⟨⟨this.2.1, this.1⟩, hcsub.trans hJ.sub, hreq, ?_⟩
      intro hc a ha
      rcases this.2.2 with ⟨h1, h2⟩ | ⟨h1, h2, h3⟩
      · simp only [h2] at ha
        rw [cand_take x hJ.inv] at ha
        exact hJ.pre (by rw [← h1]; exact hc) a ha
      · simp [h2] at ha
    | none =>
      simp only
      refine ⟨hcsub.trans hJ.sub, hreq, ?_⟩
      rcases BS.aos_none hJ.inv.2 haos with h0 | ⟨h1, h2⟩
      · intro a ha; rw [List.eq_nil_of_length_eq_zero h0] at ha; simp at ha
      · intro a ha
        have : x.cand = x.cand.take x.st.index := by rw [List.take_of_length_le h2]
        rw [this, cand_take x hJ.inv] at ha
        exact hJ.pre h1 a ha
  · have ht' : reqTest R x.cand = false := by simpa using ht
    simp only [ht, Bool.false_eq_true, if_false]
    cases hadv : x.st.advance with
    | some s =>
      simp only
      have := BS.advance_inv hJ.inv.2 hadv
      refine ⟨⟨by rw [this.2.1]; exact hJ.inv.1, this.1⟩, hJ.sub, hJ.req, ?_⟩
      intro hc a ha
      rcases this.2.2 with ⟨h1, h2⟩ | ⟨h1, h2, h3⟩
      · have hc1 : x.st.chunk = 1 := by rw [← h1]; exact hc
        obtain ⟨hlt, hm⟩ := reject_mem R x hJ.inv hc1 hJ.req ht'
        simp only [h2, hc1] at ha
        rw [List.take_succ_eq_append_getElem hlt] at ha
        simp only [List.mem_append, List.mem_singleton] at ha
        rcases ha with ha | ha
        · exact hJ.pre hc1 a ha
        · rw [ha]; exact hm
      · simp [h2] at ha
    | none =>
      simp only
      have hnone := BS.advance_none hJ.inv.2 hadv
      obtain ⟨hlt, hm⟩ := reject_mem R x hJ.inv hnone.1 hJ.req ht'
      refine ⟨hJ.sub, hJ.req, ?_⟩
      intro a ha
      have hlen : x.items.length = x.st.index + 1 := by have := hJ.inv.1; omega
      have : x.items = x.items.take x.st.index ++ [x.items[x.st.index]] := by
        rw [← List.take_succ_eq_append_getElem hlt, ← hlen, List.take_length]
      rw [this] at ha
      simp only [List.mem_append, List.mem_singleton] at ha
      rcases ha with ha | ha
      · exact hJ.pre hnone.1 a ha
      · rw [ha]; exact hm

theorem run_Done (items0 R : List α) : ∀ (fuel : Nat) (x : St α) (r : List α), J items0 R x →
    run (reqTest R) fuel x = some r → Done items0 R r := by
  intro fuel
  induction fuel with
  | zero => intro x r _ h; simp [run] at h
  | succ f ih =>
    intro x r hJ h
    have hs := step_J items0 R x hJ
    simp only [run] at h
    split at h
    · rename_i y hy; rw [hy] at hs; exact ih y r hs h
    · rename_i q hq; rw [hq] at hs; cases h; exact hs

theorem sublist_eq_filter (p : α → Bool) : ∀ (l s : List α), l.Nodup → s.Sublist l →
    (∀ b ∈ l, p b = true → b ∈ s) → (∀ b ∈ s, p b = true) → s = l.filter p := by
  intro l s hn hsub
  induction hsub with
  | slnil => intros; rfl
  | cons a hs ih =>
    rename_i l1 l2
    intro h1 h2
    have hn' := (List.nodup_cons.mp hn)
    have hpa : p a = false := by
      cases hp : p a with
      | false => rfl
      | true => exact absurd (hs.subset (h1 a (by simp) hp)) hn'.1
    simp only [List.filter_cons, hpa]
    exact ih hn'.2 (fun b hb hp => h1 b (by simp [hb]) hp) h2
  | cons_cons a hs ih =>
    rename_i l1 l2
    intro h1 h2
    have hn' := (List.nodup_cons.mp hn)
    have hpa : p a = true := h2 a (by simp)
    simp only [List.filter_cons, hpa, if_true]
    congr 1
    apply ih hn'.2
    · intro b hb hp
      have := h1 b (by simp [hb]) hp
      simp only [List.mem_cons] at this
      rcases this with h | h
      · subst h; exact absurd hb hn'.1
      · exact h
    · intro b hb; exact h2 b (by simp [hb])

/-- C06, monotone case: the completed run returns exactly the required subset -/
theorem monotone_exact (items0 R : List α) (hn : items0.Nodup) (hR : ∀ r ∈ R, r ∈ items0)
    (fuel : Nat) (r : List α) (h : start (reqTest R) fuel items0 = some r) :
    r = items0.filter (fun a => decide (a ∈ R)) := by
  unfold start BS.create at h
  split at h
  · rename_i hc
    split at hc
    · rename_i h0
      cases h
      have : items0 = [] := List.eq_nil_of_length_eq_zero h0
      subst this; rfl
    · cases hc
  · rename_i s hc
    split at hc
    · cases hc
    · rename_i h0
      cases hc
      have hJ : J items0 R (⟨items0, ⟨0, items0.length, items0.length⟩⟩ : St α) :=
        ⟨⟨rfl, by simp [BS.Inv]; omega⟩, List.Sublist.refl _, hR, by intro _ a ha; simp at ha⟩
      have hd := run_Done items0 R fuel _ r hJ h
      apply sublist_eq_filter _ items0 r hn hd.sub
      · intro b _ hp; exact hd.req b (by simpa using hp)
      · intro b hb; simpa using hd.only b hb

end Cvise

