import Cvise.Proofs.PassesBalTerm
/-! C07 "every instance is eventually offered" for `balanced` (arguments without a prefix expression): under the
    all-reject history, every balanced group whose recipe changes the text shows up as a candidate. -/
namespace Cvise.P
open Cvise Cvise.M Cvise.D

theorem bal_unique (o c : Char) (s : Text) (a b b' : Nat) (h : Bal o c s a b) (h' : Bal o c s a b') : b = b' := by
  have := C12.closing_unique o c _ 1 _ _ h.2.2.2 h'.2.2.2
  have h1 := h.2.2.1
  have h2 := h'.2.2.1
  omega

/-- what `find` (no prefix) returns when a balanced group starts at or after `pos`: a group at or before it; the very
    group if it starts at the same place -/
theorem balFind_reaches (cfg : BalCfg) (hp : cfg.pre = none) (s : Text) (pos : Nat) (a b : Nat)
    (hb : Bal cfg.o cfg.c s a b) (hpa : pos ≤ a) :
    ∃ st, balFind cfg s (pos : Int) = some st ∧ pos ≤ st.1 ∧ st.1 ≤ a ∧ Bal cfg.o cfg.c s st.1 st.2 ∧ (st.1 = a → st = (a, b)) := by
  have hc := rxOracle_contract Gen.rxTable
  cases hf : balFind cfg s (pos : Int) with
  | none =>
    exfalso
    unfold balFind at hf
    rw [hp] at hf
    exact C12.find_none rxo hc cfg.o cfg.c s pos hf (by omega) a (by exact_mod_cast hpa) b hb
  | some st =>
    obtain ⟨a', b'⟩ := st
    have hf' : find rxo cfg.o cfg.c none s (pos : Int) = some (a', b') := by
      unfold balFind at hf; rw [hp] at hf; exact hf
    obtain ⟨j1, j2, j3⟩ := C12.find_leftmost rxo hc cfg.o cfg.c s pos a' b' hf'
    have hle : a' ≤ a := by
      rcases Nat.lt_or_ge a a' with h | h
      · exact absurd hb (j3 a (by exact_mod_cast hpa) h b)
      · exact h
    refine ⟨(a', b'), rfl, by exact_mod_cast j1, hle, j2, ?_⟩
    intro heq
    simp only at heq
    subst heq
    rw [bal_unique cfg.o cfg.c s a' b' b j2 hb]

/-- the candidates accumulated so far are never dropped -/
theorem runHistory_acc_subset {σ : Type} (P : TextPass σ) : ∀ (hist : List Bool) (s : Text) (st : Option σ) (acc : List (PR × Text)) (x : PR × Text),
    x ∈ acc → x ∈ (runHistory P hist s st acc).1 := by
  intro hist
  induction hist with
  | nil => intro s st acc x h; simpa [runHistory] using h
  | cons a hs ih =>
    intro s st acc x h
    cases st with
    | none => simpa [runHistory] using h
    | some st =>
      rcases htr : P.transform s st with ⟨pr, s2, st2⟩
      rw [runHistory_cons P a hs s st acc pr s2 st2 htr]
      have hx : x ∈ acc ++ [(pr, s2)] := List.mem_append_left _ h
      split
      · exact hx
      · split
        · exact ih _ _ _ x hx
        · exact ih _ _ _ x hx

/-- the transform loop, started at a group at or before a changing group, does not give up: it returns OK -/
theorem balLoop_finds (cfg : BalCfg) (hp : cfg.pre = none) (s : Text) (a b : Nat) (hb : Bal cfg.o cfg.c s a b)
    (hch : cfg.recipe.eval s [a, b] ≠ s) : ∀ (fuel : Nat) (st : Span), st.1 ≤ a → (st.1 = a → st = (a, b)) → a - st.1 < fuel →
      ∃ out st', balTransformLoop cfg s fuel st = (.ok, out, st') ∧ (st.1 = a → out = cfg.recipe.eval s [a, b]) := by
  intro fuel
  induction fuel with
  | zero => intro st _ _ h; omega
  | succ f ih =>
    intro st hle heq hf
    simp only [balTransformLoop]
    split
    · refine ⟨_, _, rfl, ?_⟩
      intro h
      rw [heq h]
    · rename_i hsame
      have hne : st.1 ≠ a := by
        intro h
        have := heq h
        rw [this] at hsame
        exact hsame hch
      obtain ⟨st1, h1, h2, h3, _, h5⟩ := balFind_reaches cfg hp s (st.1 + 1) a b hb (by omega)
      have h1' : balFind cfg s ((st.1 : Int) + 1) = some st1 := by exact_mod_cast h1
      rw [h1']
      obtain ⟨out, st', e, _⟩ := ih st1 h3 h5 (by omega)
      exact ⟨out, st', e, fun h => absurd h hne⟩

/-- all-reject enumeration from any cursor at or before the group: the group's candidate is produced -/
theorem balanced_offers_from (cfg : BalCfg) (hp : cfg.pre = none) (s : Text) (a b : Nat) (hb : Bal cfg.o cfg.c s a b)
    (hch : cfg.recipe.eval s [a, b] ≠ s) (ha : a ≤ s.length) : ∀ (n : Nat) (st : Span) (acc : List (PR × Text)),
      st.1 ≤ a → (st.1 = a → st = (a, b)) → a - st.1 < n →
      (PR.ok, cfg.recipe.eval s [a, b]) ∈ (runHistory (balanced cfg) (List.replicate n false) s (some st) acc).1 := by
  intro n
  induction n with
  | zero => intro st acc _ _ h; omega
  | succ m ih =>
    intro st acc hle heq hn
    obtain ⟨out, st', e, hout⟩ := balLoop_finds cfg hp s a b hb hch (s.length + 2) st hle heq (by omega)
    have htr : (balanced cfg).transform s st = (.ok, out, st') := e
    rw [List.replicate_succ, runHistory_cons (balanced cfg) false _ s st acc .ok out st' htr]
    simp only [Bool.false_eq_true, false_and, if_false, reduceCtorEq, or_self]
    by_cases h : st.1 = a
    · apply runHistory_acc_subset
      rw [hout h]
      simp
    · obtain ⟨st1, h1, h2, h3, _, h5⟩ := balFind_reaches cfg hp s (st.1 + 1) a b hb (by omega)
      have h1' : (balanced cfg).advance s st = some st1 := by
        show balFind cfg s ((st.1 : Int) + 1) = some st1
        exact_mod_cast h1
      rw [h1']
      exact ih st1 _ h3 h5 (by omega)

/-- **every balanced group whose edit changes the text is eventually offered when all candidates are rejected** -/
theorem balanced_offers_all (cfg : BalCfg) (hp : cfg.pre = none) (s : Text) (a b : Nat) (hb : Bal cfg.o cfg.c s a b)
    (hch : cfg.recipe.eval s [a, b] ≠ s) (n : Nat) (hn : s.length < n) :
    (PR.ok, cfg.recipe.eval s [a, b]) ∈ (runHistory (balanced cfg) (List.replicate n false) s ((balanced cfg).new s) []).1 := by
  have ha : a ≤ s.length := by have := hb.1; omega
  obtain ⟨st0, h1, _, h3, _, h5⟩ := balFind_reaches cfg hp s 0 a b hb (Nat.zero_le _)
  have : (balanced cfg).new s = some st0 := by
    show balFind cfg s 0 = some st0
    exact_mod_cast h1
  rw [this]
  exact balanced_offers_from cfg hp s a b hb hch ha n st0 [] h3 h5 (by omega)

end Cvise.P

namespace Cvise.P
open Cvise Cvise.M Cvise.D

/-- a deleting recipe: one of the two shapes, with no inserted text -/
def deletingShape (r : Recipe) : Bool :=
  match balShape r with
  | some (k, c, j) => decide (0 ≤ k ∧ j ≤ 0 ∧ k - j ≤ 2 ∧ c.length = 0)
  | none => onlyShape r

theorem deleting_eval_sublist (r : Recipe) (h : deletingShape r = true) (s : Text) (a e : Nat) (h1 : a + 2 ≤ e) (h2 : e ≤ s.length) :
    (r.eval s [a, e]).Sublist s := by
  unfold deletingShape at h
  cases hb : balShape r with
  | some kcj =>
    obtain ⟨k, c, j⟩ := kcj
    rw [hb] at h
    simp only [decide_eq_true_eq] at h
    obtain ⟨hk, hj, hsum, hc0⟩ := h
    rw [balShape_eval r k j c hb s a e]
    have : c.toList = [] := List.eq_nil_of_length_eq_zero (by simpa using hc0)
    rw [this, List.append_nil]
    exact take_drop_sublist s _ _ (by omega)
  | none =>
    rw [hb] at h
    simp only at h
    rw [onlyShape_eval r h s a e]
    unfold pySlice
    exact take_mid_drop_sublist s a (a + 1) (e - 1) e (by omega) (by omega) (by omega)

/-- balanced, deleting arguments: a produced candidate is a proper subsequence of the input -/
theorem balanced_deletion_sublist (cfg : BalCfg) (hd : deletingShape cfg.recipe = true) (s : Text) (st : Span) (hI : BalI s st)
    (out : Text) (st' : Span) (h : (balanced cfg).transform s st = (.ok, out, st')) : out.Sublist s ∧ out ≠ s := by
  obtain ⟨_, l2, l3, l4⟩ := balLoop_ok_spec cfg s _ st out st' hI h
  refine ⟨?_, l4⟩
  rw [l3]
  exact deleting_eval_sublist cfg.recipe hd s _ _ l2.1 l2.2

/-- which shipped arguments are deleting ones: all but the two replacement arguments (finite table, regenerated) -/
theorem balanced_deleting_args :
    (Gen.balancedCfg.filter (fun x => !deletingShape x.2.2.2.2)).map (·.1) = ["parens-to-zero", "curly2"] := by decide +kernel

end Cvise.P
