import Cvise.Model.Driver
/-! C09 core: ACCEPT is possible only for `result = OK ∧ exit = 0 ∧ changed ∧ within max_improvement`, it has no
    side effect, and whatever a round returns as the winner was ACCEPTed. -/
namespace Cvise.D
variable {C σ : Type} [DecidableEq C]

theorem check_accept (cfg : Cfg) (size : C → Nat) (cur : C) (e : EnvRes C σ) (g g' : Side C) (gu gu' : Bool)
    (h : check cfg size cur e g gu = (.accept, g', gu')) :
    isAccept cfg size cur e = true ∧ g' = g ∧ gu' = gu := by
  unfold check reportBug saveExtra at h
  unfold isAccept
  grind

end Cvise.D

namespace Cvise.D
variable {C σ : Type} [DecidableEq C]

theorem check_of_isAccept (cfg : Cfg) (size : C → Nat) (cur : C) (e : EnvRes C σ) (g : Side C) (gu : Bool)
    (h : isAccept cfg size cur e = true) : check cfg size cur e g gu = (.accept, g, gu) := by
  unfold isAccept at h
  unfold check reportBug saveExtra
  grind

/-- what ACCEPT means, spelled out (C09 `accept_requires_ok0`, C16 `step_improvement_le`) -/
theorem isAccept_iff (cfg : Cfg) (size : C → Nat) (cur : C) (e : EnvRes C σ) :
    isAccept cfg size cur e = true ↔
      e.pr = .ok ∧ e.exit = some (.code 0) ∧ e.cand ≠ cur ∧
      (∀ m, cfg.maxImp = some m → (size cur : Int) - size e.cand ≤ m) := by
  unfold isAccept
  cases hm : cfg.maxImp <;> simp <;> grind

/-- bookkeeping effect of one judgement: at most one failure, no scheduling, directories only grow, by at most one each -/
theorem check_failed (cfg : Cfg) (size : C → Nat) (cur : C) (e : EnvRes C σ) (g g' : Side C) (gu gu' : Bool) (o : Outcome)
    (h : check cfg size cur e g gu = (o, g', gu')) :
    g'.failed = g.failed ∨ g'.failed = bump g.failed g.curPass := by
  unfold check reportBug saveExtra at h
  grind

theorem check_frame (cfg : Cfg) (size : C → Nat) (cur : C) (e : EnvRes C σ) (g g' : Side C) (gu gu' : Bool) (o : Outcome)
    (h : check cfg size cur e g gu = (o, g', gu')) :
    g'.executed = g.executed ∧ g'.worked = g.worked ∧ g'.curPass = g.curPass := by
  unfold check reportBug saveExtra at h
  grind

theorem check_bug (cfg : Cfg) (size : C → Nat) (cur : C) (e : EnvRes C σ) (g g' : Side C) (gu gu' : Bool) (o : Outcome)
    (h : check cfg size cur e g gu = (o, g', gu')) :
    g.bug ≤ g'.bug ∧ (g'.bug = g.bug ∨ (g'.bug = g.bug + 1 ∧ g.bug ≤ cfg.maxCrash)) := by
  unfold check reportBug saveExtra at h
  grind

theorem check_extra (cfg : Cfg) (size : C → Nat) (cur : C) (e : EnvRes C σ) (g g' : Side C) (gu gu' : Bool) (o : Outcome)
    (h : check cfg size cur e g gu = (o, g', gu')) :
    g.extra ≤ g'.extra ∧ (g'.extra = g.extra ∨ (g'.extra = g.extra + 1 ∧ g.extra ≤ cfg.maxExtra)) := by
  unfold check reportBug saveExtra at h
  grind

theorem wfs_sound (cfg : Cfg) (size : C → Nat) (cur : C) (env : Nat → EnvRes C σ) :
    ∀ (L : List Nat) (g g' : Side C) (rs : RS) (i : Nat),
      wfs cfg size cur env L g rs = .inl (some i, g') → i ∈ L ∧ isAccept cfg size cur (env i) = true := by
  intro L
  induction L with
  | nil => intro g g' rs i h; simp [wfs] at h
  | cons j L ih =>
    intro g g' rs i h
    simp only [wfs] at h
    split at h
    · obtain ⟨h1, h2⟩ := ih _ _ _ _ h; exact ⟨List.mem_cons_of_mem _ h1, h2⟩
    · cases h
    · split at h
      · rename_i hc
        cases h
        exact ⟨List.mem_cons_self, (check_accept cfg size cur (env _) _ _ _ _ hc).1⟩
      · cases h
      · obtain ⟨h1, h2⟩ := ih _ _ _ _ h; exact ⟨List.mem_cons_of_mem _ h1, h2⟩

/-- C09 `loop_sound`: for every schedule oracle, every fuel, every side state — the candidate a round hands to
    `process_result` was ACCEPTed -/
theorem roundLoop_sound (cfg : Cfg) (size : C → Nat) (pkey : Nat) (cur : C) (env : Nat → EnvRes C σ) (more : Nat → Bool)
    (done : Nat → Nat → Bool) : ∀ (fuel t : Nat) (futs : List Nat) (g g' : Side C) (rs : RS) (i : Nat),
      roundLoop cfg size pkey cur env more done fuel t futs g rs = .inl (some i, g') →
      isAccept cfg size cur (env i) = true := by
  intro fuel
  induction fuel with
  | zero => intro t futs g g' rs i h; simp [roundLoop] at h
  | succ f ih =>
    intro t futs g g' rs i h
    simp only [roundLoop] at h
    split at h
    · cases h
    · split at h
      · exact (wfs_sound cfg size cur env _ _ _ _ _ h).2
      · split at h
        · exact ih _ _ _ _ _ _ h
        · exact (wfs_sound cfg size cur env _ _ _ _ _ h).2

end Cvise.D
