import Cvise.Proofs.PassesBalOffers
/-! `ternary`: an OK candidate is a proper subsequence of the input (C07) and strictly shorter, hence at most `2·|s| + 2`
    candidates under every accept/reject history (C03). -/
namespace Cvise.P
open Cvise Cvise.M Cvise.D

theorem patSpec_bounds (rx : RxO) (hc : RxContract rx) : ∀ (p : Pat) (s : List Char) (a : Nat) (m : Span),
    PatSpec rx p s a m → m.1 = a ∧ m.1 ≤ m.2 ∧ m.2 ≤ s.length := by
  intro p
  induction p with
  | rx id =>
    intro s a m h
    have h1 := hc.matchStart id s a m h
    exact ⟨h1.1, h1.2.2, hc.matchEnd id s a m h⟩
  | bal o c =>
    intro s a m h
    have := bal_span o c s a m.2 h.2
    have h1 := h.1
    exact ⟨h1, by omega, this.2⟩
  | or l r ihl ihr =>
    intro s a m h
    rcases h with h | ⟨_, h⟩
    · exact ihl s a m h
    · exact ihr s a m h

/-- the spans of a sequence match are back to back, each inside the text -/
def Chain (L : Nat) : Nat → List Span → Nat → Prop
  | a, [], e => a = e
  | a, m :: rest, e => m.1 = a ∧ m.1 ≤ m.2 ∧ m.2 ≤ L ∧ Chain L m.2 rest e

theorem seqMatch_chain (rx : RxO) (hc : RxContract rx) (s : List Char) (parts : List Pat) (a e : Nat) (sp : List Span)
    (h : SeqMatch rx s parts a e sp) : Chain s.length a sp e ∧ sp.length = parts.length := by
  induction h with
  | nil a => exact ⟨rfl, rfl⟩
  | cons h1 _ ih =>
    have := patSpec_bounds rx hc _ s _ _ h1
    exact ⟨⟨this.1, this.2.1, this.2.2, ih.1⟩, by simp [ih.2]⟩

/-- reachable ternary cursors: a sequence match of the seven parts -/
def TernI (s : Text) (st : TernSt) : Prop := ∃ e, st.1 = (st.1.1, e) ∧ SeqMatch rxo s (Gen.ternaryParts.map (·.1)) st.1.1 e st.2

theorem ternSearch_spec (s : Text) (pos : Int) (st : TernSt) (h : ternSearch s pos = some st) : pos ≤ st.1.1 ∧ TernI s st := by
  obtain ⟨⟨a, e⟩, sp⟩ := st
  obtain ⟨_, j1, j2, _⟩ := C12.search_leftmost_engine Gen.rxTable _ s pos a e sp h
  exact ⟨j1, e, rfl, j2⟩

theorem tern_idx : partIdx Gen.ternaryParts "del1" = 0 ∧ partIdx Gen.ternaryParts "b" = 3 ∧ partIdx Gen.ternaryParts "c" = 5 ∧
    partIdx Gen.ternaryParts "del2" = 6 ∧ (Gen.ternaryParts.map (·.1)).length = 7 := by decide +kernel

/-- the slice arithmetic of a ternary candidate -/
theorem tern_cut (s : Text) (d1 k1 k2 d2 : Nat) (h1 : d1 ≤ k1) (h2 : k1 ≤ k2) (h3 : k2 ≤ d2) (h4 : d2 ≤ s.length) :
    let out := s.take d1 ++ (s.take k2).drop k1 ++ s.drop d2
    out.Sublist s ∧ (out ≠ s → out.length < s.length) := by
  intro out
  refine ⟨take_mid_drop_sublist s d1 k1 k2 d2 h1 h3 (by omega), ?_⟩
  intro hne
  have hlen : out.length = d1 + (k2 - k1) + (s.length - d2) := by
    simp only [out, List.length_append, List.length_take, List.length_drop]
    omega
  by_cases heq : d1 = k1 ∧ k2 = d2
  · exfalso
    apply hne
    obtain ⟨e1, e2⟩ := heq
    subst e1 e2
    show s.take d1 ++ (s.take k2).drop d1 ++ s.drop k2 = s
    have : (s.take k2).drop d1 = (s.drop d1).take (k2 - d1) := by rw [List.drop_take]
    rw [this]
    have e3 : s.drop k2 = (s.drop d1).drop (k2 - d1) := by rw [List.drop_drop]; congr 1; omega
    rw [e3, List.append_assoc, List.take_append_drop, List.take_append_drop]
  · rw [hlen]; omega

theorem ternLoop_ok_spec (arg : String) (harg : arg = "b" ∨ arg = "c") (s : Text) : ∀ (fuel : Nat) (st : TernSt) (out : Text) (st' : TernSt),
    TernI s st → ternTransformLoop arg s fuel st = (.ok, out, st') →
    st.1.1 ≤ st'.1.1 ∧ TernI s st' ∧ out.Sublist s ∧ out ≠ s ∧ out.length < s.length := by
  intro fuel
  induction fuel with
  | zero => intro st out st' _ h; simp [ternTransformLoop] at h
  | succ f ih =>
    intro st out st' hI h
    simp only [ternTransformLoop] at h
    split at h
    · rename_i hne
      cases h
      refine ⟨Nat.le_refl _, hI, ?_⟩
      obtain ⟨e, _, hsm⟩ := hI
      obtain ⟨hch, hlen⟩ := seqMatch_chain rxo (rxOracle_contract Gen.rxTable) s _ _ _ _ hsm
      obtain ⟨i0, i3, i5, i6, i7⟩ := tern_idx
      rw [i7] at hlen
      -- seven spans
      match hsp : st.2, hlen with
      | [m0, m1, m2, m3, m4, m5, m6], _ =>
        rw [hsp] at hch hne
        simp only [Chain] at hch
        obtain ⟨c0, c0', c0'', c1, c1', c1'', c2, c2', c2'', c3, c3', c3'', c4, c4', c4'', c5, c5', c5'', c6, c6', c6'', _⟩ := hch
        rcases harg with rfl | rfl
        · simp only [i0, i3, i6, List.getD_cons_zero, List.getD_cons_succ] at hne ⊢
          have := tern_cut s m0.2 m3.1 m3.2 m6.1 (by omega) (by omega) (by omega) (by omega)
          simp only at this
          exact ⟨this.1, hne, this.2 hne⟩
        · simp only [i0, i5, i6, List.getD_cons_zero, List.getD_cons_succ] at hne ⊢
          have := tern_cut s m0.2 m5.1 m5.2 m6.1 (by omega) (by omega) (by omega) (by omega)
          simp only at this
          exact ⟨this.1, hne, this.2 hne⟩
    · split at h
      · simp at h
      · rename_i st1 hf
        have sp := ternSearch_spec s _ st1 hf
        have := ih st1 out st' sp.2 h
        refine ⟨?_, this.2⟩
        have := this.1
        omega

theorem ternI_start_le (s : Text) (st : TernSt) (h : TernI s st) : st.1.1 ≤ s.length := by
  obtain ⟨e, _, hsm⟩ := h
  obtain ⟨hch, hlen⟩ := seqMatch_chain rxo (rxOracle_contract Gen.rxTable) s _ _ _ _ hsm
  rw [tern_idx.2.2.2.2] at hlen
  match hsp : st.2, hlen with
  | m0 :: rest, _ =>
    rw [hsp] at hch
    simp only [Chain] at hch
    omega

/-- ternary (arguments b, c): at most `2·|s| + 2` candidates under every accept/reject history -/
theorem ternary_bound (arg : String) (harg : arg = "b" ∨ arg = "c") (hist : List Bool) (s : Text) (st : TernSt)
    (hnew : (ternary arg).new s = some st) :
    (runHistory (ternary arg) hist s (some st) []).1.length ≤ 2 * s.length + 2 := by
  have hI0 : TernI s st := (ternSearch_spec s 0 st hnew).2
  have key := drive_bound_inv (ternary arg) TernI (fun s st => 2 * s.length + 1 - st.1.1)
    (by intro s st st' _ h; exact (ternSearch_spec s _ st' h).2)
    (by intro s st s2 st2 st' _ _ h; exact (ternSearch_spec s2 _ st' h).2)
    (by
      intro s st st' hI h
      have sp := ternSearch_spec s _ st' h
      have := ternI_start_le s st' sp.2
      have := sp.1
      show 2 * _ + 1 - _ < 2 * _ + 1 - _
      omega)
    (by
      intro s st s2 st2 st' hI htr h
      have sp := ternSearch_spec s2 _ st' h
      obtain ⟨l1, l2, _, _, l5⟩ := ternLoop_ok_spec arg harg s _ st s2 st2 hI htr
      have := ternI_start_le s2 st' sp.2
      have := ternI_start_le s st hI
      have := sp.1
      show 2 * _ + 1 - _ < 2 * _ + 1 - _
      omega)
    hist s st [] hI0
  simp only [List.length_nil] at key
  have : 2 * s.length + 1 - st.1.1 ≤ 2 * s.length + 1 := Nat.sub_le _ _
  omega

/-- ternary: an OK candidate keeps one operand: it is a proper subsequence of the input -/
theorem ternary_sublist (arg : String) (harg : arg = "b" ∨ arg = "c") (s : Text) (st : TernSt) (hI : TernI s st)
    (out : Text) (st' : TernSt) (h : (ternary arg).transform s st = (.ok, out, st')) : out.Sublist s ∧ out ≠ s := by
  obtain ⟨_, _, l3, l4, _⟩ := ternLoop_ok_spec arg harg s _ st out st' hI h
  exact ⟨l3, l4⟩

end Cvise.P
