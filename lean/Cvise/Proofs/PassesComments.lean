import Cvise.Proofs.PassesC07
import Cvise.Proofs.RxContract
/-! C07 for `comments`: a produced candidate is the input with some matched regions deleted — a proper subsequence. -/
namespace Cvise.P
set_option linter.unusedVariables false
open Cvise Cvise.M Cvise.D

/-- the matches `finditer` returns are in order and do not overlap: each starts at or after the previous end -/
def Spans : Nat → List (Nat × Nat × Caps) → Prop
  | _, [] => True
  | p, (a, e, _) :: rest => p ≤ a ∧ a ≤ e ∧ Spans e rest

theorem Spans.mono {p q : Nat} (h : p ≤ q) : ∀ {ms : List (Nat × Nat × Caps)}, Spans q ms → Spans p ms
  | [], _ => trivial
  | (a, e, c) :: rest, hs => ⟨Nat.le_trans h hs.1, hs.2.1, hs.2.2⟩

theorem findAll_spans (r : Rx) (s : Array Nat) : ∀ (fuel p : Nat), Spans p (rxFindAll r s fuel p) := by
  intro fuel
  induction fuel with
  | zero => intro p; simp [rxFindAll, Spans]
  | succ f ih =>
    intro p
    simp only [rxFindAll]
    cases hs : rxSearchFrom r s p with
    | none => simp [Spans]
    | some aec =>
      obtain ⟨a, e, c⟩ := aec
      obtain ⟨j1, j2, _⟩ := (rxSearchFrom_spec r s _ p (Nat.le_refl _)).1 a e c hs
      have hb := rxMatchAt_bounds r s a e c j2
      simp only
      refine ⟨j1, hb.2.1, ?_⟩
      split
      · exact Spans.mono (Nat.le_succ e) (ih (e + 1))
      · exact ih e

/-- deleting the matched regions (`re.sub(pattern, '', s)`): what is appended is a subsequence of the rest of the input -/
theorem build_nil_sublist (s : Text) : ∀ (ms : List (Nat × Nat × Caps)) (pos : Nat) (acc : Text), Spans pos ms →
    ∃ t, rxSub.build [] s ms pos acc = acc ++ t ∧ t.Sublist (s.drop pos) := by
  intro ms
  induction ms with
  | nil => intro pos acc _; exact ⟨s.drop pos, by simp [rxSub.build], List.Sublist.refl _⟩
  | cons m rest ih =>
    intro pos acc h
    obtain ⟨a, e, c⟩ := m
    obtain ⟨h1, h2, h3⟩ := h
    simp only [rxSub.build, List.append_nil]
    obtain ⟨t, ht, hsub⟩ := ih e (acc ++ (s.drop pos).take (a - pos)) h3
    refine ⟨(s.drop pos).take (a - pos) ++ t, by rw [ht, List.append_assoc], ?_⟩
    -- s.drop pos = take (a - pos) ++ drop (a - pos), and `t` is a subsequence of s.drop e, a suffix of that drop
    have e1 : s.drop pos = (s.drop pos).take (a - pos) ++ (s.drop pos).drop (a - pos) := (List.take_append_drop _ _).symm
    have e2 : (s.drop pos).drop (a - pos) = s.drop a := by rw [List.drop_drop]; congr 1; omega
    have e3 : s.drop e = (s.drop a).drop (e - a) := by rw [List.drop_drop]; congr 1; omega
    conv => rhs; rw [e1, e2]
    apply List.Sublist.append_left
    exact List.Sublist.trans hsub (by rw [e3]; exact List.drop_sublist _ _)

theorem rxSub_nil_sublist (id : Nat) (s : Text) : (rxSub id [] s).Sublist s := by
  unfold rxSub
  obtain ⟨t, ht, hsub⟩ := build_nil_sublist s _ 0 [] (findAll_spans (rxTbl id) (toArr s) (s.length + 2) 0)
  simp only [ht, List.nil_append]
  simpa using hsub

/-- every shipped comment substitution deletes (finite table, regenerated) -/
theorem comments_subs_delete : Gen.commentsSubs.all (fun x => x.2 == "") = true := by decide

/-- comments: a produced candidate is a proper subsequence of the input -/
theorem comments_candidate (s : Text) : ∀ (fuel st : Nat) (out : Text) (st' : Nat),
    commentsLoop s fuel st = (.ok, out, st') → out.Sublist s ∧ out ≠ s := by
  intro fuel
  induction fuel with
  | zero => intro st out st' h; simp [commentsLoop] at h
  | succ f ih =>
    intro st out st' h
    simp only [commentsLoop] at h
    split at h
    · simp at h
    · rename_i id repl hget
      have hmem : (id, repl) ∈ Gen.commentsSubs := List.mem_of_getElem? hget
      have hr : repl = "" := by
        have := List.all_eq_true.mp comments_subs_delete _ hmem
        simpa using this
      split at h
      · rename_i hne
        cases h
        refine ⟨?_, hne⟩
        rw [hr]
        exact rxSub_nil_sublist id s
      · exact ih _ _ _ h

end Cvise.P
