import Cvise.Proofs.RxBounds
/-!
Shape facts about the regex engine, stated as closure lemmas (no induction over `Rx` needed): which regexes leave the
capture list alone (`CapsStable`), a lower bound on what a regex consumes (`MinLen`), and the decomposition of a match of a
flat sequence `item₁ item₂ … itemₖ` (items: a named group around a capture-free regex, or a capture-free regex) into
consecutive spans with the group captures they produce.
-/
namespace Cvise

/-- matching `r` never changes the captures -/
def CapsStable (r : Rx) : Prop := ∀ (s : Array Nat) (p : Nat) (c : Caps), ∀ x ∈ ends s r p c, x.2 = c
def SeqStable (rs : List Rx) : Prop := ∀ (s : Array Nat) (p : Nat) (c : Caps), ∀ x ∈ endsSeq s rs p c, x.2 = c
def AltStable (rs : List Rx) : Prop := ∀ (s : Array Nat) (p : Nat) (c : Caps), ∀ x ∈ endsAlt s rs p c, x.2 = c

theorem capsStable_cls (neg : Bool) (items : List CItem) : CapsStable (.cls neg items) := by
  intro s p c x hx
  simp only [ends] at hx
  split at hx
  · split at hx
    · simp at hx; subst hx; rfl
    · cases hx
  · cases hx

theorem capsStable_any (d : Bool) : CapsStable (.any d) := by
  intro s p c x hx
  simp only [ends] at hx
  split at hx
  · split at hx
    · simp at hx; subst hx; rfl
    · cases hx
  · cases hx

theorem capsStable_nla (r : Rx) : CapsStable (.nla r) := by
  intro s p c x hx
  simp only [ends] at hx
  split at hx
  · simp at hx; subst hx; rfl
  · cases hx

theorem capsStable_bos : CapsStable .bos := by
  intro s p c x hx; simp only [ends] at hx; split at hx <;> simp at hx; subst hx; rfl
theorem capsStable_bolM : CapsStable .bolM := by
  intro s p c x hx; simp only [ends] at hx; split at hx <;> simp at hx; subst hx; rfl
theorem capsStable_eolM : CapsStable .eolM := by
  intro s p c x hx; simp only [ends] at hx; split at hx <;> simp at hx; subst hx; rfl
theorem capsStable_eol : CapsStable .eol := by
  intro s p c x hx; simp only [ends] at hx; split at hx <;> simp at hx; subst hx; rfl

theorem seqStable_nil : SeqStable [] := by
  intro s p c x hx; simp [endsSeq] at hx; subst hx; rfl

theorem seqStable_cons (r : Rx) (rs : List Rx) (h1 : CapsStable r) (h2 : SeqStable rs) : SeqStable (r :: rs) := by
  intro s p c x hx
  simp only [endsSeq, List.mem_flatMap] at hx
  obtain ⟨y, hy, hxy⟩ := hx
  have e1 := h1 s p c y hy
  have e2 := h2 s y.1 y.2 x hxy
  rw [e2, e1]

theorem capsStable_seq (rs : List Rx) (h : SeqStable rs) : CapsStable (.seq rs) := by
  intro s p c x hx; simp only [ends] at hx; exact h s p c x hx

theorem altStable_nil : AltStable [] := by
  intro s p c x hx; simp [endsAlt] at hx

theorem altStable_cons (r : Rx) (rs : List Rx) (h1 : CapsStable r) (h2 : AltStable rs) : AltStable (r :: rs) := by
  intro s p c x hx
  simp only [endsAlt, List.mem_append] at hx
  rcases hx with hx | hx
  · exact h1 s p c x hx
  · exact h2 s p c x hx

theorem capsStable_alt (rs : List Rx) (h : AltStable rs) : CapsStable (.alt rs) := by
  intro s p c x hx; simp only [ends] at hx; exact h s p c x hx

theorem capsStable_rep (mn : Nat) (mx : Option Nat) (g : Bool) (r : Rx) (h : CapsStable r) : CapsStable (.rep mn mx g r) := by
  intro s p c x hx
  simp only [ends] at hx
  have key : ∀ (fuel mn : Nat) (mx : Option Nat) (p : Nat) (c : Caps), ∀ x ∈ endsRep s r mn mx g fuel p c, x.2 = c := by
    intro fuel
    induction fuel with
    | zero => intro mn mx p c x hx; simp [endsRep] at hx
    | succ f ih =>
      intro mn mx p c x hx
      rcases endsRep_succ_mem s r mn mx g f p c x hx with ⟨rfl, _⟩ | ⟨y, hy, hxy⟩
      · rfl
      · have e1 := h s p c y hy
        have e2 := ih _ _ y.1 y.2 x hxy
        rw [e2, e1]
  exact key _ _ _ _ _ x hx

/-- a tactic that discharges `CapsStable` / `SeqStable` / `AltStable` goals for concrete capture-free regexes -/
macro "caps_stable" : tactic => `(tactic|
  repeat (first
    | exact capsStable_cls _ _ | exact capsStable_any _ | exact capsStable_nla _ | exact capsStable_bos | exact capsStable_bolM
    | exact capsStable_eolM | exact capsStable_eol | exact seqStable_nil | exact altStable_nil
    | apply capsStable_seq | apply capsStable_alt | apply capsStable_rep | apply seqStable_cons | apply altStable_cons))

/-! ### a lower bound on what is consumed -/

def MinLen (r : Rx) (n : Nat) : Prop := ∀ (s : Array Nat) (p : Nat) (c : Caps), ∀ x ∈ ends s r p c, p + n ≤ x.1
def SeqMinLen (rs : List Rx) (n : Nat) : Prop := ∀ (s : Array Nat) (p : Nat) (c : Caps), ∀ x ∈ endsSeq s rs p c, p + n ≤ x.1

theorem minLen_zero (r : Rx) : MinLen r 0 := by
  intro s p c x hx; have := (ends_bounds s r p c x hx).1; omega

theorem seqMinLen_zero (rs : List Rx) : SeqMinLen rs 0 := by
  intro s p c x hx; have := ((ends_bounds_all s).2.2.2 rs p c x hx).1; omega

theorem minLen_cls (neg : Bool) (items : List CItem) : MinLen (.cls neg items) 1 := by
  intro s p c x hx
  simp only [ends] at hx
  split at hx
  · split at hx
    · simp at hx; subst hx; simp
    · cases hx
  · cases hx

theorem seqMinLen_cons (r : Rx) (rs : List Rx) (a b : Nat) (h1 : MinLen r a) (h2 : SeqMinLen rs b) : SeqMinLen (r :: rs) (a + b) := by
  intro s p c x hx
  simp only [endsSeq, List.mem_flatMap] at hx
  obtain ⟨y, hy, hxy⟩ := hx
  have := h1 s p c y hy
  have := h2 s y.1 y.2 x hxy
  omega

theorem minLen_seq (rs : List Rx) (n : Nat) (h : SeqMinLen rs n) : MinLen (.seq rs) n := by
  intro s p c x hx; simp only [ends] at hx; exact h s p c x hx

theorem minLen_grp (id : Nat) (r : Rx) (n : Nat) (h : MinLen r n) : MinLen (.grp id r) n := by
  intro s p c x hx
  simp only [ends, List.mem_map] at hx
  obtain ⟨y, hy, rfl⟩ := hx
  exact h s p c y hy

/-- a repetition with a lower bound of at least one iteration consumes at least what one iteration consumes -/
theorem minLen_rep_pos (mn : Nat) (mx : Option Nat) (g : Bool) (r : Rx) (n : Nat) (hmn : 1 ≤ mn) (h : MinLen r n) :
    MinLen (.rep mn mx g r) n := by
  intro s p c x hx
  simp only [ends] at hx
  generalize s.size + 1 = fuel at hx
  cases fuel with
  | zero => simp [endsRep] at hx
  | succ f =>
    rcases endsRep_succ_mem s r mn mx g f p c x hx with ⟨_, h0⟩ | ⟨y, hy, hxy⟩
    · omega
    · have h1 := h s p c y hy
      have h2 := ((ends_bounds_all s).2.1 r _ _ g f y.1 y.2 x hxy).1
      omega

/-! ### flat sequences -/

/-- an item of a flat sequence: a named group around a capture-free regex, or a capture-free regex -/
inductive It
  | g (id : Nat) (r : Rx)
  | p (r : Rx)

def It.rx : It → Rx
  | .g id r => .grp id r
  | .p r => r

def It.inner : It → Rx
  | .g _ r => r
  | .p r => r

def Flat (its : List It) : Prop := ∀ it ∈ its, CapsStable it.inner

/-- the captures a flat sequence produces when its items match the consecutive spans `p–q₁, q₁–q₂, …` (most recent first) -/
def flatCaps : List It → Nat → List Nat → Caps
  | [], _, _ => []
  | _ :: _, _, [] => []
  | .g id _ :: its, p, q :: qs => flatCaps its q qs ++ [(id, p, q)]
  | .p _ :: its, _, q :: qs => flatCaps its q qs

/-- consecutive boundaries: `p ≤ q₁ ≤ q₂ ≤ …`, each item consuming at least its `MinLen` -/
def Bounds (s : Array Nat) : List It → Nat → List Nat → Prop
  | [], _, qs => qs = []
  | _ :: _, _, [] => False
  | it :: its, p, q :: qs => p ≤ q ∧ (∀ n, MinLen it.inner n → p + n ≤ q) ∧ (∃ cc, (q, cc) ∈ ends s it.inner p cc) ∧ Bounds s its q qs

def lastOr (p : Nat) (qs : List Nat) : Nat := qs.getLast?.getD p

theorem lastOr_cons (p y : Nat) (qs : List Nat) : lastOr p (y :: qs) = lastOr y qs := by
  simp [lastOr, List.getLast?_cons]

/-- the capture an item contributes when it matches the span `p–q` -/
def It.cap : It → Nat → Nat → Caps
  | .g id _, a, b => [(id, a, b)]
  | .p _, _, _ => []

theorem ends_item (s : Array Nat) (it : It) (h : CapsStable it.inner) (p : Nat) (c : Caps) (y : Nat × Caps) (hy : y ∈ ends s it.rx p c) :
    p ≤ y.1 ∧ (∀ n, MinLen it.inner n → p + n ≤ y.1) ∧ (∃ cc, (y.1, cc) ∈ ends s it.inner p cc) ∧
    y.2 = it.cap p y.1 ++ c := by
  cases it with
  | g id r =>
    simp only [It.rx, ends, List.mem_map] at hy
    obtain ⟨z, hz, rfl⟩ := hy
    have := h s p c z hz
    refine ⟨(ends_bounds s r p c z hz).1, fun n hn => hn s p c z hz, ⟨c, ?_⟩, ?_⟩
    · simp only [It.inner]
      have e : z = (z.1, c) := by rw [← this]
      rw [← e]; exact hz
    · simp [It.cap, this]
  | p r =>
    simp only [It.rx] at hy
    have := h s p c y hy
    refine ⟨(ends_bounds s r p c y hy).1, fun n hn => hn s p c y hy, ⟨c, ?_⟩, ?_⟩
    · simp only [It.inner]
      have e : y = (y.1, c) := by rw [← this]
      rw [← e]; exact hy
    · simpa [It.cap] using this

/-- **decomposition of a flat-sequence match** -/
theorem endsSeq_flat (s : Array Nat) : ∀ (its : List It) (p : Nat) (c : Caps) (x : Nat × Caps), Flat its →
    x ∈ endsSeq s (its.map It.rx) p c →
    ∃ qs : List Nat, Bounds s its p qs ∧ x.1 = lastOr p qs ∧ x.2 = flatCaps its p qs ++ c := by
  intro its
  induction its with
  | nil =>
    intro p c x _ hx
    simp [endsSeq] at hx
    subst hx
    exact ⟨[], rfl, rfl, by simp [flatCaps]⟩
  | cons it its ih =>
    intro p c x hf hx
    simp only [List.map_cons, endsSeq, List.mem_flatMap] at hx
    obtain ⟨y, hy, hxy⟩ := hx
    obtain ⟨b1, b2, b4, b3⟩ := ends_item s it (hf it List.mem_cons_self) p c y hy
    obtain ⟨qs, hb, hl, hc⟩ := ih y.1 y.2 x (fun i hi => hf i (List.mem_cons_of_mem _ hi)) hxy
    refine ⟨y.1 :: qs, ⟨b1, b2, b4, hb⟩, ?_, ?_⟩
    · rw [hl, lastOr_cons]
    · rw [hc, b3]
      cases it <;> simp [flatCaps, It.cap, List.append_assoc]

end Cvise
