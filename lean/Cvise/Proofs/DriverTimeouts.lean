import Cvise.Proofs.DriverStats
/-! C09: a stream of timeouts ends the current round after a fixed number of them.
    `Side.timeouts` is a ghost counter (every candidate the scan finds timed out bumps it).  A round that starts with
    the counter at `n` ends — normally or with an error, for every schedule and every fault assignment — with the
    counter at most `n + MAX_TIMEOUTS`. -/
namespace Cvise.D
set_option linter.unusedSectionVars false
variable {C σ : Type} [DecidableEq C]

theorem check_timeouts (cfg : Cfg) (size : C → Nat) (cur : C) (e : EnvRes C σ) (g g' : Side C) (gu gu' : Bool) (o : Outcome)
    (h : check cfg size cur e g gu = (o, g', gu')) : g'.timeouts = g.timeouts := by
  unfold check reportBug saveExtra at h
  grind

theorem saveExtra_timeouts (cfg : Cfg) (g : Side C) : (saveExtra cfg g).timeouts = g.timeouts := by
  unfold saveExtra; split <;> rfl

/-- the scan: the ghost counter grows exactly as the round's own count does; the count never passes the limit, and
    reaching the limit sets the quit flag -/
def ScanT (M : Nat) (g : Side C) (rs : RS) (r : RRes C (List Nat × RS × Bool)) : Prop :=
  match r with
  | .inl ((_, rs', q'), g') => g'.timeouts + rs.tc = g.timeouts + rs'.tc ∧ rs'.tc ≤ M ∧ (rs'.tc = M → q' = true)
  | .inr (_, g') => g'.timeouts + rs.tc ≤ g.timeouts + M

theorem processDone_timeouts (cfg : Cfg) (size : C → Nat) (cur : C) (env : Nat → EnvRes C σ)
    (done : Nat → Bool) : ∀ (L : List Nat) (g : Side C) (rs : RS) (q : Bool),
      rs.tc ≤ cfg.maxTimeouts → (rs.tc = cfg.maxTimeouts → q = true) →
      ScanT cfg.maxTimeouts g rs (processDone cfg size cur env done L g rs q) := by
  intro L
  induction L with
  | nil => intro g rs q h1 h2; simp only [processDone, ScanT]; exact ⟨(by first | trivial | rfl), h1, h2⟩
  | cons i L ih =>
    intro g rs q h1 h2
    simp only [processDone]
    -- continuing the scan from a state whose counters moved together
    have step : ∀ (g1 : Side C) (rs1 : RS) (q1 : Bool), g1.timeouts + rs.tc = g.timeouts + rs1.tc →
        rs1.tc ≤ cfg.maxTimeouts → (rs1.tc = cfg.maxTimeouts → q1 = true) →
        ScanT cfg.maxTimeouts g rs (processDone cfg size cur env done L g1 rs1 q1) := by
      intro g1 rs1 q1 e1 b1 b2
      have := ih g1 rs1 q1 b1 b2
      generalize processDone cfg size cur env done L g1 rs1 q1 = r at this ⊢
      unfold ScanT at this ⊢
      rcases r with ⟨⟨k, a, b⟩, g'⟩ | ⟨er, g'⟩
      · simp only at this ⊢; exact ⟨by omega, this.2.1, this.2.2⟩
      · simp only at this ⊢; omega
    have keep : ∀ (g1 : Side C) (rs1 : RS) (q1 : Bool), g1.timeouts + rs.tc = g.timeouts + rs1.tc →
        rs1.tc ≤ cfg.maxTimeouts → (rs1.tc = cfg.maxTimeouts → q1 = true) →
        ScanT cfg.maxTimeouts g rs
          (match processDone cfg size cur env done L g1 rs1 q1 with
            | .inl ((k, rs, q), g) => .inl ((i :: k, rs, q), g)
            | .inr e => .inr e) := by
      intro g1 rs1 q1 e1 b1 b2
      have := step g1 rs1 q1 e1 b1 b2
      generalize processDone cfg size cur env done L g1 rs1 q1 = r at this ⊢
      unfold ScanT at this ⊢
      rcases r with ⟨⟨k, a, b⟩, g'⟩ | ⟨er, g'⟩ <;> exact this
    split
    · exact step g rs q rfl h1 h2
    · rename_i hq
      have hlt : rs.tc < cfg.maxTimeouts := by
        rcases Nat.lt_or_ge rs.tc cfg.maxTimeouts with h | h
        · exact h
        · exact absurd (h2 (by omega)) hq
      split
      · split
        · -- a timeout: both counters move by one
          apply step
          · rw [saveExtra_timeouts]; simp only; omega
          · simp only; omega
          · intro h; simp only at h ⊢; simp; omega
        · simp only [ScanT]; omega
        · cases hc : check cfg size cur (env i) g rs.gu with
          | mk o rest =>
            obtain ⟨g1, gu1⟩ := rest
            have ht := check_timeouts cfg size cur (env i) g g1 rs.gu gu1 o hc
            cases o with
            | accept => exact keep _ _ _ (by simp only; omega) (by simpa using h1) (by intro h; simp only at h; omega)
            | ignore => simp only; exact step _ _ _ (by simp only; omega) (by simpa using h1) (by intro h; simp only at h; omega)
            | quit => simp only; exact step _ _ _ (by simp only; omega) (by simpa using h1) (by intro _; rfl)
            | raise e => simp only [ScanT]; omega
      · exact keep _ _ _ rfl h1 (by intro h; omega)

theorem wfs_timeouts (cfg : Cfg) (size : C → Nat) (cur : C) (env : Nat → EnvRes C σ) :
    ∀ (L : List Nat) (g : Side C) (rs : RS), (RRes.side (wfs cfg size cur env L g rs)).timeouts = g.timeouts := by
  intro L
  induction L with
  | nil => intro g rs; simp [wfs, RRes.side]
  | cons i L ih =>
    intro g rs
    simp only [wfs]
    split
    · exact ih g rs
    · simp [RRes.side]
    · cases hc : check cfg size cur (env i) g rs.gu with
      | mk o rest =>
        obtain ⟨g1, gu1⟩ := rest
        have ht := check_timeouts cfg size cur (env i) g g1 rs.gu gu1 o hc
        cases o with
        | accept => simp only [RRes.side]; exact ht
        | raise e => simp only [RRes.side]; exact ht
        | ignore => simp only; rw [ih]; exact ht
        | quit => simp only; rw [ih]; exact ht

/-- a round counts at most `MAX_TIMEOUTS` timeouts, whatever the schedule, the faults, the fuel -/
theorem roundLoop_timeouts (cfg : Cfg) (size : C → Nat) (pkey : Nat) (cur : C)
    (env : Nat → EnvRes C σ) (more : Nat → Bool) (done : Nat → Nat → Bool) :
    ∀ (fuel t : Nat) (futs : List Nat) (g : Side C) (rs : RS), rs.tc < cfg.maxTimeouts →
      (RRes.side (roundLoop cfg size pkey cur env more done fuel t futs g rs)).timeouts + rs.tc ≤ g.timeouts + cfg.maxTimeouts := by
  intro fuel
  induction fuel with
  | zero => intro t futs g rs h; simp only [roundLoop, RRes.side]; omega
  | succ f ih =>
    intro t futs g rs h
    simp only [roundLoop]
    have pd := processDone_timeouts cfg size cur env (done t) futs g rs false (by omega) (by intro h'; omega)
    generalize processDone cfg size cur env (done t) futs g rs false = r at pd ⊢
    unfold ScanT at pd
    rcases r with ⟨⟨k, rs1, q⟩, g1⟩ | ⟨er, g1⟩
    · simp only at pd ⊢
      obtain ⟨e1, b1, b2⟩ := pd
      split
      · rw [wfs_timeouts]; omega
      · rename_i hq
        have hlt : rs1.tc < cfg.maxTimeouts := by
          rcases Nat.lt_or_ge rs1.tc cfg.maxTimeouts with h' | h'
          · exact h'
          · exact absurd (b2 (by omega)) hq
        split
        · have := ih (t+1) (k ++ [t]) { g1 with executed := bump g1.executed g1.curPass, log := g1.log ++ [.sched pkey (t+1)] } rs1 hlt
          simp only at this
          omega
        · rw [wfs_timeouts]; simp only; omega
    · simp only [RRes.side] at pd ⊢; exact pd

end Cvise.D
