import Cvise.Proofs.DriverSafe
/-! With the replay table keyed on the bytes of the one file only (`jointKey = false`, the code as shipped),
    C01 is false for two test cases: a concrete witness (finding F1). -/
namespace Cvise.D

def wipe : PassI Nat Nat where
  key := 0
  maxT := none
  new := fun _ => some 0
  advance := fun _ _ => none
  aos := fun _ _ => none
  transform := fun _ s => (.ok, 1, s)        -- content 1 is the empty file

def wWorld : World Nat where
  size := fun c => if c = 0 then 8 else 0    -- content 0 = "foo\nbar\n"
  test := fun j => if j.contains 0 then .code 0 else .code 1   -- interesting iff some file still holds content 0
  fault := fun _ _ => none

def wDone : Sched := fun _ _ _ => true

def wCfg (joint : Bool) : Cfg := { cacheOn := true, jointKey := joint }

theorem witness_disk_old : (LRes.st (runPass (wCfg false) wWorld wDone wipe [0, 1] 10 0 { disk := [0, 0] })).disk = [1, 1] := by
  decide

theorem witness_disk_joint : (LRes.st (runPass (wCfg true) wWorld wDone wipe [0, 1] 10 0 { disk := [0, 0] })).disk = [1, 0] := by
  decide

/-- F1: keyed on one file's bytes, the second (identical) file is emptied from the table without a test, and the
    resulting pair was never seen interesting -/
theorem cache_single_key_unsafe :
    ¬ SafeDisk wWorld [0, 0] (LRes.st (runPass (wCfg false) wWorld wDone wipe [0, 1] 10 0 { disk := [0, 0] })).disk := by
  rw [witness_disk_old]
  rintro (h | ⟨rid, ord, h⟩ | h)
  · cases h
  · simp [invExit, wWorld] at h
  · simp [wWorld] at h

end Cvise.D
