import Cvise.Proofs.RxShape
import Cvise.Proofs.RxContract
import Cvise.Model.Passes
/-!
C07 "every candidate differs from its input" for the `finditer`-driven passes whose replacement re-assembles the match
from some of its named groups (ints a, b, c): the regex is a flat sequence of items, the replacement keeps the groups and
drops an item that consumes at least one character, so the candidate is strictly shorter than the input.
-/
namespace Cvise.P
open Cvise Cvise.M

/-- every element of `finditer` is a match: `(e, c)` is among the ends the engine reports from `a`, inside the text -/
theorem rxFindAll_mem (r : Rx) (s : Array Nat) : ∀ (fuel p a e : Nat) (c : Caps), (a, e, c) ∈ rxFindAll r s fuel p →
    (e, c) ∈ ends s r a [] ∧ a ≤ e ∧ e ≤ s.size := by
  intro fuel
  induction fuel with
  | zero => intro p a e c h; simp [rxFindAll] at h
  | succ f ih =>
    intro p a e c h
    simp only [rxFindAll] at h
    cases hs : rxSearchFrom r s p with
    | none => rw [hs] at h; cases h
    | some aec =>
      obtain ⟨a0, e0, c0⟩ := aec
      rw [hs] at h
      simp only [List.mem_cons] at h
      rcases h with h | h
      · cases h
        obtain ⟨_, hm, _⟩ := (rxSearchFrom_spec r s _ p (Nat.le_refl _)).1 a e c hs
        have hb := rxMatchAt_bounds r s a e c hm
        unfold rxMatchAt at hm
        split at hm
        · cases hm
        · exact ⟨List.mem_of_mem_head? hm, hb.2.1, hb.2.2⟩
      · exact ih _ a e c h

/-- the text of a capture `(a, e)` inside `s` -/
theorem grpText_length (s : Text) (c : Caps) (id a e : Nat) (h : capOf c id = some (a, e)) (h1 : a ≤ e) (h2 : e ≤ s.length) :
    (grpText s c id).length = e - a := by
  simp [grpText, h, List.length_drop, List.length_take]
  omega

/-- replacing the span `a–e` of `s` by something shorter gives a different text -/
theorem splice_ne (s r : Text) (a e : Nat) (h1 : a ≤ e) (h2 : e ≤ s.length) (h3 : r.length < e - a) :
    s.take a ++ r ++ s.drop e ≠ s := by
  intro h
  have := congrArg List.length h
  simp [List.length_append, List.length_take, List.length_drop] at this
  omega

/-! shapes of the three regexes (group ids as generated) -/

/-- `G₁ X G₂ G₃` with replacement `G₁ G₂ G₃` (ints a: the first digit is dropped) -/
def shapeA (r : Rx) : Prop := ∃ A X B C, r = .seq [.grp 1 A, X, .grp 2 B, .grp 3 C] ∧
  CapsStable A ∧ CapsStable X ∧ CapsStable B ∧ CapsStable C ∧ MinLen X 1
/-- `G₁ G₂ G₃ G₄` with replacement `G₁ G₃ G₄` (ints b: the prefix group is dropped) -/
def shapeB (r : Rx) : Prop := ∃ A D B C, r = .seq [.grp 1 A, .grp 2 D, .grp 3 B, .grp 4 C] ∧
  CapsStable A ∧ CapsStable D ∧ CapsStable B ∧ CapsStable C ∧ MinLen D 1
/-- `G₁ G₂ X G₃` with replacement `G₁ G₂ G₃` (ints c: the suffix letters are dropped) -/
def shapeC (r : Rx) : Prop := ∃ A B X C, r = .seq [.grp 1 A, .grp 2 B, X, .grp 3 C] ∧
  CapsStable A ∧ CapsStable B ∧ CapsStable X ∧ CapsStable C ∧ MinLen X 1

theorem flat4 (s : Array Nat) (i1 i2 i3 i4 : It) (hf : Flat [i1, i2, i3, i4]) (p : Nat) (x : Nat × Caps)
    (hx : x ∈ ends s (.seq [i1.rx, i2.rx, i3.rx, i4.rx]) p []) :
    ∃ q1 q2 q3, p ≤ q1 ∧ q1 ≤ q2 ∧ q2 ≤ q3 ∧ q3 ≤ x.1 ∧
      (∀ n, MinLen i1.inner n → p + n ≤ q1) ∧ (∀ n, MinLen i2.inner n → q1 + n ≤ q2) ∧
      (∀ n, MinLen i3.inner n → q2 + n ≤ q3) ∧ (∀ n, MinLen i4.inner n → q3 + n ≤ x.1) ∧
      x.2 = i4.cap q3 x.1 ++ i3.cap q2 q3 ++ i2.cap q1 q2 ++ i1.cap p q1 := by
  simp only [ends] at hx
  obtain ⟨qs, hb, hl, hc⟩ := endsSeq_flat s [i1, i2, i3, i4] p [] x hf (by simpa using hx)
  match qs, hb with
  | [q1, q2, q3, q4], hb =>
    simp only [Bounds] at hb
    obtain ⟨a1, a2, _, b1, b2, _, c1, c2, _, d1, d2, _, _⟩ := hb
    have hl' : x.1 = q4 := by simpa [lastOr] using hl
    subst hl'
    refine ⟨q1, q2, q3, a1, b1, c1, d1, a2, b2, c2, d2, ?_⟩
    rw [hc]
    cases i1 <;> cases i2 <;> cases i3 <;> cases i4 <;> simp [flatCaps, It.cap]
  | [], hb => simp [Bounds] at hb
  | [_], hb => simp [Bounds] at hb
  | [_, _], hb => simp [Bounds] at hb
  | [_, _, _], hb => simp [Bounds] at hb
  | _ :: _ :: _ :: _ :: _ :: _, hb => simp [Bounds] at hb

/-- the replacement of a match of a shape-A regex is exactly one item shorter than the match -/
theorem shapeA_shorter (r : Rx) (h : shapeA r) (s : Text) (a e : Nat) (c : Caps)
    (hm : (e, c) ∈ ends (toArr s) r a []) (he : e ≤ s.length) :
    ([RPiece.grp 1, .grp 2, .grp 3].flatMap (evalRPiece s c)).length < e - a := by
  obtain ⟨A, X, B, C, rfl, hA, hX, hB, hC, hmin⟩ := h
  have hf : Flat [It.g 1 A, It.p X, It.g 2 B, It.g 3 C] := by
    intro it hit
    simp only [List.mem_cons, List.mem_nil_iff, or_false] at hit
    rcases hit with rfl | rfl | rfl | rfl <;> assumption
  obtain ⟨q1, q2, q3, o1, o2, o3, o4, _, m2, _, _, hc⟩ := flat4 (toArr s) (.g 1 A) (.p X) (.g 2 B) (.g 3 C) hf a (e, c) hm
  have hx := m2 1 hmin
  simp only [It.cap, List.append_nil, List.nil_append, List.cons_append] at hc
  simp only at o4 hc
  subst hc
  have g1 : capOf [(3, q3, e), (2, q2, q3), (1, a, q1)] 1 = some (a, q1) := by simp [capOf, List.find?]
  have g2 : capOf [(3, q3, e), (2, q2, q3), (1, a, q1)] 2 = some (q2, q3) := by simp [capOf, List.find?]
  have g3 : capOf [(3, q3, e), (2, q2, q3), (1, a, q1)] 3 = some (q3, e) := by simp [capOf, List.find?]
  simp only [List.flatMap_cons, List.flatMap_nil, List.append_nil, evalRPiece, List.length_append]
  rw [grpText_length s _ 1 a q1 g1 o1 (by omega), grpText_length s _ 2 q2 q3 g2 o3 (by omega), grpText_length s _ 3 q3 e g3 o4 he]
  omega

theorem shapeB_shorter (r : Rx) (h : shapeB r) (s : Text) (a e : Nat) (c : Caps)
    (hm : (e, c) ∈ ends (toArr s) r a []) (he : e ≤ s.length) :
    ([RPiece.grp 1, .grp 3, .grp 4].flatMap (evalRPiece s c)).length < e - a := by
  obtain ⟨A, D, B, C, rfl, hA, hD, hB, hC, hmin⟩ := h
  have hf : Flat [It.g 1 A, It.g 2 D, It.g 3 B, It.g 4 C] := by
    intro it hit
    simp only [List.mem_cons, List.mem_nil_iff, or_false] at hit
    rcases hit with rfl | rfl | rfl | rfl <;> assumption
  obtain ⟨q1, q2, q3, o1, o2, o3, o4, _, m2, _, _, hc⟩ := flat4 (toArr s) (.g 1 A) (.g 2 D) (.g 3 B) (.g 4 C) hf a (e, c) hm
  have hx := m2 1 hmin
  simp only [It.cap, List.append_nil, List.nil_append, List.cons_append] at hc
  simp only at o4 hc
  subst hc
  have g1 : capOf [(4, q3, e), (3, q2, q3), (2, q1, q2), (1, a, q1)] 1 = some (a, q1) := by simp [capOf, List.find?]
  have g3 : capOf [(4, q3, e), (3, q2, q3), (2, q1, q2), (1, a, q1)] 3 = some (q2, q3) := by simp [capOf, List.find?]
  have g4 : capOf [(4, q3, e), (3, q2, q3), (2, q1, q2), (1, a, q1)] 4 = some (q3, e) := by simp [capOf, List.find?]
  simp only [List.flatMap_cons, List.flatMap_nil, List.append_nil, evalRPiece, List.length_append]
  rw [grpText_length s _ 1 a q1 g1 o1 (by omega), grpText_length s _ 3 q2 q3 g3 o3 (by omega), grpText_length s _ 4 q3 e g4 o4 he]
  omega

theorem shapeC_shorter (r : Rx) (h : shapeC r) (s : Text) (a e : Nat) (c : Caps)
    (hm : (e, c) ∈ ends (toArr s) r a []) (he : e ≤ s.length) :
    ([RPiece.grp 1, .grp 2, .grp 3].flatMap (evalRPiece s c)).length < e - a := by
  obtain ⟨A, B, X, C, rfl, hA, hB, hX, hC, hmin⟩ := h
  have hf : Flat [It.g 1 A, It.g 2 B, It.p X, It.g 3 C] := by
    intro it hit
    simp only [List.mem_cons, List.mem_nil_iff, or_false] at hit
    rcases hit with rfl | rfl | rfl | rfl <;> assumption
  obtain ⟨q1, q2, q3, o1, o2, o3, o4, _, _, m3, _, hc⟩ := flat4 (toArr s) (.g 1 A) (.g 2 B) (.p X) (.g 3 C) hf a (e, c) hm
  have hx := m3 1 hmin
  simp only [It.cap, List.append_nil, List.nil_append, List.cons_append] at hc
  simp only at o4 hc
  subst hc
  have g1 : capOf [(3, q3, e), (2, q1, q2), (1, a, q1)] 1 = some (a, q1) := by simp [capOf, List.find?]
  have g2 : capOf [(3, q3, e), (2, q1, q2), (1, a, q1)] 2 = some (q1, q2) := by simp [capOf, List.find?]
  have g3 : capOf [(3, q3, e), (2, q1, q2), (1, a, q1)] 3 = some (q3, e) := by simp [capOf, List.find?]
  simp only [List.flatMap_cons, List.flatMap_nil, List.append_nil, evalRPiece, List.length_append]
  rw [grpText_length s _ 1 a q1 g1 o1 (by omega), grpText_length s _ 2 q1 q2 g2 o2 (by omega), grpText_length s _ 3 q3 e g3 o4 he]
  omega

/-- every modification a `finditer`-driven pass computes for `s` yields a text different from `s`, when the replacement
    of every match is shorter than the match -/
theorem mods_differ (id : Nat) (rec : List RPiece) (s : Text)
    (hshort : ∀ a e c, (e, c) ∈ ends (toArr s) (rxTbl id) a [] → e ≤ s.length → (rec.flatMap (evalRPiece s c)).length < e - a) :
    ∀ m ∈ modsOf id rec s, s.take m.1.1 ++ m.2 ++ s.drop m.1.2 ≠ s := by
  intro m hm
  simp only [modsOf, List.mem_reverse, List.mem_map] at hm
  obtain ⟨⟨a, e, c⟩, hmem, rfl⟩ := hm
  obtain ⟨h1, h2, h3⟩ := rxFindAll_mem _ _ _ _ a e c hmem
  rw [toArr_size] at h3
  exact splice_ne s _ a e h2 h3 (hshort a e c h1 h3)

end Cvise.P

namespace Cvise.P
open Cvise Cvise.M

/-- the regex id and replacement recipe the generated table gives an ints argument -/
def intsEntry (arg : String) : Nat × List RPiece := ((Gen.intsCfg.find? (·.1 = arg)).map (·.2)).getD (0, [])

theorem ints_a_shape : (intsEntry "a").2 = [.grp 1, .grp 2, .grp 3] ∧ shapeA (rxTbl (intsEntry "a").1) := by
  refine ⟨by decide, _, _, _, _, by rfl, ?_, ?_, ?_, ?_, ?_⟩
  · caps_stable
  · caps_stable
  · caps_stable
  · caps_stable
  · exact minLen_cls _ _

theorem ints_b_shape : (intsEntry "b").2 = [.grp 1, .grp 3, .grp 4] ∧ shapeB (rxTbl (intsEntry "b").1) := by
  refine ⟨by decide, _, _, _, _, by rfl, ?_, ?_, ?_, ?_, ?_⟩
  · caps_stable
  · caps_stable
  · caps_stable
  · caps_stable
  · -- the dropped prefix group: `[+-]? 0 [xX]?` consumes at least the `0`
    apply minLen_seq
    show SeqMinLen _ (0 + (1 + 0))
    exact seqMinLen_cons _ _ _ _ (minLen_zero _) (seqMinLen_cons _ _ _ _ (minLen_cls _ _) (seqMinLen_zero _))

theorem ints_c_shape : (intsEntry "c").2 = [.grp 1, .grp 2, .grp 3] ∧ shapeC (rxTbl (intsEntry "c").1) := by
  refine ⟨by decide, _, _, _, _, by rfl, ?_, ?_, ?_, ?_, ?_⟩
  · caps_stable
  · caps_stable
  · caps_stable
  · caps_stable
  · exact minLen_rep_pos _ _ _ _ 1 (by decide) (minLen_cls _ _)

/-- **ints a / b / c: every candidate differs from its input** — for every text, every modification the pass computes
    for it (every cursor `new` / `advance` / `advance_on_success` can reach on that text) rewrites it to a different,
    strictly shorter text -/
theorem ints_candidates_differ (arg : String) (harg : arg = "a" ∨ arg = "b" ∨ arg = "c") (s : Text) :
    ∀ m ∈ modsOf (intsEntry arg).1 (intsEntry arg).2 s, s.take m.1.1 ++ m.2 ++ s.drop m.1.2 ≠ s := by
  apply mods_differ
  intro a e c hm he
  rcases harg with rfl | rfl | rfl
  · rw [ints_a_shape.1]; exact shapeA_shorter _ ints_a_shape.2 s a e c hm he
  · rw [ints_b_shape.1]; exact shapeB_shorter _ ints_b_shape.2 s a e c hm he
  · rw [ints_c_shape.1]; exact shapeC_shorter _ ints_c_shape.2 s a e c hm he

end Cvise.P

namespace Cvise.P
open Cvise Cvise.M

def specialEntry (arg : String) : Nat × List RPiece := ((Gen.specialCfg.find? (·.1 = arg)).map (·.2)).getD (0, [])

/-- special b / c delete the whole match (`extern 'C'`, `extern 'C++'`), which is never empty -/
theorem special_bc_shape (arg : String) (harg : arg = "b" ∨ arg = "c") :
    (specialEntry arg).2 = [] ∧ MinLen (rxTbl (specialEntry arg).1) 1 := by
  rcases harg with rfl | rfl
  · refine ⟨by decide, ?_⟩
    show MinLen (.seq (_ :: _)) 1
    apply minLen_seq
    show SeqMinLen _ (1 + 0)
    exact seqMinLen_cons _ _ _ _ (minLen_cls _ _) (seqMinLen_zero _)
  · refine ⟨by decide, ?_⟩
    show MinLen (.seq (_ :: _)) 1
    apply minLen_seq
    show SeqMinLen _ (1 + 0)
    exact seqMinLen_cons _ _ _ _ (minLen_cls _ _) (seqMinLen_zero _)

theorem special_bc_candidates_differ (arg : String) (harg : arg = "b" ∨ arg = "c") (s : Text) :
    ∀ m ∈ modsOf (specialEntry arg).1 (specialEntry arg).2 s, s.take m.1.1 ++ m.2 ++ s.drop m.1.2 ≠ s := by
  apply mods_differ
  intro a e c hm he
  obtain ⟨h1, h2⟩ := special_bc_shape arg harg
  rw [h1]
  have := h2 (toArr s) a [] (e, c) hm
  simp only [List.flatMap_nil, List.length_nil]
  omega

/-- a cursor of a `finditer`-driven pass that was computed for the text it is applied to (what `new`,
    `advance_on_success` and `advance` produce): its OK candidate is one of the modifications of that text -/
theorem modPass_ok (id : Nat) (rec : List RPiece) (s : Text) (st : ModSt) (hst : st.mods = modsOf id rec s) (out : Text) (st' : ModSt)
    (h : (modPass id rec).transform s st = (.ok, out, st')) :
    ∃ m ∈ modsOf id rec s, out = s.take m.1.1 ++ m.2 ++ s.drop m.1.2 := by
  simp only [modPass] at h
  split at h
  · cases h
  · rename_i a e r hget
    cases h
    refine ⟨((a, e), r), ?_, rfl⟩
    rw [← hst]
    exact List.mem_of_getElem? hget

end Cvise.P

namespace Cvise.P
open Cvise Cvise.M

/-- a sequence that begins with a one-character literal class can only match where that character stands -/
theorem ends_first_lit (s : Array Nat) (k : Nat) (rs : List Rx) (p : Nat) (c : Caps) (x : Nat × Caps)
    (hx : x ∈ ends s (.seq (.cls false [.lit k] :: rs)) p c) : ∃ h : p < s.size, s[p] = k := by
  simp only [ends, endsSeq, List.mem_flatMap] at hx
  obtain ⟨y, hy, _⟩ := hx
  split at hy
  · rename_i hp
    split at hy
    · rename_i hany
      refine ⟨hp, ?_⟩
      simpa [CItem.has] using hany
    · cases hy
  · cases hy

theorem toArr_get (s : Text) (p : Nat) (h : p < (toArr s).size) : (toArr s)[p] = (s[p]'(by simpa [toArr] using h)).toNat := by
  simp [toArr]

/-- replacing a span that starts with one character by a text that starts with another gives a different text -/
theorem splice_first_ne (s r : Text) (a e : Nat) (ha : a < s.length) (ch : Char) (rest : Text) (hr : r = ch :: rest)
    (hs : s[a] ≠ ch) : s.take a ++ r ++ s.drop e ≠ s := by
  intro h
  have h1 : (s.take a ++ r ++ s.drop e)[a]? = some ch := by
    subst hr
    have hl : (s.take a).length = a := by simp [List.length_take]; omega
    rw [List.append_assoc, List.getElem?_append_right (by omega)]
    simp [hl]
  rw [h] at h1
  have : s[a]? = some s[a] := List.getElem?_eq_getElem ha
  rw [this] at h1
  exact hs (Option.some.inj h1)

/-- special a: `transparent_crc(x, …)` becomes `printf('%d\n', (int)x)`: the candidate differs at the first character
    of the match (`t` → `p`) -/
theorem special_a_candidates_differ (s : Text) :
    ∀ m ∈ modsOf (specialEntry "a").1 (specialEntry "a").2 s, s.take m.1.1 ++ m.2 ++ s.drop m.1.2 ≠ s := by
  intro m hm
  simp only [modsOf, List.mem_reverse, List.mem_map] at hm
  obtain ⟨⟨a, e, c⟩, hmem, rfl⟩ := hm
  obtain ⟨h1, h2, h3⟩ := rxFindAll_mem _ _ _ _ a e c hmem
  have hshape : ∃ rs, rxTbl (specialEntry "a").1 = .seq (.cls false [.lit 116] :: rs) := ⟨_, by rfl⟩
  obtain ⟨rs, hrs⟩ := hshape
  rw [hrs] at h1
  obtain ⟨hp, hch⟩ := ends_first_lit _ _ _ _ _ _ h1
  have hrec : ∃ rest, (specialEntry "a").2.flatMap (evalRPiece s c) = 'p' :: rest := ⟨_, by
    show ([RPiece.const "printf('%d\\n', (int)", .firstField 1 44, .const ")"] : List RPiece).flatMap (evalRPiece s c) = _
    simp only [List.flatMap_cons, evalRPiece]
    rfl⟩
  obtain ⟨rest, hrest⟩ := hrec
  have ha : a < s.length := by simpa [toArr] using hp
  apply splice_first_ne s _ a e ha 'p' rest hrest
  intro hsa
  rw [toArr_get s a hp, hsa] at hch
  exact absurd hch (by decide)

end Cvise.P

namespace Cvise.P
open Cvise Cvise.M

/-- a sequence `'0' [xX] …` can only match where those two characters stand -/
theorem ends_zero_x (s : Array Nat) (rs : List Rx) (p : Nat) (c : Caps) (x : Nat × Caps)
    (hx : x ∈ ends s (.seq (.cls false [.lit 48] :: .cls false [.lit 88, .lit 120] :: rs)) p c) :
    ∃ h : p + 1 < s.size, s[p + 1] = 88 ∨ s[p + 1] = 120 := by
  simp only [ends, endsSeq, List.mem_flatMap] at hx
  obtain ⟨y, hy, z, hz, _⟩ := hx
  split at hy
  · split at hy
    · simp only [List.mem_singleton] at hy
      subst hy
      split at hz
      · rename_i hp
        split at hz
        · rename_i hany
          refine ⟨hp, ?_⟩
          simpa [CItem.has] using hany
        · cases hz
      · cases hz
    · cases hy
  · cases hy

theorem isDigit_toNat (c : Char) (h : c.isDigit = true) : 48 ≤ c.toNat ∧ c.toNat ≤ 57 := by
  unfold Char.isDigit at h
  simp only [Bool.and_eq_true, decide_eq_true_eq] at h
  exact ⟨UInt32.le_iff_toNat_le.mp h.1, UInt32.le_iff_toNat_le.mp h.2⟩

/-- the decimal digits of a number are digits -/
theorem digitsOf_isDigit (n : Nat) : ∀ ch ∈ digitsOf n, ch.isDigit = true := by
  intro ch h
  unfold digitsOf at h
  rw [Nat.toList_repr] at h
  exact Nat.isDigit_of_mem_toDigits (by decide) (by decide) h

/-- `G₁ G₂ G₃` with `G₂ = 0 [xX] hex⁺`, replacement `G₁ dec(G₂) G₃` (ints d) -/
def shapeD (r : Rx) : Prop := ∃ A H C, r = .seq [.grp 1 A, .grp 2 (.seq (.cls false [.lit 48] :: .cls false [.lit 88, .lit 120] :: H)), .grp 3 C] ∧
  CapsStable A ∧ SeqStable H ∧ CapsStable C

theorem flat3 (s : Array Nat) (i1 i2 i3 : It) (hf : Flat [i1, i2, i3]) (p : Nat) (x : Nat × Caps)
    (hx : x ∈ ends s (.seq [i1.rx, i2.rx, i3.rx]) p []) :
    ∃ q1 q2, p ≤ q1 ∧ q1 ≤ q2 ∧ q2 ≤ x.1 ∧ (∃ cc, (q2, cc) ∈ ends s i2.inner q1 cc) ∧
      x.2 = i3.cap q2 x.1 ++ i2.cap q1 q2 ++ i1.cap p q1 := by
  simp only [ends] at hx
  obtain ⟨qs, hb, hl, hc⟩ := endsSeq_flat s [i1, i2, i3] p [] x hf (by simpa using hx)
  match qs, hb with
  | [q1, q2, q3], hb =>
    simp only [Bounds] at hb
    obtain ⟨a1, _, _, b1, _, b3, c1, _, _, _⟩ := hb
    have hl' : x.1 = q3 := by simpa [lastOr] using hl
    subst hl'
    refine ⟨q1, q2, a1, b1, c1, b3, ?_⟩
    rw [hc]
    cases i1 <;> cases i2 <;> cases i3 <;> simp [flatCaps, It.cap]
  | [], hb => simp [Bounds] at hb
  | [_], hb => simp [Bounds] at hb
  | [_, _], hb => simp [Bounds] at hb
  | _ :: _ :: _ :: _ :: _, hb => simp [Bounds] at hb

/-- ints d: the decimal rendering of `0x…` differs from it: either the lengths differ, or the second character does
    (`x` / `X` in the input, a digit in the candidate) -/
theorem shapeD_differs (r : Rx) (h : shapeD r) (s : Text) (a e : Nat) (c : Caps)
    (hm : (e, c) ∈ ends (toArr s) r a []) (he : e ≤ s.length) :
    s.take a ++ [RPiece.grp 1, .hexToDec 2, .grp 3].flatMap (evalRPiece s c) ++ s.drop e ≠ s := by
  obtain ⟨A, H, C, rfl, hA, hH, hC⟩ := h
  have hG : CapsStable (.seq (.cls false [.lit 48] :: .cls false [.lit 88, .lit 120] :: H)) := by
    apply capsStable_seq
    exact seqStable_cons _ _ (capsStable_cls _ _) (seqStable_cons _ _ (capsStable_cls _ _) hH)
  have hf : Flat [It.g 1 A, It.g 2 (.seq (.cls false [.lit 48] :: .cls false [.lit 88, .lit 120] :: H)), It.g 3 C] := by
    intro it hit
    simp only [List.mem_cons, List.mem_nil_iff, or_false] at hit
    rcases hit with rfl | rfl | rfl <;> assumption
  obtain ⟨q1, q2, o1, o2, o3, ⟨cc, hin⟩, hc⟩ := flat3 (toArr s) (.g 1 A) (.g 2 _) (.g 3 C) hf a (e, c) hm
  simp only [It.inner] at hin
  obtain ⟨hp, hx⟩ := ends_zero_x _ _ _ _ _ hin
  have hq2 : q1 + 2 ≤ q2 := by
    have := (seqMinLen_cons _ _ 1 1 (minLen_cls _ _) (seqMinLen_cons _ _ 1 0 (minLen_cls _ _) (seqMinLen_zero H))) (toArr s) q1 cc (q2, cc)
      (by simpa [ends] using hin)
    simp at this; omega
  simp only [It.cap, List.append_nil, List.nil_append, List.cons_append] at hc
  simp only at o3 hc
  subst hc
  have g1 : capOf [(3, q2, e), (2, q1, q2), (1, a, q1)] 1 = some (a, q1) := by simp [capOf, List.find?]
  have g3 : capOf [(3, q2, e), (2, q1, q2), (1, a, q1)] 3 = some (q2, e) := by simp [capOf, List.find?]
  simp only [List.flatMap_cons, List.flatMap_nil, List.append_nil, evalRPiece]
  generalize hD : digitsOf (hexVal (grpText s [(3, q2, e), (2, q1, q2), (1, a, q1)] 2)) = D
  have hDd : ∀ ch ∈ D, ch.isDigit = true := by rw [← hD]; exact digitsOf_isDigit _
  have l1 := grpText_length s _ 1 a q1 g1 o1 (by omega)
  have l3 := grpText_length s _ 3 q2 e g3 o3 he
  intro heq
  have hlen := congrArg List.length heq
  simp only [List.length_append, List.length_take, List.length_drop, l1, l3] at hlen
  have hDlen : D.length = q2 - q1 := by omega
  -- the character at index q1 + 1
  have hs1 : q1 + 1 < s.length := by simpa [toArr] using hp
  have hidx : (s.take a ++ (grpText s [(3, q2, e), (2, q1, q2), (1, a, q1)] 1 ++ (D ++ grpText s [(3, q2, e), (2, q1, q2), (1, a, q1)] 3)) ++ s.drop e)[q1 + 1]? = D[1]? := by
    have la : (s.take a).length = a := by simp [List.length_take]; omega
    rw [List.append_assoc, List.getElem?_append_right (by omega), la]
    rw [List.append_assoc, List.getElem?_append_right (by omega), l1]
    have : q1 + 1 - a - (q1 - a) = 1 := by omega
    rw [this, List.append_assoc, List.getElem?_append_left (by omega)]
  rw [heq] at hidx
  have hD1 : 1 < D.length := by omega
  rw [List.getElem?_eq_getElem hs1, List.getElem?_eq_getElem hD1] at hidx
  have hdig := hDd D[1] (List.getElem_mem hD1)
  have hch : (s[q1 + 1]).toNat = 88 ∨ (s[q1 + 1]).toNat = 120 := by
    rw [toArr_get s (q1 + 1) hp] at hx; exact hx
  rw [← Option.some.inj hidx] at hdig
  have := isDigit_toNat _ hdig
  rcases hch with h | h <;> omega

theorem ints_d_shape : (intsEntry "d").2 = [.grp 1, .hexToDec 2, .grp 3] ∧ shapeD (rxTbl (intsEntry "d").1) := by
  refine ⟨by decide, _, _, _, by rfl, ?_, ?_, ?_⟩
  · caps_stable
  · caps_stable
  · caps_stable

theorem ints_d_candidates_differ (s : Text) :
    ∀ m ∈ modsOf (intsEntry "d").1 (intsEntry "d").2 s, s.take m.1.1 ++ m.2 ++ s.drop m.1.2 ≠ s := by
  intro m hm
  simp only [modsOf, List.mem_reverse, List.mem_map] at hm
  obtain ⟨⟨a, e, c⟩, hmem, rfl⟩ := hm
  obtain ⟨h1, h2, h3⟩ := rxFindAll_mem _ _ _ _ a e c hmem
  rw [toArr_size] at h3
  rw [ints_d_shape.1]
  exact shapeD_differs _ ints_d_shape.2 s a e c h1 h3

end Cvise.P
