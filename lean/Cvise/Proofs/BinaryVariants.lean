import Cvise.Model.BinaryVariants
import Cvise.Proofs.BinaryMonotone
import Cvise.Proofs.BinaryNoSingle
import Cvise.Proofs.BinaryTerm
/-! C06 / C03 for the gcda pass (restart after every accepted removal) and the ifs pass (cursor with a value) -/
namespace Cvise
variable {α : Type}

/-! ## gcda -/

theorem gcdaStep_reject (test : List α → Bool) (x : St α) (h : test x.cand = false) :
    gcdaStep test x = step test x := by
  simp only [gcdaStep, step, h, Bool.false_eq_true, if_false]
  cases x.st.advance <;> rfl

/-- the invariant of the gcda run: the cursor invariant, and the chunk never exceeds what is left -/
def St.GInv (x : St α) : Prop := x.Inv ∧ x.st.chunk ≤ x.items.length

theorem fresh_GInv (l : List α) (h : l.length ≠ 0) : (⟨l, ⟨0, l.length, l.length⟩⟩ : St α).GInv :=
  ⟨⟨rfl, by simp [BS.Inv]; omega⟩, Nat.le_refl _⟩

theorem create_some {n : Nat} {s : BS} (h : BS.create n = some s) : n ≠ 0 ∧ s = ⟨0, n, n⟩ := by
  unfold BS.create at h
  split at h
  · cases h
  · cases h; exact ⟨by assumption, rfl⟩

theorem create_none {n : Nat} (h : BS.create n = none) : n = 0 := by
  unfold BS.create at h
  split at h
  · assumption
  · cases h

theorem gcdaStep_inv (test : List α → Bool) (x y : St α) (h : x.GInv) (hs : gcdaStep test x = .inl y) : y.GInv := by
  by_cases ht : test x.cand = true
  · simp only [gcdaStep, ht, if_true] at hs
    split at hs
    · rename_i s hc
      cases hs
      obtain ⟨h0, rfl⟩ := create_some hc
      exact fresh_GInv _ h0
    · cases hs
  · have ht' : test x.cand = false := by simpa using ht
    rw [gcdaStep_reject test x ht'] at hs
    refine ⟨step_inv test x y h.1 hs, ?_⟩
    simp only [step, ht', Bool.false_eq_true, if_false] at hs
    split at hs
    · rename_i s hadv
      cases hs
      have := BS.advance_inv h.1.2 hadv
      have hc := h.2
      simp only
      rcases this.2.2 with ⟨h1, _⟩ | ⟨h1, _, _⟩
      · omega
      · rw [h1]; exact Nat.le_trans (Nat.div_le_self _ _) hc
    · cases hs

theorem startFuel_mono {a b : Nat} (h : a ≤ b) : startFuel a ≤ startFuel b := by
  unfold startFuel
  have : a * (2 * a + 2) ≤ b * (2 * b + 2) := Nat.mul_le_mul h (by omega)
  omega

theorem mu_lt_startFuel (x : St α) (h : x.GInv) : mu x < startFuel x.items.length := by
  unfold mu startFuel
  have : x.st.chunk * (2 * x.items.length + 2) ≤ x.items.length * (2 * x.items.length + 2) :=
    Nat.mul_le_mul h.2 (Nat.le_refl _)
  omega

/-- the measure of the gcda run: restarts are paid for by the strictly shorter list -/
def gmu (x : St α) : Nat := x.items.length * startFuel x.items.length + mu x

theorem gcdaStep_mu (test : List α → Bool) (x y : St α) (h : x.GInv) (hs : gcdaStep test x = .inl y) :
    gmu y < gmu x := by
  have hy := gcdaStep_inv test x y h hs
  by_cases ht : test x.cand = true
  · simp only [gcdaStep, ht, if_true] at hs
    split at hs
    · rename_i s hc
      cases hs
      have hcl := (cand_length x h.1).1
      have hm := mu_lt_startFuel _ hy
      simp only at hm
      unfold gmu
      simp only
      have h1 : (x.cand.length + 1) * startFuel x.cand.length ≤ x.items.length * startFuel x.items.length :=
        Nat.mul_le_mul (by omega) (startFuel_mono (by omega))
      rw [Nat.add_mul] at h1
      omega
    · cases hs
  · have ht' : test x.cand = false := by simpa using ht
    rw [gcdaStep_reject test x ht'] at hs
    have hm := step_mu test x y h.1 hs
    have : y.items = x.items := by
      simp only [step, ht', Bool.false_eq_true, if_false] at hs
      split at hs
      · cases hs; rfl
      · cases hs
    unfold gmu
    rw [this]
    omega

theorem gcdaRun_completes (test : List α → Bool) : ∀ (fuel : Nat) (x : St α), x.GInv → gmu x < fuel →
    ∃ r, gcdaRun test fuel x = some r := by
  intro fuel
  induction fuel with
  | zero => intro x _ h; omega
  | succ f ih =>
    intro x hx hm
    simp only [gcdaRun]
    cases hs : gcdaStep test x with
    | inl y =>
      simp only
      have := gcdaStep_mu test x y hx hs
      exact ih y (gcdaStep_inv test x y hx hs) (by omega)
    | inr r => exact ⟨r, rfl⟩

theorem gcdaStart_completes (test : List α → Bool) (l : List α) :
    ∃ r, gcdaStart test (gcdaFuel l.length) l = some r := by
  unfold gcdaStart
  cases hc : BS.create l.length with
  | none => exact ⟨l, rfl⟩
  | some s =>
    obtain ⟨h0, rfl⟩ := create_some hc
    apply gcdaRun_completes
    · exact fresh_GInv l h0
    · have := mu_lt_startFuel _ (fresh_GInv l h0)
      simp only at this
      unfold gmu gcdaFuel
      simp only
      rw [Nat.add_mul]
      omega

theorem gcdaStep_K (l : List α) (test : List α → Bool) (x : St α) (hK : K l test x) :
    match gcdaStep test x with
    | .inl y => K l test y
    | .inr r => DoneK l test r := by
  by_cases ht : test x.cand = true
  · have hcl := cand_length x hK.inv
    have hcsub := cand_sublist' x hK.inv
    have hlen := hK.sub.length_le
    have hshort : x.cand.length ≠ l.length := by omega
    simp only [gcdaStep, ht, if_true]
    cases hc : BS.create x.cand.length with
    | some s =>
      simp only
      obtain ⟨h0, rfl⟩ := create_some hc
      exact ⟨(fresh_GInv _ h0).1, hcsub.trans hK.sub, fun h => absurd h hshort⟩
    | none =>
      simp only
      exact ⟨hcsub.trans hK.sub, fun h => absurd h hshort⟩
  · have ht' : test x.cand = false := by simpa using ht
    rw [gcdaStep_reject test x ht']
    exact step_K l test x hK

theorem gcdaRun_DoneK (l : List α) (test : List α → Bool) : ∀ (fuel : Nat) (x : St α) (r : List α), K l test x →
    gcdaRun test fuel x = some r → DoneK l test r := by
  intro fuel
  induction fuel with
  | zero => intro x r _ h; simp [gcdaRun] at h
  | succ f ih =>
    intro x r hK h
    have hs := gcdaStep_K l test x hK
    simp only [gcdaRun] at h
    split at h
    · rename_i y hy; rw [hy] at hs; exact ih y r hs h
    · rename_i q hq; rw [hq] at hs; cases h; exact hs

theorem gcda_no_accept_no_single (test : List α → Bool) (l : List α) (fuel : Nat) (r : List α)
    (h : gcdaStart test fuel l = some r) (hlen : r.length = l.length) :
    ∀ j, j < l.length → test (l.eraseIdx j) = false := by
  unfold gcdaStart at h
  cases hc : BS.create l.length with
  | none => intro j hj; have := create_none hc; omega
  | some s =>
    rw [hc] at h
    obtain ⟨h0, rfl⟩ := create_some hc
    have hK : K l test (⟨l, ⟨0, l.length, l.length⟩⟩ : St α) :=
      ⟨(fresh_GInv l h0).1, List.Sublist.refl _, by intro _ _ j hj; simp at hj⟩
    exact (gcdaRun_DoneK l test fuel _ r hK h).all hlen

section Monotone
variable [DecidableEq α]

theorem gcdaStep_J (items0 R : List α) (x : St α) (hJ : J items0 R x) :
    match gcdaStep (reqTest R) x with
    | .inl y => J items0 R y
    | .inr r => Done items0 R r := by
  by_cases ht : reqTest R x.cand = true
  · have hcsub := cand_sublist x hJ.inv
    have hreq := test_true R _ ht
    simp only [gcdaStep, ht, if_true]
    cases hc : BS.create x.cand.length with
    | some s =>
      simp only
      obtain ⟨h0, rfl⟩ := create_some hc
      exact ⟨(fresh_GInv _ h0).1, hcsub.trans hJ.sub, hreq, by intro _ a ha; simp at ha⟩
    | none =>
      simp only
      refine ⟨hcsub.trans hJ.sub, hreq, ?_⟩
      intro a ha
      rw [List.eq_nil_of_length_eq_zero (create_none hc)] at ha
      simp at ha
  · have ht' : reqTest R x.cand = false := by simpa using ht
    rw [gcdaStep_reject _ x ht']
    exact step_J items0 R x hJ

theorem gcdaRun_Done (items0 R : List α) : ∀ (fuel : Nat) (x : St α) (r : List α), J items0 R x →
    gcdaRun (reqTest R) fuel x = some r → Done items0 R r := by
  intro fuel
  induction fuel with
  | zero => intro x r _ h; simp [gcdaRun] at h
  | succ f ih =>
    intro x r hJ h
    have hs := gcdaStep_J items0 R x hJ
    simp only [gcdaRun] at h
    split at h
    · rename_i y hy; rw [hy] at hs; exact ih y r hs h
    · rename_i q hq; rw [hq] at hs; cases h; exact hs

theorem gcda_monotone_exact (items0 R : List α) (hn : items0.Nodup) (hR : ∀ r ∈ R, r ∈ items0)
    (fuel : Nat) (r : List α) (h : gcdaStart (reqTest R) fuel items0 = some r) :
    r = items0.filter (fun a => decide (a ∈ R)) := by
  unfold gcdaStart at h
  cases hc : BS.create items0.length with
  | none =>
    rw [hc] at h
    cases h
    have : items0 = [] := List.eq_nil_of_length_eq_zero (create_none hc)
    subst this; rfl
  | some s =>
    rw [hc] at h
    obtain ⟨h0, rfl⟩ := create_some hc
    have hJ : J items0 R (⟨items0, ⟨0, items0.length, items0.length⟩⟩ : St α) :=
      ⟨(fresh_GInv items0 h0).1, List.Sublist.refl _, hR, by intro _ a ha; simp at ha⟩
    have hd := gcdaRun_Done items0 R fuel _ r hJ h
    apply sublist_eq_filter _ items0 r hn hd.sub
    · intro b _ hp; exact hd.req b (by simpa using hp)
    · intro b hb; simpa using hd.only b hb

end Monotone

theorem gcdaRunTrace_fst (test : List α → Bool) : ∀ (f : Nat) (x : St α) (acc : List (Nat × Nat × Bool)),
    (gcdaRunTrace test f x acc).map (·.1) = gcdaRun test f x := by
  intro f
  induction f with
  | zero => intros; rfl
  | succ f ih =>
    intro x acc
    simp only [gcdaRunTrace, gcdaRun]
    split
    · exact ih _ _
    · rfl

theorem gcdaStartTrace_fst (test : List α → Bool) (fuel : Nat) (l : List α) :
    (gcdaStartTrace test fuel l).map (·.1) = gcdaStart test fuel l := by
  unfold gcdaStartTrace gcdaStart
  split
  · rfl
  · exact gcdaRunTrace_fst test fuel _ _

/-! ## ifs -/

theorem ifsStep_accept (test : List α → Bool → Bool) (x : IfSt α) (h : test x.base.cand x.value = true) :
    ifsStep test x = match step (fun _ => true) x.base with
      | .inl y => .inl ⟨y, x.value⟩
      | .inr r => .inr r := by
  simp only [ifsStep, step, h, if_true]
  cases x.base.st.advanceOnSuccess x.base.cand.length <;> rfl

theorem ifsStep_reject1 (test : List α → Bool → Bool) (x : IfSt α) (h : test x.base.cand x.value = false)
    (hv : x.value = true) :
    ifsStep test x = match step (fun _ => false) x.base with
      | .inl y => .inl ⟨y, false⟩
      | .inr r => .inr r := by
  obtain ⟨b, v⟩ := x
  simp only at hv h
  subst hv
  simp only [ifsStep, step, h, Bool.false_eq_true, if_false, Bool.true_eq_false]
  cases b.st.advance <;> rfl

theorem ifsStep_reject0 (test : List α → Bool → Bool) (x : IfSt α) (h : test x.base.cand x.value = false)
    (hv : x.value = false) : ifsStep test x = .inl ⟨x.base, true⟩ := by
  obtain ⟨b, v⟩ := x
  simp only at hv h
  subst hv
  simp only [ifsStep, h, Bool.false_eq_true, if_false, if_true]

theorem ifsStep_inv (test : List α → Bool → Bool) (x y : IfSt α) (h : x.base.Inv) (hs : ifsStep test x = .inl y) :
    y.base.Inv := by
  by_cases ht : test x.base.cand x.value = true
  · rw [ifsStep_accept test x ht] at hs
    split at hs
    · rename_i z hz; cases hs; exact step_inv _ x.base z h hz
    · cases hs
  · have ht' : test x.base.cand x.value = false := by simpa using ht
    cases hv : x.value with
    | false => rw [ifsStep_reject0 test x ht' hv] at hs; cases hs; exact h
    | true =>
      rw [ifsStep_reject1 test x ht' hv] at hs
      split at hs
      · rename_i z hz; cases hs; exact step_inv _ x.base z h hz
      · cases hs

def imu (x : IfSt α) : Nat := 2 * mu x.base + (if x.value then 0 else 1)

theorem ifsStep_mu (test : List α → Bool → Bool) (x y : IfSt α) (h : x.base.Inv) (hs : ifsStep test x = .inl y) :
    imu y < imu x := by
  by_cases ht : test x.base.cand x.value = true
  · rw [ifsStep_accept test x ht] at hs
    split at hs
    · rename_i z hz; cases hs
      have := step_mu _ x.base z h hz
      unfold imu; simp only
      split <;> omega
    · cases hs
  · have ht' : test x.base.cand x.value = false := by simpa using ht
    cases hv : x.value with
    | false =>
      rw [ifsStep_reject0 test x ht' hv] at hs; cases hs
      simp [imu, hv]
    | true =>
      rw [ifsStep_reject1 test x ht' hv] at hs
      split at hs
      · rename_i z hz; cases hs
        have := step_mu _ x.base z h hz
        simp only [imu, hv]
        simp
        omega
      · cases hs

theorem ifsRun_completes (test : List α → Bool → Bool) : ∀ (fuel : Nat) (x : IfSt α), x.base.Inv → imu x < fuel →
    ∃ r, ifsRun test fuel x = some r := by
  intro fuel
  induction fuel with
  | zero => intro x _ h; omega
  | succ f ih =>
    intro x hx hm
    simp only [ifsRun]
    cases hs : ifsStep test x with
    | inl y =>
      simp only
      have := ifsStep_mu test x y hx hs
      exact ih y (ifsStep_inv test x y hx hs) (by omega)
    | inr r => exact ⟨r, rfl⟩

theorem ifsStart_completes (test : List α → Bool → Bool) (l : List α) :
    ∃ r, ifsStart test (ifsFuel l.length) l = some r := by
  unfold ifsStart
  cases hc : BS.create l.length with
  | none => exact ⟨l, rfl⟩
  | some s =>
    obtain ⟨h0, rfl⟩ := create_some hc
    apply ifsRun_completes
    · exact (fresh_GInv l h0).1
    · simp [imu, mu, ifsFuel, startFuel]
      omega

theorem ifsRun_fuel_mono (test : List α → Bool → Bool) : ∀ (f : Nat) (x : IfSt α) (r : List α),
    ifsRun test f x = some r → ∀ g, f ≤ g → ifsRun test g x = some r := by
  intro f
  induction f with
  | zero => intro x r h; simp [ifsRun] at h
  | succ f ih =>
    intro x r h g hg
    cases g with
    | zero => omega
    | succ g =>
      simp only [ifsRun] at h ⊢
      split at h
      · rename_i y hy; exact ih y r h g (by omega)
      · rename_i q hq; exact h

/-- nothing accepted ⇒ every single instance was tried with both values and rejected -/
structure KI (l : List α) (test : List α → Bool → Bool) (x : IfSt α) : Prop where
  inv : x.base.Inv
  sub : x.base.items.Sublist l
  pre : x.base.items.length = l.length → x.base.st.chunk = 1 →
    (∀ j, j < x.base.st.index → ∀ v, test (l.eraseIdx j) v = false) ∧
    (x.value = true → test (l.eraseIdx x.base.st.index) false = false)

structure DoneKI (l : List α) (test : List α → Bool → Bool) (r : List α) : Prop where
  sub : r.Sublist l
  all : r.length = l.length → ∀ j, j < l.length → ∀ v, test (l.eraseIdx j) v = false

theorem ifsStep_KI (l : List α) (test : List α → Bool → Bool) (x : IfSt α) (hK : KI l test x) :
    match ifsStep test x with
    | .inl y => KI l test y
    | .inr r => DoneKI l test r := by
  have hcl := cand_length x.base hK.inv
  have hcsub := cand_sublist' x.base hK.inv
  have hlen := hK.sub.length_le
  by_cases ht : test x.base.cand x.value = true
  · have hshort : x.base.cand.length ≠ l.length := by omega
    simp only [ifsStep, ht, if_true]
    cases haos : x.base.st.advanceOnSuccess x.base.cand.length with
    | some s =>
      simp only
      have := BS.aos_inv hK.inv.2 haos
      exact ⟨⟨this.2.1, this.1⟩, hcsub.trans hK.sub, fun h => absurd h hshort⟩
    | none =>
      simp only
      exact ⟨hcsub.trans hK.sub, fun h => absurd h hshort⟩
  · have ht' : test x.base.cand x.value = false := by simpa using ht
    cases hv : x.value with
    | false =>
      rw [ifsStep_reject0 test x ht' hv]
      simp only
      refine ⟨hK.inv, hK.sub, ?_⟩
      intro hl hc
      have heq : x.base.items = l := hK.sub.eq_of_length hl
      refine ⟨(hK.pre hl hc).1, fun _ => ?_⟩
      rw [← heq, ← cand_single x.base hK.inv hc]; rw [hv] at ht'; exact ht'
    | true =>
      rw [ifsStep_reject1 test x ht' hv]
      simp only [step, Bool.false_eq_true, if_false]
      cases hadv : x.base.st.advance with
      | some s =>
        simp only
        have := BS.advance_inv hK.inv.2 hadv
        refine ⟨⟨by rw [this.2.1]; exact hK.inv.1, this.1⟩, hK.sub, ?_⟩
        intro hl hc
        simp only at hl hc
        refine ⟨?_, fun h => by cases h⟩
        intro j hj v
        simp only at hj
        have heq : x.base.items = l := hK.sub.eq_of_length hl
        rcases this.2.2 with ⟨h1, h2⟩ | ⟨h1, h2, h3⟩
        · have hc1 : x.base.st.chunk = 1 := by rw [← h1]; exact hc
          rw [h2, hc1] at hj
          have hp := hK.pre hl hc1
          by_cases hjj : j < x.base.st.index
          · exact hp.1 j hjj v
          · have : j = x.base.st.index := by omega
            subst this
            cases v with
            | false => exact hp.2 hv
            | true => rw [← heq, ← cand_single x.base hK.inv hc1]; rw [hv] at ht'; exact ht'
        · omega
      | none =>
        simp only
        have hnone := BS.advance_none hK.inv.2 hadv
        refine ⟨hK.sub, ?_⟩
        intro hl j hj v
        have heq : x.base.items = l := hK.sub.eq_of_length hl
        have hn : x.base.items.length = x.base.st.index + 1 := by have := hK.inv.1; have := hK.inv.2.1; omega
        have hp := hK.pre hl hnone.1
        by_cases hjj : j < x.base.st.index
        · exact hp.1 j hjj v
        · have : j = x.base.st.index := by omega
          subst this
          cases v with
          | false => exact hp.2 hv
          | true => rw [← heq, ← cand_single x.base hK.inv hnone.1]; rw [hv] at ht'; exact ht'

theorem ifsRun_DoneKI (l : List α) (test : List α → Bool → Bool) : ∀ (fuel : Nat) (x : IfSt α) (r : List α), KI l test x →
    ifsRun test fuel x = some r → DoneKI l test r := by
  intro fuel
  induction fuel with
  | zero => intro x r _ h; simp [ifsRun] at h
  | succ f ih =>
    intro x r hK h
    have hs := ifsStep_KI l test x hK
    simp only [ifsRun] at h
    split at h
    · rename_i y hy; rw [hy] at hs; exact ih y r hs h
    · rename_i q hq; rw [hq] at hs; cases h; exact hs

theorem ifs_no_accept_no_single (test : List α → Bool → Bool) (l : List α) (fuel : Nat) (r : List α)
    (h : ifsStart test fuel l = some r) (hlen : r.length = l.length) :
    ∀ j, j < l.length → ∀ v, test (l.eraseIdx j) v = false := by
  unfold ifsStart at h
  cases hc : BS.create l.length with
  | none => intro j hj; have := create_none hc; omega
  | some s =>
    rw [hc] at h
    obtain ⟨h0, rfl⟩ := create_some hc
    have hK : KI l test (⟨⟨l, ⟨0, l.length, l.length⟩⟩, false⟩ : IfSt α) :=
      ⟨(fresh_GInv l h0).1, List.Sublist.refl _, by
        intro _ _; exact ⟨by intro j hj; simp at hj, by intro h; cases h⟩⟩
    exact (ifsRun_DoneKI l test fuel _ r hK h).all hlen

theorem ifsRun_succ (test : List α → Bool → Bool) (f : Nat) (x : IfSt α) :
    ifsRun test (f + 1) x = match ifsStep test x with
      | .inl y => ifsRun test f y
      | .inr r => some r := rfl

theorem step_of_true (t : List α → Bool) (x : St α) (h : t x.cand = true) : step (fun _ => true) x = step t x := by
  simp only [step, h, if_true]

theorem step_of_false (t : List α → Bool) (x : St α) (h : t x.cand = false) : step (fun _ => false) x = step t x := by
  simp only [step, h]

/-- one generic step is one ifs step when the ifs step moves the range (accept, or reject with value 1) -/
theorem ifs_sim_one (t : List α → Bool) (f : Nat) (x : St α) (v v' : Bool) (r : List α)
    (ih : ∀ (y : St α) (w : Bool), run t f y = some r → ifsRun (fun l _ => t l) (2 * f) ⟨y, w⟩ = some r)
    (hst : ifsStep (fun l _ => t l) ⟨x, v⟩ = match step t x with
      | .inl y => .inl ⟨y, v'⟩
      | .inr q => .inr q)
    (h : run t (f + 1) x = some r) : ifsRun (fun l _ => t l) (2 * f + 1) ⟨x, v⟩ = some r := by
  rw [ifsRun_succ, hst]
  simp only [run] at h
  cases hs : step t x with
  | inl y => rw [hs] at h; exact ih y v' h
  | inr q => rw [hs] at h; exact h

/-- with a test that does not look at the value, the ifs run ends like the generic run (it only asks twice) -/
theorem ifs_sim (t : List α → Bool) : ∀ (f : Nat) (x : St α) (v : Bool) (r : List α),
    run t f x = some r → ifsRun (fun l _ => t l) (2 * f) ⟨x, v⟩ = some r := by
  intro f
  induction f with
  | zero => intro x v r h; simp [run] at h
  | succ f ih =>
    intro x v r h
    have ih' : ∀ (y : St α) (w : Bool), run t f y = some r → ifsRun (fun l _ => t l) (2 * f) ⟨y, w⟩ = some r :=
      fun y w hy => ih y w r hy
    rw [show 2 * (f + 1) = (2 * f + 1) + 1 by omega]
    by_cases ht : t x.cand = true
    · have hst := ifsStep_accept (fun l _ => t l) ⟨x, v⟩ ht
      simp only at hst
      rw [step_of_true t x ht] at hst
      exact ifsRun_fuel_mono _ (2 * f + 1) _ _ (ifs_sim_one t f x v v r ih' hst h) _ (by omega)
    · have ht' : t x.cand = false := by simpa using ht
      cases v with
      | true =>
        have hst := ifsStep_reject1 (fun l _ => t l) ⟨x, true⟩ ht' rfl
        simp only at hst
        rw [step_of_false t x ht'] at hst
        exact ifsRun_fuel_mono _ (2 * f + 1) _ _ (ifs_sim_one t f x true false r ih' hst h) _ (by omega)
      | false =>
        have h0 := ifsStep_reject0 (fun l _ => t l) ⟨x, false⟩ ht' rfl
        have hst := ifsStep_reject1 (fun l _ => t l) ⟨x, true⟩ ht' rfl
        simp only at hst h0
        rw [step_of_false t x ht'] at hst
        rw [ifsRun_succ, h0]
        exact ifs_sim_one t f x true false r ih' hst h

section Monotone
variable [DecidableEq α]

theorem ifs_monotone_exact (items0 R : List α) (hn : items0.Nodup) (hR : ∀ r ∈ R, r ∈ items0)
    (fuel : Nat) (r : List α) (h : ifsStart (fun l _ => reqTest R l) fuel items0 = some r) :
    r = items0.filter (fun a => decide (a ∈ R)) := by
  obtain ⟨r0, hr0⟩ := start_completes (reqTest R) items0
  have hr0' := monotone_exact items0 R hn hR _ r0 hr0
  unfold start at hr0
  unfold ifsStart at h
  cases hc : BS.create items0.length with
  | none =>
    rw [hc] at h hr0
    cases h; cases hr0; exact hr0'
  | some s =>
    rw [hc] at h hr0
    simp only at h hr0
    have h1 := ifs_sim (reqTest R) _ _ false _ hr0
    have h2 := ifsRun_fuel_mono _ _ _ _ h1 (max fuel (2 * startFuel items0.length)) (Nat.le_max_right _ _)
    have h3 := ifsRun_fuel_mono _ _ _ _ h (max fuel (2 * startFuel items0.length)) (Nat.le_max_left _ _)
    rw [h2] at h3
    cases h3
    exact hr0'

end Monotone

theorem ifsRunTrace_fst (test : List α → Bool → Bool) : ∀ (f : Nat) (x : IfSt α) (acc : List (Nat × Nat × Bool × Bool)),
    (ifsRunTrace test f x acc).map (·.1) = ifsRun test f x := by
  intro f
  induction f with
  | zero => intros; rfl
  | succ f ih =>
    intro x acc
    simp only [ifsRunTrace, ifsRun]
    split
    · exact ih _ _
    · rfl

theorem ifsStartTrace_fst (test : List α → Bool → Bool) (fuel : Nat) (l : List α) :
    (ifsStartTrace test fuel l).map (·.1) = ifsStart test fuel l := by
  unfold ifsStartTrace ifsStart
  split
  · rfl
  · exact ifsRunTrace_fst test fuel _ _

end Cvise
