import Cvise.Proofs.DriverWorked
/-! C09 / C16: the numbered report directories stay within their documented limits, over whole reductions:
    at most `MAX_CRASH_DIRS + 1` `cvise_bug_*` and `MAX_EXTRA_DIRS + 1` `cvise_extra_*` directories ever exist
    (`get_extra_dir` hands out indices `0 … MAX`). -/
namespace Cvise.D
set_option linter.unusedSectionVars false
variable {C σ : Type} [DecidableEq C]

def DirOK (cfg : Cfg) (g : Side C) : Prop := g.bug ≤ cfg.maxCrash + 1 ∧ g.extra ≤ cfg.maxExtra + 1

theorem check_dirs (cfg : Cfg) (size : C → Nat) (cur : C) (e : EnvRes C σ) (g g' : Side C) (gu gu' : Bool) (o : Outcome)
    (h : check cfg size cur e g gu = (o, g', gu')) (hg : DirOK cfg g) : DirOK cfg g' := by
  have b := check_bug cfg size cur e g g' gu gu' o h
  have x := check_extra cfg size cur e g g' gu gu' o h
  unfold DirOK at *
  omega

theorem saveExtra_dirs (cfg : Cfg) (g : Side C) (hg : DirOK cfg g) : DirOK cfg (saveExtra cfg g) := by
  unfold saveExtra
  split
  · rename_i h
    exact ⟨hg.1, by show g.extra + 1 ≤ cfg.maxExtra + 1; omega⟩
  · exact hg

theorem processDone_dirs (cfg : Cfg) (size : C → Nat) (cur : C) (env : Nat → EnvRes C σ) (done : Nat → Bool) :
    ∀ (L : List Nat) (g : Side C) (rs : RS) (q : Bool), DirOK cfg g →
      DirOK cfg (RRes.side (processDone cfg size cur env done L g rs q)) := by
  intro L
  induction L with
  | nil => intro g rs q h; simpa [processDone, RRes.side] using h
  | cons i L ih =>
    intro g rs q h
    simp only [processDone]
    have keep : ∀ (g1 : Side C) (rs1 : RS) (q1 : Bool), DirOK cfg g1 →
        DirOK cfg (RRes.side (match processDone cfg size cur env done L g1 rs1 q1 with
          | .inl ((k, rs, q), g) => (.inl ((i :: k, rs, q), g) : RRes C (List Nat × RS × Bool))
          | .inr e => .inr e)) := by
      intro g1 rs1 q1 h1
      have := ih g1 rs1 q1 h1
      generalize processDone cfg size cur env done L g1 rs1 q1 = r at this ⊢
      rcases r with ⟨⟨k, a, b⟩, g'⟩ | ⟨er, g'⟩ <;> simpa only [RRes.side] using this
    split
    · exact ih g rs q h
    · split
      · split
        · exact ih _ _ _ (saveExtra_dirs cfg { g with timeouts := g.timeouts + 1 } h)
        · simpa [RRes.side] using h
        · cases hc : check cfg size cur (env i) g rs.gu with
          | mk o rest =>
            obtain ⟨g1, gu1⟩ := rest
            have hd := check_dirs cfg size cur (env i) g g1 rs.gu gu1 o hc h
            cases o with
            | accept => exact keep _ _ _ hd
            | ignore => exact ih _ _ _ hd
            | quit => exact ih _ _ _ hd
            | raise e => simpa only [RRes.side] using hd
      · exact keep _ _ _ h

theorem wfs_dirs (cfg : Cfg) (size : C → Nat) (cur : C) (env : Nat → EnvRes C σ) :
    ∀ (L : List Nat) (g : Side C) (rs : RS), DirOK cfg g → DirOK cfg (RRes.side (wfs cfg size cur env L g rs)) := by
  intro L
  induction L with
  | nil => intro g rs h; simpa [wfs, RRes.side] using h
  | cons i L ih =>
    intro g rs h
    simp only [wfs]
    split
    · exact ih g rs h
    · simpa [RRes.side] using h
    · cases hc : check cfg size cur (env i) g rs.gu with
      | mk o rest =>
        obtain ⟨g1, gu1⟩ := rest
        have hd := check_dirs cfg size cur (env i) g g1 rs.gu gu1 o hc h
        cases o with
        | accept => simpa only [RRes.side] using hd
        | raise e => simpa only [RRes.side] using hd
        | ignore => exact ih _ _ hd
        | quit => exact ih _ _ hd

theorem roundLoop_dirs (cfg : Cfg) (size : C → Nat) (pkey : Nat) (cur : C) (env : Nat → EnvRes C σ) (more : Nat → Bool)
    (done : Nat → Nat → Bool) : ∀ (fuel t : Nat) (futs : List Nat) (g : Side C) (rs : RS), DirOK cfg g →
      DirOK cfg (RRes.side (roundLoop cfg size pkey cur env more done fuel t futs g rs)) := by
  intro fuel
  induction fuel with
  | zero => intro t futs g rs h; simpa [roundLoop, RRes.side] using h
  | succ f ih =>
    intro t futs g rs h
    simp only [roundLoop]
    have pd := processDone_dirs cfg size cur env (done t) futs g rs false h
    generalize processDone cfg size cur env (done t) futs g rs false = r at pd ⊢
    rcases r with ⟨⟨k, rs1, q⟩, g1⟩ | ⟨er, g1⟩
    · simp only [RRes.side] at pd
      simp only
      split
      · exact wfs_dirs cfg size cur env k g1 rs1 pd
      · split
        · exact ih _ _ _ _ pd
        · exact wfs_dirs cfg size cur env _ _ rs1 pd
    · simpa only [RRes.side] using pd

end Cvise.D

namespace Cvise.D
set_option linter.unusedSectionVars false
variable {C σ : Type} [DecidableEq C] [Inhabited σ] [Inhabited C]

theorem fileLoop_dirs (cfg : Cfg) (W : World C) (dn : Sched) (P : PassI C σ) (k startSize : Nat) :
    ∀ (fuel rid : Nat) (s : σ) (succ : Nat) (x : St C), DirOK cfg x.side →
      DirOK cfg (LRes.st' (fileLoop cfg W dn P k startSize fuel rid s succ x)).side := by
  intro fuel
  induction fuel with
  | zero => intro rid s succ x hx; simpa [fileLoop, LRes.st'] using hx
  | succ f ih =>
    intro rid s succ x hx
    simp only [fileLoop]
    split
    · simpa [LRes.st'] using hx
    · have rl := roundLoop_dirs cfg W.size P.key (x.disk.getD k default)
        (envOf W P x.disk k (x.disk.getD k default) s rid)
        (fun t => (nthState P (x.disk.getD k default) s t).isSome) (dn rid) (cfg.giveup + 1000) 0 [] x.side {} hx
      generalize roundLoop cfg W.size P.key (x.disk.getD k default) (envOf W P x.disk k (x.disk.getD k default) s rid)
        (fun t => (nthState P (x.disk.getD k default) s t).isSome) (dn rid) (cfg.giveup + 1000) 0 [] x.side {} = r at rl ⊢
      rcases r with ⟨⟨_ | i, g⟩⟩ | ⟨e, g⟩
      · simpa only [RRes.side, LRes.st'] using rl
      · simp only [RRes.side] at rl
        simp only
        split
        · exact rl
        · split
          · exact rl
          · split
            · exact rl
            · exact ih _ _ _ _ rl
      · simpa only [RRes.side, LRes.st'] using rl

theorem fileStep_dirs (cfg : Cfg) (W : World C) (dn : Sched) (P : PassI C σ) (fuel : Nat) (acc : LRes C) (k : Nat)
    (h : DirOK cfg (LRes.st' acc).side) : DirOK cfg (LRes.st' (fileStep cfg W dn P fuel acc k)).side := by
  unfold fileStep
  cases acc with
  | inr e => exact h
  | inl xr =>
    obtain ⟨x, rid⟩ := xr
    simp only [LRes.st'] at h
    simp only
    split
    · exact h
    · split
      · exact h
      · have hy : DirOK cfg (LRes.st' (newLoop cfg W dn P k fuel rid x (x.disk.getD k default))).side := by
          unfold newLoop
          have hr : DirOK cfg (fmtStep W P x k (x.disk.getD k default)).1.side := by rw [fmtStep_side]; exact h
          split
          · exact hr
          · split
            · exact hr
            · exact fileLoop_dirs cfg W dn P k _ fuel rid _ 0 _ hr
        generalize newLoop cfg W dn P k fuel rid x (x.disk.getD k default) = r at hy ⊢
        rcases r with ⟨y, rid'⟩ | ⟨e, y⟩
        · simp only [LRes.st'] at hy
          simp only
          split <;> simpa only [LRes.st'] using hy
        · exact hy

theorem runPass_dirs (cfg : Cfg) (W : World C) (dn : Sched) (P : PassI C σ) (order : List Nat) (fuel rid : Nat) (x : St C)
    (h : DirOK cfg x.side) : DirOK cfg (LRes.st' (runPass cfg W dn P order fuel rid x)).side := by
  unfold runPass
  simp only
  have h0 : DirOK cfg ({ x with leftover := false, side := { x.side with curPass := P.key } } : St C).side := h
  split
  · exact h0
  · generalize ({ x with leftover := false, side := { x.side with curPass := P.key } } : St C) = x0 at h0 ⊢
    have : ∀ (order : List Nat) (acc : LRes C), DirOK cfg (LRes.st' acc).side →
        DirOK cfg (LRes.st' (order.foldl (fileStep cfg W dn P fuel) acc)).side := by
      intro order
      induction order with
      | nil => intro acc h; exact h
      | cons k ks ih => intro acc h; exact ih _ (fileStep_dirs cfg W dn P fuel acc k h)
    exact this order (.inl (x0, rid)) h0

theorem runPasses_dirs (cfg : Cfg) (W : World C) (dn : Sched) (orderOf : List C → List Nat) (fuel : Nat) :
    ∀ (ps : List (PassI C σ)) (acc : LRes C), DirOK cfg (LRes.st' acc).side →
      DirOK cfg (LRes.st' (runPasses cfg W dn orderOf fuel ps acc)).side := by
  intro ps
  induction ps with
  | nil => intro acc h; exact h
  | cons P ps ih =>
    intro acc h
    simp only [runPasses]
    cases acc with
    | inr e => exact h
    | inl xr => obtain ⟨x, rid⟩ := xr; exact ih _ (runPass_dirs cfg W dn P _ fuel rid x h)

theorem mainLoop_dirs (cfg : Cfg) (W : World C) (dn : Sched) (orderOf : List C → List Nat) (fuel : Nat) (ps : List (PassI C σ)) :
    ∀ (rounds : Nat) (acc : LRes C), DirOK cfg (LRes.st' acc).side →
      DirOK cfg (LRes.st' (mainLoop cfg W dn orderOf fuel ps rounds acc)).side := by
  intro rounds
  induction rounds with
  | zero => intro acc h; exact h
  | succ n ih =>
    intro acc h
    simp only [mainLoop]
    cases acc with
    | inr e => exact h
    | inl xr =>
      obtain ⟨x, rid⟩ := xr
      simp only
      split
      · exact h
      · have h2 := runPasses_dirs cfg W dn orderOf fuel ps (.inl (x, rid)) h
        generalize runPasses cfg W dn orderOf fuel ps (.inl (x, rid)) = r at h2 ⊢
        rcases r with ⟨y, rid'⟩ | ⟨e, y⟩
        · simp only
          split
          · exact h2
          · exact ih _ h2
        · exact h2

/-- over a whole reduction (any outcome, schedule, faults, passes) the report directories stay within their limits -/
theorem reduce_dirs (cfg : Cfg) (W : World C) (dn : Sched) (orderOf : List C → List Nat) (fuel : Nat)
    (first main last : List (PassI C σ)) (x : St C) (h : DirOK cfg x.side) :
    DirOK cfg (LRes.st' (reduce cfg W dn orderOf fuel first main last x)).side := by
  unfold reduce
  exact runPasses_dirs cfg W dn orderOf fuel last _
    (mainLoop_dirs cfg W dn orderOf fuel main _ _ (runPasses_dirs cfg W dn orderOf fuel first (.inl (x, 0)) h))

end Cvise.D
