import Cvise.Proofs.DriverWorked
/-! C16: a pass run accepts at most `--skip-after-n-transforms` (and at most its own `max-transforms`) changes per test
    case: the number of commit events `fileLoop` appends is bounded by every limit `n ≥ 1` that is in force. -/
namespace Cvise.D
set_option linter.unusedSectionVars false
variable {C σ : Type} [DecidableEq C] [Inhabited σ] [Inhabited C]

theorem limitHit_of_ge (n succ : Nat) (hn : 1 ≤ n) (h : n ≤ succ) : limitHit (some n) succ = true := by
  unfold limitHit
  have : n ≠ 0 := by omega
  simp [this, h]

theorem commits_commit' (l : List (Ev C)) (tested : List (Ev C)) (hT : commits tested = []) (p k : Nat) (c : C) :
    commits ((l ++ tested) ++ [Ev.commit p k c]) = commits l ++ [(p, k, c)] := by
  rw [commits_append, commits_append, hT]
  simp [commits]

theorem fileLoop_commits_le (cfg : Cfg) (W : World C) (dn : Sched) (P : PassI C σ) (k startSize : Nat) (n : Nat) (hn : 1 ≤ n)
    (hl : cfg.skipN = some n ∨ P.maxT = some n) :
    ∀ (fuel rid : Nat) (s : σ) (succ : Nat) (x : St C), succ < n →
      (commits (LRes.st' (fileLoop cfg W dn P k startSize fuel rid s succ x)).side.log).length + succ ≤
        (commits x.side.log).length + n := by
  intro fuel
  induction fuel with
  | zero => intro rid s succ x h; simp only [fileLoop, LRes.st']; omega
  | succ f ih =>
    intro rid s succ x h
    simp only [fileLoop]
    split
    · simp only [LRes.st']; omega
    · have rc := roundLoop_commits cfg W.size P.key (x.disk.getD k default)
        (envOf W P x.disk k (x.disk.getD k default) s rid)
        (fun t => (nthState P (x.disk.getD k default) s t).isSome) (dn rid) (cfg.giveup + 1000) 0 [] x.side {}
      generalize roundLoop cfg W.size P.key (x.disk.getD k default) (envOf W P x.disk k (x.disk.getD k default) s rid)
        (fun t => (nthState P (x.disk.getD k default) s t).isSome) (dn rid) (cfg.giveup + 1000) 0 [] x.side {} = r at rc ⊢
      rcases r with ⟨⟨_ | i, g⟩⟩ | ⟨e, g⟩
      · simp only [RRes.side] at rc; simp only [LRes.st']; rw [rc]; omega
      · simp only [RRes.side] at rc
        simp only
        have one : ∀ (tested : List (Ev C)), commits tested = [] → ∀ q f c,
            (commits ((g.log ++ tested) ++ [Ev.commit q f c])).length = (commits x.side.log).length + 1 := by
          intro tested ht q f c
          rw [commits_commit' g.log tested ht, rc]; simp
        generalize envOf W P x.disk k (x.disk.getD k default) s rid i = e
        obtain ⟨eo, epr, ecand, est, eex⟩ := e
        have fin : ∀ (tested : List (Ev C)), commits tested = [] → ∀ r' : LRes C,
            (if W.size ecand ≥ cfg.growth * startSize then
                (Sum.inl ({ commitSt x k ecand { g with worked := bump g.worked g.curPass, log := g.log ++ tested ++ [Ev.commit P.key k ecand] } with
                            leftover := !cfg.releaseBeforeBail }, rid + 1) : LRes C)
              else
                match P.aos ecand est with
                | none => .inl (commitSt x k ecand { g with worked := bump g.worked g.curPass, log := g.log ++ tested ++ [Ev.commit P.key k ecand] }, rid + 1)
                | some s' =>
                  if limitHit cfg.skipN (succ + 1) || limitHit P.maxT (succ + 1) then
                    .inl (commitSt x k ecand { g with worked := bump g.worked g.curPass, log := g.log ++ tested ++ [Ev.commit P.key k ecand] }, rid + 1)
                  else fileLoop cfg W dn P k startSize f (rid + 1) s' (succ + 1)
                    (commitSt x k ecand { g with worked := bump g.worked g.curPass, log := g.log ++ tested ++ [Ev.commit P.key k ecand] })) =
              r' → (commits (LRes.st' r').side.log).length + succ ≤ (commits x.side.log).length + n := by
          intro tested ht r'
          have h1 := one tested ht P.key k ecand
          split
          · intro hr; subst hr; simp only [LRes.st', commitSt]; rw [h1]; omega
          · split
            · intro hr; subst hr; simp only [LRes.st', commitSt]; rw [h1]; omega
            · split
              · intro hr; subst hr; simp only [LRes.st', commitSt]; rw [h1]; omega
              · rename_i s' _ hlim
                have hlt : succ + 1 < n := by
                  rcases Nat.lt_or_ge (succ + 1) n with h' | h'
                  · exact h'
                  · exfalso
                    apply hlim
                    rcases hl with hl | hl
                    · rw [hl, limitHit_of_ge n (succ + 1) hn h']; rfl
                    · rw [hl, limitHit_of_ge n (succ + 1) hn h']; simp
                intro hr; subst hr
                have := ih (rid + 1) s' (succ + 1) (commitSt x k ecand
                    { g with worked := bump g.worked g.curPass, log := g.log ++ tested ++ [Ev.commit P.key k ecand] }) hlt
                have e2 : (commits (commitSt x k ecand
                    { g with worked := bump g.worked g.curPass, log := g.log ++ tested ++ [Ev.commit P.key k ecand] }).side.log).length =
                    (commits x.side.log).length + 1 := h1
                rw [e2] at this
                omega
        cases eex with
        | none => exact fin [] (by simp [commits]) _ rfl
        | some ex => exact fin [Ev.tested (x.disk.set k ecand) ex] (by simp [commits]) _ rfl
      · simp only [RRes.side] at rc; simp only [LRes.st']; rw [rc]; omega

/-- one test case of one pass run (`new` + all rounds): at most `n` accepted changes -/
theorem newLoop_commits_le (cfg : Cfg) (W : World C) (dn : Sched) (P : PassI C σ) (k fuel rid : Nat) (x : St C) (before : C)
    (n : Nat) (hn : 1 ≤ n) (hl : cfg.skipN = some n ∨ P.maxT = some n) :
    (commits (LRes.st' (newLoop cfg W dn P k fuel rid x before)).side.log).length ≤ (commits x.side.log).length + n := by
  unfold newLoop
  have hs := fmtStep_side W P x k before
  split
  · simp only [LRes.st']; rw [hs]; omega
  · split
    · simp only [LRes.st']; rw [hs]; omega
    · rename_i s _
      have := fileLoop_commits_le cfg W dn P k (W.size before) n hn hl fuel rid s 0 (fmtStep W P x k before).1 (by omega)
      rw [hs] at this
      simpa using this

end Cvise.D
