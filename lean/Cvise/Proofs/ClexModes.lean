import Cvise.Model.Clex
/-!
Specifications of the remaining token-editing modes of `clex/driver.c` (`rm_tok_pattern`, `delete_string`,
`shorten_string`, `x_string`) over arbitrary token arrays: what is printed, and for which indices the mode says OK.
-/
namespace Cvise.Clex

def nonBlankCount (ts : List Tok) : Nat := (ts.filter (fun t => !blank t)).length

/-! ### rm_tok_pattern -/

/-- the output is the input token sequence with some tokens dropped: nothing is added, changed or reordered, and
    blanks are never dropped -/
theorem rmPatGo_sublist (n idx : Nat) : ∀ (ts : List Tok) (which : Nat) (started matched deleted : Bool) (pat : Nat) (acc : List Char),
    ∃ kept : List Tok, kept.Sublist ts ∧ (∀ t ∈ ts, blank t = true → t ∈ kept) ∧
      (rmPatGo n idx ts which started matched deleted pat acc).2.2 = acc ++ concat kept := by
  intro ts
  induction ts with
  | nil => intro which started matched deleted pat acc; exact ⟨[], List.Sublist.refl _, by simp, by simp [rmPatGo, concat]⟩
  | cons t ts ih =>
    intro which started matched deleted pat acc
    simp only [rmPatGo]
    by_cases hb : blank t = true
    · simp only [hb, if_true]
      obtain ⟨kept, h1, h2, h3⟩ := ih which started matched deleted pat (acc ++ t.str)
      refine ⟨t :: kept, List.Sublist.cons_cons _ h1, ?_, by rw [h3]; simp [concat, List.append_assoc]⟩
      intro u hu hbu
      rcases List.mem_cons.mp hu with rfl | hu
      · exact List.mem_cons_self
      · exact List.mem_cons_of_mem _ (h2 u hu hbu)
    · have hb' : blank t = false := by simpa using hb
      simp only [hb', Bool.false_eq_true, if_false]
      have keep : ∀ (w : Nat) (s m d : Bool) (p : Nat),
          ∃ kept : List Tok, kept.Sublist (t :: ts) ∧ (∀ u ∈ t :: ts, blank u = true → u ∈ kept) ∧
            (rmPatGo n idx ts w s m d p (acc ++ t.str)).2.2 = acc ++ concat kept := by
        intro w s m d p
        obtain ⟨kept, h1, h2, h3⟩ := ih w s m d p (acc ++ t.str)
        refine ⟨t :: kept, List.Sublist.cons_cons _ h1, ?_, by rw [h3]; simp [concat, List.append_assoc]⟩
        intro u hu hbu
        rcases List.mem_cons.mp hu with rfl | hu
        · exact List.mem_cons_self
        · exact List.mem_cons_of_mem _ (h2 u hu hbu)
      have drop : ∀ (w : Nat) (s m d : Bool) (p : Nat),
          ∃ kept : List Tok, kept.Sublist (t :: ts) ∧ (∀ u ∈ t :: ts, blank u = true → u ∈ kept) ∧
            (rmPatGo n idx ts w s m d p acc).2.2 = acc ++ concat kept := by
        intro w s m d p
        obtain ⟨kept, h1, h2, h3⟩ := ih w s m d p acc
        refine ⟨kept, List.Sublist.cons _ h1, ?_, h3⟩
        intro u hu hbu
        rcases List.mem_cons.mp hu with rfl | hu
        · rw [hb'] at hbu; cases hbu
        · exact h2 u hu hbu
      repeat' split
      all_goals first | exact keep _ _ _ _ _ | exact drop _ _ _ _ _

theorem rmPatGo_flags_true (n idx : Nat) : ∀ (ts : List Tok) (which : Nat) (started : Bool) (pat : Nat) (acc : List Char),
    (rmPatGo n idx ts which started true true pat acc).1 = true ∧ (rmPatGo n idx ts which started true true pat acc).2.1 = true := by
  intro ts
  induction ts with
  | nil => intros; simp [rmPatGo]
  | cons t ts ih =>
    intro which started pat acc
    simp only [rmPatGo, Bool.true_or]
    repeat' split
    all_goals exact ih _ _ _ _

/-- before the window opens nothing is dropped and no flag is set; the mode says OK iff the window's first token
    exists (its pattern bit is always set, so that token is always deleted) -/
theorem rmPatGo_ok (n idx : Nat) (hn : 1 ≤ n) : ∀ (ts : List Tok) (which : Nat) (pat : Nat) (acc : List Char), which ≤ idx → pat % 2 = 1 →
    (((rmPatGo n idx ts which false false false pat acc).1 && (rmPatGo n idx ts which false false false pat acc).2.1) = true ↔
      idx < which + nonBlankCount ts) := by
  intro ts
  induction ts with
  | nil => intro which pat acc h _; simp [rmPatGo, nonBlankCount]; omega
  | cons t ts ih =>
    intro which pat acc h hp
    simp only [rmPatGo]
    by_cases hb : blank t = true
    · simp only [hb, if_true]
      rw [ih which pat _ h hp]
      simp [nonBlankCount, hb]
    · have hb' : blank t = false := by simpa using hb
      simp only [hb', Bool.false_eq_true, if_false]
      have hnb : nonBlankCount (t :: ts) = nonBlankCount ts + 1 := by simp [nonBlankCount, hb']
      by_cases hw : which = idx
      · subst hw
        have hne : ¬ which = which + n := by omega
        simp only [if_true, hne, if_false, Bool.false_or, decide_true, Bool.not_true, Bool.false_eq_true, hp]
        have := rmPatGo_flags_true n which ts (which + 1) true (pat / 2) acc
        simp [this.1, this.2, hnb]
      · have hne : ¬ which = idx + n := by omega
        simp only [hw, if_false, hne, Bool.false_or, decide_false, Bool.not_false, if_true]
        rw [ih (which + 1) pat _ (by omega) hp, hnb]
        omega

/-- `rm-tok-pattern-n` (n ≥ 1): index `idx` selects window position `idx / 2^(n-1)` and a pattern whose lowest bit is
    set; the mode says OK exactly for `idx < 2^(n-1) · (number of non-blank tokens)` — a prefix of the indices -/
theorem rmTokPattern_ok_iff (n idx : Nat) (hn : 1 ≤ n) (ts : List Tok) :
    (rmTokPattern n idx ts).exit = .ok ↔ idx / 2 ^ (n - 1) < nonBlankCount ts := by
  unfold rmTokPattern
  simp only
  have hodd : (1 + 2 * (idx % 2 ^ (n - 1))) % 256 % 2 = 1 := by omega
  have := rmPatGo_ok n (idx / 2 ^ (n - 1)) hn ts 0 ((1 + 2 * (idx % 2 ^ (n - 1))) % 256) [] (Nat.zero_le _) hodd
  generalize rmPatGo n (idx / 2 ^ (n - 1)) ts 0 false false false ((1 + 2 * (idx % 2 ^ (n - 1))) % 256) [] = r at this ⊢
  obtain ⟨m, d, out⟩ := r
  simp only at this ⊢
  rw [← Nat.zero_add (nonBlankCount ts), ← this]
  cases m <;> cases d <;> simp

theorem rmTokPattern_sublist (n idx : Nat) (ts : List Tok) :
    ∃ kept : List Tok, kept.Sublist ts ∧ (∀ t ∈ ts, blank t = true → t ∈ kept) ∧ (rmTokPattern n idx ts).out = concat kept := by
  unfold rmTokPattern
  simp only
  obtain ⟨kept, h1, h2, h3⟩ := rmPatGo_sublist n (idx / 2 ^ (n - 1)) ts 0 false false false ((1 + 2 * (idx % 2 ^ (n - 1))) % 256) []
  refine ⟨kept, h1, h2, ?_⟩
  generalize rmPatGo n (idx / 2 ^ (n - 1)) ts 0 false false false ((1 + 2 * (idx % 2 ^ (n - 1))) % 256) [] = r at h3 ⊢
  obtain ⟨m, d, out⟩ := r
  simpa using h3

/-! ### delete_string -/

/-- a string token that is not already the empty string `""` -/
def fullString (t : Tok) : Bool := decide (t.kind = .string ∧ t.str ≠ emptyStr)

def fullStrings (ts : List Tok) : Nat := (ts.filter fullString).length

theorem delStrGo_matched_true (idx : Nat) : ∀ (ts : List Tok) (w : Nat) (acc : List Char), (delStrGo idx ts w true acc).1 = true := by
  intro ts
  induction ts with
  | nil => intros; simp [delStrGo]
  | cons t ts ih =>
    intro w acc
    simp only [delStrGo]
    split
    · split <;> exact ih _ _
    · exact ih _ _

/-- `delete_string`: OK exactly when the `idx`-th non-empty string literal exists; then the output is the input with
    exactly that token replaced by `""`; otherwise (STOP) the output is the input -/
theorem delStrGo_spec (idx : Nat) : ∀ (ts : List Tok) (w : Nat) (acc : List Char), w ≤ idx →
    ((delStrGo idx ts w false acc).1 = true ↔ idx < w + fullStrings ts) ∧
    ((delStrGo idx ts w false acc).1 = false → (delStrGo idx ts w false acc).2 = acc ++ concat ts) ∧
    ((delStrGo idx ts w false acc).1 = true → ∃ pre t post, ts = pre ++ t :: post ∧ fullString t = true ∧ w + fullStrings pre = idx ∧
      (delStrGo idx ts w false acc).2 = acc ++ concat pre ++ emptyStr ++ concat post) := by
  intro ts
  induction ts with
  | nil => intro w acc h; simp [delStrGo, fullStrings, concat]; omega
  | cons t ts ih =>
    intro w acc h
    simp only [delStrGo]
    by_cases hf : t.kind = .string ∧ t.str ≠ emptyStr
    · have hfs : fullString t = true := by simp [fullString, hf]
      have hcnt : fullStrings (t :: ts) = fullStrings ts + 1 := by simp [fullStrings, hfs]
      simp only [hf, and_self, ne_eq, not_false_eq_true, if_true]
      by_cases hw : w = idx
      · subst hw
        simp only [if_true]
        have hm := delStrGo_matched_true w ts (w + 1) (acc ++ emptyStr)
        refine ⟨by simp [hm, hcnt], by simp [hm], fun _ => ⟨[], t, ts, rfl, hfs, by simp [fullStrings], ?_⟩⟩
        -- after the match nothing else is replaced: the rest is copied
        have rest : ∀ (us : List Tok) (w' : Nat) (a : List Char), w < w' → (delStrGo w us w' true a).2 = a ++ concat us := by
          intro us
          induction us with
          | nil => intros; simp [delStrGo, concat]
          | cons u us ihu =>
            intro w' a hlt
            have hne : ¬ w' = w := by omega
            simp only [delStrGo, hne, if_false]
            split
            · rw [ihu (w' + 1) _ (by omega)]; simp [concat, List.append_assoc]
            · rw [ihu w' _ hlt]; simp [concat, List.append_assoc]
        rw [rest ts (w + 1) _ (by omega)]
        simp [concat]
      · simp only [hw, if_false]
        obtain ⟨i1, i2, i3⟩ := ih (w + 1) (acc ++ t.str) (by omega)
        refine ⟨by rw [i1, hcnt]; omega, fun hm => by rw [i2 hm]; simp [concat, List.append_assoc], fun hm => ?_⟩
        obtain ⟨pre, u, post, e1, e2, e3, e4⟩ := i3 hm
        refine ⟨t :: pre, u, post, by rw [e1]; rfl, e2, by simp [fullStrings, hfs] at e3 ⊢; omega, ?_⟩
        rw [e4]; simp [concat, List.append_assoc]
    · have hfs : fullString t = false := by simp [fullString, hf]
      have hcnt : fullStrings (t :: ts) = fullStrings ts := by simp [fullStrings, hfs]
      simp only [hf, if_false]
      obtain ⟨i1, i2, i3⟩ := ih w (acc ++ t.str) h
      refine ⟨by rw [i1, hcnt], fun hm => by rw [i2 hm]; simp [concat, List.append_assoc], fun hm => ?_⟩
      obtain ⟨pre, u, post, e1, e2, e3, e4⟩ := i3 hm
      refine ⟨t :: pre, u, post, by rw [e1]; rfl, e2, by simp [fullStrings, hfs] at e3 ⊢; omega, ?_⟩
      rw [e4]; simp [concat, List.append_assoc]

/-! ### shorten_string -/

/-- characters between the quotes of all string tokens -/
def stringChars (ts : List Tok) : Nat := ((ts.filter (fun t => t.kind = .string)).map (fun t => t.str.length - 2)).foldr (· + ·) 0

theorem shortenGo_done : ∀ (ts : List Tok) (idx : Nat) (acc : List Char), shortenGo ts idx true acc = (true, acc ++ concat ts) := by
  intro ts
  induction ts with
  | nil => intros; simp [shortenGo, concat]
  | cons t ts ih => intro idx acc; simp [shortenGo, ih, concat, List.append_assoc]

/-- `shorten_string`: OK exactly when `idx` addresses a character inside the quotes of some string literal (counting
    through all of them); then the output is one character shorter than the input; otherwise the output is the input -/
theorem shortenGo_spec : ∀ (ts : List Tok) (idx : Nat) (acc : List Char),
    ((shortenGo ts idx false acc).1 = true ↔ idx < stringChars ts) ∧
    ((shortenGo ts idx false acc).1 = false → (shortenGo ts idx false acc).2 = acc ++ concat ts) ∧
    ((shortenGo ts idx false acc).1 = true → (shortenGo ts idx false acc).2.length + 1 = acc.length + (concat ts).length) := by
  intro ts
  induction ts with
  | nil => intro idx acc; simp [shortenGo, stringChars, concat]
  | cons t ts ih =>
    intro idx acc
    simp only [shortenGo, Bool.not_false, Bool.true_and]
    by_cases hk : t.kind = .string
    · have hsc : stringChars (t :: ts) = (t.str.length - 2) + stringChars ts := by simp [stringChars, hk]
      simp only [hk, decide_true, if_true]
      by_cases hge : idx ≥ t.str.length - 2
      · simp only [hge, if_true]
        obtain ⟨i1, i2, i3⟩ := ih (idx - (t.str.length - 2)) (acc ++ t.str)
        refine ⟨by rw [i1, hsc]; omega, fun hm => by rw [i2 hm]; simp [concat, List.append_assoc], fun hm => ?_⟩
        have := i3 hm
        simp [concat, List.length_append] at this ⊢
        omega
      · simp only [hge, if_false]
        rw [shortenGo_done]
        refine ⟨by simp [hsc]; omega, by simp, fun _ => ?_⟩
        simp [concat, List.length_append, List.length_take, List.length_drop]
        omega
    · have hsc : stringChars (t :: ts) = stringChars ts := by simp [stringChars, hk]
      simp only [hk, decide_false, Bool.false_eq_true, if_false]
      obtain ⟨i1, i2, i3⟩ := ih idx (acc ++ t.str)
      refine ⟨by rw [i1, hsc], fun hm => by rw [i2 hm]; simp [concat, List.append_assoc], fun hm => ?_⟩
      have := i3 hm
      simp [concat, List.length_append] at this ⊢
      omega

/-! ### x_string: the output always has the length of the input -/

theorem xChars_length (idx : Nat) : ∀ (cs : List Char) (which : Nat) (matched : Bool) (acc : List Char),
    (xChars idx cs which matched acc).2.2.length = acc.length + cs.length := by
  intro cs
  induction cs with
  | nil => intros; simp [xChars]
  | cons c cs ih =>
    intro which matched acc
    simp only [xChars]
    repeat' split
    all_goals (rw [ih]; simp [List.length_append]; omega)

theorem xStrGo_length (idx : Nat) : ∀ (ts : List Tok) (which : Nat) (matched : Bool) (acc : List Char),
    (xStrGo idx ts which matched acc).2.length = acc.length + (concat ts).length := by
  intro ts
  induction ts with
  | nil => intros; simp [xStrGo, concat]
  | cons t ts ih =>
    intro which matched acc
    simp only [xStrGo]
    split
    · have hx := xChars_length idx t.str which matched []
      generalize xChars idx t.str which matched [] = r at hx ⊢
      obtain ⟨w, m, s⟩ := r
      simp only at hx ⊢
      rw [ih]
      simp [concat, List.length_append] at hx ⊢
      omega
    · rw [ih]; simp [concat, List.length_append]; omega

/-! ### rename_toks -/

theorem flatMap_congr' {α β : Type} (f g : α → List β) : ∀ (l : List α), (∀ x ∈ l, f x = g x) → l.flatMap f = l.flatMap g := by
  intro l
  induction l with
  | nil => intro _; rfl
  | cons a l ih =>
    intro h
    simp only [List.flatMap_cons]
    rw [h a List.mem_cons_self, ih (fun x hx => h x (List.mem_cons_of_mem _ hx))]

/-- `rename-toks`: OK exactly for the indices below the number of distinct renameable identifiers; the output is then the
    input with **every** occurrence of one identifier (as an identifier token) replaced by one new name, and nothing else
    changed; on STOP nothing is printed -/
theorem renameToks_spec (idx : Nat) (ts : List Tok) :
    let newname := findUnused ts (ts.length + 2) ['a']
    let index := ((ts.filter fun t => t.kind = .ident && shouldRename t.str newname).map (·.str)).eraseDups
    ((renameToks idx ts).exit = .ok ↔ idx < index.length) ∧
    ((renameToks idx ts).exit = .ok → ∃ target, index[idx]? = some target ∧
      (renameToks idx ts).out = ts.flatMap fun t => if t.kind = .ident ∧ t.str = target then newname else t.str) ∧
    ((renameToks idx ts).exit = .stop → (renameToks idx ts).out = []) := by
  intro newname index
  unfold renameToks
  simp only
  cases h : index[idx]? with
  | none =>
    have hlen : ¬ idx < index.length := by
      intro hl
      rw [List.getElem?_eq_getElem hl] at h
      cases h
    have h' : ((ts.filter fun t => t.kind = .ident && shouldRename t.str (findUnused ts (ts.length + 2) ['a'])).map (·.str)).eraseDups[idx]? = none := h
    simp only [h']
    exact ⟨by simp [hlen], by simp, by simp⟩
  | some target =>
    have hlen : idx < index.length := by
      have := List.getElem?_eq_some_iff.mp h
      exact this.1
    have h' : ((ts.filter fun t => t.kind = .ident && shouldRename t.str (findUnused ts (ts.length + 2) ['a'])).map (·.str)).eraseDups[idx]? = some target := h
    simp only [h']
    refine ⟨by simp [hlen], fun _ => ⟨target, rfl, ?_⟩, by simp⟩
    -- an occurrence of the target as an identifier token is renameable, because the target came from such a token
    have hmem : target ∈ index := List.mem_of_getElem? h
    have hsr : shouldRename target newname = true := by
      have : target ∈ (ts.filter fun t => t.kind = .ident && shouldRename t.str newname).map (·.str) := by
        simpa [index] using (List.mem_eraseDups.mp hmem)
      simp only [List.mem_map, List.mem_filter] at this
      obtain ⟨t, ⟨_, ht⟩, rfl⟩ := this
      simp only [Bool.and_eq_true, decide_eq_true_eq] at ht
      exact ht.2
    apply flatMap_congr'
    intro t _
    by_cases hk : t.kind = .ident
    · by_cases hs : t.str = target
      · have hsr' : shouldRename target (findUnused ts (ts.length + 2) ['a']) = true := hsr
        simp [hk, hs, hsr']
        rfl
      · simp [hk, hs]
    · simp [hk]

end Cvise.Clex
