import Cvise.Model.Binary
/-! C03 (binary-search passes) : the measure `mu` strictly decreases at every step, for every verdict -/
namespace Cvise

theorem mul_helper_le {c' c l' l : Nat} (hc : c' ≤ c) (hl : l' ≤ l) : c' * (2 * l' + 2) ≤ c * (2 * l + 2) :=
  Nat.mul_le_mul hc (by omega)

theorem mul_helper_lt {c' c l' l : Nat} (hc : c' + 1 ≤ c) (hl : l' ≤ l) :
    c' * (2 * l' + 2) + (2 * l + 2) ≤ c * (2 * l + 2) := by
  have h1 : c' * (2 * l' + 2) ≤ c' * (2 * l + 2) := Nat.mul_le_mul (Nat.le_refl _) (by omega)
  have h2 : (c' + 1) * (2 * l + 2) ≤ c * (2 * l + 2) := Nat.mul_le_mul hc (Nat.le_refl _)
  have h3 : (c' + 1) * (2 * l + 2) = c' * (2 * l + 2) + (2 * l + 2) := by rw [Nat.add_mul]; simp
  omega

theorem step_mu (test : List α → Bool) (x y : St α) (h : x.Inv) (hs : step test x = .inl y) :
    mu y < mu x := by
  have hcl := cand_length x h
  obtain ⟨hI, hB⟩ := h
  unfold step at hs
  split at hs
  · split at hs
    · rename_i s hs'
      cases hs
      have := BS.aos_inv hB hs'
      obtain ⟨_, _, hcase⟩ := this
      unfold mu
      simp only
      rcases hcase with ⟨h1, h2⟩ | ⟨h1, h2, h3⟩
      · have := mul_helper_le (c' := s.chunk) (c := x.st.chunk) (l' := x.cand.length) (l := x.items.length) (by omega) (by omega)
        omega
      · have hc := hB.2
        have := mul_helper_lt (c' := s.chunk) (c := x.st.chunk) (l' := x.cand.length) (l := x.items.length) (by omega) (by omega)
        omega
    · cases hs
  · split at hs
    · rename_i s hs'
      cases hs
      have := BS.advance_inv hB hs'
      obtain ⟨hi, _, hcase⟩ := this
      unfold mu
      simp only
      rcases hcase with ⟨h1, h2⟩ | ⟨h1, h2, h3⟩
      · have hc := hB.2
        have := hi.1
        rw [h1]
        omega
      · have hc := hB.2
        have := mul_helper_lt (c' := s.chunk) (c := x.st.chunk) (l' := x.items.length) (l := x.items.length) (by omega) (by omega)
        omega
    · cases hs

/-- with fuel above the measure the run completes, whatever the test answers -/
theorem run_completes (test : List α → Bool) : ∀ (fuel : Nat) (x : St α), x.Inv → mu x < fuel →
    ∃ r, run test fuel x = some r := by
  intro fuel
  induction fuel with
  | zero => intro x _ h; omega
  | succ f ih =>
    intro x hx hm
    simp only [run]
    cases hs : step test x with
    | inl y =>
      simp only
      have := step_mu test x y hx hs
      exact ih y (step_inv test x y hx hs) (by omega)
    | inr r => exact ⟨r, rfl⟩

/-- C03 for the binary-search cursor: a run on `n` instances completes within `2n² + 4n + 1` candidates -/
theorem start_completes (test : List α → Bool) (l : List α) :
    ∃ r, start test (startFuel l.length) l = some r := by
  unfold start BS.create
  split
  · exact ⟨l, rfl⟩
  · rename_i s hc
    split at hc
    · cases hc
    · rename_i h0
      cases hc
      apply run_completes
      · exact ⟨rfl, by simp [BS.Inv]; omega⟩
      · simp [mu, startFuel]

/-- more fuel never changes the answer -/
theorem run_fuel_mono (test : List α → Bool) : ∀ (f : Nat) (x : St α) (r : List α),
    run test f x = some r → ∀ g, f ≤ g → run test g x = some r := by
  intro f
  induction f with
  | zero => intro x r h; simp [run] at h
  | succ f ih =>
    intro x r h g hg
    cases g with
    | zero => omega
    | succ g =>
      simp only [run] at h ⊢
      split at h
      · rename_i y hy; exact ih y r h g (by omega)
      · rename_i q hq; exact h

end Cvise
