import Cvise.Proofs.PassesTerm
import Cvise.Proofs.PassesLines
import Cvise.Proofs.PassesComments
/-!
C03 for the counter passes `blank` and `includes` under **every** accept/reject history (`comments` is covered for
all-reject histories in `PassesTerm`).  These passes never run out of cursors by themselves — `advance` always succeeds —
and rely on `transform` answering STOP; so the progress conditions are asked only of cursors whose candidate was *live*
(not STOP / ERROR / crash), which is when the driver goes on.
-/
namespace Cvise.P
open Cvise Cvise.M Cvise.D

def live (pr : PR) : Prop := ¬ (pr = .stop ∨ pr = .error ∨ pr = .crash)

/-- `drive_bound_inv` with the progress conditions restricted to live candidates -/
theorem drive_bound_live {σ : Type} (P : TextPass σ) (I : Text → σ → Prop) (μ : Text → σ → Nat)
    (I1 : ∀ s st pr s2 st2 st', I s st → P.transform s st = (pr, s2, st2) → live pr → P.advance s st = some st' → I s st')
    (I2 : ∀ s st s2 st2 st', I s st → P.transform s st = (.ok, s2, st2) → P.aos s2 st2 = some st' → I s2 st')
    (H1 : ∀ s st pr s2 st2 st', I s st → P.transform s st = (pr, s2, st2) → live pr → P.advance s st = some st' → μ s st' < μ s st)
    (H2 : ∀ s st s2 st2 st', I s st → P.transform s st = (.ok, s2, st2) → P.aos s2 st2 = some st' → μ s2 st' < μ s st) :
    ∀ (hist : List Bool) (s : Text) (st : σ) (acc : List (PR × Text)), I s st →
      (runHistory P hist s (some st) acc).1.length ≤ acc.length + μ s st + 1 := by
  intro hist
  induction hist with
  | nil => intro s st acc _; simp only [runHistory]; omega
  | cons a hs ih =>
    intro s st acc hI
    rcases htr : P.transform s st with ⟨pr, s2, st2⟩
    rw [runHistory_cons P a hs s st acc pr s2 st2 htr]
    split
    · simp only [List.length_append, List.length_singleton]; omega
    · rename_i hlive
      split
      · rename_i hacc
        cases haos : P.aos s2 st2 with
        | none => cases hs <;> simp [runHistory] <;> omega
        | some st' =>
          have hpr : pr = .ok := hacc.2
          subst hpr
          have := H2 s st s2 st2 st' hI htr haos
          have := ih s2 st' (acc ++ [(.ok, s2)]) (I2 s st s2 st2 st' hI htr haos)
          simp only [List.length_append, List.length_singleton] at this
          omega
      · cases hadv : P.advance s st with
        | none => cases hs <;> simp [runHistory] <;> omega
        | some st' =>
          have := H1 s st pr s2 st2 st' hI htr hlive hadv
          have := ih s st' (acc ++ [(pr, s2)]) (I1 s st pr s2 st2 st' hI htr hlive hadv)
          simp only [List.length_append, List.length_singleton] at this
          omega

/-! ### blank -/

theorem blankLoop_state (s : Text) : ∀ (fuel st : Nat) (pr : PR) (out : Text) (st' : Nat),
    blankLoop s fuel st = (pr, out, st') → live pr → st < st' ∧ st' ≤ Gen.blankPatterns.length := by
  intro fuel
  induction fuel with
  | zero => intro st pr out st' h hl; simp [blankLoop] at h; exact absurd (Or.inl h.1.symm) hl
  | succ f ih =>
    intro st pr out st' h hl
    simp only [blankLoop] at h
    split at h
    · cases h; exact absurd (Or.inl rfl) hl
    · rename_i id hid
      split at h
      · cases h
        have : st < Gen.blankPatterns.length := by
          have := List.getElem?_eq_some_iff.mp hid
          exact this.1
        omega
      · have := ih (st + 1) pr out st' h hl
        omega

/-- blank: at most `|patterns| + 2` (= 4) candidates under every accept/reject history -/
theorem blank_bound (hist : List Bool) (s : Text) :
    (runHistory blank hist s (some 0) []).1.length ≤ Gen.blankPatterns.length + 2 := by
  have key := drive_bound_live blank (fun _ _ => True) (fun _ st => Gen.blankPatterns.length + 1 - st)
    (fun _ _ _ _ _ _ _ _ _ _ => trivial) (fun _ _ _ _ _ _ _ _ => trivial)
    (by
      intro s st pr s2 st2 st' _ htr hl hadv
      simp only [blank] at htr hadv
      cases hadv
      split at htr
      · cases htr; exact absurd (Or.inl rfl) hl
      · rename_i hlt
        show _ + 1 - (st + 1) < _ + 1 - st
        omega)
    (by
      intro s st s2 st2 st' _ htr haos
      simp only [blank] at htr haos
      cases haos
      split at htr
      · cases htr
      · have := blankLoop_state s _ st .ok s2 st2 htr (by simp [live])
        show _ + 1 - st2 < _ + 1 - st
        omega)
    hist s 0 [] trivial
  simpa using key

/-! ### includes -/

theorem removeNth_pos (id : Nat) : ∀ (ls : List Text) (n : Nat) (r : List Text), removeNth id ls n = some r → n ≤ ls.length := by
  intro ls
  induction ls with
  | nil => intro n r h; simp [removeNth] at h
  | cons l ls ih =>
    intro n r h
    simp only [removeNth] at h
    split at h
    · split at h
      · rename_i h1; subst h1; simp
      · simp only [Option.map_eq_some_iff] at h
        obtain ⟨r', hr', _⟩ := h
        have := ih _ _ hr'
        simp; omega
    · simp only [Option.map_eq_some_iff] at h
      obtain ⟨r', hr', _⟩ := h
      have := ih _ _ hr'
      simp; omega

theorem lines_le_length (s : Text) : (splitLines s).length ≤ s.length := by
  have hne := splitLines_nonempty s
  have hf := splitLines_flatten s
  have : ∀ (ls : List Text), (∀ l ∈ ls, l ≠ []) → ls.length ≤ ls.flatten.length := by
    intro ls
    induction ls with
    | nil => intro _; simp
    | cons l ls ih =>
      intro h
      have h1 : l ≠ [] := h l List.mem_cons_self
      have h2 := ih (fun x hx => h x (List.mem_cons_of_mem _ hx))
      have : 0 < l.length := List.length_pos_iff.mpr h1
      simp only [List.length_cons, List.flatten_cons, List.length_append]
      omega
  have := this (splitLines s) hne
  rw [hf] at this
  exact this

def inclMu (s : Text) (st : Nat) : Nat := s.length * (s.length + 2) + (s.length + 1 - st)

/-- includes: at most `|s|² + 3|s| + 2` candidates under every accept/reject history (an accepted candidate is strictly
    shorter; a live candidate exists only for `st ≤` number of lines `≤ |s|`) -/
theorem includes_bound (hist : List Bool) (s : Text) :
    (runHistory includes hist s (some 1) []).1.length ≤ s.length * (s.length + 2) + s.length + 2 := by
  have key := drive_bound_live includes (fun _ _ => True) inclMu
    (fun _ _ _ _ _ _ _ _ _ _ => trivial) (fun _ _ _ _ _ _ _ _ => trivial)
    (by
      intro s st pr s2 st2 st' _ htr hl hadv
      simp only [includes] at htr hadv
      cases hadv
      split at htr
      · cases htr; exact absurd (Or.inl rfl) hl
      · split at htr
        · rename_i ls hls
          have h1 := removeNth_pos _ _ _ _ hls
          have h2 := lines_le_length s
          unfold inclMu
          omega
        · cases htr; exact absurd (Or.inl rfl) hl)
    (by
      intro s st s2 st2 st' _ htr haos
      have hc := includes_candidate s st s2 st2 htr
      simp only [includes] at htr haos
      cases haos
      split at htr
      · cases htr
      · split at htr
        · rename_i ls hls
          cases htr
          have h1 := removeNth_pos _ _ _ _ hls
          have h2 := lines_le_length s
          have hlen : ls.flatten.length < s.length := by
            have hsub := hc.1
            have hle := hsub.length_le
            rcases Nat.lt_or_ge ls.flatten.length s.length with h | h
            · exact h
            · exact absurd (hsub.eq_of_length_le h) hc.2
          unfold inclMu
          have : ls.flatten.length * (ls.flatten.length + 2) ≤ (s.length - 1) * (s.length + 1) := by
            apply Nat.mul_le_mul <;> omega
          have e : (s.length - 1) * (s.length + 1) + (s.length + 1) = s.length * (s.length + 1) := by
            have : s.length - 1 + 1 = s.length := by omega
            calc (s.length - 1) * (s.length + 1) + (s.length + 1) = (s.length - 1 + 1) * (s.length + 1) := by rw [Nat.add_mul, Nat.one_mul]
              _ = s.length * (s.length + 1) := by rw [this]
          have e2 : s.length * (s.length + 2) = s.length * (s.length + 1) + s.length := by
            rw [Nat.mul_add, Nat.mul_add]; omega
          omega
        · cases htr)
    hist s 1 [] trivial
  unfold inclMu at key
  simp only [List.length_nil] at key
  omega

/-! ### comments under accepts -/

theorem commentsLoop_live (s : Text) : ∀ (fuel st : Nat) (pr : PR) (out : Text) (st' : Nat),
    commentsLoop s fuel st = (pr, out, st') → live pr → pr = .ok := by
  intro fuel
  induction fuel with
  | zero => intro st pr out st' h hl; simp [commentsLoop] at h; exact absurd (Or.inl h.1.symm) hl
  | succ f ih =>
    intro st pr out st' h hl
    simp only [commentsLoop] at h
    split at h
    · cases h; exact absurd (Or.inl rfl) hl
    · split at h
      · cases h; rfl
      · exact ih _ pr out st' h hl

def commMu (s : Text) (st : Nat) : Nat := s.length * (Gen.commentsSubs.length + 2) + (Gen.commentsSubs.length + 1 - st)

/-- comments: at most `(|s| + 1)·(|substitutions| + 2)` candidates under **every** accept/reject history (an accepted
    candidate deletes comment text, so it is strictly shorter; on the same text the substitution index only grows) -/
theorem comments_bound (hist : List Bool) (s : Text) :
    (runHistory comments hist s (some 0) []).1.length ≤ s.length * (Gen.commentsSubs.length + 2) + Gen.commentsSubs.length + 2 := by
  have key := drive_bound_live comments (fun _ _ => True) commMu
    (fun _ _ _ _ _ _ _ _ _ _ => trivial) (fun _ _ _ _ _ _ _ _ => trivial)
    (by
      intro s st pr s2 st2 st' _ htr hl hadv
      simp only [comments] at htr hadv
      cases hadv
      have hok := commentsLoop_live s _ st pr s2 st2 htr hl
      subst hok
      have := commentsLoop_state s _ st s2 st2 htr
      unfold commMu
      omega)
    (by
      intro s st s2 st2 st' _ htr haos
      simp only [comments] at htr haos
      cases haos
      have hst := commentsLoop_state s _ st s2 st2 htr
      have hc := comments_candidate s _ st s2 st2 htr
      have hlen : s2.length < s.length := by
        have hle := hc.1.length_le
        rcases Nat.lt_or_ge s2.length s.length with h | h
        · exact h
        · exact absurd (hc.1.eq_of_length_le h) hc.2
      unfold commMu
      have : s2.length * (Gen.commentsSubs.length + 2) ≤ (s.length - 1) * (Gen.commentsSubs.length + 2) := Nat.mul_le_mul_right _ (by omega)
      have e : (s.length - 1) * (Gen.commentsSubs.length + 2) + (Gen.commentsSubs.length + 2) = s.length * (Gen.commentsSubs.length + 2) := by
        have : s.length - 1 + 1 = s.length := by omega
        calc (s.length - 1) * (Gen.commentsSubs.length + 2) + (Gen.commentsSubs.length + 2)
            = (s.length - 1 + 1) * (Gen.commentsSubs.length + 2) := by rw [Nat.add_mul, Nat.one_mul]
          _ = s.length * (Gen.commentsSubs.length + 2) := by rw [this]
      omega)
    hist s 0 [] trivial
  unfold commMu at key
  simp only [List.length_nil] at key
  omega

end Cvise.P
