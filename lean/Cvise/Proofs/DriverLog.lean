import Cvise.Proofs.DriverStats
/-! the accepted-step log: a round appends no commit event, whatever the schedule (C02 accepted sequence, C20 worked) -/
namespace Cvise.D
variable {C σ : Type} [DecidableEq C]

/-- the accepted steps recorded in a log: (pass, file, content) -/
def commits (log : List (Ev C)) : List (Nat × Nat × C) :=
  log.filterMap fun e => match e with
    | .commit p f c => some (p, f, c)
    | _ => none

theorem commits_append (a b : List (Ev C)) : commits (a ++ b) = commits a ++ commits b := by
  simp [commits, List.filterMap_append]

theorem check_commits (cfg : Cfg) (size : C → Nat) (cur : C) (e : EnvRes C σ) (g g' : Side C) (gu gu' : Bool) (o : Outcome)
    (h : check cfg size cur e g gu = (o, g', gu')) : commits g'.log = commits g.log := by
  unfold check reportBug saveExtra at h
  have key : ∀ (l : List (Ev C)) (x : Ev C), (∀ p f c, x ≠ .commit p f c) → commits (l ++ [x]) = commits l := by
    intro l x hx
    rw [commits_append]
    cases x <;> simp [commits] at hx ⊢
  grind [commits_append, commits]

end Cvise.D

namespace Cvise.D
variable {C σ : Type} [DecidableEq C]

theorem saveExtra_commits (cfg : Cfg) (g : Side C) : commits (saveExtra cfg g).log = commits g.log := by
  unfold saveExtra
  split
  · simp [commits_append, commits]
  · rfl

theorem processDone_commits (cfg : Cfg) (size : C → Nat) (cur : C) (env : Nat → EnvRes C σ) (done : Nat → Bool) :
    ∀ (L : List Nat) (g : Side C) (rs : RS) (q : Bool),
      commits (RRes.side (processDone cfg size cur env done L g rs q)).log = commits g.log := by
  intro L
  induction L with
  | nil => intro g rs q; simp [processDone, RRes.side]
  | cons i L ih =>
    intro g rs q
    simp only [processDone]
    have keep : ∀ (g1 : Side C) (rs1 : RS) (q1 : Bool), commits g1.log = commits g.log →
        commits (RRes.side (match processDone cfg size cur env done L g1 rs1 q1 with
          | .inl ((k, rs, q), g) => (.inl ((i :: k, rs, q), g) : RRes C (List Nat × RS × Bool))
          | .inr e => .inr e)).log = commits g.log := by
      intro g1 rs1 q1 h1
      have := ih g1 rs1 q1
      generalize processDone cfg size cur env done L g1 rs1 q1 = r at this ⊢
      rcases r with ⟨⟨k, a, b⟩, g'⟩ | ⟨er, g'⟩ <;> simp only [RRes.side] at this ⊢ <;> rw [this, h1]
    split
    · exact ih g rs q
    · split
      · split
        · rw [ih]; exact saveExtra_commits cfg { g with timeouts := g.timeouts + 1 }
        · simp [RRes.side]
        · cases hc : check cfg size cur (env i) g rs.gu with
          | mk o rest =>
            obtain ⟨g1, gu1⟩ := rest
            have hcm := check_commits cfg size cur (env i) g g1 rs.gu gu1 o hc
            cases o with
            | accept => exact keep _ _ _ hcm
            | ignore => simp only; rw [ih]; exact hcm
            | quit => simp only; rw [ih]; exact hcm
            | raise e => simp only [RRes.side]; exact hcm
      · exact keep _ _ _ rfl

theorem wfs_commits (cfg : Cfg) (size : C → Nat) (cur : C) (env : Nat → EnvRes C σ) :
    ∀ (L : List Nat) (g : Side C) (rs : RS), commits (RRes.side (wfs cfg size cur env L g rs)).log = commits g.log := by
  intro L
  induction L with
  | nil => intro g rs; simp [wfs, RRes.side]
  | cons i L ih =>
    intro g rs
    simp only [wfs]
    split
    · exact ih g rs
    · simp [RRes.side]
    · cases hc : check cfg size cur (env i) g rs.gu with
      | mk o rest =>
        obtain ⟨g1, gu1⟩ := rest
        have hcm := check_commits cfg size cur (env i) g g1 rs.gu gu1 o hc
        cases o with
        | accept => simp only [RRes.side]; exact hcm
        | raise e => simp only [RRes.side]; exact hcm
        | ignore => simp only; rw [ih]; exact hcm
        | quit => simp only; rw [ih]; exact hcm

/-- a round records no accepted step: whatever the schedule, the commit log is untouched by `run_parallel_tests` -/
theorem roundLoop_commits (cfg : Cfg) (size : C → Nat) (pkey : Nat) (cur : C) (env : Nat → EnvRes C σ) (more : Nat → Bool)
    (done : Nat → Nat → Bool) : ∀ (fuel t : Nat) (futs : List Nat) (g : Side C) (rs : RS),
      commits (RRes.side (roundLoop cfg size pkey cur env more done fuel t futs g rs)).log = commits g.log := by
  intro fuel
  induction fuel with
  | zero => intro t futs g rs; simp [roundLoop, RRes.side]
  | succ f ih =>
    intro t futs g rs
    simp only [roundLoop]
    have pd := processDone_commits cfg size cur env (done t) futs g rs false
    generalize processDone cfg size cur env (done t) futs g rs false = r at pd ⊢
    rcases r with ⟨⟨k, rs1, q⟩, g1⟩ | ⟨er, g1⟩
    · simp only [RRes.side] at pd
      simp only
      split
      · rw [wfs_commits]; exact pd
      · split
        · rw [ih]
          simp only [commits_append]
          rw [pd]
          simp [commits]
        · rw [wfs_commits]
          simp only [commits_append]
          rw [pd]
          simp [commits]
    · simp only [RRes.side] at pd ⊢; exact pd

end Cvise.D
