import Cvise.Model.Binary
import Cvise.Proofs.BinaryMonotone
/-! C06: a completed run that accepted nothing has tried (and seen rejected) the removal of every single instance -/
namespace Cvise
variable {α : Type}

structure K (l : List α) (test : List α → Bool) (x : St α) : Prop where
  inv : x.Inv
  sub : x.items.Sublist l
  pre : x.items.length = l.length → x.st.chunk = 1 → ∀ j, j < x.st.index → test (l.eraseIdx j) = false

structure DoneK (l : List α) (test : List α → Bool) (r : List α) : Prop where
  sub : r.Sublist l
  all : r.length = l.length → ∀ j, j < l.length → test (l.eraseIdx j) = false

theorem cand_sublist' (x : St α) (hx : x.Inv) : x.cand.Sublist x.items := by
  unfold St.cand cut
  conv => rhs; rw [← List.take_append_drop x.st.index x.items]
  apply List.Sublist.append_left
  by_cases h : x.st.index ≤ x.st.end_
  · have : x.items.drop x.st.end_ = (x.items.drop x.st.index).drop (x.st.end_ - x.st.index) := by
      rw [List.drop_drop]; congr 1; omega
    rw [this]; exact List.drop_sublist _ _
  · have := hx.2.1; have := hx.2.2
    simp [BS.end_] at h
    omega

theorem cand_single (x : St α) (h : x.Inv) (hc : x.st.chunk = 1) : x.cand = x.items.eraseIdx x.st.index := by
  have hend : x.st.end_ = x.st.index + 1 := by simp [BS.end_, hc]; have := h.1; have := h.2.1; omega
  simp [St.cand, cut, hend, List.eraseIdx_eq_take_drop_succ]

theorem step_K (l : List α) (test : List α → Bool) (x : St α) (hK : K l test x) :
    match step test x with
    | .inl y => K l test y
    | .inr r => DoneK l test r := by
  have hcl := cand_length x hK.inv
  have hcsub := cand_sublist' x hK.inv
  have hlen := hK.sub.length_le
  unfold step
  by_cases ht : test x.cand = true
  · simp only [ht, if_true]
    have hshort : x.cand.length ≠ l.length := by omega
    cases haos : x.st.advanceOnSuccess x.cand.length with
    | some s =>
      simp only
      have := BS.aos_inv hK.inv.2 haos
      exact ⟨⟨this.2.1, this.1⟩, hcsub.trans hK.sub, fun h => absurd h hshort⟩
    | none =>
      simp only
      exact ⟨hcsub.trans hK.sub, fun h => absurd h hshort⟩
  · have ht' : test x.cand = false := by simpa using ht
    simp only [ht, Bool.false_eq_true, if_false]
    cases hadv : x.st.advance with
    | some s =>
      simp only
      have := BS.advance_inv hK.inv.2 hadv
      refine ⟨⟨by rw [this.2.1]; exact hK.inv.1, this.1⟩, hK.sub, ?_⟩
      intro hl hc j hj
      simp only at hl hc hj
      have heq : x.items = l := hK.sub.eq_of_length hl
      rcases this.2.2 with ⟨h1, h2⟩ | ⟨h1, h2, h3⟩
      · have hc1 : x.st.chunk = 1 := by rw [← h1]; exact hc
        rw [h2, hc1] at hj
        by_cases hjj : j < x.st.index
        · exact hK.pre hl hc1 j hjj
        · have : j = x.st.index := by omega
          subst this
          rw [← heq, ← cand_single x hK.inv hc1]; exact ht'
      · omega
    | none =>
      simp only
      have hnone := BS.advance_none hK.inv.2 hadv
      refine ⟨hK.sub, ?_⟩
      intro hl j hj
      have heq : x.items = l := hK.sub.eq_of_length hl
      have hn : x.items.length = x.st.index + 1 := by have := hK.inv.1; have := hK.inv.2.1; omega
      by_cases hjj : j < x.st.index
      · exact hK.pre hl hnone.1 j hjj
      · have : j = x.st.index := by omega
        subst this
        rw [← heq, ← cand_single x hK.inv hnone.1]; exact ht'

theorem run_DoneK (l : List α) (test : List α → Bool) : ∀ (fuel : Nat) (x : St α) (r : List α), K l test x →
    run test fuel x = some r → DoneK l test r := by
  intro fuel
  induction fuel with
  | zero => intro x r _ h; simp [run] at h
  | succ f ih =>
    intro x r hK h
    have hs := step_K l test x hK
    simp only [run] at h
    split at h
    · rename_i y hy; rw [hy] at hs; exact ih y r hs h
    · rename_i q hq; rw [hq] at hs; cases h; exact hs

/-- every accepted candidate is strictly shorter, so "nothing was accepted" is `r.length = l.length` -/
theorem no_accept_no_single (test : List α → Bool) (l : List α) (fuel : Nat) (r : List α)
    (h : start test fuel l = some r) (hlen : r.length = l.length) :
    ∀ j, j < l.length → test (l.eraseIdx j) = false := by
  unfold start BS.create at h
  split at h
  · rename_i hc
    split at hc
    · rename_i h0; intro j hj; omega
    · cases hc
  · rename_i s hc
    split at hc
    · cases hc
    · rename_i h0
      cases hc
      have hK : K l test (⟨l, ⟨0, l.length, l.length⟩⟩ : St α) :=
        ⟨⟨rfl, by simp [BS.Inv]; omega⟩, List.Sublist.refl _, by intro _ _ j hj; simp at hj⟩
      exact (run_DoneK l test fuel _ r hK h).all hlen

/-- the result of any completed run is a sublist of the input -/
theorem result_sublist (test : List α → Bool) (l : List α) (fuel : Nat) (r : List α)
    (h : start test fuel l = some r) : r.Sublist l := by
  unfold start BS.create at h
  split at h
  · cases h; exact List.Sublist.refl _
  · rename_i s hc
    split at hc
    · cases hc
    · rename_i h0
      cases hc
      have hK : K l test (⟨l, ⟨0, l.length, l.length⟩⟩ : St α) :=
        ⟨⟨rfl, by simp [BS.Inv]; omega⟩, List.Sublist.refl _, by intro _ _ j hj; simp at hj⟩
      exact (run_DoneK l test fuel _ r hK h).sub

end Cvise
