import Cvise.Proofs.DriverLog
/-! C20: per pass, "worked" equals the number of accepted transformations recorded for that pass -/
namespace Cvise.D
variable {C σ : Type} [DecidableEq C] [Inhabited σ] [Inhabited C]

def acceptedOf (p : Nat) (log : List (Ev C)) : Nat := ((commits log).filter (fun c => c.1 = p)).length

/-- the invariant: for every pass, worked = accepted steps logged for it -/
def WInv (x : St C) : Prop := ∀ p, x.side.worked p = acceptedOf p x.side.log

theorem acceptedOf_commit (p : Nat) (g : Side C) (tested : List (Ev C)) (hT : commits tested = []) (q k : Nat) (c : C) :
    acceptedOf p ((g.log ++ tested) ++ [Ev.commit q k c]) = acceptedOf p g.log + (if q = p then 1 else 0) := by
  unfold acceptedOf
  rw [commits_append, commits_append, hT]
  simp only [commits, List.append_nil, List.filterMap_cons, List.filterMap_nil, List.filter_append, List.length_append]
  by_cases hq : q = p <;> simp [hq]

omit [Inhabited σ] [Inhabited C] in
/-- a round never touches "worked" nor the current pass, for any schedule and any fuel -/
theorem roundLoop_frame (cfg : Cfg) (size : C → Nat) (pkey : Nat) (cur : C) (env : Nat → EnvRes C σ) (more : Nat → Bool)
    (done : Nat → Nat → Bool) : ∀ (fuel t : Nat) (futs : List Nat) (g : Side C) (rs : RS),
      let g' := RRes.side (roundLoop cfg size pkey cur env more done fuel t futs g rs)
      g'.worked = g.worked ∧ g'.curPass = g.curPass := by
  intro fuel
  induction fuel with
  | zero => intro t futs g rs; simp [roundLoop, RRes.side]
  | succ f ih =>
    intro t futs g rs
    simp only [roundLoop]
    have pd := processDone_ok cfg size cur env (done t) futs g rs false
    generalize processDone cfg size cur env (done t) futs g rs false = r at pd ⊢
    unfold ScanOK at pd
    rcases r with ⟨⟨k, rs1, q⟩, g1⟩ | ⟨er, g1⟩
    · simp only at pd ⊢
      obtain ⟨_, f2, f3, _⟩ := pd
      split
      · obtain ⟨_, w2, w3, _⟩ := wfs_ok cfg size cur env k g1 rs1
        exact ⟨by rw [w2, f2], by rw [w3, f3]⟩
      · split
        · have := ih (t+1) (k ++ [t]) { g1 with executed := bump g1.executed g1.curPass, log := g1.log ++ [.sched pkey (t+1)] } rs1
          simp only at this
          exact ⟨by rw [this.1, f2], by rw [this.2, f3]⟩
        · obtain ⟨_, w2, w3, _⟩ := wfs_ok cfg size cur env (k ++ [t])
            { g1 with executed := bump g1.executed g1.curPass, log := g1.log ++ [.sched pkey (t+1)] } rs1
          simp only at w2 w3
          exact ⟨by rw [w2, f2], by rw [w3, f3]⟩
    · simp only [RRes.side] at pd ⊢
      exact ⟨pd.2.1, pd.2.2.1⟩

theorem fileLoop_worked (cfg : Cfg) (W : World C) (dn : Sched) (P : PassI C σ) (k startSize : Nat) :
    ∀ (fuel rid : Nat) (s : σ) (succ : Nat) (x : St C), WInv x → x.side.curPass = P.key →
      WInv (LRes.st' (fileLoop cfg W dn P k startSize fuel rid s succ x)) ∧
      (LRes.st' (fileLoop cfg W dn P k startSize fuel rid s succ x)).side.curPass = P.key := by
  intro fuel
  induction fuel with
  | zero => intro rid s succ x hx hc; simp only [fileLoop, LRes.st']; exact ⟨hx, hc⟩
  | succ f ih =>
    intro rid s succ x hx hc
    simp only [fileLoop]
    split
    · simp only [LRes.st']; exact ⟨hx, hc⟩
    · have rl := roundLoop_frame cfg W.size P.key (x.disk.getD k default)
        (envOf W P x.disk k (x.disk.getD k default) s rid)
        (fun t => (nthState P (x.disk.getD k default) s t).isSome) (dn rid) (cfg.giveup + 1000) 0 [] x.side {}
      have rc := roundLoop_commits cfg W.size P.key (x.disk.getD k default)
        (envOf W P x.disk k (x.disk.getD k default) s rid)
        (fun t => (nthState P (x.disk.getD k default) s t).isSome) (dn rid) (cfg.giveup + 1000) 0 [] x.side {}
      generalize roundLoop cfg W.size P.key (x.disk.getD k default) (envOf W P x.disk k (x.disk.getD k default) s rid)
        (fun t => (nthState P (x.disk.getD k default) s t).isSome) (dn rid) (cfg.giveup + 1000) 0 [] x.side {} = r at rl rc ⊢
      have same : ∀ g : Side C, g.worked = x.side.worked → g.curPass = x.side.curPass → commits g.log = commits x.side.log →
          ∀ y : St C, y.side = g → WInv y ∧ y.side.curPass = P.key := by
        intro g h1 h2 h3 y hy
        refine ⟨fun p => ?_, by rw [hy, h2, hc]⟩
        rw [hy, h1, hx p]; unfold acceptedOf; rw [h3]
      rcases r with ⟨⟨_ | i, g⟩⟩ | ⟨e, g⟩
      · simp only [RRes.side] at rl rc
        simp only [LRes.st']
        exact same g rl.1 rl.2 rc _ rfl
      · simp only [RRes.side] at rl rc
        simp only
        -- after the commit: worked bumped at the current pass, one commit event for P.key appended
        have hT : ∀ (ex : Option Exit) (d : List C), commits (match ex with
            | some e => [Ev.tested d e]
            | none => ([] : List (Ev C))) = [] := by
          intro ex d; cases ex <;> simp [commits]
        have after : ∀ y : St C, y.side.worked = bump g.worked g.curPass →
            (∃ tested : List (Ev C), commits tested = [] ∧ ∃ c, y.side.log = (g.log ++ tested) ++ [Ev.commit P.key k c]) →
            y.side.curPass = g.curPass → WInv y ∧ y.side.curPass = P.key := by
          intro y h1 ⟨tested, hT', c, hlog⟩ h2
          refine ⟨fun p => ?_, by rw [h2, rl.2, hc]⟩
          rw [h1, hlog, acceptedOf_commit p g tested hT']
          unfold bump
          rw [rl.2, hc, rl.1, hx p]
          unfold acceptedOf
          rw [rc]
          by_cases hp : p = P.key
          · simp [hp]
          · have : ¬ P.key = p := fun h => hp h.symm
            simp [hp, this]
        split
        · simp only [LRes.st']
          exact after _ rfl ⟨_, hT _ _, _, rfl⟩ rfl
        · split
          · simp only [LRes.st']
            exact after _ rfl ⟨_, hT _ _, _, rfl⟩ rfl
          · split
            · simp only [LRes.st']
              exact after _ rfl ⟨_, hT _ _, _, rfl⟩ rfl
            · apply ih
              · exact (after _ rfl ⟨_, hT _ _, _, rfl⟩ rfl).1
              · exact (after _ rfl ⟨_, hT _ _, _, rfl⟩ rfl).2
      · simp only [RRes.side] at rl rc
        simp only [LRes.st']
        exact same g rl.1 rl.2 rc _ rfl

end Cvise.D

namespace Cvise.D
variable {C σ : Type} [DecidableEq C] [Inhabited σ] [Inhabited C]

theorem fileStep_worked (cfg : Cfg) (W : World C) (dn : Sched) (P : PassI C σ) (fuel : Nat) (acc : LRes C) (k : Nat)
    (h : WInv (LRes.st' acc) ∧ (LRes.st' acc).side.curPass = P.key) :
    WInv (LRes.st' (fileStep cfg W dn P fuel acc k)) ∧ (LRes.st' (fileStep cfg W dn P fuel acc k)).side.curPass = P.key := by
  unfold fileStep
  cases acc with
  | inr e => exact h
  | inl xr =>
    obtain ⟨x, rid⟩ := xr
    simp only [LRes.st'] at h
    simp only
    split
    · exact h
    · split
      · -- replay: one non-commit event appended
        simp only [LRes.st']
        refine ⟨fun p => ?_, h.2⟩
        have := h.1 p
        unfold acceptedOf at this ⊢
        simp only [commits_append]
        simpa [commits] using this
      · have hy : WInv (LRes.st' (newLoop cfg W dn P k fuel rid x (x.disk.getD k default))) ∧
            (LRes.st' (newLoop cfg W dn P k fuel rid x (x.disk.getD k default))).side.curPass = P.key := by
          unfold newLoop
          have hr : WInv (fmtStep W P x k (x.disk.getD k default)).1 ∧ (fmtStep W P x k (x.disk.getD k default)).1.side.curPass = P.key := by
            unfold WInv; rw [fmtStep_side]; exact h
          split
          · exact hr
          · split
            · exact hr
            · exact fileLoop_worked cfg W dn P k _ fuel rid _ 0 _ hr.1 hr.2
        generalize newLoop cfg W dn P k fuel rid x (x.disk.getD k default) = r at hy ⊢
        rcases r with ⟨y, rid'⟩ | ⟨e, y⟩
        · simp only [LRes.st'] at hy
          simp only
          split <;> simp only [LRes.st'] <;> exact hy
        · exact hy

theorem runPass_worked (cfg : Cfg) (W : World C) (dn : Sched) (P : PassI C σ) (order : List Nat) (fuel rid : Nat) (x : St C)
    (h : WInv x) : WInv (LRes.st' (runPass cfg W dn P order fuel rid x)) := by
  unfold runPass
  simp only
  have h0 : WInv ({ x with leftover := false, side := { x.side with curPass := P.key } } : St C) ∧
      ({ x with leftover := false, side := { x.side with curPass := P.key } } : St C).side.curPass = P.key := ⟨h, rfl⟩
  split
  · exact h0.1
  · generalize ({ x with leftover := false, side := { x.side with curPass := P.key } } : St C) = x0 at h0 ⊢
    have : ∀ (order : List Nat) (acc : LRes C), (WInv (LRes.st' acc) ∧ (LRes.st' acc).side.curPass = P.key) →
        (WInv (LRes.st' (order.foldl (fileStep cfg W dn P fuel) acc)) ∧
         (LRes.st' (order.foldl (fileStep cfg W dn P fuel) acc)).side.curPass = P.key) := by
      intro order
      induction order with
      | nil => intro acc h; exact h
      | cons k ks ih => intro acc h; exact ih _ (fileStep_worked cfg W dn P fuel acc k h)
    exact (this order (.inl (x0, rid)) h0).1

theorem runPasses_worked (cfg : Cfg) (W : World C) (dn : Sched) (orderOf : List C → List Nat) (fuel : Nat) :
    ∀ (ps : List (PassI C σ)) (acc : LRes C), WInv (LRes.st' acc) → WInv (LRes.st' (runPasses cfg W dn orderOf fuel ps acc)) := by
  intro ps
  induction ps with
  | nil => intro acc h; exact h
  | cons P ps ih =>
    intro acc h
    simp only [runPasses]
    cases acc with
    | inr e => exact h
    | inl xr => obtain ⟨x, rid⟩ := xr; exact ih _ (runPass_worked cfg W dn P _ fuel rid x h)

theorem mainLoop_worked (cfg : Cfg) (W : World C) (dn : Sched) (orderOf : List C → List Nat) (fuel : Nat) (ps : List (PassI C σ)) :
    ∀ (rounds : Nat) (acc : LRes C), WInv (LRes.st' acc) → WInv (LRes.st' (mainLoop cfg W dn orderOf fuel ps rounds acc)) := by
  intro rounds
  induction rounds with
  | zero => intro acc h; exact h
  | succ n ih =>
    intro acc h
    simp only [mainLoop]
    cases acc with
    | inr e => exact h
    | inl xr =>
      obtain ⟨x, rid⟩ := xr
      simp only
      split
      · exact h
      · have h2 := runPasses_worked cfg W dn orderOf fuel ps (.inl (x, rid)) h
        generalize runPasses cfg W dn orderOf fuel ps (.inl (x, rid)) = r at h2 ⊢
        rcases r with ⟨y, rid'⟩ | ⟨e, y⟩
        · simp only
          split
          · exact h2
          · exact ih _ h2
        · exact h2

/-- C20 `worked_eq`: at the end of every reduction (any outcome, schedule, faults), for every pass "worked" equals the
    number of accepted transformations logged for that pass -/
theorem reduce_worked_eq (cfg : Cfg) (W : World C) (dn : Sched) (orderOf : List C → List Nat) (fuel : Nat)
    (first main last : List (PassI C σ)) (x : St C) (h : WInv x) (p : Nat) :
    (LRes.st' (reduce cfg W dn orderOf fuel first main last x)).side.worked p =
    acceptedOf p (LRes.st' (reduce cfg W dn orderOf fuel first main last x)).side.log := by
  unfold reduce
  exact runPasses_worked cfg W dn orderOf fuel last _
    (mainLoop_worked cfg W dn orderOf fuel main _ _ (runPasses_worked cfg W dn orderOf fuel first (.inl (x, 0)) h)) p

end Cvise.D
