import Cvise.Model.MatcherRx
import Cvise.Proofs.RxBounds
import Cvise.Proofs.MatcherSearch
/-! the `Rx`-backed oracle satisfies the contract the matcher theorems assume of regular-expression parts -/
namespace Cvise.M
open Cvise

theorem toArr_size (s : List Char) : (toArr s).size = s.length := by simp [toArr]

theorem rxSearchFrom_spec (r : Rx) (s : Array Nat) : ∀ (k p : Nat), s.size + 1 - p ≤ k →
    (∀ a e c, rxSearchFrom r s p = some (a, e, c) →
      p ≤ a ∧ rxMatchAt r s a = some (e, c) ∧ ∀ a', p ≤ a' → a' < a → rxMatchAt r s a' = none) ∧
    (rxSearchFrom r s p = none → ∀ a', p ≤ a' → a' ≤ s.size → rxMatchAt r s a' = none) := by
  intro k
  induction k with
  | zero =>
    intro p hk
    unfold rxSearchFrom
    have : p > s.size := by omega
    simp only [this, dite_true]
    exact ⟨(by intro a e c h; cases h), (by intro _ a' h1 h2; omega)⟩
  | succ k ih =>
    intro p hk
    unfold rxSearchFrom
    by_cases hp : p > s.size
    · simp only [hp, dite_true]
      exact ⟨(by intro a e c h; cases h), (by intro _ a' h1 h2; omega)⟩
    · simp only [hp, dite_false]
      cases hm : rxMatchAt r s p with
      | some m =>
        obtain ⟨e0, c0⟩ := m
        simp only
        refine ⟨?_, (by intro h; cases h)⟩
        intro a e c h
        cases h
        exact ⟨Nat.le_refl _, hm, by intro a' h1 h2; omega⟩
      | none =>
        simp only
        obtain ⟨i1, i2⟩ := ih (p + 1) (by omega)
        constructor
        · intro a e c h
          obtain ⟨j1, j2, j3⟩ := i1 a e c h
          refine ⟨by omega, j2, ?_⟩
          intro a' h1 h2
          by_cases hap : a' = p
          · subst hap; exact hm
          · exact j3 a' (by omega) h2
        · intro h a' h1 h2
          by_cases hap : a' = p
          · subst hap; exact hm
          · exact i2 h a' (by omega) h2

theorem rxMatchAt_bounds (r : Rx) (s : Array Nat) (p e : Nat) (c : Caps) (h : rxMatchAt r s p = some (e, c)) :
    p ≤ s.size ∧ p ≤ e ∧ e ≤ s.size := by
  unfold rxMatchAt at h
  split at h
  · cases h
  · rename_i hp
    have hmem : (e, c) ∈ ends s r p [] := List.mem_of_mem_head? h
    have := ends_bounds s r p [] (e, c) hmem
    simp at this
    omega

theorem rxOracle_contract (tbl : Array Rx) : RxContract (rxOracle tbl) where
  matchStart := by
    intro id s p m h
    unfold rxOracle at h
    split at h
    · cases h
    · rename_i r _
      simp only [Bool.false_eq_true, if_false] at h
      cases hm : rxMatchAt r (toArr s) p with
      | none => simp [hm] at h
      | some ec =>
        obtain ⟨e, c⟩ := ec
        simp [hm] at h
        subst h
        have := rxMatchAt_bounds r (toArr s) p e c hm
        rw [toArr_size] at this
        exact ⟨rfl, this.1, this.2.1⟩
  matchEnd := by
    intro id s p m h
    unfold rxOracle at h
    split at h
    · cases h
    · rename_i r _
      simp only [Bool.false_eq_true, if_false] at h
      cases hm : rxMatchAt r (toArr s) p with
      | none => simp [hm] at h
      | some ec =>
        obtain ⟨e, c⟩ := ec
        simp [hm] at h
        subst h
        have := rxMatchAt_bounds r (toArr s) p e c hm
        rw [toArr_size] at this
        exact this.2.2
  searchSome := by
    intro id s p m h
    unfold rxOracle at h ⊢
    split at h
    · cases h
    · rename_i r hr
      simp only [if_true] at h
      cases hs : rxSearchFrom r (toArr s) p with
      | none => simp [hs] at h
      | some aec =>
        obtain ⟨a, e, c⟩ := aec
        simp [hs] at h
        subst h
        obtain ⟨j1, j2, j3⟩ := (rxSearchFrom_spec r (toArr s) _ p (Nat.le_refl _)).1 a e c hs
        refine ⟨j1, ?_, ?_⟩
        · simp only [hr, Bool.false_eq_true, if_false, j2, Option.map]
        · intro a' h1 h2
          simp only [hr, Bool.false_eq_true, if_false, j3 a' h1 h2, Option.map]
  searchNone := by
    intro id s p h a h1 h2
    unfold rxOracle at h ⊢
    split at h
    · rename_i hr; simp only [hr]
    · rename_i r hr
      simp only [if_true] at h
      cases hs : rxSearchFrom r (toArr s) p with
      | some aec => simp [hs] at h
      | none =>
        have := (rxSearchFrom_spec r (toArr s) _ p (Nat.le_refl _)).2 hs a h1 (by rw [toArr_size]; exact h2)
        simp only [hr, Bool.false_eq_true, if_false, this, Option.map]

end Cvise.M
