import Cvise.Proofs.PassesTerm
import Cvise.Proofs.PassesC07
import Cvise.Proofs.RxContract
import Cvise.Props.C12
/-! C03 for `balanced`: under every accept/reject history the pass proposes at most `2·|s| + 2` candidates.
    Measure: `2·|s| + 1 − start of the current match`; `advance` moves the start to the right inside the same text,
    an accepted candidate is strictly shorter and the search resumes at or after the old start. -/
namespace Cvise.P
open Cvise Cvise.M Cvise.D

/-- `drive_bound` with an invariant on the reachable (text, cursor) pairs -/
theorem drive_bound_inv {σ : Type} (P : TextPass σ) (I : Text → σ → Prop) (μ : Text → σ → Nat)
    (I1 : ∀ s st st', I s st → P.advance s st = some st' → I s st')
    (I2 : ∀ s st s2 st2 st', I s st → P.transform s st = (.ok, s2, st2) → P.aos s2 st2 = some st' → I s2 st')
    (H1 : ∀ s st st', I s st → P.advance s st = some st' → μ s st' < μ s st)
    (H2 : ∀ s st s2 st2 st', I s st → P.transform s st = (.ok, s2, st2) → P.aos s2 st2 = some st' → μ s2 st' < μ s st) :
    ∀ (hist : List Bool) (s : Text) (st : σ) (acc : List (PR × Text)), I s st →
      (runHistory P hist s (some st) acc).1.length ≤ acc.length + μ s st + 1 := by
  intro hist
  induction hist with
  | nil => intro s st acc _; simp only [runHistory]; omega
  | cons a hs ih =>
    intro s st acc hI
    rcases htr : P.transform s st with ⟨pr, s2, st2⟩
    rw [runHistory_cons P a hs s st acc pr s2 st2 htr]
    · split
      · simp only [List.length_append, List.length_singleton]; omega
      · split
        · rename_i hacc
          cases haos : P.aos s2 st2 with
          | none => cases hs <;> simp [runHistory] <;> omega
          | some st' =>
            have hpr : pr = .ok := hacc.2
            subst hpr
            have := H2 s st s2 st2 st' hI htr haos
            have := ih s2 st' (acc ++ [(.ok, s2)]) (I2 s st s2 st2 st' hI htr haos)
            simp only [List.length_append, List.length_singleton] at this
            omega
        · cases hadv : P.advance s st with
          | none => cases hs <;> simp [runHistory] <;> omega
          | some st' =>
            have := H1 s st st' hI hadv
            have := ih s st' (acc ++ [(pr, s2)]) (I1 s st st' hI hadv)
            simp only [List.length_append, List.length_singleton] at this
            omega

/-- a balanced group spans at least the two delimiters and lies inside the text -/
theorem bal_span (o c : Char) (s : Text) (a b : Nat) (h : Bal o c s a b) : a + 2 ≤ b ∧ b ≤ s.length := by
  obtain ⟨h1, _, h3, h4, h5, h6⟩ := h
  have hk : b - (a + 1) ≠ 0 := by
    intro h0
    rw [h0] at h5
    simp [depth] at h5
  simp only [List.length_drop] at h4
  omega

/-- what `find` returns: a span at or after `pos`, at least two characters wide, inside the text -/
theorem balFind_span (cfg : BalCfg) (s : Text) (pos : Int) (st : Span) (h : balFind cfg s pos = some st) :
    pos ≤ st.1 ∧ st.1 + 2 ≤ st.2 ∧ st.2 ≤ s.length := by
  unfold balFind find at h
  simp only [Option.map_eq_some_iff] at h
  obtain ⟨⟨⟨a0, e0⟩, sp⟩, hs, heq⟩ := h
  simp only at heq
  subst heq
  obtain ⟨_, j1, j2, _⟩ := C12.search_leftmost_engine Gen.rxTable _ s pos a0 e0 sp hs
  refine ⟨j1, ?_⟩
  cases hp : cfg.pre with
  | none =>
    rw [hp] at j2
    cases j2 with
    | cons h1 h2 =>
      cases h2
      simp only [PatSpec] at h1
      have := bal_span cfg.o cfg.c s _ _ h1.2
      rename_i m
      have hm : m.1 = a0 := h1.1
      simp only at this ⊢
      omega
  | some id =>
    rw [hp] at j2
    cases j2 with
    | cons h1 h2 =>
      cases h2 with
      | cons h3 h4 =>
        cases h4
        simp only [PatSpec] at h1 h3
        rename_i m m2
        have c1 := (rxOracle_contract Gen.rxTable).matchStart id s a0 m h1
        have := bal_span cfg.o cfg.c s _ _ h3.2
        have hm : m2.1 = m.2 := h3.1
        simp only at this ⊢
        omega

/-- a recipe that can only shrink the text when applied to a span of at least two characters -/
def shapeShrinks (r : Recipe) : Bool :=
  match balShape r with
  | some (k, c, j) => decide (0 ≤ k ∧ j ≤ 0 ∧ k + c.length - j ≤ 2 ∧ (c.length = 0 ∨ k + c.length - j < 2))
  | none => onlyShape r

/-- every generated balanced recipe is of that kind (finite table, regenerated) -/
theorem balanced_recipes_shrink : Gen.balancedCfg.all (fun x => shapeShrinks x.2.2.2.2) = true := by decide +kernel

theorem onlyShape_eval (r : Recipe) (h : onlyShape r = true) (s : Text) (a b : Nat) :
    r.eval s [a, b] = s.take a ++ pySlice s (a + 1) (b - 1) ++ s.drop b := by
  unfold onlyShape at h
  split at h
  · simp [Recipe.eval, Piece.eval, Bound.eval, pySlice_zero, pySlice_len]
    congr 2
    omega
  · cases h

theorem shape_len (r : Recipe) (h : shapeShrinks r = true) (s : Text) (a e : Nat) (h1 : a + 2 ≤ e) (h2 : e ≤ s.length) :
    (r.eval s [a, e]).length < s.length ∨ r.eval s [a, e] = s := by
  unfold shapeShrinks at h
  cases hb : balShape r with
  | some kcj =>
    obtain ⟨k, c, j⟩ := kcj
    rw [hb] at h
    simp only [decide_eq_true_eq] at h
    obtain ⟨hk, hj, hsum, hstrict⟩ := h
    rw [balShape_eval r k j c hb s a e]
    have hA : ((a : Int) + k).toNat ≤ s.length := by omega
    have hE : ((e : Int) + j).toNat ≤ s.length := by omega
    have hAE : ((a : Int) + k).toNat + c.length ≤ ((e : Int) + j).toNat := by omega
    simp only [List.length_append, List.length_take, List.length_drop, String.length_toList]
    rcases hstrict with hc0 | hlt
    · by_cases heq : ((a : Int) + k).toNat = ((e : Int) + j).toNat
      · right
        have : c.toList = [] := by
          have : c.toList.length = 0 := by simpa using hc0
          exact List.eq_nil_of_length_eq_zero this
        rw [this, heq, List.append_nil, List.take_append_drop]
      · left; omega
    · left; omega
  | none =>
    rw [hb] at h
    simp only at h
    rw [onlyShape_eval r h s a e]
    left
    simp only [List.length_append, List.length_take, List.length_drop, pySlice]
    omega

def BalI (s : Text) (st : Span) : Prop := st.1 + 2 ≤ st.2 ∧ st.2 ≤ s.length

theorem balLoop_ok_spec (cfg : BalCfg) (s : Text) : ∀ (fuel : Nat) (st : Span) (out : Text) (st' : Span), BalI s st →
    balTransformLoop cfg s fuel st = (.ok, out, st') →
    st.1 ≤ st'.1 ∧ BalI s st' ∧ out = cfg.recipe.eval s [st'.1, st'.2] ∧ out ≠ s := by
  intro fuel
  induction fuel with
  | zero => intro st out st' _ h; simp [balTransformLoop] at h
  | succ f ih =>
    intro st out st' hI h
    simp only [balTransformLoop] at h
    split at h
    · rename_i hne
      cases h
      exact ⟨Nat.le_refl _, hI, rfl, hne⟩
    · split at h
      · simp at h
      · rename_i st1 hf
        have sp := balFind_span cfg s _ st1 hf
        have := ih st1 out st' ⟨sp.2.1, sp.2.2⟩ h
        refine ⟨?_, this.2⟩
        have := this.1
        omega

/-- balanced: at most `2·|s| + 2` candidates under every accept/reject history -/
theorem balanced_bound (cfg : BalCfg) (hsh : shapeShrinks cfg.recipe = true) (hist : List Bool) (s : Text) (st : Span)
    (hnew : (balanced cfg).new s = some st) :
    (runHistory (balanced cfg) hist s (some st) []).1.length ≤ 2 * s.length + 2 := by
  have hI0 : BalI s st := by
    have := balFind_span cfg s 0 st hnew
    exact ⟨this.2.1, this.2.2⟩
  have key := drive_bound_inv (balanced cfg) BalI (fun s st => 2 * s.length + 1 - st.1)
    (by
      intro s st st' _ h
      have := balFind_span cfg s _ st' h
      exact ⟨this.2.1, this.2.2⟩)
    (by
      intro s st s2 st2 st' _ _ h
      have := balFind_span cfg s2 _ st' h
      exact ⟨this.2.1, this.2.2⟩)
    (by
      intro s st st' hI h
      have := balFind_span cfg s _ st' h
      unfold BalI at hI
      show 2 * _ + 1 - _ < 2 * _ + 1 - _
      omega)
    (by
      intro s st s2 st2 st' hI htr h
      have sp := balFind_span cfg s2 _ st' h
      obtain ⟨l1, l2, l3, l4⟩ := balLoop_ok_spec cfg s _ st s2 st2 hI htr
      have hlen : s2.length < s.length := by
        rcases shape_len cfg.recipe hsh s st2.1 st2.2 l2.1 l2.2 with h' | h'
        · rw [l3]; exact h'
        · exact absurd (l3.trans h') l4
      unfold BalI at hI
      show 2 * _ + 1 - _ < 2 * _ + 1 - _
      omega)
    hist s st [] hI0
  simp only [List.length_nil] at key
  have : 2 * s.length + 1 - st.1 ≤ 2 * s.length + 1 := Nat.sub_le _ _
  omega

/-- … for every shipped argument -/
theorem balanced_bound_shipped (arg : String) (cfg : BalCfg) (hc : balCfg arg = some cfg) (hist : List Bool) (s : Text) (st : Span)
    (hnew : (balanced cfg).new s = some st) :
    (runHistory (balanced cfg) hist s (some st) []).1.length ≤ 2 * s.length + 2 := by
  apply balanced_bound cfg _ hist s st hnew
  unfold balCfg at hc
  simp only [Option.map_eq_some_iff] at hc
  obtain ⟨⟨a, o, c, pre, r⟩, hf, heq⟩ := hc
  have hm := List.mem_of_find?_eq_some hf
  have := List.all_eq_true.mp balanced_recipes_shrink _ hm
  subst heq
  exact this

end Cvise.P
