import Cvise.Proofs.PassesC07
/-! line-oriented passes: `readlines` splits without loss, and removing lines yields a proper subsequence -/
namespace Cvise.P
open Cvise Cvise.M Cvise.D

theorem go_flatten : ∀ (s cur : Text) (acc : List Text),
    (splitLines.go s cur acc).flatten = acc.reverse.flatten ++ cur.reverse ++ s := by
  intro s
  induction s with
  | nil =>
    intro cur acc
    simp only [splitLines.go]
    split
    · rename_i h
      have : cur = [] := by simpa using h
      simp [this]
    · simp [List.flatten_append]
  | cons c cs ih =>
    intro cur acc
    simp only [splitLines.go]
    split
    · rw [ih]; simp [List.flatten_append]
    · rw [ih]; simp

/-- `''.join(f.readlines()) == f.read()` -/
theorem splitLines_flatten (s : Text) : (splitLines s).flatten = s := by
  cases s with
  | nil => rfl
  | cons c cs => simp [splitLines, go_flatten]

theorem go_nonempty : ∀ (s cur : Text) (acc : List Text), (∀ l ∈ acc, l ≠ []) →
    ∀ l ∈ splitLines.go s cur acc, l ≠ [] := by
  intro s
  induction s with
  | nil =>
    intro cur acc hacc l hl
    simp only [splitLines.go] at hl
    split at hl
    · exact hacc l (by simpa using hl)
    · rename_i hc
      simp only [List.reverse_cons, List.reverse_reverse, List.mem_append, List.mem_reverse, List.mem_singleton] at hl
      rcases hl with hl | hl
      · exact hacc l hl
      · subst hl; simpa using hc
  | cons c cs ih =>
    intro cur acc hacc l hl
    simp only [splitLines.go] at hl
    split at hl
    · apply ih [] (_ :: acc) _ l hl
      intro x hx
      simp only [List.mem_cons] at hx
      rcases hx with hx | hx
      · subst hx; simp
      · exact hacc x hx
    · exact ih _ acc hacc l hl

/-- every line `readlines` returns is non-empty -/
theorem splitLines_nonempty (s : Text) : ∀ l ∈ splitLines s, l ≠ [] := by
  cases s with
  | nil => intro l hl; simp [splitLines] at hl
  | cons c cs => intro l hl; exact go_nonempty _ [] [] (by simp) l (by simpa [splitLines] using hl)

theorem flatten_sublist_of_sublist {α : Type} : ∀ {a b : List (List α)}, a.Sublist b → a.flatten.Sublist b.flatten := by
  intro a b h
  induction h with
  | slnil => exact List.Sublist.refl _
  | cons x _ ih => simp only [List.flatten_cons]; exact ih.trans (List.sublist_append_right _ _)
  | cons_cons x _ ih => simp only [List.flatten_cons]; exact List.Sublist.append (List.Sublist.refl _) ih

theorem flatten_length_lt {α : Type} : ∀ {a b : List (List α)}, a.Sublist b → (∀ l ∈ b, l ≠ []) → a.length < b.length →
    a.flatten.length < b.flatten.length := by
  intro a b h
  induction h with
  | slnil => intro _ hl; simp at hl
  | cons x hs ih =>
    rename_i a' b'
    intro hne _
    have hx : x ≠ [] := hne x List.mem_cons_self
    have : 0 < x.length := List.length_pos_iff.mpr hx
    have := (flatten_sublist_of_sublist hs).length_le
    simp only [List.flatten_cons, List.length_append]
    omega
  | cons_cons x hs ih =>
    intro hne hl
    simp only [List.length_cons, Nat.add_lt_add_iff_right] at hl
    have := ih (fun l hl' => hne l (List.mem_cons_of_mem _ hl')) hl
    simp only [List.flatten_cons, List.length_append]
    omega

/-- removing whole lines: the result is a proper subsequence of the file -/
theorem lines_removed (s : Text) (kept : List Text) (hs : kept.Sublist (splitLines s)) (hl : kept.length < (splitLines s).length) :
    kept.flatten.Sublist s ∧ kept.flatten ≠ s := by
  have h1 := flatten_sublist_of_sublist hs
  rw [splitLines_flatten] at h1
  refine ⟨h1, ?_⟩
  intro heq
  have := flatten_length_lt hs (splitLines_nonempty s) hl
  rw [splitLines_flatten, heq] at this
  omega

/-- LinesPass: a candidate is the file minus a non-empty run of whole lines -/
theorem lines_candidate (s : Text) (st : BS) (h : st.Inv) (hn : st.instances = (splitLines s).length) :
    let out := (linesPass.transform s st).2.1
    out.Sublist s ∧ out ≠ s := by
  simp only [linesPass]
  apply lines_removed
  · unfold cut
    conv => rhs; rw [← List.take_append_drop st.index (splitLines s)]
    apply List.Sublist.append_left
    have : st.index ≤ st.end_ := by simp [BS.end_]; have := h.1; omega
    have e : (splitLines s).drop st.end_ = ((splitLines s).drop st.index).drop (st.end_ - st.index) := by
      rw [List.drop_drop]; congr 1; omega
    rw [e]; exact List.drop_sublist _ _
  · have := cut_length (splitLines s) st.index st.end_ (by simp [BS.end_]; have := h.1; omega) (by simp [BS.end_]; omega)
    rw [this]
    have h1 := h.1; have h2 := h.2
    simp [BS.end_]; omega

/-- BlankPass: an OK candidate is the file minus at least one whole line -/
theorem blank_candidate (s : Text) (id : Nat) (out : Text) (h : blankOne s id = some out) : out.Sublist s ∧ out ≠ s := by
  unfold blankOne at h
  simp only at h
  split at h
  · cases h
  · rename_i hne
    cases h
    apply lines_removed
    · exact List.filter_sublist
    · have := List.length_filter_le (fun l => !lineMatches id l) (splitLines s)
      omega

theorem removeNth_sublist (id : Nat) : ∀ (ls : List Text) (n : Nat) (r : List Text), removeNth id ls n = some r →
    r.Sublist ls ∧ r.length + 1 = ls.length := by
  intro ls
  induction ls with
  | nil => intro n r h; simp [removeNth] at h
  | cons l ls ih =>
    intro n r h
    simp only [removeNth] at h
    split at h
    · split at h
      · cases h; exact ⟨List.sublist_cons_self _ _, rfl⟩
      · simp only [Option.map_eq_some_iff] at h
        obtain ⟨r', hr', rfl⟩ := h
        obtain ⟨h1, h2⟩ := ih _ _ hr'
        exact ⟨List.Sublist.cons_cons _ h1, by simp; omega⟩
    · simp only [Option.map_eq_some_iff] at h
      obtain ⟨r', hr', rfl⟩ := h
      obtain ⟨h1, h2⟩ := ih _ _ hr'
      exact ⟨List.Sublist.cons_cons _ h1, by simp; omega⟩

/-- IncludesPass: an OK candidate is the file minus exactly one whole line -/
theorem includes_candidate (s : Text) (st : Nat) (out : Text) (st' : Nat)
    (h : includes.transform s st = (.ok, out, st')) : out.Sublist s ∧ out ≠ s := by
  simp only [includes] at h
  split at h
  · simp at h
  · split at h
    · rename_i ls hls
      cases h
      obtain ⟨h1, h2⟩ := removeNth_sublist _ _ _ _ hls
      exact lines_removed s ls h1 (by omega)
    · simp at h

end Cvise.P

namespace Cvise.P
open Cvise Cvise.M

/-- what `dropMarkers` keeps, for any predicate `m` on lines in place of `lineSearches id`: a sublist; every line that is not
    a marker stays, in order; exactly the markers whose running index is in `[lo, hi)` are gone -/
theorem dropMarkers_spec (id lo hi : Nat) : ∀ (ls : List Text) (i : Nat),
    (dropMarkers id lo hi ls i).Sublist ls ∧
    (dropMarkers id lo hi ls i).filter (fun l => !lineSearches id l) = ls.filter (fun l => !lineSearches id l) ∧
    (dropMarkers id lo hi ls i).length + (min (i + (ls.filter (lineSearches id)).length) hi - max i lo) = ls.length := by
  intro ls
  induction ls with
  | nil => intro i; simp [dropMarkers]; omega
  | cons l rest ih =>
    intro i
    by_cases hm : lineSearches id l = true
    · obtain ⟨h1, h2, h3⟩ := ih (i + 1)
      simp only [dropMarkers, hm, if_true, List.filter_cons, Bool.not_true, Bool.false_eq_true, if_false, List.length_cons]
      by_cases hin : i < lo ∨ i ≥ hi
      · simp only [hin, if_true, List.singleton_append, List.length_cons]
        refine ⟨h1.cons_cons l, ?_, ?_⟩
        · simp only [List.filter_cons, hm, Bool.not_true, Bool.false_eq_true, if_false]; exact h2
        · omega
      · simp only [hin, if_false, List.nil_append]
        refine ⟨h1.cons l, h2, ?_⟩
        omega
    · have hm' : lineSearches id l = false := by simpa using hm
      obtain ⟨h1, h2, h3⟩ := ih i
      simp only [dropMarkers, hm', Bool.false_eq_true, if_false, List.filter_cons, Bool.not_false, if_true, List.length_cons]
      refine ⟨h1.cons_cons l, by rw [h2], ?_⟩
      omega

/-- LineMarkersPass: for a well-formed cursor over the markers of the file, a candidate is the file minus exactly
    `end − index ≥ 1` whole lines, each of them a line the marker pattern matches; every other line stays, in order -/
theorem line_markers_candidate (s : Text) (st : BS) (h : st.Inv) (hn : st.instances = markerCount Gen.lineMarkersRx s) :
    let kept := dropMarkers Gen.lineMarkersRx st.index st.end_ (splitLines s) 0
    let out := (lineMarkers.transform s st).2.1
    out = kept.flatten ∧ out.Sublist s ∧ out ≠ s ∧
    kept.filter (fun l => !lineSearches Gen.lineMarkersRx l) = (splitLines s).filter (fun l => !lineSearches Gen.lineMarkersRx l) ∧
    kept.length + (st.end_ - st.index) = (splitLines s).length := by
  obtain ⟨h1, h2, h3⟩ := dropMarkers_spec Gen.lineMarkersRx st.index st.end_ (splitLines s) 0
  have hi := h.1; have hc := h.2
  unfold markerCount at hn
  have hend : st.end_ ≤ ((splitLines s).filter (lineSearches Gen.lineMarkersRx)).length := by
    simp only [BS.end_]; omega
  have hlt : st.index < st.end_ := by simp only [BS.end_]; omega
  have hlen : (dropMarkers Gen.lineMarkersRx st.index st.end_ (splitLines s) 0).length + (st.end_ - st.index) = (splitLines s).length := by
    have : min (0 + ((splitLines s).filter (lineSearches Gen.lineMarkersRx)).length) st.end_ - max 0 st.index = st.end_ - st.index := by
      omega
    omega
  have := lines_removed s _ h1 (by omega)
  exact ⟨rfl, this.1, this.2, h2, hlen⟩

end Cvise.P
