import Cvise.Proofs.MatcherScan
/-! C12: `matchAt`, `balSearch`, `matchPat`, `matchSeq`, `searchLoop` against their declarative specifications -/
namespace Cvise.M

theorem matchAt_iff (o c : Char) (s : List Char) (a : Nat) (m : Span) :
    matchAt o c s a = some m ↔ m.1 = a ∧ Bal o c s a m.2 := by
  unfold matchAt Bal
  by_cases h : a < s.length
  · rw [List.drop_eq_getElem_cons h]
    simp only
    have hget : s[a]? = some s[a] := List.getElem?_eq_getElem h
    by_cases hx : s[a] = o
    · simp only [hx, if_true]
      constructor
      · intro hm
        cases hs : scan o c (s.drop (a+1)) 1 with
        | none => simp [hs] at hm
        | some k =>
          simp [hs] at hm
          subst hm
          refine ⟨rfl, h, by rw [hget, hx], by simp, ?_⟩
          have : a + 1 + k - (a + 1) = k := by omega
          simp only [this]
          exact (scan_iff o c _ 1 k (by omega)).mp hs
      · rintro ⟨h1, _, _, h3, h4⟩
        have := (scan_iff o c _ 1 _ (by omega)).mpr h4
        rw [this]
        simp
        obtain ⟨m1, m2⟩ := m
        simp at h1 h3 ⊢
        omega
    · simp only [hx, if_false]
      constructor
      · intro hm; cases hm
      · rintro ⟨_, _, h2, _⟩
        rw [hget] at h2
        exact absurd (Option.some.inj h2) hx
  · have : s.drop a = [] := List.drop_eq_nil_of_le (by omega)
    rw [this]
    simp only
    constructor
    · intro hm; cases hm
    · rintro ⟨_, h1, _⟩; exact absurd h1 h

/-- search mode of a balanced pattern: sound, leftmost, and `none` only if no balanced group starts at or after `p` -/
theorem balSearch_spec (o c : Char) (s : List Char) : ∀ (k p : Nat), s.length - p = k →
    (∀ m, balSearch o c s p = some m → p ≤ m.1 ∧ Bal o c s m.1 m.2 ∧ ∀ a, p ≤ a → a < m.1 → ∀ b, ¬ Bal o c s a b) ∧
    (balSearch o c s p = none → ∀ a, p ≤ a → ∀ b, ¬ Bal o c s a b) := by
  intro k
  induction k with
  | zero =>
    intro p hk
    unfold balSearch
    have : ¬ p < s.length := by omega
    simp only [this, dite_false]
    refine ⟨(by intro m hm; cases hm), ?_⟩
    intro _ a ha b hb
    have := hb.1; omega
  | succ k ih =>
    intro p hk
    unfold balSearch
    have hp : p < s.length := by omega
    simp only [hp, dite_true]
    cases hm : matchAt o c s p with
    | some m0 =>
      simp only
      have := (matchAt_iff o c s p m0).mp hm
      refine ⟨?_, (by intro h; cases h)⟩
      intro m hmm
      cases hmm
      refine ⟨by omega, by rw [this.1]; exact this.2, ?_⟩
      intro a h1 h2; omega
    | none =>
      simp only
      have hnone : ∀ b, ¬ Bal o c s p b := by
        intro b hb
        have := (matchAt_iff o c s p (p, b)).mpr ⟨rfl, hb⟩
        rw [hm] at this; cases this
      obtain ⟨i1, i2⟩ := ih (p+1) (by omega)
      constructor
      · intro m hmm
        obtain ⟨j1, j2, j3⟩ := i1 m hmm
        refine ⟨by omega, j2, ?_⟩
        intro a h1 h2 b
        by_cases hap : a = p
        · subst hap; exact hnone b
        · exact j3 a (by omega) h2 b
      · intro hn a h1 b
        by_cases hap : a = p
        · subst hap; exact hnone b
        · exact i2 hn a (by omega) b

/-- what the code takes a regular-expression part to be (true of Python's `re`; true of the `Rx` model by construction) -/
structure RxContract (rx : RxO) : Prop where
  matchStart : ∀ id s p m, rx id s p false = some m → m.1 = p ∧ p ≤ s.length ∧ m.1 ≤ m.2
  matchEnd : ∀ id s p m, rx id s p false = some m → m.2 ≤ s.length
  searchSome : ∀ id s p m, rx id s p true = some m →
    p ≤ m.1 ∧ rx id s m.1 false = some m ∧ ∀ a, p ≤ a → a < m.1 → rx id s a false = none
  searchNone : ∀ id s p, rx id s p true = none → ∀ a, p ≤ a → a ≤ s.length → rx id s a false = none

/-- declarative meaning of "part `p` matches at `a` with span `m`" -/
def PatSpec (rx : RxO) : Pat → List Char → Nat → Span → Prop
  | .rx id, s, a, m => rx id s a false = some m
  | .bal o c, s, a, m => m.1 = a ∧ Bal o c s a m.2
  | .or l r, s, a, m => PatSpec rx l s a m ∨ ((∀ m', ¬ PatSpec rx l s a m') ∧ PatSpec rx r s a m)

theorem patSpec_start (rx : RxO) (hc : RxContract rx) : ∀ (p : Pat) (s : List Char) (a : Nat) (m : Span),
    PatSpec rx p s a m → m.1 = a := by
  intro p
  induction p with
  | rx id => intro s a m h; exact (hc.matchStart id s a m h).1
  | bal o c => intro s a m h; exact h.1
  | or l r ihl ihr =>
    intro s a m h
    rcases h with h | ⟨_, h⟩
    · exact ihl s a m h
    · exact ihr s a m h

theorem patSpec_le (rx : RxO) (hc : RxContract rx) : ∀ (p : Pat) (s : List Char) (a : Nat) (m : Span),
    PatSpec rx p s a m → a ≤ s.length := by
  intro p
  induction p with
  | rx id => intro s a m h; exact (hc.matchStart id s a m h).2.1
  | bal o c => intro s a m h; have := h.2.1; omega
  | or l r ihl ihr =>
    intro s a m h
    rcases h with h | ⟨_, h⟩
    · exact ihl s a m h
    · exact ihr s a m h

theorem balMatch_false_iff (o c : Char) (s : List Char) (a : Nat) (m : Span) :
    balMatch o c s a false = some m ↔ m.1 = a ∧ Bal o c s a m.2 := by
  unfold balMatch
  by_cases h : a ≥ s.length
  · simp only [h, if_true]
    constructor
    · intro hm; cases hm
    · rintro ⟨_, h1, _⟩; omega
  · simp only [h, if_false, Bool.false_eq_true]
    exact matchAt_iff o c s a m

/-- non-search matching of any part is exactly its declarative meaning -/
theorem matchPat_false_iff (rx : RxO) (hc : RxContract rx) : ∀ (p : Pat) (s : List Char) (a : Nat) (m : Span),
    matchPat rx p s a false = some m ↔ PatSpec rx p s a m := by
  intro p
  induction p with
  | rx id => intro s a m; rfl
  | bal o c => intro s a m; exact balMatch_false_iff o c s a m
  | or l r ihl ihr =>
    intro s a m
    simp only [matchPat, PatSpec]
    cases hl : matchPat rx l s a false with
    | none =>
      simp only [leftmost]
      have hnl : ∀ m', ¬ PatSpec rx l s a m' := by
        intro m' h; have := (ihl s a m').mpr h; rw [hl] at this; cases this
      constructor
      · intro h; right; exact ⟨hnl, (ihr s a m).mp h⟩
      · rintro (h | ⟨_, h⟩)
        · exact absurd h (hnl m)
        · exact (ihr s a m).mpr h
    | some ml =>
      have hsl := (ihl s a ml).mp hl
      have hl1 := patSpec_start rx hc l s a ml hsl
      cases hr : matchPat rx r s a false with
      | none =>
        simp only [leftmost]
        constructor
        · intro h; cases h; left; exact hsl
        · rintro (h | ⟨h, _⟩)
          · have := (ihl s a m).mpr h; rw [hl] at this; exact this
          · exact absurd hsl (h ml)
      | some mr =>
        have hr1 := patSpec_start rx hc r s a mr ((ihr s a mr).mp hr)
        simp only [leftmost]
        have : ¬ mr.1 < ml.1 := by omega
        simp only [this, if_false]
        constructor
        · intro h; cases h; left; exact hsl
        · rintro (h | ⟨h, _⟩)
          · have := (ihl s a m).mpr h; rw [hl] at this; exact this
          · exact absurd hsl (h ml)

/-- search-mode matching of any part: returns the leftmost position at or after `st` at which the part matches -/
theorem matchPat_true_spec (rx : RxO) (hc : RxContract rx) : ∀ (p : Pat) (s : List Char) (st : Nat),
    (∀ m, matchPat rx p s st true = some m →
        st ≤ m.1 ∧ PatSpec rx p s m.1 m ∧ ∀ a, st ≤ a → a < m.1 → ∀ m', ¬ PatSpec rx p s a m') ∧
    (matchPat rx p s st true = none → ∀ a, st ≤ a → a ≤ s.length → ∀ m', ¬ PatSpec rx p s a m') := by
  intro p
  induction p with
  | rx id =>
    intro s st
    simp only [matchPat, PatSpec]
    constructor
    · intro m h
      obtain ⟨h1, h2, h3⟩ := hc.searchSome id s st m h
      exact ⟨h1, h2, fun a ha hb m' hm' => by rw [h3 a ha hb] at hm'; cases hm'⟩
    · intro h a ha hb m' hm'
      rw [hc.searchNone id s st h a ha hb] at hm'; cases hm'
  | bal o c =>
    intro s st
    simp only [matchPat, PatSpec, balMatch]
    by_cases hlen : st ≥ s.length
    · simp only [hlen, if_true]
      refine ⟨(by intro m h; cases h), ?_⟩
      intro _ a ha hb m' hm'
      have := hm'.2.1; omega
    · simp only [hlen, if_false, if_true]
      obtain ⟨i1, i2⟩ := balSearch_spec o c s (s.length - st) st rfl
      constructor
      · intro m h
        obtain ⟨j1, j2, j3⟩ := i1 m h
        exact ⟨j1, ⟨trivial, j2⟩, fun a ha hb m' hm' => j3 a ha hb m'.2 hm'.2⟩
      · intro h a ha _ m' hm'
        exact i2 h a ha m'.2 hm'.2
  | or l r ihl ihr =>
    intro s st
    obtain ⟨l1, l2⟩ := ihl s st
    obtain ⟨r1, r2⟩ := ihr s st
    simp only [matchPat]
    cases hl : matchPat rx l s st true with
    | none =>
      have hnl := l2 hl
      cases hr : matchPat rx r s st true with
      | none =>
        simp only [leftmost]
        refine ⟨(by intro m h; cases h), ?_⟩
        intro _ a ha hb m' hm'
        rcases hm' with h | ⟨_, h⟩
        · exact hnl a ha hb m' h
        · exact r2 hr a ha hb m' h
      | some mr =>
        simp only [leftmost]
        refine ⟨?_, (by intro h; cases h)⟩
        intro m h; cases h
        obtain ⟨j1, j2, j3⟩ := r1 _ hr
        have hle := patSpec_le rx hc r s _ _ j2
        refine ⟨j1, Or.inr ⟨fun m' h => hnl _ j1 hle m' h, j2⟩, ?_⟩
        intro a ha hb m' hm'
        rcases hm' with h | ⟨_, h⟩
        · exact hnl a ha (by omega) m' h
        · exact j3 a ha hb m' h
    | some ml =>
      obtain ⟨k1, k2, k3⟩ := l1 _ hl
      have hlle := patSpec_le rx hc l s _ _ k2
      cases hr : matchPat rx r s st true with
      | none =>
        simp only [leftmost]
        refine ⟨?_, (by intro h; cases h)⟩
        intro m h; cases h
        refine ⟨k1, Or.inl k2, ?_⟩
        intro a ha hb m' hm'
        rcases hm' with h | ⟨_, h⟩
        · exact k3 a ha hb m' h
        · exact r2 hr a ha (by omega) m' h
      | some mr =>
        obtain ⟨j1, j2, j3⟩ := r1 _ hr
        simp only [leftmost]
        refine ⟨?_, (by intro h; split at h <;> cases h)⟩
        intro m h
        by_cases hlt : mr.1 < ml.1
        · simp only [hlt, if_true] at h; cases h
          refine ⟨j1, Or.inr ⟨fun m' h' => k3 _ j1 hlt m' h', j2⟩, ?_⟩
          intro a ha hb m' hm'
          rcases hm' with h' | ⟨_, h'⟩
          · exact k3 a ha (by omega) m' h'
          · exact j3 a ha hb m' h'
        · simp only [hlt, if_false] at h; cases h
          refine ⟨k1, Or.inl k2, ?_⟩
          intro a ha hb m' hm'
          rcases hm' with h' | ⟨_, h'⟩
          · exact k3 a ha hb m' h'
          · exact j3 a ha (by omega) m' h'

theorem patSpec_mono (rx : RxO) (hc : RxContract rx) : ∀ (p : Pat) (s : List Char) (a : Nat) (m : Span),
    PatSpec rx p s a m → m.1 ≤ m.2 := by
  intro p
  induction p with
  | rx id => intro s a m h; exact (hc.matchStart id s a m h).2.2
  | bal o c => intro s a m h; have := h.1; have := h.2.2.2.1; omega
  | or l r ihl ihr =>
    intro s a m h
    rcases h with h | ⟨_, h⟩
    · exact ihl s a m h
    · exact ihr s a m h

/-- declarative: the parts match back to back from `a` to `e`, each with the span its own matcher gives -/
inductive SeqMatch (rx : RxO) (s : List Char) : List Pat → Nat → Nat → List Span → Prop
  | nil (a : Nat) : SeqMatch rx s [] a a []
  | cons {p : Pat} {ps : List Pat} {a e : Nat} {m : Span} {sp : List Span} :
      PatSpec rx p s a m → SeqMatch rx s ps m.2 e sp → SeqMatch rx s (p :: ps) a e (m :: sp)

theorem matchSeq_iff (rx : RxO) (hc : RxContract rx) (s : List Char) : ∀ (parts : List Pat) (a e : Nat) (sp : List Span),
    matchSeq rx s parts a = some (e, sp) ↔ SeqMatch rx s parts a e sp := by
  intro parts
  induction parts with
  | nil =>
    intro a e sp
    simp only [matchSeq]
    constructor
    · intro h; cases h; exact SeqMatch.nil a
    · intro h; cases h; rfl
  | cons p ps ih =>
    intro a e sp
    simp only [matchSeq]
    cases hm : matchPat rx p s a false with
    | none =>
      simp only
      constructor
      · intro h; cases h
      · intro h
        cases h with
        | cons h1 _ => have := (matchPat_false_iff rx hc p s a _).mpr h1; rw [hm] at this; cases this
    | some m =>
      simp only
      have hps := (matchPat_false_iff rx hc p s a m).mp hm
      have h1 := patSpec_start rx hc p s a m hps
      have h2 := patSpec_mono rx hc p s a m hps
      have hpos : a + (m.2 - m.1) = m.2 := by omega
      rw [hpos]
      constructor
      · intro h
        cases hrest : matchSeq rx s ps m.2 with
        | none => simp [hrest] at h
        | some r =>
          obtain ⟨e', sp'⟩ := r
          simp [hrest] at h
          obtain ⟨he, hsp⟩ := h
          subst he; subst hsp
          exact SeqMatch.cons hps ((ih m.2 e' sp').mp hrest)
      · intro h
        cases h with
        | cons h1' h2' =>
          rename_i m' sp'
          have hm' := (matchPat_false_iff rx hc p s a m').mpr h1'
          rw [hm] at hm'
          cases hm'
          rw [(ih m.2 e sp').mpr h2']
          rfl

theorem seqMatch_head (rx : RxO) (s : List Char) (p : Pat) (ps : List Pat) (a e : Nat) (sp : List Span)
    (h : SeqMatch rx s (p :: ps) a e sp) : ∃ m, PatSpec rx p s a m := by
  cases h with
  | cons h1 _ => exact ⟨_, h1⟩

/-- `search(parts, s, pos, search=True)`: sound, leftmost, `none` only if no match starts in `[start, |s|)` -/
theorem searchLoop_true_spec (rx : RxO) (hc : RxContract rx) (first : Pat) (rest : List Pat) (s : List Char) :
    ∀ (k start : Nat), s.length - start ≤ k →
    (∀ a e sp, searchLoop rx (first :: rest) first s true start = some ((a, e), sp) →
        start ≤ a ∧ SeqMatch rx s (first :: rest) a e sp ∧
        ∀ a', start ≤ a' → a' < a → ∀ e' sp', ¬ SeqMatch rx s (first :: rest) a' e' sp') ∧
    (searchLoop rx (first :: rest) first s true start = none →
        ∀ a', start ≤ a' → a' < s.length → ∀ e' sp', ¬ SeqMatch rx s (first :: rest) a' e' sp') := by
  intro k
  induction k with
  | zero =>
    intro start hk
    unfold searchLoop
    have : ¬ start < s.length := by omega
    simp only [this, dite_false]
    exact ⟨(by intro a e sp h; cases h), (by intro _ a' h1 h2; omega)⟩
  | succ k ih =>
    intro start hk
    unfold searchLoop
    by_cases hlt : start < s.length
    · simp only [hlt, dite_true]
      obtain ⟨f1, f2⟩ := matchPat_true_spec rx hc first s start
      cases hm : matchPat rx first s start true with
      | none =>
        simp only
        refine ⟨(by intro a e sp h; cases h), ?_⟩
        intro _ a' h1 h2 e' sp' hs
        obtain ⟨m', hm'⟩ := seqMatch_head rx s first rest a' e' sp' hs
        exact f2 hm a' h1 (by omega) m' hm'
      | some m =>
        simp only
        obtain ⟨g1, g2, g3⟩ := f1 m hm
        have hnlt : ¬ m.1 < start := by omega
        simp only [hnlt, dite_false]
        have before : ∀ a', start ≤ a' → a' < m.1 → ∀ e' sp', ¬ SeqMatch rx s (first :: rest) a' e' sp' := by
          intro a' h1 h2 e' sp' hs
          obtain ⟨m', hm'⟩ := seqMatch_head rx s first rest a' e' sp' hs
          exact g3 a' h1 h2 m' hm'
        cases hseq : matchSeq rx s (first :: rest) m.1 with
        | some r =>
          obtain ⟨e0, sp0⟩ := r
          simp only
          refine ⟨?_, (by intro h; cases h)⟩
          intro a e sp h
          cases h
          exact ⟨g1, (matchSeq_iff rx hc s _ _ _ _).mp hseq, before⟩
        | none =>
          simp only
          have here : ∀ e' sp', ¬ SeqMatch rx s (first :: rest) m.1 e' sp' := by
            intro e' sp' hs
            have := (matchSeq_iff rx hc s _ _ _ _).mpr hs
            rw [hseq] at this; cases this
          obtain ⟨i1, i2⟩ := ih (m.1 + 1) (by omega)
          constructor
          · intro a e sp h
            obtain ⟨j1, j2, j3⟩ := i1 a e sp h
            refine ⟨by omega, j2, ?_⟩
            intro a' h1 h2 e' sp'
            by_cases hc1 : a' < m.1
            · exact before a' h1 hc1 e' sp'
            · by_cases hc2 : a' = m.1
              · subst hc2; exact here e' sp'
              · exact j3 a' (by omega) h2 e' sp'
          · intro h a' h1 h2 e' sp'
            by_cases hc1 : a' < m.1
            · exact before a' h1 hc1 e' sp'
            · by_cases hc2 : a' = m.1
              · subst hc2; exact here e' sp'
              · exact i2 h a' (by omega) h2 e' sp'
    · simp only [hlt, dite_false]
      exact ⟨(by intro a e sp h; cases h), (by intro _ a' h1 h2; omega)⟩

/-- `search(parts, s, pos, search=False)` (peep): the first part is only *matched*, position by position; the result is
    sound, and every skipped position is one where the first part matched but the sequence did not -/
theorem searchLoop_false_spec (rx : RxO) (hc : RxContract rx) (first : Pat) (rest : List Pat) (s : List Char) :
    ∀ (k start : Nat), s.length - start ≤ k →
    ∀ a e sp, searchLoop rx (first :: rest) first s false start = some ((a, e), sp) →
        start ≤ a ∧ SeqMatch rx s (first :: rest) a e sp ∧
        ∀ a', start ≤ a' → a' < a → (∃ m, PatSpec rx first s a' m) ∧ ∀ e' sp', ¬ SeqMatch rx s (first :: rest) a' e' sp' := by
  intro k
  induction k with
  | zero =>
    intro start hk a e sp h
    unfold searchLoop at h
    have : ¬ start < s.length := by omega
    simp only [this, dite_false] at h
    cases h
  | succ k ih =>
    intro start hk a e sp h
    unfold searchLoop at h
    by_cases hlt : start < s.length
    · simp only [hlt, dite_true] at h
      cases hm : matchPat rx first s start false with
      | none => simp only [hm] at h; cases h
      | some m =>
        simp only [hm] at h
        have hps := (matchPat_false_iff rx hc first s start m).mp hm
        have hst := patSpec_start rx hc first s start m hps
        have hnlt : ¬ m.1 < start := by omega
        simp only [hnlt, dite_false] at h
        cases hseq : matchSeq rx s (first :: rest) m.1 with
        | some r =>
          obtain ⟨e0, sp0⟩ := r
          simp only [hseq] at h
          cases h
          exact ⟨by omega, (matchSeq_iff rx hc s _ _ _ _).mp hseq, by intro a' h1 h2; omega⟩
        | none =>
          simp only [hseq] at h
          obtain ⟨j1, j2, j3⟩ := ih (m.1 + 1) (by omega) a e sp h
          refine ⟨by omega, j2, ?_⟩
          intro a' h1 h2
          by_cases hc2 : a' = start
          · subst hc2
            refine ⟨⟨m, hps⟩, ?_⟩
            intro e' sp' hs
            have := (matchSeq_iff rx hc s _ _ _ _).mpr hs
            rw [← hst, hseq] at this; cases this
          · exact j3 a' (by omega) h2
    · simp only [hlt, dite_false] at h
      cases h

end Cvise.M
