import Cvise.Proofs.DriverSim
import Cvise.Proofs.DriverFmt
import Cvise.Proofs.DriverLog
/-! C02 for whole runs: with well-behaved passes the files, the replay table and the control flow of `run_pass` /
    `reduce` do not depend on the schedule oracle. -/
namespace Cvise.D
variable {C σ : Type} [DecidableEq C] [Inhabited σ] [Inhabited C]

/-- a pass is well-behaved in a world: every round it can start is finite, all its candidates are tame, and STOP
    occurs only as a suffix of the enumeration -/
def GoodPass (cfg : Cfg) (W : World C) (P : PassI C σ) : Prop :=
  ∀ (disk : List C) (k : Nat) (s : σ) (rid : Nat),
    ∃ m, 0 < m ∧ m ≤ cfg.giveup + 1000 ∧
      (∀ t, (nthState P (disk.getD k default) s t).isSome = decide (t < m)) ∧
      (∀ i, i < m → Tame cfg (disk.getD k default) (envOf W P disk k (disk.getD k default) s rid i)) ∧
      (∀ i j, i < j → j < m → (envOf W P disk k (disk.getD k default) s rid i).pr = .stop →
        (envOf W P disk k (disk.getD k default) s rid j).pr = .stop)

/-- what the control flow depends on -/
def Sim (x y : St C) : Prop :=
  x.disk = y.disk ∧ x.cache = y.cache ∧ x.leftover = y.leftover ∧ commits x.side.log = commits y.side.log

def SimR (r r' : LRes C) : Prop :=
  match r, r' with
  | .inl (x, a), .inl (y, b) => Sim x y ∧ a = b
  | .inr (e, x), .inr (e', y) => e = e' ∧ Sim x y
  | _, _ => False

theorem SimR.refl_of (x y : St C) (a : Nat) (h : Sim x y) : SimR (.inl (x, a)) (.inl (y, a)) := ⟨h, rfl⟩

theorem commits_commit (g : Side C) (tested : List (Ev C)) (hT : commits tested = []) (p k : Nat) (c : C) :
    commits ((g.log ++ tested) ++ [Ev.commit p k c]) = commits g.log ++ [(p, k, c)] := by
  rw [commits_append, commits_append, hT]
  simp [commits]

theorem fileLoop_schedule_irrelevant (cfg : Cfg) (W : World C) (P : PassI C σ) (hg : GoodPass cfg W P)
    (d d' : Sched) (k startSize : Nat) :
    ∀ (fuel rid : Nat) (s : σ) (succ : Nat) (x y : St C), Sim x y →
      SimR (fileLoop cfg W d P k startSize fuel rid s succ x) (fileLoop cfg W d' P k startSize fuel rid s succ y) := by
  intro fuel
  induction fuel with
  | zero => intro rid s succ x y h; simp only [fileLoop]; exact ⟨h, rfl⟩
  | succ f ih =>
    intro rid s succ x y h
    obtain ⟨h1, h2, h3, h4⟩ := h
    simp only [fileLoop]
    rw [← h3]
    by_cases hl : x.leftover = true
    · simp only [hl, if_true]; exact ⟨rfl, h1, h2, h3, h4⟩
    · simp only [hl, Bool.false_eq_true, if_false]
      rw [← h1]
      obtain ⟨m, hm0, hmf, hmore, htame, hstop⟩ := hg x.disk k s rid
      have hmore' : (fun t => (nthState P (x.disk.getD k default) s t).isSome) = (fun t => decide (t < m)) := funext hmore
      simp only [hmore']
      obtain ⟨g1, e1⟩ := round_winner_eq_seq cfg W.size P.key (x.disk.getD k default)
        (envOf W P x.disk k (x.disk.getD k default) s rid) (d rid) m hm0 htame hstop (cfg.giveup + 1000) hmf x.side
      obtain ⟨g2, e2⟩ := round_winner_eq_seq cfg W.size P.key (x.disk.getD k default)
        (envOf W P x.disk k (x.disk.getD k default) s rid) (d' rid) m hm0 htame hstop (cfg.giveup + 1000) hmf y.side
      have c1 : commits g1.log = commits x.side.log := by
        have := roundLoop_commits cfg W.size P.key (x.disk.getD k default) (envOf W P x.disk k (x.disk.getD k default) s rid)
          (fun t => decide (t < m)) (d rid) (cfg.giveup + 1000) 0 [] x.side {}
        rw [e1] at this; exact this
      have c2 : commits g2.log = commits y.side.log := by
        have := roundLoop_commits cfg W.size P.key (x.disk.getD k default) (envOf W P x.disk k (x.disk.getD k default) s rid)
          (fun t => decide (t < m)) (d' rid) (cfg.giveup + 1000) 0 [] y.side {}
        rw [e2] at this; exact this
      have c12 : commits g1.log = commits g2.log := by rw [c1, c2, h4]
      rw [e1, e2]
      cases hw : R.seqFirst (fun i => vd cfg W.size (x.disk.getD k default) (envOf W P x.disk k (x.disk.getD k default) s rid i)) m 0 with
      | none => exact ⟨⟨by simp, by simp [h2], by simp [h3], by simpa using c12⟩, rfl⟩
      | some i =>
        simp only
        have key : ∀ (t : List (Ev C)) (c : Ev C) (p q : Nat) (cc : C), c = Ev.commit p q cc → commits t = [] →
            commits ((g1.log ++ t) ++ [c]) = commits ((g2.log ++ t) ++ [c]) := by
          intro t c p q cc hc ht
          subst hc
          rw [commits_commit g1 t ht, commits_commit g2 t ht, c12]
        have leaf : ∀ (lo : Bool), Sim
            ({ commitSt x k (envOf W P x.disk k (x.disk.getD k default) s rid i).cand
                { g1 with worked := bump g1.worked g1.curPass,
                          log := g1.log ++ (match (envOf W P x.disk k (x.disk.getD k default) s rid i).exit with
                            | some ex => [Ev.tested (x.disk.set k (envOf W P x.disk k (x.disk.getD k default) s rid i).cand) ex]
                            | none => []) ++ [Ev.commit P.key k (envOf W P x.disk k (x.disk.getD k default) s rid i).cand] } with leftover := lo } : St C)
            ({ commitSt y k (envOf W P x.disk k (x.disk.getD k default) s rid i).cand
                { g2 with worked := bump g2.worked g2.curPass,
                          log := g2.log ++ (match (envOf W P x.disk k (x.disk.getD k default) s rid i).exit with
                            | some ex => [Ev.tested (x.disk.set k (envOf W P x.disk k (x.disk.getD k default) s rid i).cand) ex]
                            | none => []) ++ [Ev.commit P.key k (envOf W P x.disk k (x.disk.getD k default) s rid i).cand] } with leftover := lo } : St C) := by
          intro lo
          refine ⟨by simp [commitSt, h1], by simp [commitSt, h2], by simp, ?_⟩
          simp only [commitSt]
          apply key _ _ P.key k _ rfl
          split <;> simp [commits]
        split
        · exact ⟨leaf _, rfl⟩
        · split
          · have := leaf x.leftover
            exact ⟨⟨this.1, this.2.1, by simp [commitSt, h3], this.2.2.2⟩, rfl⟩
          · split
            · have := leaf x.leftover
              exact ⟨⟨this.1, this.2.1, by simp [commitSt, h3], this.2.2.2⟩, rfl⟩
            · have := leaf x.leftover
              exact ih _ _ _ _ _ ⟨this.1, this.2.1, by simp [commitSt, h3], this.2.2.2⟩

theorem fileStep_schedule_irrelevant (cfg : Cfg) (W : World C) (P : PassI C σ) (hg : GoodPass cfg W P)
    (d d' : Sched) (fuel : Nat) (acc acc' : LRes C) (k : Nat) (h : SimR acc acc') :
    SimR (fileStep cfg W d P fuel acc k) (fileStep cfg W d' P fuel acc' k) := by
  unfold fileStep
  rcases acc with ⟨x, a⟩ | ⟨e, x⟩ <;> rcases acc' with ⟨y, b⟩ | ⟨e', y⟩ <;> simp only [SimR] at h
  · obtain ⟨⟨h1, h2, h3, h4⟩, hab⟩ := h
    subst hab
    simp only
    rw [← h1, ← h2]
    split
    · exact ⟨⟨h1, h2, h3, h4⟩, rfl⟩
    · split
      · refine ⟨⟨by simp [h1], by simp [h2], by simp [h3], ?_⟩, rfl⟩
        simp only [commits_append, h4]
      · have hn : SimR (newLoop cfg W d P k fuel a x (x.disk.getD k default)) (newLoop cfg W d' P k fuel a y (x.disk.getD k default)) := by
          unfold newLoop
          obtain ⟨c1, c2⟩ := fmtStep_congr W P x y k (x.disk.getD k default) h1
          have fx := fmtStep_frame W P x k (x.disk.getD k default)
          have fy := fmtStep_frame W P y k (x.disk.getD k default)
          have hs : Sim (fmtStep W P x k (x.disk.getD k default)).1 (fmtStep W P y k (x.disk.getD k default)).1 :=
            ⟨c2, by rw [fx.2.1, fy.2.1, h2], by rw [fx.2.2, fy.2.2, h3], by rw [fx.1, fy.1, h4]⟩
          rw [← c1]
          split
          · exact ⟨hs, rfl⟩
          · split
            · exact ⟨hs, rfl⟩
            · exact fileLoop_schedule_irrelevant cfg W P hg d d' k _ fuel a _ 0 _ _ hs
        generalize newLoop cfg W d P k fuel a x (x.disk.getD k default) = r at hn ⊢
        generalize newLoop cfg W d' P k fuel a y (x.disk.getD k default) = r' at hn ⊢
        rcases r with ⟨x1, a1⟩ | ⟨e1, x1⟩ <;> rcases r' with ⟨y1, b1⟩ | ⟨e2, y1⟩ <;> simp only [SimR] at hn
        · obtain ⟨⟨g1, g2, g3, g4⟩, hab⟩ := hn
          subst hab
          simp only
          split
          · exact ⟨⟨g1, by simp [g1, g2], g3, g4⟩, rfl⟩
          · exact ⟨⟨g1, g2, g3, g4⟩, rfl⟩
        · exact hn
  · exact h

theorem runPass_schedule_irrelevant (cfg : Cfg) (W : World C) (P : PassI C σ) (hg : GoodPass cfg W P)
    (d d' : Sched) (order : List Nat) (fuel rid : Nat) (x y : St C) (h : Sim x y) :
    SimR (runPass cfg W d P order fuel rid x) (runPass cfg W d' P order fuel rid y) := by
  unfold runPass
  obtain ⟨h1, h2, h3, h4⟩ := h
  simp only
  rw [← h1]
  split
  · exact ⟨rfl, ⟨by simp, by simp [h2], by simp, by simpa using h4⟩⟩
  · have : ∀ (order : List Nat) (acc acc' : LRes C), SimR acc acc' →
        SimR (order.foldl (fileStep cfg W d P fuel) acc) (order.foldl (fileStep cfg W d' P fuel) acc') := by
      intro order
      induction order with
      | nil => intro acc acc' h; exact h
      | cons k ks ih => intro acc acc' h; exact ih _ _ (fileStep_schedule_irrelevant cfg W P hg d d' fuel acc acc' k h)
    exact this order _ _ ⟨⟨by simp, by simp [h2], by simp, by simpa using h4⟩, rfl⟩

theorem runPasses_schedule_irrelevant (cfg : Cfg) (W : World C) (d d' : Sched) (orderOf : List C → List Nat) (fuel : Nat) :
    ∀ (ps : List (PassI C σ)), (∀ P ∈ ps, GoodPass cfg W P) → ∀ (acc acc' : LRes C), SimR acc acc' →
      SimR (runPasses cfg W d orderOf fuel ps acc) (runPasses cfg W d' orderOf fuel ps acc') := by
  intro ps
  induction ps with
  | nil => intro _ acc acc' h; exact h
  | cons P ps ih =>
    intro hg acc acc' h
    simp only [runPasses]
    rcases acc with ⟨x, a⟩ | ⟨e, x⟩ <;> rcases acc' with ⟨y, b⟩ | ⟨e', y⟩ <;> simp only [SimR] at h
    · obtain ⟨hs, hab⟩ := h
      subst hab
      simp only
      rw [← hs.1]
      exact ih (fun Q hQ => hg Q (List.mem_cons_of_mem _ hQ)) _ _
        (runPass_schedule_irrelevant cfg W P (hg P List.mem_cons_self) d d' _ fuel a x y hs)
    · exact h

theorem mainLoop_schedule_irrelevant (cfg : Cfg) (W : World C) (d d' : Sched) (orderOf : List C → List Nat) (fuel : Nat)
    (ps : List (PassI C σ)) (hg : ∀ P ∈ ps, GoodPass cfg W P) : ∀ (rounds : Nat) (acc acc' : LRes C), SimR acc acc' →
      SimR (mainLoop cfg W d orderOf fuel ps rounds acc) (mainLoop cfg W d' orderOf fuel ps rounds acc') := by
  intro rounds
  induction rounds with
  | zero => intro acc acc' h; exact h
  | succ n ih =>
    intro acc acc' h
    simp only [mainLoop]
    rcases acc with ⟨x, a⟩ | ⟨e, x⟩ <;> rcases acc' with ⟨y, b⟩ | ⟨e', y⟩ <;> simp only [SimR] at h
    · obtain ⟨hs, hab⟩ := h
      subst hab
      simp only
      rw [← hs.1]
      split
      · exact ⟨hs, rfl⟩
      · have h2 := runPasses_schedule_irrelevant cfg W d d' orderOf fuel ps hg (.inl (x, a)) (.inl (y, a)) ⟨hs, rfl⟩
        generalize runPasses cfg W d orderOf fuel ps (.inl (x, a)) = r at h2 ⊢
        generalize runPasses cfg W d' orderOf fuel ps (.inl (y, a)) = r' at h2 ⊢
        rcases r with ⟨x1, a1⟩ | ⟨e1, x1⟩ <;> rcases r' with ⟨y1, b1⟩ | ⟨e2, y1⟩ <;> simp only [SimR] at h2
        · obtain ⟨hs1, hab1⟩ := h2
          subst hab1
          simp only
          rw [← hs1.1]
          split
          · exact ⟨hs1, rfl⟩
          · exact ih _ _ ⟨hs1, rfl⟩
        · exact h2
    · exact h

/-- C02 for the whole reduction: with well-behaved passes, the final files (and the replay table and every branch the
    driver takes) are the same for every two schedules — in particular for the one-candidate-at-a-time schedule -/
theorem reduce_schedule_irrelevant (cfg : Cfg) (W : World C) (d d' : Sched) (orderOf : List C → List Nat) (fuel : Nat)
    (first main last : List (PassI C σ))
    (hg : ∀ P, P ∈ first ∨ P ∈ main ∨ P ∈ last → GoodPass cfg W P) (x : St C) :
    SimR (reduce cfg W d orderOf fuel first main last x) (reduce cfg W d' orderOf fuel first main last x) := by
  unfold reduce
  exact runPasses_schedule_irrelevant cfg W d d' orderOf fuel last (fun P h => hg P (Or.inr (Or.inr h))) _ _
    (mainLoop_schedule_irrelevant cfg W d d' orderOf fuel main (fun P h => hg P (Or.inr (Or.inl h))) _ _ _
      (runPasses_schedule_irrelevant cfg W d d' orderOf fuel first (fun P h => hg P (Or.inl h)) _ _ ⟨⟨rfl, rfl, rfl, rfl⟩, rfl⟩))

end Cvise.D
