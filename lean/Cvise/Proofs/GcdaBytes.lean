import Cvise.Model.Binary
/-!
`GCDABinaryPass.transform` works on bytes: `data[0 : functions[index]] + data[functions[end] :]` (the second part only if
`end < len(functions)`).  The run model (`gcdaRun`) works on a list of items.  Here the two are tied: with the function
offsets in ascending order inside the file, the byte-level candidate is the header followed by the records that `cut`
leaves — so a candidate of the byte-level pass *is* the item-level candidate.
-/
namespace Cvise
open Cvise

/-- the byte-level candidate of `GCDABinaryPass.transform` -/
def gcdaBytes (data : List Nat) (offs : List Nat) (i e : Nat) : List Nat :=
  data.take (offs.getD i 0) ++ (if e < offs.length then data.drop (offs.getD e 0) else [])

/-- the records of the file: record `k` runs from offset `k` to offset `k+1`, the last one to the end of the file -/
def gcdaRecs (data : List Nat) : List Nat → List (List Nat)
  | [] => []
  | [o] => [data.drop o]
  | o :: o' :: rest => (data.drop o).take (o' - o) :: gcdaRecs data (o' :: rest)

def Ascending : List Nat → Prop
  | [] => True
  | [_] => True
  | a :: b :: rest => a ≤ b ∧ Ascending (b :: rest)

theorem gcdaRecs_length (data : List Nat) : ∀ offs, (gcdaRecs data offs).length = offs.length
  | [] => rfl
  | [_] => rfl
  | _ :: o' :: rest => by simp [gcdaRecs, gcdaRecs_length data (o' :: rest)]

theorem take_drop_split (data : List Nat) (a b : Nat) (h : a ≤ b) :
    (data.drop a).take (b - a) ++ data.drop b = data.drop a := by
  have : data.drop b = (data.drop a).drop (b - a) := by rw [List.drop_drop]; congr 1; omega
  rw [this, List.take_append_drop]

/-- all records from offset `k` on make up the rest of the file -/
theorem gcdaRecs_flatten (data : List Nat) : ∀ (offs : List Nat) (o : Nat), Ascending (o :: offs) →
    (gcdaRecs data (o :: offs)).flatten = data.drop o
  | [], o, _ => by simp [gcdaRecs]
  | o' :: rest, o, h => by
    simp only [gcdaRecs, List.flatten_cons]
    rw [gcdaRecs_flatten data rest o' h.2]
    exact take_drop_split data o o' h.1

theorem ascending_tail {a : Nat} {l : List Nat} (h : Ascending (a :: l)) : Ascending l := by
  cases l with
  | nil => trivial
  | cons b rest => exact h.2

theorem ascending_head_le {a : Nat} {l : List Nat} (h : Ascending (a :: l)) : ∀ (k : Nat) (hk : k < l.length), a ≤ l[k] := by
  induction l generalizing a with
  | nil => intro k hk; simp at hk
  | cons b rest ih =>
    intro k hk
    cases k with
    | zero => exact h.1
    | succ k => exact Nat.le_trans h.1 (ih h.2 k (by simpa using hk))

/-- the records from index `e` on are the file from offset `e` on -/
theorem gcdaRecs_drop (data : List Nat) : ∀ (offs : List Nat) (e : Nat) (he : e < offs.length), Ascending offs →
    ((gcdaRecs data offs).drop e).flatten = data.drop offs[e]
  | [], e, he, _ => by simp at he
  | o :: rest, 0, _, h => by simpa using gcdaRecs_flatten data rest o h
  | [o], e + 1, he, _ => by simp at he
  | o :: o' :: rest, e + 1, he, h => by
    simp only [gcdaRecs, List.drop_succ_cons, List.getElem_cons_succ]
    exact gcdaRecs_drop data (o' :: rest) e (by simpa using he) h.2

/-- the records before index `i` are the file between the first offset and offset `i` -/
theorem gcdaRecs_take (data : List Nat) : ∀ (offs : List Nat) (i : Nat) (hi : i < offs.length) (h0 : 0 < offs.length), Ascending offs →
    data.take offs[0] ++ ((gcdaRecs data offs).take i).flatten = data.take offs[i]
  | [], i, hi, _, _ => by simp at hi
  | o :: rest, 0, _, _, _ => by simp
  | [o], i + 1, hi, _, _ => by simp at hi
  | o :: o' :: rest, i + 1, hi, _, h => by
    simp only [gcdaRecs, List.take_succ_cons, List.flatten_cons, List.getElem_cons_zero, List.getElem_cons_succ]
    have ih := gcdaRecs_take data (o' :: rest) i (by simpa using hi) (by simp) h.2
    simp only [List.getElem_cons_zero] at ih
    rw [← List.append_assoc]
    have : data.take o ++ (data.drop o).take (o' - o) = data.take o' := by
      have h1 : o ≤ o' := h.1
      have h2 : o' = o + (o' - o) := by omega
      rw [h2, List.take_add]
      simp
    rw [this]
    exact ih

/-- **the byte-level candidate is the item-level candidate**: header ++ the records that `cut … index end` leaves -/
theorem gcdaBytes_eq_cut (data offs : List Nat) (i e : Nat) (h : Ascending offs) (hi : i < e) (he : e ≤ offs.length) :
    gcdaBytes data offs i e = data.take (offs.getD 0 0) ++ (cut (gcdaRecs data offs) i e).flatten := by
  have hn : 0 < offs.length := by omega
  have hil : i < offs.length := by omega
  unfold gcdaBytes cut
  rw [List.flatten_append, ← List.append_assoc]
  have h0 : offs.getD 0 0 = offs[0] := by simp [List.getD, hn]
  have h1 : offs.getD i 0 = offs[i] := by simp [List.getD, hil]
  rw [h0, h1, gcdaRecs_take data offs i hil hn h]
  congr 1
  by_cases hlt : e < offs.length
  · have h2 : offs.getD e 0 = offs[e] := by simp [List.getD, hlt]
    simp only [hlt, if_true, h2]
    exact (gcdaRecs_drop data offs e hlt h).symm
  · have : e = offs.length := by omega
    simp only [hlt, if_false]
    rw [List.drop_of_length_le (by rw [gcdaRecs_length]; omega)]
    rfl

end Cvise
