import Cvise.Model.Driver
/-! what the in-place rewriting of `new` (`fmtStep`) can do to a driver state: nothing but replace file `k` by a content
    on which the interestingness test, run on the resulting joint contents, exits 0 -/
namespace Cvise.D
variable {C σ : Type} [DecidableEq C]

theorem fmtStep_frame (W : World C) (P : PassI C σ) (x : St C) (k : Nat) (before : C) :
    (fmtStep W P x k before).1.side = x.side ∧ (fmtStep W P x k before).1.cache = x.cache ∧
    (fmtStep W P x k before).1.leftover = x.leftover := by
  unfold fmtStep
  split
  · exact ⟨rfl, rfl, rfl⟩
  · split <;> exact ⟨rfl, rfl, rfl⟩

theorem fmtStep_disk (W : World C) (P : PassI C σ) (x : St C) (k : Nat) (before : C) :
    (fmtStep W P x k before).1.disk = x.disk ∨
    ∃ c, (fmtStep W P x k before).1.disk = x.disk.set k c ∧ W.test (x.disk.set k c) = .code 0 := by
  unfold fmtStep
  split
  · exact Or.inl rfl
  · split
    · rename_i c' hf
      right
      refine ⟨c', rfl, ?_⟩
      have := List.find?_some hf
      simpa using this
    · exact Or.inl rfl

/-- a predicate of the state that only looks at `side`, `cache`, `leftover` is untouched -/
theorem fmtStep_side (W : World C) (P : PassI C σ) (x : St C) (k : Nat) (before : C) : (fmtStep W P x k before).1.side = x.side :=
  (fmtStep_frame W P x k before).1

/-- the decision and the resulting files depend on the files only -/
theorem fmtStep_congr (W : World C) (P : PassI C σ) (x y : St C) (k : Nat) (before : C) (h : x.disk = y.disk) :
    (fmtStep W P x k before).2 = (fmtStep W P y k before).2 ∧ (fmtStep W P x k before).1.disk = (fmtStep W P y k before).1.disk := by
  unfold fmtStep
  rw [h]
  split
  · exact ⟨rfl, h⟩
  · split
    · exact ⟨rfl, rfl⟩
    · exact ⟨rfl, h⟩

end Cvise.D
