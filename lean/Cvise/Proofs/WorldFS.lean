import Cvise.Model.WorldFS
/-!
C04 frame and originals over the working-directory effect of a reduction (`W.afterReduce`): whatever the event log — hence
for the log of every run of the driver model, under every pass behaviour, test, schedule and limit setting — only the test
cases, their `.orig` backups and entries under report-directory names can differ from the start.
-/
namespace Cvise.W
open Cvise

theorem lookup_writeFS_ne (fs : FS) (p q : String) (b : Bytes) (h : q ≠ p) : lookupFS (writeFS fs p b) q = lookupFS fs q := by
  induction fs with
  | nil =>
    have : (q == p) = false := by simpa using h
    simp [writeFS, lookupFS, List.lookup, this]
  | cons e rest ih =>
    obtain ⟨r, c⟩ := e
    simp only [writeFS]
    split
    · rename_i hr
      subst hr
      simp only [lookupFS, List.lookup]
      have : (q == r) = false := by simpa using h
      simp [this]
    · simp only [lookupFS, List.lookup] at ih ⊢
      split <;> simp_all

theorem lookup_writeFS_eq (fs : FS) (p : String) (b : Bytes) : lookupFS (writeFS fs p b) p = some b := by
  induction fs with
  | nil => simp [writeFS, lookupFS, List.lookup]
  | cons e rest ih =>
    obtain ⟨r, c⟩ := e
    simp only [writeFS]
    split
    · rename_i hr; subst hr; simp [lookupFS, List.lookup]
    · rename_i hr
      simp only [lookupFS, List.lookup] at ih ⊢
      have : (p == r) = false := by simpa using (fun h => hr h.symm)
      simp [this, ih]


theorem lookup_backup_other (p : String) : ∀ (names : List String) (fs : FS), (∀ f ∈ names, f ++ ".orig" ≠ p) →
    lookupFS (backup fs names) p = lookupFS fs p := by
  intro names
  induction names with
  | nil => intro fs _; rfl
  | cons f rest ih =>
    intro fs h
    simp only [backup]
    have hr : ∀ g ∈ rest, g ++ ".orig" ≠ p := fun g hg => h g (List.mem_cons_of_mem _ hg)
    split
    · rw [ih _ hr]
      have hne : (p == f ++ ".orig") = false := by simpa using (fun e => h f List.mem_cons_self e.symm)
      simp [lookupFS, List.lookup_append, hne, List.lookup]
    · exact ih _ hr

/-- what a path must avoid to be outside the reach of a reduction -/
def Untouchable (names : List String) (p : String) : Prop :=
  p ∉ names ∧ (∀ f ∈ names, f ++ ".orig" ≠ p) ∧ isReportPath p = false

theorem applyEv_frame (names : List String) (bugName extraName : Nat → String)
    (hb : ∀ n, isReportPath (bugName n) = true) (he : ∀ n, isReportPath (extraName n) = true)
    (p : String) (hp : Untouchable names p) (st : FS × Nat × Nat) (ev : D.Ev Bytes) :
    lookupFS (applyEv names bugName extraName st ev).1 p = lookupFS st.1 p := by
  cases ev with
  | commit _ k c =>
    simp only [applyEv]
    split
    · rename_i q hq
      have : p ≠ q := fun e => hp.1 (e ▸ List.mem_of_getElem? hq)
      exact lookup_writeFS_ne _ _ _ _ this
    · rfl
  | replay _ k c =>
    simp only [applyEv]
    split
    · rename_i q hq
      have : p ≠ q := fun e => hp.1 (e ▸ List.mem_of_getElem? hq)
      exact lookup_writeFS_ne _ _ _ _ this
    · rfl
  | bugdir =>
    simp only [applyEv]
    apply lookup_writeFS_ne
    intro e
    have := hb st.2.1
    rw [← e, hp.2.2] at this
    cases this
  | extradir =>
    simp only [applyEv]
    apply lookup_writeFS_ne
    intro e
    have := he st.2.2
    rw [← e, hp.2.2] at this
    cases this
  | tested _ _ => rfl
  | sched _ _ => rfl
  | fail _ => rfl

/-- **only the named test cases are touched** (with their backups and the report directories): every other path of the
    working directory holds after the reduction what it held before — for every event log -/
theorem reduce_frame (names : List String) (bugName extraName : Nat → String)
    (hb : ∀ n, isReportPath (bugName n) = true) (he : ∀ n, isReportPath (extraName n) = true)
    (tidy : Bool) (fs : FS) (log : List (D.Ev Bytes)) (p : String) (hp : Untouchable names p) :
    lookupFS (afterReduce names bugName extraName tidy fs log) p = lookupFS fs p := by
  unfold afterReduce
  have key : ∀ (log : List (D.Ev Bytes)) (st : FS × Nat × Nat),
      lookupFS (log.foldl (applyEv names bugName extraName) st).1 p = lookupFS st.1 p := by
    intro log
    induction log with
    | nil => intro st; rfl
    | cons ev rest ih =>
      intro st
      simp only [List.foldl]
      rw [ih, applyEv_frame names bugName extraName hb he p hp]
  rw [key]
  cases tidy
  · simp only [Bool.false_eq_true, if_false]
    exact lookup_backup_other p names fs hp.2.1
  · rfl

/-- **the original survives as `X.orig`**: a backup path is never written by an event, so after the reduction it holds what
    `backup_test_cases` left there — the bytes the test case had at start, or the backup that already existed -/
theorem reduce_keeps_backups (names : List String) (bugName extraName : Nat → String)
    (hb : ∀ n, isReportPath (bugName n) = true) (he : ∀ n, isReportPath (extraName n) = true)
    (fs : FS) (log : List (D.Ev Bytes)) (f : String)
    (hn : f ++ ".orig" ∉ names) (hr : isReportPath (f ++ ".orig") = false) :
    lookupFS (afterReduce names bugName extraName false fs log) (f ++ ".orig") = lookupFS (backup fs names) (f ++ ".orig") := by
  unfold afterReduce
  simp only [Bool.false_eq_true, if_false]
  have key : ∀ (log : List (D.Ev Bytes)) (st : FS × Nat × Nat),
      lookupFS (log.foldl (applyEv names bugName extraName) st).1 (f ++ ".orig") = lookupFS st.1 (f ++ ".orig") := by
    intro log
    induction log with
    | nil => intro st; rfl
    | cons ev rest ih =>
      intro st
      simp only [List.foldl]
      rw [ih]
      cases ev with
      | commit _ k c =>
        simp only [applyEv]
        split
        · rename_i q hq
          exact lookup_writeFS_ne _ _ _ _ (fun e => hn (e ▸ List.mem_of_getElem? hq))
        · rfl
      | replay _ k c =>
        simp only [applyEv]
        split
        · rename_i q hq
          exact lookup_writeFS_ne _ _ _ _ (fun e => hn (e ▸ List.mem_of_getElem? hq))
        · rfl
      | bugdir =>
        simp only [applyEv]
        apply lookup_writeFS_ne
        intro e
        have := hb st.2.1
        rw [← e, hr] at this
        cases this
      | extradir =>
        simp only [applyEv]
        apply lookup_writeFS_ne
        intro e
        have := he st.2.2
        rw [← e, hr] at this
        cases this
      | tested _ _ => rfl
      | sched _ _ => rfl
      | fail _ => rfl
  exact key log _

theorem lookup_writeDisk_other (p : String) : ∀ (names : List String) (disk : List Bytes) (fs : FS), p ∉ names →
    lookupFS (writeDisk fs names disk) p = lookupFS fs p := by
  intro names
  induction names with
  | nil => intro disk fs _; cases disk <;> rfl
  | cons q qs ih =>
    intro disk fs h
    cases disk with
    | nil => rfl
    | cons c cs =>
      simp only [writeDisk]
      rw [ih cs _ (fun hm => h (List.mem_cons_of_mem _ hm))]
      exact lookup_writeFS_ne _ _ _ _ (fun e => h (e ▸ List.mem_cons_self))

/-- the frame, with the final contents of the test cases written as well -/
theorem reduceD_frame (names : List String) (bugName extraName : Nat → String)
    (hb : ∀ n, isReportPath (bugName n) = true) (he : ∀ n, isReportPath (extraName n) = true)
    (tidy : Bool) (fs : FS) (log : List (D.Ev Bytes)) (disk : List Bytes) (p : String) (hp : Untouchable names p) :
    lookupFS (afterReduceD names bugName extraName tidy fs log disk) p = lookupFS fs p := by
  unfold afterReduceD
  rw [lookup_writeDisk_other p names disk _ hp.1]
  exact reduce_frame names bugName extraName hb he tidy fs log p hp

theorem reduceD_keeps_backups (names : List String) (bugName extraName : Nat → String)
    (hb : ∀ n, isReportPath (bugName n) = true) (he : ∀ n, isReportPath (extraName n) = true)
    (fs : FS) (log : List (D.Ev Bytes)) (disk : List Bytes) (f : String)
    (hn : f ++ ".orig" ∉ names) (hr : isReportPath (f ++ ".orig") = false) :
    lookupFS (afterReduceD names bugName extraName false fs log disk) (f ++ ".orig") = lookupFS (backup fs names) (f ++ ".orig") := by
  unfold afterReduceD
  rw [lookup_writeDisk_other _ names disk _ hn]
  exact reduce_keeps_backups names bugName extraName hb he fs log f hn hr

end Cvise.W
