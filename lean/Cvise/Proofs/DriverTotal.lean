import Cvise.Proofs.DriverAccept
/-!
Termination of the L2 driver model (C03 / C09 "never wedges"): the executable definitions take fuel for the rounds of a
file (`fileLoop`) and for the scheduling iterations of a round (`roundLoop`).  For a pass with a measure `μ` that drops on
`advance` and on accept-then-`advance_on_success`, neither fuel is ever exhausted: with `μ` below both fuels the result
does not depend on the fuel — for every test, fault assignment, schedule oracle and limit setting.  (A pass without such a
measure — an endless enumeration — is ended by the give-up limit or not at all: `C16.giveup_abandons`.)
-/
namespace Cvise.D
variable {C σ : Type} [DecidableEq C] [Inhabited σ] [Inhabited C]

/-- the two progress conditions of C03's `drive_bound`, on the abstract pass interface -/
structure Measured (P : PassI C σ) (I : C → σ → Prop) (μ : C → σ → Nat) : Prop where
  /-- the cursors `new` creates satisfy the invariant, `advance` and accept-then-`advance_on_success` keep it -/
  newI : ∀ c s, P.new c = some s → I c s
  advI : ∀ c s s', I c s → P.advance c s = some s' → I c s'
  accI : ∀ c s c' s2 s', I c s → P.transform c s = (.ok, c', s2) → P.aos c' s2 = some s' → I c' s'
  adv : ∀ c s s', I c s → P.advance c s = some s' → μ c s' < μ c s
  acc : ∀ c s c' s2 s', I c s → P.transform c s = (.ok, c', s2) → P.aos c' s2 = some s' → μ c' s' < μ c s

theorem nthState_mu (P : PassI C σ) (I : C → σ → Prop) (μ : C → σ → Nat) (h : Measured P I μ) (c : C) (s : σ) (hI : I c s) :
    ∀ (i : Nat) (si : σ), nthState P c s i = some si → I c si ∧ μ c si + i ≤ μ c s := by
  intro i
  induction i with
  | zero => intro si hs; simp [nthState] at hs; subst hs; exact ⟨hI, by omega⟩
  | succ n ih =>
    intro si hs
    simp only [nthState] at hs
    cases hn : nthState P c s n with
    | none => rw [hn] at hs; simp at hs
    | some sn =>
      rw [hn] at hs
      simp only [Option.bind_some] at hs
      have := ih sn hn
      have := h.adv c sn si this.1 hs
      exact ⟨h.advI c sn si (ih sn hn).1 hs, by omega⟩

/-- the enumeration of a round ends: there is no `(μ + 1)`-th cursor -/
theorem nthState_ends (P : PassI C σ) (I : C → σ → Prop) (μ : C → σ → Nat) (h : Measured P I μ) (c : C) (s : σ) (hI : I c s) :
    nthState P c s (μ c s + 1) = none := by
  cases hn : nthState P c s (μ c s + 1) with
  | none => rfl
  | some si => have := (nthState_mu P I μ h c s hI _ si hn).2; omega

theorem nthState_none_succ (P : PassI C σ) (c : C) (s : σ) (t : Nat) (h : nthState P c s t = none) :
    nthState P c s (t + 1) = none := by
  simp [nthState, h]

/-- a round whose enumeration ends within the fuel never runs out of it -/
theorem roundLoop_fuel (cfg : Cfg) (size : C → Nat) (pkey : Nat) (cur : C) (env : Nat → EnvRes C σ) (more : Nat → Bool)
    (hmono : ∀ t, more t = false → more (t + 1) = false) (done : Nat → Nat → Bool) (m : Nat) (hm : more m = false) (j : Nat) :
    ∀ (fuel t : Nat) (futs : List Nat) (g : Side C) (rs : RS), t < m → m - t ≤ fuel →
      roundLoop cfg size pkey cur env more done fuel t futs g rs = roundLoop cfg size pkey cur env more done (fuel + j) t futs g rs := by
  intro fuel
  induction fuel with
  | zero => intro t futs g rs h1 h2; omega
  | succ f ih =>
    intro t futs g rs h1 h2
    have e : f + 1 + j = (f + j) + 1 := by omega
    rw [e]
    simp only [roundLoop]
    split
    · rfl
    · split
      · rfl
      · by_cases hmore : more (t + 1) = true
        · simp only [hmore, if_true]
          have hne : t + 1 ≠ m := by intro h; rw [h] at hmore; rw [hm] at hmore; cases hmore
          exact ih (t + 1) _ _ _ (by omega) (by omega)
        · simp only [hmore]
          rfl

theorem more_mono (P : PassI C σ) (c : C) (s : σ) :
    ∀ t, (fun t => (nthState P c s t).isSome) t = false → (fun t => (nthState P c s t).isSome) (t + 1) = false := by
  intro t h
  simp only [Option.isSome_eq_false_iff, Option.isNone_iff_eq_none] at h ⊢
  exact nthState_none_succ P c s t h

/-- what an accepted env is: the `OK` result of `transform` on the cursor it was started from -/
theorem envOf_accept (cfg : Cfg) (W : World C) (P : PassI C σ) (disk : List C) (k : Nat) (cur : C) (s : σ) (rid i : Nat)
    (h : isAccept cfg W.size cur (envOf W P disk k cur s rid i) = true) :
    ∃ si, nthState P cur s i = some si ∧
      P.transform cur si = (.ok, (envOf W P disk k cur s rid i).cand, (envOf W P disk k cur s rid i).st) := by
  have hok := ((isAccept_iff cfg W.size cur _).mp h).1
  cases hn : nthState P cur s i with
  | none => simp [envOf, hn] at hok
  | some si =>
    refine ⟨si, rfl, ?_⟩
    rcases htr : P.transform cur si with ⟨pr, c', s'⟩
    simp only [envOf, hn, htr] at hok ⊢
    rw [hok]

theorem commitSt_getD (x : St C) (k : Nat) (c : C) (g : Side C) (hk : k < x.disk.length) :
    (commitSt x k c g).disk.getD k default = c := by
  simp [commitSt, List.getD, hk]

theorem commitSt_length (x : St C) (k : Nat) (c : C) (g : Side C) : (commitSt x k c g).disk.length = x.disk.length := by
  simp [commitSt]

/-- **all rounds on one file terminate**: with the measure of the starting cursor below both fuels the result of
    `fileLoop` is the same for every larger fuel — the rounds never run out, whatever the test, the faults, the schedule
    and the limits -/
theorem fileLoop_total (cfg : Cfg) (W : World C) (dn : Sched) (P : PassI C σ) (I : C → σ → Prop) (μ : C → σ → Nat) (hμ : Measured P I μ)
    (k : Nat) (startSize : Nat) (j : Nat) :
    ∀ (fuel rid : Nat) (s : σ) (succ : Nat) (x : St C), k < x.disk.length → I (x.disk.getD k default) s →
      μ (x.disk.getD k default) s < fuel → μ (x.disk.getD k default) s < cfg.giveup + 1000 →
      fileLoop cfg W dn P k startSize fuel rid s succ x = fileLoop cfg W dn P k startSize (fuel + j) rid s succ x := by
  intro fuel
  induction fuel with
  | zero => intro rid s succ x _ _ h; omega
  | succ f ih =>
    intro rid s succ x hk hI h1 h2
    have e : f + 1 + j = (f + j) + 1 := by omega
    rw [e]
    simp only [fileLoop]
    split
    · rfl
    · generalize hr : roundLoop cfg W.size P.key (x.disk.getD k default) (envOf W P x.disk k (x.disk.getD k default) s rid)
        (fun t => (nthState P (x.disk.getD k default) s t).isSome) (dn rid) (cfg.giveup + 1000) 0 [] x.side {} = r
      cases r with
      | inr e => rfl
      | inl v =>
        obtain ⟨w, g⟩ := v
        cases w with
        | none => rfl
        | some i =>
          simp only
          have hacc := roundLoop_sound cfg W.size P.key _ _ _ _ _ _ _ _ _ _ _ hr
          obtain ⟨si, hsi, htr⟩ := envOf_accept cfg W P x.disk k _ s rid i hacc
          split
          · rfl
          · cases haos : P.aos (envOf W P x.disk k (x.disk.getD k default) s rid i).cand (envOf W P x.disk k (x.disk.getD k default) s rid i).st with
            | none => rfl
            | some s' =>
              simp only
              split
              · rfl
              · have hle := nthState_mu P I μ hμ _ _ hI i si hsi
                have hlt := hμ.acc _ _ _ _ _ hle.1 htr haos
                have hI' := hμ.accI _ _ _ _ _ hle.1 htr haos
                apply ih
                · rw [commitSt_length]; exact hk
                · rw [commitSt_getD _ _ _ _ hk]; exact hI'
                · rw [commitSt_getD _ _ _ _ hk]; omega
                · rw [commitSt_getD _ _ _ _ hk]; omega

/-! ### the number of files never changes, so every file index of the visiting order stays valid -/

def resDisk : LRes C → List C
  | .inl (x, _) => x.disk
  | .inr (_, x) => x.disk

theorem fileLoop_len (cfg : Cfg) (W : World C) (dn : Sched) (P : PassI C σ) (k startSize : Nat) :
    ∀ (fuel rid : Nat) (s : σ) (succ : Nat) (x : St C),
      (resDisk (fileLoop cfg W dn P k startSize fuel rid s succ x)).length = x.disk.length := by
  intro fuel
  induction fuel with
  | zero => intros; rfl
  | succ f ih =>
    intro rid s succ x
    simp only [fileLoop]
    split
    · rfl
    · split
      · rfl
      · rfl
      · split
        · simp [resDisk, commitSt]
        · split
          · simp [resDisk, commitSt]
          · split
            · simp [resDisk, commitSt]
            · rw [ih]; simp [commitSt]

theorem fmtStep_len (W : World C) (P : PassI C σ) (x : St C) (k : Nat) (before : C) :
    (fmtStep W P x k before).1.disk.length = x.disk.length := by
  unfold fmtStep
  split
  · rfl
  · split
    · simp
    · rfl

/-- the content `new` is given is what the file holds after the rewriting step -/
theorem fmtStep_cur (W : World C) (P : PassI C σ) (x : St C) (k : Nat) (before c : C) (hk : k < x.disk.length)
    (hb : before = x.disk.getD k default) (h : (fmtStep W P x k before).2 = some c) :
    (fmtStep W P x k before).1.disk.getD k default = c := by
  unfold fmtStep at h ⊢
  split at h
  · simp only at h ⊢
    cases h; exact hb.symm
  · split at h
    · simp only at h ⊢
      cases h
      simp [List.getD, hk]
    · simp only at h ⊢
      split at h
      · cases h
      · cases h; exact hb.symm

theorem newLoop_len (cfg : Cfg) (W : World C) (dn : Sched) (P : PassI C σ) (k fuel rid : Nat) (x : St C) (before : C) :
    (resDisk (newLoop cfg W dn P k fuel rid x before)).length = x.disk.length := by
  unfold newLoop
  split
  · simp [resDisk, fmtStep_len]
  · split
    · simp [resDisk, fmtStep_len]
    · rw [fileLoop_len, fmtStep_len]

theorem fileStep_len (cfg : Cfg) (W : World C) (dn : Sched) (P : PassI C σ) (fuel : Nat) (acc : LRes C) (k : Nat) :
    (resDisk (fileStep cfg W dn P fuel acc k)).length = (resDisk acc).length := by
  unfold fileStep
  cases acc with
  | inr e => rfl
  | inl xr =>
    obtain ⟨x, rid⟩ := xr
    simp only
    split
    · rfl
    · split
      · simp [resDisk]
      · have := newLoop_len cfg W dn P k fuel rid x (x.disk.getD k default)
        generalize newLoop cfg W dn P k fuel rid x (x.disk.getD k default) = r at this ⊢
        cases r with
        | inr e => simpa [resDisk] using this
        | inl yr =>
          obtain ⟨y, rid'⟩ := yr
          simp only
          split <;> simpa [resDisk] using this

/-! ### lifting `fileLoop_total` to whole reductions, for passes with a uniformly bounded measure -/

/-- the pass has a measure below both fuels (a uniform bound keeps the statement simple; `fileLoop_total` only needs the
    measure of the cursor the file starts from) -/
def Terminating (cfg : Cfg) (fuel : Nat) (P : PassI C σ) : Prop :=
  ∃ (I : C → σ → Prop) (μ : C → σ → Nat), Measured P I μ ∧ ∀ c s, μ c s < fuel ∧ μ c s < cfg.giveup + 1000

theorem newLoop_total (cfg : Cfg) (W : World C) (dn : Sched) (P : PassI C σ) (fuel j : Nat) (hP : Terminating cfg fuel P)
    (k rid : Nat) (x : St C) (before : C) (hk : k < x.disk.length) (hbef : before = x.disk.getD k default) :
    newLoop cfg W dn P k fuel rid x before = newLoop cfg W dn P k (fuel + j) rid x before := by
  obtain ⟨I, μ, hμ, hb⟩ := hP
  unfold newLoop
  split
  · rfl
  · split
    · rfl
    · rename_i c hfc _ s hnew
      have hk' : k < (fmtStep W P x k before).1.disk.length := by rw [fmtStep_len]; exact hk
      -- enumeration starts from the content `new` was given, which is what the file holds after the rewriting step
      have hc := fmtStep_cur W P x k before c hk hbef hfc
      exact fileLoop_total cfg W dn P I μ hμ k _ j fuel rid s 0 _ hk' (by rw [hc]; exact hμ.newI c s hnew) (hb _ _).1 (hb _ _).2

theorem fileStep_total (cfg : Cfg) (W : World C) (dn : Sched) (P : PassI C σ) (fuel j : Nat) (hP : Terminating cfg fuel P)
    (acc : LRes C) (k : Nat) (hk : k < (resDisk acc).length) :
    fileStep cfg W dn P fuel acc k = fileStep cfg W dn P (fuel + j) acc k := by
  unfold fileStep
  cases acc with
  | inr e => rfl
  | inl xr =>
    obtain ⟨x, rid⟩ := xr
    simp only
    rw [newLoop_total cfg W dn P fuel j hP k rid x _ hk rfl]

theorem foldl_fileStep_total (cfg : Cfg) (W : World C) (dn : Sched) (P : PassI C σ) (fuel j : Nat) (hP : Terminating cfg fuel P) :
    ∀ (order : List Nat) (acc : LRes C), (∀ k ∈ order, k < (resDisk acc).length) →
      order.foldl (fileStep cfg W dn P fuel) acc = order.foldl (fileStep cfg W dn P (fuel + j)) acc := by
  intro order
  induction order with
  | nil => intros; rfl
  | cons k ks ih =>
    intro acc h
    simp only [List.foldl]
    rw [← fileStep_total cfg W dn P fuel j hP acc k (h k List.mem_cons_self)]
    apply ih
    intro k' hk'
    rw [fileStep_len]
    exact h k' (List.mem_cons_of_mem _ hk')

/-- **a pass run terminates**: no fuel is exhausted, for every test, fault assignment, schedule and limit setting -/
theorem runPass_total (cfg : Cfg) (W : World C) (dn : Sched) (P : PassI C σ) (fuel j : Nat) (hP : Terminating cfg fuel P)
    (order : List Nat) (rid : Nat) (x : St C) (ho : ∀ k ∈ order, k < x.disk.length) :
    runPass cfg W dn P order fuel rid x = runPass cfg W dn P order (fuel + j) rid x := by
  unfold runPass
  simp only
  split
  · rfl
  · exact foldl_fileStep_total cfg W dn P fuel j hP order _ (by simpa [resDisk] using ho)

theorem runPass_len (cfg : Cfg) (W : World C) (dn : Sched) (P : PassI C σ) (order : List Nat) (fuel rid : Nat) (x : St C) :
    (resDisk (runPass cfg W dn P order fuel rid x)).length = x.disk.length := by
  unfold runPass
  simp only
  split
  · rfl
  · have : ∀ (order : List Nat) (acc : LRes C), (resDisk (order.foldl (fileStep cfg W dn P fuel) acc)).length = (resDisk acc).length := by
      intro order
      induction order with
      | nil => intro acc; rfl
      | cons k ks ih => intro acc; simp only [List.foldl]; rw [ih, fileStep_len]
    rw [this]; rfl

/-- the visiting order only names files that exist -/
def OrderOK (orderOf : List C → List Nat) : Prop := ∀ (disk : List C) (k : Nat), k ∈ orderOf disk → k < disk.length

theorem runPasses_total (cfg : Cfg) (W : World C) (dn : Sched) (orderOf : List C → List Nat) (ho : OrderOK orderOf) (fuel j : Nat) :
    ∀ (ps : List (PassI C σ)) (acc : LRes C), (∀ P ∈ ps, Terminating cfg fuel P) →
      runPasses cfg W dn orderOf fuel ps acc = runPasses cfg W dn orderOf (fuel + j) ps acc := by
  intro ps
  induction ps with
  | nil => intros; rfl
  | cons P ps ih =>
    intro acc h
    simp only [runPasses]
    cases acc with
    | inr e => rfl
    | inl xr =>
      obtain ⟨x, rid⟩ := xr
      simp only
      rw [← runPass_total cfg W dn P fuel j (h P List.mem_cons_self) (orderOf x.disk) rid x (ho x.disk)]
      exact ih _ (fun Q hQ => h Q (List.mem_cons_of_mem _ hQ))

theorem mainLoop_total (cfg : Cfg) (W : World C) (dn : Sched) (orderOf : List C → List Nat) (ho : OrderOK orderOf) (fuel j : Nat)
    (ps : List (PassI C σ)) (h : ∀ P ∈ ps, Terminating cfg fuel P) :
    ∀ (rounds : Nat) (acc : LRes C),
      mainLoop cfg W dn orderOf fuel ps rounds acc = mainLoop cfg W dn orderOf (fuel + j) ps rounds acc := by
  intro rounds
  induction rounds with
  | zero => intro acc; rfl
  | succ n ih =>
    intro acc
    simp only [mainLoop]
    cases acc with
    | inr e => rfl
    | inl xr =>
      obtain ⟨x, rid⟩ := xr
      simp only
      split
      · rfl
      · rw [← runPasses_total cfg W dn orderOf ho fuel j ps _ h]
        generalize runPasses cfg W dn orderOf fuel ps (.inl (x, rid)) = r
        cases r with
        | inr e => rfl
        | inl yr =>
          obtain ⟨y, rid'⟩ := yr
          simp only
          split
          · rfl
          · exact ih _

/-- **the whole reduction terminates**: for passes with a measure below the fuels, `reduce` gives the same result with
    any larger fuel — together with `C03.main_rounds_le` (the main loop never uses up its rounds) no bound of the
    executable model is ever the reason a run ends -/
theorem reduce_total (cfg : Cfg) (W : World C) (dn : Sched) (orderOf : List C → List Nat) (ho : OrderOK orderOf) (fuel j : Nat)
    (first main last : List (PassI C σ)) (x : St C)
    (h : ∀ P, P ∈ first ∨ P ∈ main ∨ P ∈ last → Terminating cfg fuel P) :
    reduce cfg W dn orderOf fuel first main last x = reduce cfg W dn orderOf (fuel + j) first main last x := by
  unfold reduce
  simp only
  rw [← runPasses_total cfg W dn orderOf ho fuel j first _ (fun P hP => h P (Or.inl hP)),
      ← mainLoop_total cfg W dn orderOf ho fuel j main (fun P hP => h P (Or.inr (Or.inl hP))),
      ← runPasses_total cfg W dn orderOf ho fuel j last _ (fun P hP => h P (Or.inr (Or.inr hP)))]

end Cvise.D
