import Cvise.Proofs.DriverAccept
import Cvise.Proofs.RoundPar
/-! C02: under the contract of well-behaved candidates the side-state round of the driver model (`D.roundLoop`, the
    one tied to the code) returns exactly what the scheduling skeleton `R.loop` returns, hence — by
    `R.round_par_eq_seq` — what the sequential scan returns, for every schedule. -/
namespace Cvise.D
variable {C σ : Type} [DecidableEq C]

/-- the verdict of a candidate as the skeleton sees it -/
def vd (cfg : Cfg) (size : C → Nat) (cur : C) (e : EnvRes C σ) : R.Verdict :=
  if isAccept cfg size cur e then .accept
  else if e.pr = .stop then .quit else .ignore

/-- a well-behaved candidate: no timeout, no foreign exception, no swallowed exception, no helper ERROR, an OK result
    changes the file, and the give-up limit is not reached -/
structure Tame (cfg : Cfg) (cur : C) (e : EnvRes C σ) : Prop where
  noTimeout : e.exit ≠ some .timeout
  noForeign : e.exit ≠ some .foreign
  tested : e.pr = .ok → ∃ n, e.exit = some (.code n)
  noError : e.pr ≠ .error
  changed : e.pr = .ok → e.cand ≠ cur
  noGiveUp : e.order ≤ cfg.giveup

def outOf : R.Verdict → Outcome
  | .accept => .accept
  | .ignore => .ignore
  | .quit => .quit
  | .timeout => .ignore

theorem check_tame (cfg : Cfg) (size : C → Nat) (cur : C) (e : EnvRes C σ) (g : Side C) (gu : Bool)
    (h : Tame cfg cur e) :
    (check cfg size cur e g gu).1 = outOf (vd cfg size cur e) ∧ (check cfg size cur e g gu).2.2 = gu := by
  obtain ⟨h1, h2, h3, h4, h5, h6⟩ := h
  have h6' : ¬ (e.order > cfg.giveup) := by omega
  by_cases hacc : isAccept cfg size cur e = true
  · rw [check_of_isAccept cfg size cur e g gu hacc]
    simp [vd, hacc, outOf]
  · have hvd : vd cfg size cur e = if e.pr = .stop then .quit else .ignore := by simp [vd, hacc]
    rw [hvd]
    unfold isAccept at hacc
    unfold check reportBug saveExtra
    cases hpr : e.pr
    · -- ok
      obtain ⟨n, hn⟩ := h3 hpr
      have hne := h5 hpr
      simp only [hpr, hn] at hacc ⊢
      simp [outOf, h6', hne] at hacc ⊢
      grind
    · simp [outOf, h6']
    · simp [outOf]
    · exact absurd hpr h4
    · simp [outOf, h6']


theorem processDone_sim (MAXT : Nat) (cfg : Cfg) (size : C → Nat) (cur : C) (env : Nat → EnvRes C σ) (done : Nat → Bool)
    : ∀ (L : List Nat) (g : Side C) (rs : RS) (q : Bool), (∀ i ∈ L, Tame cfg cur (env i)) →
      ∃ k q' g', processDone cfg size cur env done L g rs q = .inl ((k, rs, q'), g') ∧
        R.processDone MAXT done (fun i => vd cfg size cur (env i)) L rs.tc q = (k, rs.tc, q') ∧ (∀ j ∈ k, j ∈ L) := by
  intro L
  induction L with
  | nil => intro g rs q _; exact ⟨[], q, g, rfl, rfl, by simp⟩
  | cons i L ih' =>
    intro g rs q hL
    have ih : ∀ (g : Side C) (rs : RS) (q : Bool), ∃ k q' g', processDone cfg size cur env done L g rs q = .inl ((k, rs, q'), g') ∧
        R.processDone MAXT done (fun i => vd cfg size cur (env i)) L rs.tc q = (k, rs.tc, q') ∧ (∀ j ∈ k, j ∈ L) :=
      fun g rs q => ih' g rs q (fun j hj => hL j (List.mem_cons_of_mem _ hj))
    simp only [processDone, R.processDone]
    by_cases hq : q = true
    · simp only [hq, if_true]
      obtain ⟨k, q', g', e1, e2, e3⟩ := ih g rs true
      exact ⟨k, q', g', e1, e2, fun j hj => List.mem_cons_of_mem _ (e3 j hj)⟩
    · have hq' : q = false := by simpa using hq
      subst hq'
      simp only [Bool.false_eq_true, if_false]
      by_cases hd : done i = true
      · simp only [hd, if_true]
        have ti := hL i List.mem_cons_self
        have hc := check_tame cfg size cur (env i) g rs.gu ti
        -- the exit is neither a timeout nor a foreign exception
        have hsplit : ∀ (α : Type) (a b : α) (f : Unit → α),
            (match (env i).exit with
              | some .timeout => a
              | some .foreign => b
              | _ => f ()) = f () := by
          intro α a b f
          have h1 := ti.noTimeout; have h2 := ti.noForeign
          split
          · rename_i h; exact absurd h h1
          · rename_i h; exact absurd h h2
          · rfl
        cases hck : check cfg size cur (env i) g rs.gu with
        | mk o rest =>
          obtain ⟨g1, gu1⟩ := rest
          rw [hck] at hc
          simp only at hc
          obtain ⟨ho, hgu⟩ := hc
          subst hgu
          have hrs : ({ tc := rs.tc, gu := rs.gu } : RS) = rs := rfl
          cases hv : vd cfg size cur (env i) with
          | accept =>
            rw [hv] at ho; simp only [outOf] at ho; subst ho
            obtain ⟨k, q', g', e1, e2, e3⟩ := ih g1 rs true
            refine ⟨i :: k, q', g', ?_, ?_, ?_⟩
            · have h1 := ti.noTimeout; have h2 := ti.noForeign
              split
              · rename_i h; exact absurd h h1
              · rename_i h; exact absurd h h2
              · simp only [hck, hrs, e1]
            · simp only [e2]
            · intro j hj
              simp only [List.mem_cons] at hj ⊢
              rcases hj with hj | hj
              · exact Or.inl hj
              · exact Or.inr (e3 j hj)
          | ignore =>
            rw [hv] at ho; simp only [outOf] at ho; subst ho
            obtain ⟨k, q', g', e1, e2, e3⟩ := ih g1 rs false
            refine ⟨k, q', g', ?_, e2, fun j hj => List.mem_cons_of_mem _ (e3 j hj)⟩
            have h1 := ti.noTimeout; have h2 := ti.noForeign
            split
            · rename_i h; exact absurd h h1
            · rename_i h; exact absurd h h2
            · simp only [hck, hrs, e1]
          | quit =>
            rw [hv] at ho; simp only [outOf] at ho; subst ho
            obtain ⟨k, q', g', e1, e2, e3⟩ := ih g1 rs true
            refine ⟨k, q', g', ?_, e2, fun j hj => List.mem_cons_of_mem _ (e3 j hj)⟩
            have h1 := ti.noTimeout; have h2 := ti.noForeign
            split
            · rename_i h; exact absurd h h1
            · rename_i h; exact absurd h h2
            · simp only [hck, hrs, e1]
          | timeout =>
            exfalso
            unfold vd at hv
            split at hv
            · cases hv
            · split at hv <;> cases hv
      · simp only [hd, Bool.false_eq_true, if_false]
        obtain ⟨k, q', g', e1, e2, e3⟩ := ih g rs false
        refine ⟨i :: k, q', g', by simp only [e1], by simp only [e2], ?_⟩
        intro j hj
        simp only [List.mem_cons] at hj ⊢
        rcases hj with hj | hj
        · exact Or.inl hj
        · exact Or.inr (e3 j hj)


theorem wfs_sim (cfg : Cfg) (size : C → Nat) (cur : C) (env : Nat → EnvRes C σ)
    : ∀ (L : List Nat) (g : Side C) (rs : RS), (∀ i ∈ L, Tame cfg cur (env i)) →
      ∃ g', wfs cfg size cur env L g rs = .inl (R.wfs (fun i => vd cfg size cur (env i)) L, g') := by
  intro L
  induction L with
  | nil => intro g rs _; exact ⟨g, rfl⟩
  | cons i L ih' =>
    intro g rs hL
    have ih : ∀ (g : Side C) (rs : RS), ∃ g', wfs cfg size cur env L g rs = .inl (R.wfs (fun i => vd cfg size cur (env i)) L, g') :=
      fun g rs => ih' g rs (fun j hj => hL j (List.mem_cons_of_mem _ hj))
    simp only [wfs, R.wfs]
    have ti := hL i List.mem_cons_self
    have hc := check_tame cfg size cur (env i) g rs.gu ti
    have h1 := ti.noTimeout; have h2 := ti.noForeign
    cases hck : check cfg size cur (env i) g rs.gu with
    | mk o rest =>
      obtain ⟨g1, gu1⟩ := rest
      rw [hck] at hc
      simp only at hc
      obtain ⟨ho, hgu⟩ := hc
      subst hgu
      have hrs : ({ tc := rs.tc, gu := rs.gu } : RS) = rs := rfl
      split
      · rename_i h; exact absurd h h1
      · rename_i h; exact absurd h h2
      · by_cases ha : vd cfg size cur (env i) = .accept
        · rw [ha] at ho; simp only [outOf] at ho; subst ho
          exact ⟨g1, by simp [hck, ha]⟩
        · have hor : o = .ignore ∨ o = .quit := by
            rw [ho]
            generalize vd cfg size cur (env i) = v at ha
            cases v <;> simp_all [outOf]
          obtain ⟨g', e1⟩ := ih g1 rs
          refine ⟨g', ?_⟩
          rcases hor with h | h <;> subst h <;> simp [hck, hrs, e1, ha]

/-- the round of the driver model computes the skeleton's answer -/
theorem roundLoop_sim (MAXT : Nat) (cfg : Cfg) (size : C → Nat) (pkey : Nat) (cur : C) (env : Nat → EnvRes C σ)
    (done : Nat → Nat → Bool) (m : Nat) (ht : ∀ i, i < m → Tame cfg cur (env i)) :
    ∀ (fuel t : Nat) (futs : List Nat) (g : Side C) (rs : RS), t < m → m - t ≤ fuel → (∀ i ∈ futs, i < m) →
      ∃ g', roundLoop cfg size pkey cur env (fun t => decide (t < m)) done fuel t futs g rs =
        .inl (R.loop MAXT (fun i => vd cfg size cur (env i)) done m t futs rs.tc, g') := by
  intro fuel
  induction fuel with
  | zero => intro t futs g rs h1 h2; omega
  | succ f ih =>
    intro t futs g rs h1 h2 hf
    simp only [roundLoop]
    unfold R.loop
    obtain ⟨k, q', g1, e1, e2, e3⟩ := processDone_sim MAXT cfg size cur env (done t) futs g rs false
      (fun i hi => ht i (hf i hi))
    rw [e1, e2]
    simp only
    have hk : ∀ i ∈ k, i < m := fun i hi => hf i (e3 i hi)
    have hkt : ∀ i ∈ k ++ [t], i < m := by
      intro i hi
      simp only [List.mem_append, List.mem_singleton] at hi
      rcases hi with hi | hi
      · exact hk i hi
      · omega
    by_cases hq : q' = true
    · simp only [hq, if_true]
      exact wfs_sim cfg size cur env k g1 rs (fun i hi => ht i (hk i hi))
    · simp only [hq, Bool.false_eq_true, if_false]
      by_cases hend : t + 1 ≥ m
      · have : decide (t + 1 < m) = false := by simp; omega
        simp only [this, Bool.false_eq_true, if_false, hend, dite_true]
        exact wfs_sim cfg size cur env (k ++ [t]) _ rs (fun i hi => ht i (hkt i hi))
      · have : decide (t + 1 < m) = true := by simp; omega
        simp only [this, if_true, hend, dite_false]
        exact ih (t+1) (k ++ [t]) _ rs (by omega) (by omega) hkt

/-- C02 at the level of the driver model: for every schedule oracle, the round of well-behaved candidates returns
    the first interesting candidate of the enumeration order -/
theorem round_winner_eq_seq (cfg : Cfg) (size : C → Nat) (pkey : Nat) (cur : C) (env : Nat → EnvRes C σ)
    (done : Nat → Nat → Bool) (m : Nat) (hm : 0 < m) (ht : ∀ i, i < m → Tame cfg cur (env i))
    (hstop : ∀ i j, i < j → j < m → (env i).pr = .stop → (env j).pr = .stop)
    (fuel : Nat) (hf : m ≤ fuel) (g : Side C) :
    ∃ g', roundLoop cfg size pkey cur env (fun t => decide (t < m)) done fuel 0 [] g {} =
      .inl (R.seqFirst (fun i => vd cfg size cur (env i)) m 0, g') := by
  -- outside [0, m) the verdicts do not matter: replace them by QUIT so that the contract holds everywhere
  let v : Nat → R.Verdict := fun i => if i < m then vd cfg size cur (env i) else .quit
  obtain ⟨g', e⟩ := roundLoop_sim cfg.maxTimeouts cfg size pkey cur env done m ht fuel 0 [] g {} hm (by omega) (by simp)
  refine ⟨g', ?_⟩
  rw [e]
  congr 1
  have wb : R.WB v := by
    constructor
    · intro i hv
      simp only [v] at hv
      split at hv
      · unfold vd at hv
        split at hv
        · cases hv
        · split at hv <;> cases hv
      · cases hv
    · intro i j hij hq
      simp only [v] at hq ⊢
      by_cases hj : j < m
      · have him : i < m := by omega
        simp only [him, if_true] at hq
        simp only [hj, if_true]
        have hi : (env i).pr = .stop := by
          unfold vd at hq
          split at hq
          · cases hq
          · split at hq
            · assumption
            · cases hq
        have hjs := hstop i j hij hj hi
        unfold vd
        have : isAccept cfg size cur (env j) = false := by
          unfold isAccept; simp [hjs]
        simp [this, hjs]
      · simp [hj]
  have e1 : R.loop cfg.maxTimeouts (fun i => vd cfg size cur (env i)) done m 0 [] ({} : RS).tc =
      R.loop cfg.maxTimeouts v done m 0 [] 0 := R.loop_congr _ _ _ done m (fun i hi => by simp [v, hi]) _ 0 [] 0 rfl hm (by simp)
  have e2 : R.seqFirst (fun i => vd cfg size cur (env i)) m 0 = R.seqFirst v m 0 :=
    R.seqFirst_congr _ _ m (fun i hi => by simp [v, hi]) _ 0 rfl
  rw [e1, e2, R.round_par_eq_seq cfg.maxTimeouts v wb done m hm 0]

end Cvise.D
