import Cvise.Model.Passes
/-! C07: candidates are genuine, local edits — theorems over the pass models -/
namespace Cvise.P
open Cvise Cvise.M Cvise.D

/-! ### OK ⇒ differs, by the `prog != prog2` guards -/

theorem balLoop_ok_differs (cfg : BalCfg) (s : Text) : ∀ (fuel : Nat) (st : Span) (out : Text) (st' : Span),
    balTransformLoop cfg s fuel st = (.ok, out, st') → out ≠ s := by
  intro fuel
  induction fuel with
  | zero => intro st out st' h; simp [balTransformLoop] at h
  | succ f ih =>
    intro st out st' h
    simp only [balTransformLoop] at h
    split at h
    · rename_i hne
      cases h; exact hne
    · split at h
      · simp at h
      · exact ih _ _ _ h

theorem ternLoop_ok_differs (arg : String) (s : Text) : ∀ (fuel : Nat) (st : TernSt) (out : Text) (st' : TernSt),
    ternTransformLoop arg s fuel st = (.ok, out, st') → out ≠ s := by
  intro fuel
  induction fuel with
  | zero => intro st out st' h; simp [ternTransformLoop] at h
  | succ f ih =>
    intro st out st' h
    simp only [ternTransformLoop] at h
    split at h
    · rename_i hne
      cases h; exact hne
    · split at h
      · simp at h
      · exact ih _ _ _ h

theorem commentsLoop_ok_differs (s : Text) : ∀ (fuel st : Nat) (out : Text) (st' : Nat),
    commentsLoop s fuel st = (.ok, out, st') → out ≠ s := by
  intro fuel
  induction fuel with
  | zero => intro st out st' h; simp [commentsLoop] at h
  | succ f ih =>
    intro st out st' h
    simp only [commentsLoop] at h
    split at h
    · simp at h
    · split at h
      · rename_i hne; cases h; exact hne
      · exact ih _ _ _ h

theorem peep_ok_differs (arg : String) (s : Text) (st : PeepSt) (out : Text) (st' : PeepSt)
    (h : peepTransform arg s st = (.ok, out, st')) : out ≠ s := by
  unfold peepTransform at h
  simp only at h
  split at h
  · simp at h
  · have fin : ∀ s2 : Text, (if s2 ≠ s then ((PR.ok, s2, st) : PR × Text × PeepSt) else (.invalid, s, st)) = (.ok, out, st') → out ≠ s := by
      intro s2 h2
      split at h2
      · rename_i hne; cases h2; exact hne
      · simp at h2
    split at h
    · split at h
      · simp at h
      · split at h
        · simp at h
        · exact fin _ h
    · split at h
      · split at h
        · simp at h
        · split at h
          · simp at h
          · exact fin _ h
      · split at h
        · simp at h
        · exact fin _ h

/-! ### local edits: `take a ++ mid ++ drop b` -/

/-- the shape of a local edit: everything before `a` and from `b` on is the input, byte for byte -/
def LocalEdit (s out : Text) (a b : Nat) (mid : Text) : Prop := out = s.take a ++ mid ++ s.drop b

theorem modPass_local (id : Nat) (rec : List RPiece) (s : Text) (st : ModSt) (out : Text) (st' : ModSt)
    (h : (modPass id rec).transform s st = (.ok, out, st')) :
    ∃ a e r, st.mods[st.index]? = some ((a, e), r) ∧ LocalEdit s out a e r := by
  simp only [modPass] at h
  split at h
  · simp at h
  · rename_i a e r hm
    cases h
    exact ⟨a, e, r, hm, rfl⟩

theorem ternLoop_local (arg : String) (s : Text) : ∀ (fuel : Nat) (st : TernSt) (out : Text) (st' : TernSt),
    ternTransformLoop arg s fuel st = (.ok, out, st') →
    ∃ a b mid, LocalEdit s out a b mid ∧ ∃ k1 k2, mid = (s.take k2).drop k1 := by
  intro fuel
  induction fuel with
  | zero => intro st out st' h; simp [ternTransformLoop] at h
  | succ f ih =>
    intro st out st' h
    simp only [ternTransformLoop] at h
    split at h
    · cases h
      exact ⟨_, _, _, rfl, _, _, rfl⟩
    · split at h
      · simp at h
      · exact ih _ _ _ h

theorem peep_local (arg : String) (s : Text) (st : PeepSt) (out : Text) (st' : PeepSt)
    (h : peepTransform arg s st = (.ok, out, st')) : ∃ a b mid, LocalEdit s out a b mid := by
  unfold peepTransform at h
  simp only at h
  split at h
  · simp at h
  · have fin : ∀ s2 : Text, (∃ a b mid, LocalEdit s s2 a b mid) →
        (if s2 ≠ s then ((PR.ok, s2, st) : PR × Text × PeepSt) else (.invalid, s, st)) = (.ok, out, st') →
        ∃ a b mid, LocalEdit s out a b mid := by
      intro s2 hl h2
      split at h2
      · cases h2; exact hl
      · simp at h2
    split at h
    · split at h
      · simp at h
      · split at h
        · simp at h
        · exact fin _ ⟨_, _, _, rfl⟩ h
    · split at h
      · split at h
        · simp at h
        · split at h
          · simp at h
          · exact fin _ ⟨_, _, _, rfl⟩ h
      · split at h
        · simp at h
        · exact fin _ ⟨_, _, _, rfl⟩ h

/-! ### balanced: the generated recipes are `take (m0+k) ++ const ++ drop (m1+j)` -/

/-- a recipe of the shape every balanced argument uses -/
def balShape (r : Recipe) : Option (Int × String × Int) :=
  match r with
  | [.slice (.abs 0) (.m 0 k), .slice (.m 1 j) .len] => some (k, "", j)
  | [.slice (.abs 0) (.m 0 k), .const c, .slice (.m 1 j) .len] => some (k, c, j)
  | _ => none

/-- `replace_only`: `s[0:a] + s[a+1:b-1] + s[b:]` -/
def onlyShape (r : Recipe) : Bool :=
  match r with
  | [.slice (.abs 0) (.m 0 0), .slice (.m 0 1) (.m 1 (-1)), .slice (.m 1 0) .len] => true
  | _ => false

/-- every generated balanced recipe has one of the two shapes (finite table, regenerated) -/
theorem balanced_recipes_shaped :
    Gen.balancedCfg.all (fun x => (balShape x.2.2.2.2).isSome || onlyShape x.2.2.2.2) = true := by decide +kernel

theorem pySlice_zero (s : Text) (b : Nat) : pySlice s 0 b = s.take b := by simp [pySlice]
theorem pySlice_len (s : Text) (a : Nat) : pySlice s a s.length = s.drop a := by simp [pySlice]

theorem balShape_eval (r : Recipe) (k j : Int) (c : String) (h : balShape r = some (k, c, j)) (s : Text) (a b : Nat) :
    r.eval s [a, b] = s.take ((a : Int) + k).toNat ++ c.toList ++ s.drop ((b : Int) + j).toNat := by
  unfold balShape at h
  split at h
  · cases h
    simp [Recipe.eval, Piece.eval, Bound.eval, pySlice_zero, pySlice_len]
  · cases h
    simp [Recipe.eval, Piece.eval, Bound.eval, pySlice_zero, pySlice_len]
  · cases h

/-- balanced candidates are local edits whenever the recipe has the first shape -/
theorem balLoop_local (cfg : BalCfg) (k j : Int) (c : String) (hs : balShape cfg.recipe = some (k, c, j)) (s : Text) :
    ∀ (fuel : Nat) (st : Span) (out : Text) (st' : Span),
    balTransformLoop cfg s fuel st = (.ok, out, st') →
    ∃ a b, LocalEdit s out a b c.toList := by
  intro fuel
  induction fuel with
  | zero => intro st out st' h; simp [balTransformLoop] at h
  | succ f ih =>
    intro st out st' h
    simp only [balTransformLoop] at h
    split at h
    · cases h
      exact ⟨_, _, balShape_eval cfg.recipe k j c hs s _ _⟩
    · split at h
      · simp at h
      · exact ih _ _ _ h

/-! ### deletions yield subsequences -/

theorem take_drop_sublist (s : Text) (a b : Nat) (h : a ≤ b) : (s.take a ++ s.drop b).Sublist s := by
  conv => rhs; rw [← List.take_append_drop a s]
  apply List.Sublist.append_left
  have : s.drop b = (s.drop a).drop (b - a) := by rw [List.drop_drop]; congr 1; omega
  rw [this]; exact List.drop_sublist _ _

theorem take_mid_drop_sublist (s : Text) (a k1 k2 b : Nat) (h1 : a ≤ k1) (h2 : k2 ≤ b) (hab : a ≤ b) :
    (s.take a ++ (s.take k2).drop k1 ++ s.drop b).Sublist s := by
  by_cases hk : k1 ≤ k2
  · -- s = take a ++ (drop a).take (k1-a) … : build from the three disjoint windows
    have e : s = s.take a ++ ((s.drop a).take (k1 - a) ++ ((s.take k2).drop k1 ++ ((s.drop k2).take (b - k2) ++ s.drop b))) := by
      have h3 : (s.take k2).drop k1 = (s.drop k1).take (k2 - k1) := by
        rw [List.drop_take]
      rw [h3]
      have d1 : s.drop a = (s.drop a).take (k1 - a) ++ (s.drop a).drop (k1 - a) := (List.take_append_drop _ _).symm
      have d2 : (s.drop a).drop (k1 - a) = s.drop k1 := by rw [List.drop_drop]; congr 1; omega
      have d3 : s.drop k1 = (s.drop k1).take (k2 - k1) ++ (s.drop k1).drop (k2 - k1) := (List.take_append_drop _ _).symm
      have d4 : (s.drop k1).drop (k2 - k1) = s.drop k2 := by rw [List.drop_drop]; congr 1; omega
      have d5 : s.drop k2 = (s.drop k2).take (b - k2) ++ (s.drop k2).drop (b - k2) := (List.take_append_drop _ _).symm
      have d6 : (s.drop k2).drop (b - k2) = s.drop b := by rw [List.drop_drop]; congr 1; omega
      conv => lhs; rw [← List.take_append_drop a s, d1, d2, d3, d4, d5, d6]
    conv => rhs; rw [e]
    rw [List.append_assoc]
    apply List.Sublist.append_left
    apply List.Sublist.trans _ (List.sublist_append_right _ _)
    apply List.Sublist.append_left
    exact List.sublist_append_right _ _
  · have : (s.take k2).drop k1 = [] := by
      apply List.drop_eq_nil_of_le
      simp; omega
    rw [this, List.append_nil]
    exact take_drop_sublist s a b (by omega)

end Cvise.P
