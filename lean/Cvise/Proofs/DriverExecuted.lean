import Cvise.Proofs.DriverWorked
/-! C20: per pass, "total executed" equals the number of candidates that were started (scheduling events) for that pass -/
namespace Cvise.D
set_option linter.unusedSectionVars false
set_option linter.unusedSimpArgs false
variable {C σ : Type} [DecidableEq C]

/-- the passes of the scheduling events of a log -/
def scheds (log : List (Ev C)) : List Nat :=
  log.filterMap fun e => match e with
    | .sched p _ => some p
    | _ => none

theorem scheds_append (a b : List (Ev C)) : scheds (a ++ b) = scheds a ++ scheds b := by
  simp [scheds, List.filterMap_append]

def startedOf (p : Nat) (log : List (Ev C)) : Nat := ((scheds log).filter (fun q => q = p)).length

theorem check_scheds (cfg : Cfg) (size : C → Nat) (cur : C) (e : EnvRes C σ) (g g' : Side C) (gu gu' : Bool) (o : Outcome)
    (h : check cfg size cur e g gu = (o, g', gu')) : scheds g'.log = scheds g.log := by
  unfold check reportBug saveExtra at h
  grind [scheds_append, scheds]

theorem saveExtra_scheds (cfg : Cfg) (g : Side C) : scheds (saveExtra cfg g).log = scheds g.log := by
  unfold saveExtra
  split
  · simp [scheds_append, scheds]
  · rfl

theorem processDone_scheds (cfg : Cfg) (size : C → Nat) (cur : C) (env : Nat → EnvRes C σ) (done : Nat → Bool) :
    ∀ (L : List Nat) (g : Side C) (rs : RS) (q : Bool),
      scheds (RRes.side (processDone cfg size cur env done L g rs q)).log = scheds g.log := by
  intro L
  induction L with
  | nil => intro g rs q; simp [processDone, RRes.side]
  | cons i L ih =>
    intro g rs q
    simp only [processDone]
    have keep : ∀ (g1 : Side C) (rs1 : RS) (q1 : Bool), scheds g1.log = scheds g.log →
        scheds (RRes.side (match processDone cfg size cur env done L g1 rs1 q1 with
          | .inl ((k, rs, q), g) => (.inl ((i :: k, rs, q), g) : RRes C (List Nat × RS × Bool))
          | .inr e => .inr e)).log = scheds g.log := by
      intro g1 rs1 q1 h1
      have := ih g1 rs1 q1
      generalize processDone cfg size cur env done L g1 rs1 q1 = r at this ⊢
      rcases r with ⟨⟨k, a, b⟩, g'⟩ | ⟨er, g'⟩ <;> simp only [RRes.side] at this ⊢ <;> rw [this, h1]
    split
    · exact ih g rs q
    · split
      · split
        · rw [ih]; exact saveExtra_scheds cfg { g with timeouts := g.timeouts + 1 }
        · simp [RRes.side]
        · cases hc : check cfg size cur (env i) g rs.gu with
          | mk o rest =>
            obtain ⟨g1, gu1⟩ := rest
            have hcm := check_scheds cfg size cur (env i) g g1 rs.gu gu1 o hc
            cases o with
            | accept => exact keep _ _ _ hcm
            | ignore => simp only; rw [ih]; exact hcm
            | quit => simp only; rw [ih]; exact hcm
            | raise e => simp only [RRes.side]; exact hcm
      · exact keep _ _ _ rfl

theorem wfs_scheds (cfg : Cfg) (size : C → Nat) (cur : C) (env : Nat → EnvRes C σ) :
    ∀ (L : List Nat) (g : Side C) (rs : RS), scheds (RRes.side (wfs cfg size cur env L g rs)).log = scheds g.log := by
  intro L
  induction L with
  | nil => intro g rs; simp [wfs, RRes.side]
  | cons i L ih =>
    intro g rs
    simp only [wfs]
    split
    · exact ih g rs
    · simp [RRes.side]
    · cases hc : check cfg size cur (env i) g rs.gu with
      | mk o rest =>
        obtain ⟨g1, gu1⟩ := rest
        have hcm := check_scheds cfg size cur (env i) g g1 rs.gu gu1 o hc
        cases o with
        | accept => simp only [RRes.side]; exact hcm
        | raise e => simp only [RRes.side]; exact hcm
        | ignore => simp only; rw [ih]; exact hcm
        | quit => simp only; rw [ih]; exact hcm

theorem startedOf_sched (p : Nat) (l : List (Ev C)) (q o : Nat) :
    startedOf p (l ++ [Ev.sched q o]) = startedOf p l + (if q = p then 1 else 0) := by
  unfold startedOf
  rw [scheds_append]
  simp only [scheds, List.filterMap_cons, List.filterMap_nil, List.filter_append, List.length_append]
  by_cases hq : q = p <;> simp [hq]

/-- a round moves "executed" of the current pass and the scheduling events of `pkey` together -/
theorem roundLoop_executed (cfg : Cfg) (size : C → Nat) (pkey : Nat) (cur : C) (env : Nat → EnvRes C σ) (more : Nat → Bool)
    (done : Nat → Nat → Bool) : ∀ (fuel t : Nat) (futs : List Nat) (g : Side C) (rs : RS), g.curPass = pkey →
      ∀ p, (RRes.side (roundLoop cfg size pkey cur env more done fuel t futs g rs)).executed p + startedOf p g.log =
           g.executed p + startedOf p (RRes.side (roundLoop cfg size pkey cur env more done fuel t futs g rs)).log := by
  intro fuel
  induction fuel with
  | zero => intro t futs g rs _ p; simp only [roundLoop, RRes.side]
  | succ f ih =>
    intro t futs g rs hk p
    simp only [roundLoop]
    have pd := processDone_ok cfg size cur env (done t) futs g rs false
    have ps := processDone_scheds cfg size cur env (done t) futs g rs false
    generalize processDone cfg size cur env (done t) futs g rs false = r at pd ps ⊢
    unfold ScanOK at pd
    rcases r with ⟨⟨k, rs1, q⟩, g1⟩ | ⟨er, g1⟩
    · simp only [RRes.side] at pd ps
      simp only
      obtain ⟨f1, _, f3, _⟩ := pd
      have hs1 : startedOf p g1.log = startedOf p g.log := by unfold startedOf; rw [ps]
      split
      · have w := wfs_ok cfg size cur env k g1 rs1
        have ws := wfs_scheds cfg size cur env k g1 rs1
        have : startedOf p (RRes.side (wfs cfg size cur env k g1 rs1)).log = startedOf p g.log := by
          unfold startedOf; rw [ws, ps]
        rw [this, w.1, f1]
      · -- candidate t is started: executed of the current pass and one scheduling event for pkey
        have hb : bump g1.executed g1.curPass p = g.executed p + (if pkey = p then 1 else 0) := by
          unfold bump; rw [f1, f3, hk]
          by_cases hp : p = pkey
          · simp [hp]
          · have : ¬ pkey = p := fun h => hp h.symm
            simp [hp, this]
        have hl : startedOf p (g1.log ++ [Ev.sched pkey (t+1)]) = startedOf p g.log + (if pkey = p then 1 else 0) := by
          rw [startedOf_sched, hs1]
        split
        · have := ih (t+1) (k ++ [t]) { g1 with executed := bump g1.executed g1.curPass, log := g1.log ++ [.sched pkey (t+1)] } rs1
            (by simp only; rw [f3, hk]) p
          simp only at this
          rw [hb, hl] at this
          omega
        · have w := wfs_ok cfg size cur env (k ++ [t])
            { g1 with executed := bump g1.executed g1.curPass, log := g1.log ++ [.sched pkey (t+1)] } rs1
          have ws := wfs_scheds cfg size cur env (k ++ [t])
            { g1 with executed := bump g1.executed g1.curPass, log := g1.log ++ [.sched pkey (t+1)] } rs1
          simp only at w ws
          have : startedOf p (RRes.side (wfs cfg size cur env (k ++ [t])
              { g1 with executed := bump g1.executed g1.curPass, log := g1.log ++ [.sched pkey (t+1)] } rs1)).log =
              startedOf p g.log + (if pkey = p then 1 else 0) := by
            rw [← hl]; unfold startedOf; rw [ws]
          rw [this, w.1, hb]
          omega
    · simp only [RRes.side] at pd ps ⊢
      have : startedOf p g1.log = startedOf p g.log := by unfold startedOf; rw [ps]
      rw [this, pd.1]

end Cvise.D

namespace Cvise.D
set_option linter.unusedSectionVars false
variable {C σ : Type} [DecidableEq C] [Inhabited σ] [Inhabited C]

/-- the invariant: for every pass, executed = candidates started for it -/
def EInv (x : St C) : Prop := ∀ p, x.side.executed p = startedOf p x.side.log

theorem startedOf_nonsched (p : Nat) (l m : List (Ev C)) (h : scheds m = []) : startedOf p (l ++ m) = startedOf p l := by
  unfold startedOf; rw [scheds_append, h]; simp

theorem fileLoop_executed (cfg : Cfg) (W : World C) (dn : Sched) (P : PassI C σ) (k startSize : Nat) :
    ∀ (fuel rid : Nat) (s : σ) (succ : Nat) (x : St C), EInv x → x.side.curPass = P.key →
      EInv (LRes.st' (fileLoop cfg W dn P k startSize fuel rid s succ x)) ∧
      (LRes.st' (fileLoop cfg W dn P k startSize fuel rid s succ x)).side.curPass = P.key := by
  intro fuel
  induction fuel with
  | zero => intro rid s succ x hx hc; simp only [fileLoop, LRes.st']; exact ⟨hx, hc⟩
  | succ f ih =>
    intro rid s succ x hx hc
    simp only [fileLoop]
    split
    · simp only [LRes.st']; exact ⟨hx, hc⟩
    · have rl := roundLoop_frame cfg W.size P.key (x.disk.getD k default)
        (envOf W P x.disk k (x.disk.getD k default) s rid)
        (fun t => (nthState P (x.disk.getD k default) s t).isSome) (dn rid) (cfg.giveup + 1000) 0 [] x.side {}
      have re := roundLoop_executed cfg W.size P.key (x.disk.getD k default)
        (envOf W P x.disk k (x.disk.getD k default) s rid)
        (fun t => (nthState P (x.disk.getD k default) s t).isSome) (dn rid) (cfg.giveup + 1000) 0 [] x.side {} hc
      generalize roundLoop cfg W.size P.key (x.disk.getD k default) (envOf W P x.disk k (x.disk.getD k default) s rid)
        (fun t => (nthState P (x.disk.getD k default) s t).isSome) (dn rid) (cfg.giveup + 1000) 0 [] x.side {} = r at rl re ⊢
      -- any state whose statistics are those of the round's result plus events that start nothing
      have after : ∀ (g : Side C), (∀ p, g.executed p + startedOf p x.side.log = x.side.executed p + startedOf p g.log) →
          g.curPass = x.side.curPass → ∀ y : St C, y.side.executed = g.executed → y.side.curPass = g.curPass →
          (∃ m, scheds m = [] ∧ y.side.log = g.log ++ m) → EInv y ∧ y.side.curPass = P.key := by
        intro g h1 h2 y e1 e2 ⟨m, hm, hl⟩
        refine ⟨fun p => ?_, by rw [e2, h2, hc]⟩
        have := h1 p
        rw [e1, hl, startedOf_nonsched p g.log m hm]
        have := hx p
        omega
      have hT : ∀ (ex : Option Exit) (d : List C) (q f : Nat) (c : C), scheds ((match ex with
          | some e => [Ev.tested d e]
          | none => ([] : List (Ev C))) ++ [Ev.commit q f c]) = [] := by
        intro ex d q f c
        cases ex <;> simp [scheds]
      rcases r with ⟨⟨_ | i, g⟩⟩ | ⟨e, g⟩
      · simp only [RRes.side] at rl re
        simp only [LRes.st']
        exact after g re rl.2 _ rfl rfl ⟨[], rfl, by simp⟩
      · simp only [RRes.side] at rl re
        simp only
        have aft : ∀ y : St C, y.side.executed = g.executed → y.side.curPass = g.curPass →
            (∃ m, scheds m = [] ∧ y.side.log = g.log ++ m) → EInv y ∧ y.side.curPass = P.key := after g re rl.2
        split
        · simp only [LRes.st']
          exact aft _ rfl rfl ⟨_, hT _ _ _ _ _, List.append_assoc _ _ _⟩
        · split
          · simp only [LRes.st']
            exact aft _ rfl rfl ⟨_, hT _ _ _ _ _, List.append_assoc _ _ _⟩
          · split
            · simp only [LRes.st']
              exact aft _ rfl rfl ⟨_, hT _ _ _ _ _, List.append_assoc _ _ _⟩
            · have := aft (commitSt x k (envOf W P x.disk k (x.disk.getD k default) s rid i).cand
                  { g with worked := bump g.worked g.curPass,
                           log := g.log ++ (match (envOf W P x.disk k (x.disk.getD k default) s rid i).exit with
                             | some ex => [Ev.tested (x.disk.set k (envOf W P x.disk k (x.disk.getD k default) s rid i).cand) ex]
                             | none => []) ++ [Ev.commit P.key k (envOf W P x.disk k (x.disk.getD k default) s rid i).cand] })
                rfl rfl ⟨_, hT _ _ _ _ _, List.append_assoc _ _ _⟩
              exact ih _ _ _ _ this.1 this.2
      · simp only [RRes.side] at rl re
        simp only [LRes.st']
        exact after g re rl.2 _ rfl rfl ⟨[], rfl, by simp⟩

theorem fileStep_executed (cfg : Cfg) (W : World C) (dn : Sched) (P : PassI C σ) (fuel : Nat) (acc : LRes C) (k : Nat)
    (h : EInv (LRes.st' acc) ∧ (LRes.st' acc).side.curPass = P.key) :
    EInv (LRes.st' (fileStep cfg W dn P fuel acc k)) ∧ (LRes.st' (fileStep cfg W dn P fuel acc k)).side.curPass = P.key := by
  unfold fileStep
  cases acc with
  | inr e => exact h
  | inl xr =>
    obtain ⟨x, rid⟩ := xr
    simp only [LRes.st'] at h
    simp only
    split
    · exact h
    · split
      · simp only [LRes.st']
        refine ⟨fun p => ?_, h.2⟩
        have := h.1 p
        simp only
        rw [startedOf_nonsched p x.side.log _ (by simp [scheds])]
        exact this
      · have hy : EInv (LRes.st' (newLoop cfg W dn P k fuel rid x (x.disk.getD k default))) ∧
            (LRes.st' (newLoop cfg W dn P k fuel rid x (x.disk.getD k default))).side.curPass = P.key := by
          unfold newLoop
          have hr : EInv (fmtStep W P x k (x.disk.getD k default)).1 ∧ (fmtStep W P x k (x.disk.getD k default)).1.side.curPass = P.key := by
            unfold EInv; rw [fmtStep_side]; exact h
          split
          · exact hr
          · split
            · exact hr
            · exact fileLoop_executed cfg W dn P k _ fuel rid _ 0 _ hr.1 hr.2
        generalize newLoop cfg W dn P k fuel rid x (x.disk.getD k default) = r at hy ⊢
        rcases r with ⟨y, rid'⟩ | ⟨e, y⟩
        · simp only [LRes.st'] at hy
          simp only
          split <;> simp only [LRes.st'] <;> exact hy
        · exact hy

theorem runPass_executed (cfg : Cfg) (W : World C) (dn : Sched) (P : PassI C σ) (order : List Nat) (fuel rid : Nat) (x : St C)
    (h : EInv x) : EInv (LRes.st' (runPass cfg W dn P order fuel rid x)) := by
  unfold runPass
  simp only
  have h0 : EInv ({ x with leftover := false, side := { x.side with curPass := P.key } } : St C) ∧
      ({ x with leftover := false, side := { x.side with curPass := P.key } } : St C).side.curPass = P.key := ⟨h, rfl⟩
  split
  · exact h0.1
  · generalize ({ x with leftover := false, side := { x.side with curPass := P.key } } : St C) = x0 at h0 ⊢
    have : ∀ (order : List Nat) (acc : LRes C), (EInv (LRes.st' acc) ∧ (LRes.st' acc).side.curPass = P.key) →
        (EInv (LRes.st' (order.foldl (fileStep cfg W dn P fuel) acc)) ∧
         (LRes.st' (order.foldl (fileStep cfg W dn P fuel) acc)).side.curPass = P.key) := by
      intro order
      induction order with
      | nil => intro acc h; exact h
      | cons k ks ih => intro acc h; exact ih _ (fileStep_executed cfg W dn P fuel acc k h)
    exact (this order (.inl (x0, rid)) h0).1

theorem runPasses_executed (cfg : Cfg) (W : World C) (dn : Sched) (orderOf : List C → List Nat) (fuel : Nat) :
    ∀ (ps : List (PassI C σ)) (acc : LRes C), EInv (LRes.st' acc) → EInv (LRes.st' (runPasses cfg W dn orderOf fuel ps acc)) := by
  intro ps
  induction ps with
  | nil => intro acc h; exact h
  | cons P ps ih =>
    intro acc h
    simp only [runPasses]
    cases acc with
    | inr e => exact h
    | inl xr => obtain ⟨x, rid⟩ := xr; exact ih _ (runPass_executed cfg W dn P _ fuel rid x h)

theorem mainLoop_executed (cfg : Cfg) (W : World C) (dn : Sched) (orderOf : List C → List Nat) (fuel : Nat) (ps : List (PassI C σ)) :
    ∀ (rounds : Nat) (acc : LRes C), EInv (LRes.st' acc) → EInv (LRes.st' (mainLoop cfg W dn orderOf fuel ps rounds acc)) := by
  intro rounds
  induction rounds with
  | zero => intro acc h; exact h
  | succ n ih =>
    intro acc h
    simp only [mainLoop]
    cases acc with
    | inr e => exact h
    | inl xr =>
      obtain ⟨x, rid⟩ := xr
      simp only
      split
      · exact h
      · have h2 := runPasses_executed cfg W dn orderOf fuel ps (.inl (x, rid)) h
        generalize runPasses cfg W dn orderOf fuel ps (.inl (x, rid)) = r at h2 ⊢
        rcases r with ⟨y, rid'⟩ | ⟨e, y⟩
        · simp only
          split
          · exact h2
          · exact ih _ h2
        · exact h2

/-- C20 `executed_eq`: at the end of every reduction (any outcome, schedule, faults), for every pass "total executed"
    equals the number of candidates started for that pass -/
theorem reduce_executed_eq (cfg : Cfg) (W : World C) (dn : Sched) (orderOf : List C → List Nat) (fuel : Nat)
    (first main last : List (PassI C σ)) (x : St C) (h : EInv x) (p : Nat) :
    (LRes.st' (reduce cfg W dn orderOf fuel first main last x)).side.executed p =
    startedOf p (LRes.st' (reduce cfg W dn orderOf fuel first main last x)).side.log := by
  unfold reduce
  exact runPasses_executed cfg W dn orderOf fuel last _
    (mainLoop_executed cfg W dn orderOf fuel main _ _ (runPasses_executed cfg W dn orderOf fuel first (.inl (x, 0)) h)) p

end Cvise.D
