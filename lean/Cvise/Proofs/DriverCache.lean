import Cvise.Proofs.DriverPar
import Cvise.Proofs.DriverSafe
/-! C10 for whole runs: with well-behaved passes, no scripted faults, the replay table keyed on the joint contents and
    futures released before the growth bail-out, a reduction with the table and one without it (`--no-cache`) end with
    the same files — for every pair of schedules, one for each run. -/
namespace Cvise.D
set_option linter.unusedSectionVars false
set_option linter.unnecessarySimpa false
variable {C σ : Type} [DecidableEq C] [Inhabited σ] [Inhabited C]

/-- the interestingness test is a deterministic function of the files: no per-invocation fault is scripted -/
def NoFaults (W : World C) : Prop := ∀ r o, W.fault r o = none

/-- the same settings with `--no-cache` -/
def noCache (cfg : Cfg) : Cfg := { cfg with cacheOn := false }

theorem envOf_rid (W : World C) (hnf : NoFaults W) (P : PassI C σ) (disk : List C) (k : Nat) (cur : C) (s : σ) (rid rid' : Nat) :
    envOf W P disk k cur s rid = envOf W P disk k cur s rid' := by
  funext i
  unfold envOf
  rw [hnf rid, hnf rid']

theorem vd_noCache (cfg : Cfg) (size : C → Nat) (cur : C) (e : EnvRes C σ) : vd (noCache cfg) size cur e = vd cfg size cur e := rfl

theorem Tame.noCache {cfg : Cfg} {cur : C} {e : EnvRes C σ} (h : Tame cfg cur e) : Tame (noCache cfg) cur e :=
  ⟨h.1, h.2, h.3, h.4, h.5, h.6⟩

theorem GoodPass.noCache {cfg : Cfg} {W : World C} {P : PassI C σ} (hg : GoodPass cfg W P) : GoodPass (noCache cfg) W P := by
  intro disk k s rid
  obtain ⟨m, hm0, hmf, hmore, htame, hstop⟩ := hg disk k s rid
  exact ⟨m, hm0, hmf, hmore, fun i hi => (htame i hi).noCache, hstop⟩

/-- both runs ended normally, with the same files and no futures left over -/
def OkSame (r r' : LRes C) : Prop :=
  match r, r' with
  | .inl (x, _), .inl (y, _) => x.disk = y.disk ∧ x.leftover = false ∧ y.leftover = false
  | _, _ => False

/-- the rounds on one file are a function of the files: round ids, schedules, statistics and logs do not matter -/
theorem fileLoop_disk_fun (cfg : Cfg) (hr : cfg.releaseBeforeBail = true) (W : World C) (hnf : NoFaults W)
    (P : PassI C σ) (hg : GoodPass cfg W P) (d d' : Sched) (k startSize : Nat) :
    ∀ (fuel rid rid' : Nat) (s : σ) (succ : Nat) (x y : St C), x.disk = y.disk → x.leftover = false → y.leftover = false →
      OkSame (fileLoop cfg W d P k startSize fuel rid s succ x) (fileLoop (noCache cfg) W d' P k startSize fuel rid' s succ y) := by
  intro fuel
  induction fuel with
  | zero => intro rid rid' s succ x y h hx hy; simp only [fileLoop]; exact ⟨h, hx, hy⟩
  | succ f ih =>
    intro rid rid' s succ x y h1 hx hy
    simp only [fileLoop, hx, hy, Bool.false_eq_true, if_false]
    rw [← h1, envOf_rid W hnf P x.disk k (x.disk.getD k default) s rid' rid]
    obtain ⟨m, hm0, hmf, hmore, htame, hstop⟩ := hg x.disk k s rid
    have hmore' : (fun t => (nthState P (x.disk.getD k default) s t).isSome) = (fun t => decide (t < m)) := funext hmore
    simp only [hmore']
    obtain ⟨g1, e1⟩ := round_winner_eq_seq cfg W.size P.key (x.disk.getD k default)
      (envOf W P x.disk k (x.disk.getD k default) s rid) (d rid) m hm0 htame hstop (cfg.giveup + 1000) hmf x.side
    obtain ⟨g2, e2⟩ := round_winner_eq_seq (noCache cfg) W.size P.key (x.disk.getD k default)
      (envOf W P x.disk k (x.disk.getD k default) s rid) (d' rid') m hm0 (fun i hi => (htame i hi).noCache) hstop
      (cfg.giveup + 1000) hmf y.side
    have e2' : roundLoop (noCache cfg) W.size P.key (x.disk.getD k default) (envOf W P x.disk k (x.disk.getD k default) s rid)
        (fun t => decide (t < m)) (d' rid') ((noCache cfg).giveup + 1000) 0 [] y.side {} =
        .inl (R.seqFirst (fun i => vd cfg W.size (x.disk.getD k default) (envOf W P x.disk k (x.disk.getD k default) s rid i)) m 0, g2) := e2
    rw [e1, e2']
    cases hw : R.seqFirst (fun i => vd cfg W.size (x.disk.getD k default) (envOf W P x.disk k (x.disk.getD k default) s rid i)) m 0 with
    | none => exact ⟨by simpa using h1, by simpa using hx, by simpa using hy⟩
    | some i =>
      simp only
      have hrb : (noCache cfg).releaseBeforeBail = true := hr
      have hgr : (noCache cfg).growth = cfg.growth := rfl
      have hsk : (noCache cfg).skipN = cfg.skipN := rfl
      rw [hrb, hgr, hsk, hr]
      split
      · exact ⟨by simp [commitSt, h1], by simp, by simp⟩
      · split
        · exact ⟨by simp [commitSt, h1], by simp [commitSt, hx], by simp [commitSt, hy]⟩
        · split
          · exact ⟨by simp [commitSt, h1], by simp [commitSt, hx], by simp [commitSt, hy]⟩
          · exact ih _ _ _ _ _ _ (by simp [commitSt, h1]) (by simp [commitSt, hx]) (by simp [commitSt, hy])

theorem newLoop_disk_fun (cfg : Cfg) (hr : cfg.releaseBeforeBail = true) (W : World C) (hnf : NoFaults W)
    (P : PassI C σ) (hg : GoodPass cfg W P) (d d' : Sched) (k fuel rid rid' : Nat) (x y : St C) (before : C)
    (h : x.disk = y.disk) (hx : x.leftover = false) (hy : y.leftover = false) :
    OkSame (newLoop cfg W d P k fuel rid x before) (newLoop (noCache cfg) W d' P k fuel rid' y before) := by
  unfold newLoop
  obtain ⟨c1, c2⟩ := fmtStep_congr W P x y k before h
  have fx := fmtStep_frame W P x k before
  have fy := fmtStep_frame W P y k before
  have lx : (fmtStep W P x k before).1.leftover = false := by rw [fx.2.2]; exact hx
  have ly : (fmtStep W P y k before).1.leftover = false := by rw [fy.2.2]; exact hy
  rw [← c1]
  split
  · exact ⟨c2, lx, ly⟩
  · split
    · exact ⟨c2, lx, ly⟩
    · exact fileLoop_disk_fun cfg hr W hnf P hg d d' k _ fuel rid rid' _ 0 _ _ c2 lx ly

/-- every entry of the replay table is what the pass yields without the table, from any state with those files -/
def CacheOK (cfg : Cfg) (W : World C) (fuel : Nat) (PS : List (PassI C σ)) (cache : List ((Nat × List C × Nat) × C)) : Prop :=
  ∀ (pk : Nat) (J : List C) (k : Nat) (v : C), cache.lookup (pk, J, k) = some v →
    ∀ P ∈ PS, P.key = pk → ∀ (d' : Sched) (rid : Nat) (y : St C), y.disk = J → y.leftover = false →
      ∃ y1 r1, newLoop (noCache cfg) W d' P k fuel rid y (J.getD k default) = .inl (y1, r1) ∧ y1.disk = J.set k v ∧ y1.leftover = false

/-- the run with the table (left) and the run without it (right) -/
def Rel (cfg : Cfg) (W : World C) (fuel : Nat) (PS : List (PassI C σ)) (r r' : LRes C) : Prop :=
  match r, r' with
  | .inl (x, _), .inl (y, _) => x.disk = y.disk ∧ x.leftover = false ∧ y.leftover = false ∧ CacheOK cfg W fuel PS x.cache
  | .inr (e, x), .inr (e', y) => e = e' ∧ x.disk = y.disk
  | _, _ => False

theorem fileStep_cache (cfg : Cfg) (hc : cfg.cacheOn = true) (hj : cfg.jointKey = true) (hr : cfg.releaseBeforeBail = true)
    (W : World C) (hnf : NoFaults W) (PS : List (PassI C σ)) (hkey : ∀ P ∈ PS, ∀ Q ∈ PS, P.key = Q.key → P = Q)
    (P : PassI C σ) (hP : P ∈ PS) (hg : GoodPass cfg W P) (d d' : Sched) (fuel : Nat) (acc acc' : LRes C) (k : Nat)
    (h : Rel cfg W fuel PS acc acc') :
    Rel cfg W fuel PS (fileStep cfg W d P fuel acc k) (fileStep (noCache cfg) W d' P fuel acc' k) := by
  unfold fileStep
  rcases acc with ⟨x, a⟩ | ⟨e, x⟩ <;> rcases acc' with ⟨y, b⟩ | ⟨e', y⟩ <;> simp only [Rel] at h
  · obtain ⟨h1, hx, hy, hok⟩ := h
    have hnc : (noCache cfg).cacheOn = false := rfl
    simp only [hc, hj, hnc, if_true, Bool.false_eq_true, if_false]
    rw [← h1]
    split
    · exact ⟨h1, hx, hy, hok⟩
    · cases hl : x.cache.lookup (P.key, x.disk, k) with
      | some after =>
        simp only
        obtain ⟨y1, r1, e1, hd, hlo⟩ := hok P.key x.disk k after hl P hP rfl d' b y h1.symm hy
        rw [e1]
        exact ⟨by simp [hd], hx, hlo, hok⟩
      | none =>
        simp only
        have hn := newLoop_disk_fun cfg hr W hnf P hg d d' k fuel a b x y (x.disk.getD k default) h1 hx hy
        have hs := newLoop_safe cfg W d P x.disk fuel k a x (x.disk.getD k default) (Or.inl rfl)
        generalize hrx : newLoop cfg W d P k fuel a x (x.disk.getD k default) = r at hn hs ⊢
        generalize newLoop (noCache cfg) W d' P k fuel b y (x.disk.getD k default) = r' at hn ⊢
        rcases r with ⟨x1, a1⟩ | ⟨e1, x1⟩ <;> rcases r' with ⟨y1, b1⟩ | ⟨e2, y1⟩ <;> simp only [OkSame] at hn
        obtain ⟨g1, g2, g3⟩ := hn
        simp only [LRes.st] at hs
        obtain ⟨_, hcache, hrel⟩ := hs
        refine ⟨g1, g2, g3, ?_⟩
        intro pk J k' v hlook Q hQ hQk dd rid z hz hzl
        simp only [List.lookup] at hlook
        split at hlook
        · rename_i heq
          have hkeq : (pk, J, k') = (P.key, x.disk, k) := by simpa using heq
          cases hlook
          cases hkeq
          have hQP : Q = P := hkey Q hQ P hP hQk
          subst hQP
          have hz' := newLoop_disk_fun cfg hr W hnf Q hg d dd k fuel a rid x z (x.disk.getD k default) hz.symm hx hzl
          generalize newLoop (noCache cfg) W dd Q k fuel rid z (x.disk.getD k default) = rz at hz' ⊢
          rw [hrx] at hz'
          rcases rz with ⟨z1, c1⟩ | ⟨e3, z1⟩ <;> simp only [OkSame] at hz'
          exact ⟨z1, c1, rfl, by rw [← hz'.1, diskRel_set_getD default hrel], hz'.2.2⟩
        · rw [hcache] at hlook
          exact hok pk J k' v hlook Q hQ hQk dd rid z hz hzl
  · exact h

theorem runPass_cache (cfg : Cfg) (hc : cfg.cacheOn = true) (hj : cfg.jointKey = true) (hr : cfg.releaseBeforeBail = true)
    (W : World C) (hnf : NoFaults W) (PS : List (PassI C σ)) (hkey : ∀ P ∈ PS, ∀ Q ∈ PS, P.key = Q.key → P = Q)
    (P : PassI C σ) (hP : P ∈ PS) (hg : GoodPass cfg W P) (d d' : Sched) (order : List Nat) (fuel a b : Nat) (x y : St C)
    (h : Rel cfg W fuel PS (.inl (x, a)) (.inl (y, b))) :
    Rel cfg W fuel PS (runPass cfg W d P order fuel a x) (runPass (noCache cfg) W d' P order fuel b y) := by
  unfold runPass
  obtain ⟨h1, hx, hy, hok⟩ := h
  simp only
  rw [← h1]
  split
  · exact ⟨rfl, by simp [h1]⟩
  · have : ∀ (order : List Nat) (acc acc' : LRes C), Rel cfg W fuel PS acc acc' →
        Rel cfg W fuel PS (order.foldl (fileStep cfg W d P fuel) acc) (order.foldl (fileStep (noCache cfg) W d' P fuel) acc') := by
      intro order
      induction order with
      | nil => intro acc acc' h; exact h
      | cons k ks ih => intro acc acc' h; exact ih _ _ (fileStep_cache cfg hc hj hr W hnf PS hkey P hP hg d d' fuel acc acc' k h)
    exact this order _ _ ⟨by simp [h1], by simp, by simp, by simpa using hok⟩

theorem runPasses_cache (cfg : Cfg) (hc : cfg.cacheOn = true) (hj : cfg.jointKey = true) (hr : cfg.releaseBeforeBail = true)
    (W : World C) (hnf : NoFaults W) (PS : List (PassI C σ)) (hkey : ∀ P ∈ PS, ∀ Q ∈ PS, P.key = Q.key → P = Q)
    (hg : ∀ P ∈ PS, GoodPass cfg W P) (d d' : Sched) (orderOf : List C → List Nat) (fuel : Nat) :
    ∀ (ps : List (PassI C σ)), (∀ P ∈ ps, P ∈ PS) → ∀ (acc acc' : LRes C), Rel cfg W fuel PS acc acc' →
      Rel cfg W fuel PS (runPasses cfg W d orderOf fuel ps acc) (runPasses (noCache cfg) W d' orderOf fuel ps acc') := by
  intro ps
  induction ps with
  | nil => intro _ acc acc' h; exact h
  | cons P ps ih =>
    intro hsub acc acc' h
    simp only [runPasses]
    rcases acc with ⟨x, a⟩ | ⟨e, x⟩ <;> rcases acc' with ⟨y, b⟩ | ⟨e', y⟩ <;> simp only [Rel] at h
    · simp only
      rw [← h.1]
      exact ih (fun Q hQ => hsub Q (List.mem_cons_of_mem _ hQ)) _ _
        (runPass_cache cfg hc hj hr W hnf PS hkey P (hsub P List.mem_cons_self) (hg P (hsub P List.mem_cons_self)) d d' _ fuel a b x y h)
    · exact h

theorem mainLoop_cache (cfg : Cfg) (hc : cfg.cacheOn = true) (hj : cfg.jointKey = true) (hr : cfg.releaseBeforeBail = true)
    (W : World C) (hnf : NoFaults W) (PS : List (PassI C σ)) (hkey : ∀ P ∈ PS, ∀ Q ∈ PS, P.key = Q.key → P = Q)
    (hg : ∀ P ∈ PS, GoodPass cfg W P) (d d' : Sched) (orderOf : List C → List Nat) (fuel : Nat)
    (ps : List (PassI C σ)) (hsub : ∀ P ∈ ps, P ∈ PS) : ∀ (rounds : Nat) (acc acc' : LRes C), Rel cfg W fuel PS acc acc' →
      Rel cfg W fuel PS (mainLoop cfg W d orderOf fuel ps rounds acc) (mainLoop (noCache cfg) W d' orderOf fuel ps rounds acc') := by
  intro rounds
  induction rounds with
  | zero => intro acc acc' h; exact h
  | succ n ih =>
    intro acc acc' h
    simp only [mainLoop]
    rcases acc with ⟨x, a⟩ | ⟨e, x⟩ <;> rcases acc' with ⟨y, b⟩ | ⟨e', y⟩ <;> simp only [Rel] at h
    · simp only
      rw [← h.1]
      split
      · exact h
      · have h2 := runPasses_cache cfg hc hj hr W hnf PS hkey hg d d' orderOf fuel ps hsub (.inl (x, a)) (.inl (y, b)) h
        generalize runPasses cfg W d orderOf fuel ps (.inl (x, a)) = r at h2 ⊢
        generalize runPasses (noCache cfg) W d' orderOf fuel ps (.inl (y, b)) = r' at h2 ⊢
        rcases r with ⟨x1, a1⟩ | ⟨e1, x1⟩ <;> rcases r' with ⟨y1, b1⟩ | ⟨e2, y1⟩ <;> simp only [Rel] at h2
        · simp only
          rw [← h2.1]
          split
          · exact h2
          · exact ih _ _ h2
        · exact h2
    · exact h

/-- C10 for the whole reduction: same final files (or the same error with the same files) with and without the table -/
theorem reduce_cache_transparent (cfg : Cfg) (hc : cfg.cacheOn = true) (hj : cfg.jointKey = true) (hr : cfg.releaseBeforeBail = true)
    (W : World C) (hnf : NoFaults W) (d d' : Sched) (orderOf : List C → List Nat) (fuel : Nat)
    (first main last : List (PassI C σ))
    (hkey : ∀ P ∈ first ++ main ++ last, ∀ Q ∈ first ++ main ++ last, P.key = Q.key → P = Q)
    (hg : ∀ P ∈ first ++ main ++ last, GoodPass cfg W P) (x : St C) (hx : x.cache = []) (hl : x.leftover = false) :
    Rel cfg W fuel (first ++ main ++ last) (reduce cfg W d orderOf fuel first main last x)
      (reduce (noCache cfg) W d' orderOf fuel first main last x) := by
  unfold reduce
  have h0 : Rel cfg W fuel (first ++ main ++ last) (.inl (x, 0)) (.inl (x, 0)) := by
    refine ⟨rfl, hl, hl, ?_⟩
    intro pk J k v hlook
    rw [hx] at hlook
    simp [List.lookup] at hlook
  exact runPasses_cache cfg hc hj hr W hnf _ hkey hg d d' orderOf fuel last (fun P h => by simp [h]) _ _
    (mainLoop_cache cfg hc hj hr W hnf _ hkey hg d d' orderOf fuel main (fun P h => by simp [h]) _ _ _
      (runPasses_cache cfg hc hj hr W hnf _ hkey hg d d' orderOf fuel first (fun P h => by simp [h]) _ _ h0))

end Cvise.D
