import Cvise.Model.Timing
namespace Cvise.Tm

theorem attributed_bounds (ivs : List (Int × Int)) : ∀ (lo hi : Int), Ordered lo ivs hi →
    0 ≤ attributed ivs ∧ attributed ivs ≤ hi - lo ∧ ∀ iv ∈ ivs, 0 ≤ iv.2 - iv.1 := by
  induction ivs with
  | nil => intro lo hi h; simp only [Ordered] at h; simp [attributed]; omega
  | cons iv rest ih =>
    intro lo hi h
    obtain ⟨s, e⟩ := iv
    simp only [Ordered] at h
    obtain ⟨h1, h2, h3⟩ := h
    obtain ⟨i1, i2, i3⟩ := ih e hi h3
    simp only [attributed]
    refine ⟨by omega, by omega, ?_⟩
    intro iv hiv
    simp only [List.mem_cons] at hiv
    rcases hiv with rfl | hiv
    · simp only; omega
    · exact i3 iv hiv

end Cvise.Tm
