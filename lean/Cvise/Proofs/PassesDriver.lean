import Cvise.Proofs.DriverTotal
import Cvise.Proofs.PassesBalTerm
import Cvise.Proofs.PassesTernTerm
/-!
The text-pass models plugged into the L2 driver model: a `TextPass σ` is a `PassI Text σ` (contents = decoded text).
`balanced` and `ternary` are `Measured` (invariant on reachable cursors + the measure `2·|s| + 1 − start`), so the
speculative driver finishes a file in at most `2·|s| + 2` rounds — under every test, fault assignment and schedule.
-/
namespace Cvise.P
open Cvise Cvise.M Cvise.D

/-- a text pass as the driver sees it (key and limits are irrelevant for termination) -/
def TextPass.toI {σ : Type} (Q : TextPass σ) (key : Nat := 0) (maxT : Option Nat := none) : PassI Text σ where
  key := key
  maxT := maxT
  new := Q.new
  advance := Q.advance
  aos := Q.aos
  transform := Q.transform

def balMu (s : Text) (st : Span) : Nat := 2 * s.length + 1 - st.1
def ternMu (s : Text) (st : TernSt) : Nat := 2 * s.length + 1 - st.1.1

theorem balanced_measured (cfg : BalCfg) (hsh : shapeShrinks cfg.recipe = true) (key : Nat) (maxT : Option Nat) :
    Measured ((balanced cfg).toI key maxT) BalI balMu where
  newI := by
    intro s st h
    have := balFind_span cfg s 0 st h
    exact ⟨this.2.1, this.2.2⟩
  advI := by
    intro s st st' _ h
    have := balFind_span cfg s _ st' h
    exact ⟨this.2.1, this.2.2⟩
  accI := by
    intro s st s2 st2 st' _ _ h
    have := balFind_span cfg s2 _ st' h
    exact ⟨this.2.1, this.2.2⟩
  adv := by
    intro s st st' hI h
    have := balFind_span cfg s _ st' h
    unfold BalI at hI
    show 2 * _ + 1 - _ < 2 * _ + 1 - _
    omega
  acc := by
    intro s st s2 st2 st' hI htr h
    have sp := balFind_span cfg s2 _ st' h
    obtain ⟨l1, l2, l3, l4⟩ := balLoop_ok_spec cfg s _ st s2 st2 hI htr
    have hlen : s2.length < s.length := by
      rcases shape_len cfg.recipe hsh s st2.1 st2.2 l2.1 l2.2 with h' | h'
      · rw [l3]; exact h'
      · exact absurd (l3.trans h') l4
    unfold BalI at hI
    show 2 * _ + 1 - _ < 2 * _ + 1 - _
    omega

theorem ternary_measured (arg : String) (harg : arg = "b" ∨ arg = "c") (key : Nat) (maxT : Option Nat) :
    Measured ((ternary arg).toI key maxT) TernI ternMu where
  newI := by intro s st h; exact (ternSearch_spec s 0 st h).2
  advI := by intro s st st' _ h; exact (ternSearch_spec s _ st' h).2
  accI := by intro s st s2 st2 st' _ _ h; exact (ternSearch_spec s2 _ st' h).2
  adv := by
    intro s st st' hI h
    have sp := ternSearch_spec s _ st' h
    have := ternI_start_le s st' sp.2
    have := sp.1
    show 2 * _ + 1 - _ < 2 * _ + 1 - _
    omega
  acc := by
    intro s st s2 st2 st' hI htr h
    have sp := ternSearch_spec s2 _ st' h
    obtain ⟨l1, l2, _, _, l5⟩ := ternLoop_ok_spec arg harg s _ st s2 st2 hI htr
    have := ternI_start_le s2 st' sp.2
    have := ternI_start_le s st hI
    have := sp.1
    show 2 * _ + 1 - _ < 2 * _ + 1 - _
    omega

instance : Inhabited Span := ⟨(0, 0)⟩

/-- **balanced under the speculative driver**: all rounds on a file of `n` characters end within `2n + 2` rounds of at
    most `2n + 2` scheduling iterations each — more fuel changes nothing — for every test, fault assignment, schedule
    and limit setting (needs `2n + 2` below the in-round bound `GIVEUP_CONSTANT + 1000`, i.e. files below ~25 000
    characters for the model's round fuel; the real loop has no such bound) -/
theorem balanced_parallel_terminates (cfg : Cfg) (W : World Text) (dn : Sched) (bc : BalCfg) (hsh : shapeShrinks bc.recipe = true)
    (key : Nat) (maxT : Option Nat) (k startSize j rid : Nat) (st : Span) (succ : Nat) (x : D.St Text) (hk : k < x.disk.length)
    (hI : BalI (x.disk.getD k default) st) (hsz : 2 * (x.disk.getD k default).length + 2 ≤ cfg.giveup + 1000) :
    fileLoop cfg W dn ((balanced bc).toI key maxT) k startSize (2 * (x.disk.getD k default).length + 2) rid st succ x =
    fileLoop cfg W dn ((balanced bc).toI key maxT) k startSize (2 * (x.disk.getD k default).length + 2 + j) rid st succ x := by
  apply fileLoop_total cfg W dn _ BalI balMu (balanced_measured bc hsh key maxT) k startSize j _ rid st succ x hk hI
  · unfold balMu; omega
  · unfold balMu; omega

theorem ternary_parallel_terminates (cfg : Cfg) (W : World Text) (dn : Sched) (arg : String) (harg : arg = "b" ∨ arg = "c")
    (key : Nat) (maxT : Option Nat) (k startSize j rid : Nat) (st : TernSt) (succ : Nat) (x : D.St Text) (hk : k < x.disk.length)
    (hI : TernI (x.disk.getD k default) st) (hsz : 2 * (x.disk.getD k default).length + 2 ≤ cfg.giveup + 1000) :
    fileLoop cfg W dn ((ternary arg).toI key maxT) k startSize (2 * (x.disk.getD k default).length + 2) rid st succ x =
    fileLoop cfg W dn ((ternary arg).toI key maxT) k startSize (2 * (x.disk.getD k default).length + 2 + j) rid st succ x := by
  apply fileLoop_total cfg W dn _ TernI ternMu (ternary_measured arg harg key maxT) k startSize j _ rid st succ x hk hI
  · unfold ternMu; omega
  · unfold ternMu; omega

end Cvise.P
