import Cvise.Proofs.DriverAccept
import Cvise.Proofs.DriverFmt
/-! C01: the files are always the original or a joint content on which an invocation of the test exited 0 -/
namespace Cvise.D
variable {C σ : Type} [DecidableEq C] [Inhabited σ] [Inhabited C]

/-- how the invocation `(rid, ord)` of the test on `joint` exits: a scripted fault, else the deterministic test -/
def invExit (W : World C) (joint : List C) (rid ord : Nat) : Exit :=
  match W.fault rid ord with
  | some f => f
  | none => W.test joint

/-- the property of C01 for one directory state -/
def SafeDisk (W : World C) (orig d : List C) : Prop :=
  d = orig ∨ (∃ rid ord, invExit W d rid ord = .code 0) ∨ W.test d = .code 0      -- last: a sanity check on exactly `d`

theorem envOf_exit (W : World C) (P : PassI C σ) (disk : List C) (k : Nat) (cur : C) (s : σ) (rid i : Nat)
    (h : (envOf W P disk k cur s rid i).pr = .ok) (h0 : (envOf W P disk k cur s rid i).exit = some (.code 0)) :
    invExit W (disk.set k (envOf W P disk k cur s rid i).cand) rid (i+1) = .code 0 := by
  unfold envOf at h h0 ⊢
  unfold invExit
  cases hn : nthState P cur s i with
  | none => simp [hn] at h
  | some si =>
    simp only [hn] at h h0 ⊢
    cases hf : W.fault rid (i+1) with
    | none => simp only [hf] at h0 ⊢; simp only [h, if_true] at h0; exact Option.some.inj h0
    | some f =>
      simp only [hf] at h0 ⊢
      cases f <;> simp_all

/-- a disk differs from another at most in file `k` -/
def DiskRel (k : Nat) (a b : List C) : Prop := b = a ∨ ∃ c, b = a.set k c

theorem DiskRel.trans {k : Nat} {a b c : List C} (h1 : DiskRel k a b) (h2 : DiskRel k b c) : DiskRel k a c := by
  rcases h1 with rfl | ⟨x, rfl⟩
  · exact h2
  · rcases h2 with rfl | ⟨y, rfl⟩
    · exact Or.inr ⟨x, rfl⟩
    · exact Or.inr ⟨y, by simp [List.set_set]⟩

/-- the state an outcome carries, error or not -/
def LRes.st : LRes C → St C
  | .inl (x, _) => x
  | .inr (_, x) => x

theorem fileLoop_safe (cfg : Cfg) (W : World C) (dn : Sched) (P : PassI C σ) (orig : List C) (k startSize : Nat) :
    ∀ (fuel rid : Nat) (s : σ) (succ : Nat) (x : St C), SafeDisk W orig x.disk →
      let y := LRes.st (fileLoop cfg W dn P k startSize fuel rid s succ x)
      SafeDisk W orig y.disk ∧ y.cache = x.cache ∧ DiskRel k x.disk y.disk := by
  intro fuel
  induction fuel with
  | zero => intro rid s succ x hx; simp only [fileLoop, LRes.st]; exact ⟨hx, (by first | trivial | rfl), Or.inl rfl⟩
  | succ f ih =>
    intro rid s succ x hx
    simp only [fileLoop]
    split
    · simp only [LRes.st]; exact ⟨hx, (by first | trivial | rfl), Or.inl rfl⟩
    · split
      · simp only [LRes.st]; exact ⟨hx, (by first | trivial | rfl), Or.inl rfl⟩
      · simp only [LRes.st]; exact ⟨hx, (by first | trivial | rfl), Or.inl rfl⟩
      · rename_i i g hr
        have hacc := roundLoop_sound cfg W.size P.key _ _ _ _ _ _ _ _ _ _ _ hr
        have hiff := (isAccept_iff cfg W.size _ _).mp hacc
        have hsafe : SafeDisk W orig (x.disk.set k (envOf W P x.disk k (x.disk.getD k default) s rid i).cand) :=
          Or.inr (Or.inl ⟨rid, i+1, envOf_exit W P x.disk k _ s rid i hiff.1 hiff.2.1⟩)
        split
        · simp only [LRes.st]; exact ⟨hsafe, (by first | trivial | rfl), Or.inr ⟨_, rfl⟩⟩
        · split
          · simp only [LRes.st]; exact ⟨hsafe, (by first | trivial | rfl), Or.inr ⟨_, rfl⟩⟩
          · split
            · simp only [LRes.st]; exact ⟨hsafe, (by first | trivial | rfl), Or.inr ⟨_, rfl⟩⟩
            · rename_i s' _ _
              have key : ∀ G : Side C,
                  let y := LRes.st (fileLoop cfg W dn P k startSize f (rid+1) s' (succ+1)
                    (commitSt x k (envOf W P x.disk k (x.disk.getD k default) s rid i).cand G))
                  SafeDisk W orig y.disk ∧ y.cache = x.cache ∧ DiskRel k x.disk y.disk := by
                intro G
                have := ih (rid+1) s' (succ+1) (commitSt x k (envOf W P x.disk k (x.disk.getD k default) s rid i).cand G) hsafe
                exact ⟨this.1, this.2.1, DiskRel.trans (Or.inr ⟨_, rfl⟩) this.2.2⟩
              exact key _


theorem diskRel_set_getD {k : Nat} {a b : List C} (d : C) (h : DiskRel k a b) : a.set k (b.getD k d) = b := by
  rcases h with rfl | ⟨c, rfl⟩
  · by_cases hk : k < b.length
    · simp [List.getD, hk]
    · rw [List.set_eq_of_length_le (by omega)]
  · by_cases hk : k < a.length
    · simp [List.getD, hk]
    · rw [List.set_eq_of_length_le (by omega), List.set_eq_of_length_le (by omega)]

theorem mem_of_lookup {α β : Type} [BEq α] [LawfulBEq α] (l : List (α × β)) (a : α) (b : β)
    (h : l.lookup a = some b) : (a, b) ∈ l := by
  induction l with
  | nil => simp [List.lookup] at h
  | cons x xs ih =>
    obtain ⟨x1, x2⟩ := x
    simp only [List.lookup] at h
    split at h
    · rename_i heq
      have : a = x1 := by simpa using heq
      cases h; subst this; exact List.mem_cons_self
    · exact List.mem_cons_of_mem _ (ih h)

/-- when is the replay table sound: it is off, or it is keyed on the joint contents -/
def KeyOK (cfg : Cfg) : Prop := cfg.cacheOn = false ∨ cfg.jointKey = true

/-- the C01 invariant of a driver state -/
structure Inv (cfg : Cfg) (W : World C) (orig : List C) (x : St C) : Prop where
  disk : SafeDisk W orig x.disk
  cache : cfg.cacheOn = true → ∀ key J k after, ((key, J, k), after) ∈ x.cache → SafeDisk W orig (J.set k after)

theorem newLoop_safe (cfg : Cfg) (W : World C) (dn : Sched) (P : PassI C σ) (orig : List C) (fuel k rid : Nat) (x : St C)
    (before : C) (hx : SafeDisk W orig x.disk) :
    let y := LRes.st (newLoop cfg W dn P k fuel rid x before)
    SafeDisk W orig y.disk ∧ y.cache = x.cache ∧ DiskRel k x.disk y.disk := by
  unfold newLoop
  have hf := fmtStep_frame W P x k before
  have hd := fmtStep_disk W P x k before
  have hsafe : SafeDisk W orig (fmtStep W P x k before).1.disk := by
    rcases hd with h | ⟨c, h, ht⟩
    · rw [h]; exact hx
    · rw [h]; exact Or.inr (Or.inr ht)
  have hrel : DiskRel k x.disk (fmtStep W P x k before).1.disk := by
    rcases hd with h | ⟨c, h, _⟩
    · exact Or.inl h
    · exact Or.inr ⟨c, h⟩
  split
  · exact ⟨hsafe, hf.2.1, hrel⟩
  · split
    · exact ⟨hsafe, hf.2.1, hrel⟩
    · rename_i s _
      have := fileLoop_safe cfg W dn P orig k (W.size before) fuel rid s 0 (fmtStep W P x k before).1 hsafe
      exact ⟨this.1, by rw [this.2.1, hf.2.1], DiskRel.trans hrel this.2.2⟩

theorem fileStep_inv (cfg : Cfg) (hk : KeyOK cfg) (W : World C) (dn : Sched) (P : PassI C σ) (orig : List C) (fuel : Nat)
    (acc : LRes C) (k : Nat) (h : Inv cfg W orig (LRes.st acc)) :
    Inv cfg W orig (LRes.st (fileStep cfg W dn P fuel acc k)) := by
  unfold fileStep
  cases acc with
  | inr e => exact h
  | inl xr =>
    obtain ⟨x, rid⟩ := xr
    simp only [LRes.st] at h
    simp only
    split
    · exact h
    · have hy := newLoop_safe cfg W dn P orig fuel k rid x (x.disk.getD k default) h.disk
      generalize newLoop cfg W dn P k fuel rid x (x.disk.getD k default) = r at hy ⊢
      by_cases hc : cfg.cacheOn = true
      · have hj : cfg.jointKey = true := by
          rcases hk with h1 | h1
          · rw [hc] at h1; cases h1
          · exact h1
        simp only [hc, hj, if_true]
        split
        · rename_i after hl
          have hm := mem_of_lookup _ _ _ hl
          exact ⟨h.cache hc _ _ _ _ hm, h.cache⟩
        · cases r with
          | inr e =>
            simp only [LRes.st] at hy ⊢
            exact ⟨hy.1, by rw [hy.2.1]; exact h.cache⟩
          | inl yr =>
            obtain ⟨y, rid'⟩ := yr
            simp only [LRes.st] at hy ⊢
            refine ⟨hy.1, ?_⟩
            intro _ key J k' after hm
            simp only [List.mem_cons] at hm
            rcases hm with hm | hm
            · cases hm
              rw [diskRel_set_getD default hy.2.2]; exact hy.1
            · rw [hy.2.1] at hm; exact h.cache hc _ _ _ _ hm
      · have hc' : cfg.cacheOn = false := by simpa using hc
        simp only [hc', Bool.false_eq_true, if_false]
        cases r with
        | inr e =>
          simp only [LRes.st] at hy ⊢
          exact ⟨hy.1, fun hcc => by rw [hc'] at hcc; cases hcc⟩
        | inl yr =>
          obtain ⟨y, rid'⟩ := yr
          simp only [LRes.st] at hy ⊢
          exact ⟨hy.1, fun hcc => by rw [hc'] at hcc; cases hcc⟩


theorem foldl_fileStep_inv (cfg : Cfg) (hk : KeyOK cfg) (W : World C) (dn : Sched) (P : PassI C σ) (orig : List C) (fuel : Nat) :
    ∀ (order : List Nat) (acc : LRes C), Inv cfg W orig (LRes.st acc) →
      Inv cfg W orig (LRes.st (order.foldl (fileStep cfg W dn P fuel) acc)) := by
  intro order
  induction order with
  | nil => intro acc h; exact h
  | cons k ks ih =>
    intro acc h
    simp only [List.foldl]
    exact ih _ (fileStep_inv cfg hk W dn P orig fuel acc k h)

theorem runPass_inv (cfg : Cfg) (hk : KeyOK cfg) (W : World C) (dn : Sched) (P : PassI C σ) (orig : List C) (order : List Nat)
    (fuel rid : Nat) (x : St C) (h : Inv cfg W orig x) :
    Inv cfg W orig (LRes.st (runPass cfg W dn P order fuel rid x)) := by
  unfold runPass
  simp only
  split
  · exact ⟨h.disk, h.cache⟩
  · apply foldl_fileStep_inv cfg hk
    exact ⟨h.disk, h.cache⟩

theorem runPasses_inv (cfg : Cfg) (hk : KeyOK cfg) (W : World C) (dn : Sched) (orig : List C) (orderOf : List C → List Nat) (fuel : Nat) :
    ∀ (ps : List (PassI C σ)) (acc : LRes C), Inv cfg W orig (LRes.st acc) →
      Inv cfg W orig (LRes.st (runPasses cfg W dn orderOf fuel ps acc)) := by
  intro ps
  induction ps with
  | nil => intro acc h; exact h
  | cons P ps ih =>
    intro acc h
    simp only [runPasses]
    cases acc with
    | inr e => exact h
    | inl xr =>
      obtain ⟨x, rid⟩ := xr
      exact ih _ (runPass_inv cfg hk W dn P orig _ fuel rid x h)

theorem mainLoop_inv (cfg : Cfg) (hk : KeyOK cfg) (W : World C) (dn : Sched) (orig : List C) (orderOf : List C → List Nat) (fuel : Nat)
    (ps : List (PassI C σ)) : ∀ (rounds : Nat) (acc : LRes C), Inv cfg W orig (LRes.st acc) →
      Inv cfg W orig (LRes.st (mainLoop cfg W dn orderOf fuel ps rounds acc)) := by
  intro rounds
  induction rounds with
  | zero => intro acc h; exact h
  | succ n ih =>
    intro acc h
    simp only [mainLoop]
    cases acc with
    | inr e => exact h
    | inl xr =>
      obtain ⟨x, rid⟩ := xr
      simp only
      split
      · exact h
      · have h2 := runPasses_inv cfg hk W dn orig orderOf fuel ps (.inl (x, rid)) h
        generalize runPasses cfg W dn orderOf fuel ps (.inl (x, rid)) = r at h2 ⊢
        cases r with
        | inr e => exact h2
        | inl yr =>
          obtain ⟨y, rid'⟩ := yr
          simp only
          split
          · exact h2
          · exact ih _ h2

/-- C01: whatever the passes propose, whatever the tests answer, whatever the schedule: after `reduce`
    (normal return or error) the files are the original or a set on which an invocation of the test exited 0 -/
theorem reduce_inv (cfg : Cfg) (hk : KeyOK cfg) (W : World C) (dn : Sched) (orderOf : List C → List Nat) (fuel : Nat)
    (first main last : List (PassI C σ)) (x : St C) (hc : x.cache = []) :
    SafeDisk W x.disk (LRes.st (reduce cfg W dn orderOf fuel first main last x)).disk := by
  have h0 : Inv cfg W x.disk x := ⟨Or.inl rfl, by intro _ key J k after hm; rw [hc] at hm; cases hm⟩
  unfold reduce
  exact (runPasses_inv cfg hk W dn x.disk orderOf fuel last _
    (mainLoop_inv cfg hk W dn x.disk orderOf fuel main _ _
      (runPasses_inv cfg hk W dn x.disk orderOf fuel first (.inl (x, 0)) h0))).disk

end Cvise.D
