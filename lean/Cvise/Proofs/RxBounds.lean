import Cvise.Model.Rx
/-! every end position the engine reports lies between the start and the end of the text -/
namespace Cvise

def EB (s : Array Nat) (p : Nat) (x : Nat × Caps) : Prop := p ≤ x.1 ∧ (p ≤ s.size → x.1 ≤ s.size)

theorem EB_trans {s : Array Nat} {p e : Nat} {x y : Nat × Caps} (h1 : EB s p x) (hx : x.1 = e) (h2 : EB s e y) : EB s p y := by
  unfold EB at *; omega

theorem mem_of_ite_nil {α : Type} {c : Prop} [Decidable c] {l : List α} {x : α}
    (h : x ∈ (if c then l else [])) : x ∈ l := by
  split at h
  · exact h
  · cases h

theorem endsRep_succ_mem (s : Array Nat) (r : Rx) (mn : Nat) (mx : Option Nat) (g : Bool) (fuel p : Nat) (c : Caps)
    (x : Nat × Caps) (hx : x ∈ endsRep s r mn mx g (fuel + 1) p c) :
    (x = (p, c) ∧ mn = 0) ∨ (∃ y ∈ ends s r p c, x ∈ endsRep s r (mn - 1) (mx.map (· - 1)) g fuel y.1 y.2) := by
  unfold endsRep at hx
  simp only at hx
  have key : ∀ (more stop : List (Nat × Caps)),
      (∀ x ∈ more, ∃ y ∈ ends s r p c, x ∈ endsRep s r (mn - 1) (mx.map (· - 1)) g fuel y.1 y.2) →
      (∀ x ∈ stop, x = (p, c) ∧ mn = 0) →
      x ∈ (if g = true then more ++ stop else stop ++ more) →
      (x = (p, c) ∧ mn = 0) ∨ (∃ y ∈ ends s r p c, x ∈ endsRep s r (mn - 1) (mx.map (· - 1)) g fuel y.1 y.2) := by
    intro more stop hm hs hx
    have : x ∈ more ∨ x ∈ stop := by
      by_cases hg : g = true
      · rw [if_pos hg] at hx; exact List.mem_append.mp hx
      · rw [if_neg hg] at hx; exact (List.mem_append.mp hx).symm
    rcases this with h | h
    · exact Or.inr (hm x h)
    · exact Or.inl (hs x h)
  apply key _ _ _ _ hx
  · intro z hz
    have hz := mem_of_ite_nil hz
    simp only [List.mem_flatMap] at hz
    obtain ⟨y, hy, hzy⟩ := hz
    exact ⟨y, hy, mem_of_ite_nil hzy⟩
  · intro z hz
    by_cases h0 : mn = 0
    · rw [if_pos h0] at hz
      simp only [List.mem_singleton] at hz
      exact ⟨hz, h0⟩
    · rw [if_neg h0] at hz; cases hz

theorem ends_bounds_all (s : Array Nat) :
    (∀ (r : Rx) (p : Nat) (c : Caps), ∀ x ∈ ends s r p c, EB s p x) ∧
    (∀ (r : Rx) (mn : Nat) (mx : Option Nat) (g : Bool) (fuel p : Nat) (c : Caps), ∀ x ∈ endsRep s r mn mx g fuel p c, EB s p x) ∧
    (∀ (rs : List Rx) (p : Nat) (c : Caps), ∀ x ∈ endsAlt s rs p c, EB s p x) ∧
    (∀ (rs : List Rx) (p : Nat) (c : Caps), ∀ x ∈ endsSeq s rs p c, EB s p x) := by
  apply ends.mutual_induct s
    (motive1 := fun r p c => ∀ x ∈ ends s r p c, EB s p x)
    (motive2 := fun r mn mx g fuel p c => ∀ x ∈ endsRep s r mn mx g fuel p c, EB s p x)
    (motive3 := fun rs p c => ∀ x ∈ endsAlt s rs p c, EB s p x)
    (motive4 := fun rs p c => ∀ x ∈ endsSeq s rs p c, EB s p x)
  -- cls ×3
  · intro neg items p c h hc x hx; simp [ends, h, hc] at hx; subst hx; simp [EB]; omega
  · intro neg items p c h hc x hx; simp [ends, h, hc] at hx
  · intro neg items p c h x hx; simp [ends, h] at hx
  -- any ×3
  · intro d p c h hc x hx; simp only [ends, h, dite_true, hc, if_true, List.mem_singleton] at hx; subst hx; simp [EB]; omega
  · intro d p c h hc x hx; simp only [ends, h, dite_true, hc] at hx; simp at hx
  · intro d p c h x hx; simp [ends, h] at hx
  -- seq, alt, rep
  · intro rs p c ih x hx; simp only [ends] at hx; exact ih x hx
  · intro rs p c ih x hx; simp only [ends] at hx; exact ih x hx
  · intro mn mx g r p c ih x hx; simp only [ends] at hx; exact ih x hx
  -- grp
  · intro id r p c ih x hx
    simp only [ends, List.mem_map] at hx
    obtain ⟨y, hy, rfl⟩ := hx
    exact ih y hy
  -- nla ×2
  · intro r p c he _ x hx; simp [ends, he] at hx; subst hx; simp [EB]
  · intro r p c he _ x hx; simp [ends, he] at hx
  -- bos ×2
  · intro c x hx; simp [ends] at hx; subst hx; simp [EB]
  · intro p c h x hx; simp [ends, h] at hx
  -- bolM ×2, eolM ×2, eol ×2
  · intro p c h x hx; simp only [ends, h, if_true, List.mem_singleton] at hx; subst hx; simp [EB]
  · intro p c h x hx; simp only [ends, h] at hx; simp at hx
  · intro p c h x hx; simp only [ends, h, if_true, List.mem_singleton] at hx; subst hx; simp [EB]
  · intro p c h x hx; simp only [ends, h] at hx; simp at hx
  · intro p c h x hx; simp only [ends, h, if_true, List.mem_singleton] at hx; subst hx; simp [EB]
  · intro p c h x hx; simp only [ends, h] at hx; simp at hx
  -- endsRep: fuel 0
  · intro r mn mx g p c x hx; simp [endsRep] at hx
  -- endsRep greedy
  · intro r mn mx fuel p c ih1 ih2 x hx
    rcases endsRep_succ_mem s r mn mx true fuel p c x hx with ⟨rfl, _⟩ | ⟨y, hy, hxy⟩
    · simp [EB]
    · exact EB_trans (ih2 y hy) rfl (ih1 y.1 y.2 x hxy)
  -- endsRep lazy
  · intro r mn mx g fuel p c hg ih1 ih2 x hx
    rcases endsRep_succ_mem s r mn mx g fuel p c x hx with ⟨rfl, _⟩ | ⟨y, hy, hxy⟩
    · simp [EB]
    · exact EB_trans (ih2 y hy) rfl (ih1 y.1 y.2 x hxy)
  -- endsAlt
  · intro p c x hx; simp [endsAlt] at hx
  · intro r rs p c ih1 ih2 x hx
    simp only [endsAlt, List.mem_append] at hx
    rcases hx with hx | hx
    · exact ih1 x hx
    · exact ih2 x hx
  -- endsSeq
  · intro p c x hx; simp [endsSeq] at hx; subst hx; simp [EB]
  · intro r rs p c ih1 ih2 x hx
    simp only [endsSeq, List.mem_flatMap] at hx
    obtain ⟨y, hy, hxy⟩ := hx
    exact EB_trans (ih2 y hy) rfl (ih1 y.1 y.2 x hxy)

theorem ends_bounds (s : Array Nat) (r : Rx) (p : Nat) (c : Caps) (x : Nat × Caps) (hx : x ∈ ends s r p c) :
    p ≤ x.1 ∧ (p ≤ s.size → x.1 ≤ s.size) := (ends_bounds_all s).1 r p c x hx

end Cvise
