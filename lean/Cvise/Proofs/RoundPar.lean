import Cvise.Model.Round
namespace Cvise.R

/-- reference scan over an explicit list of candidate indices -/
def seqOn (res : Nat → Verdict) : List Nat → Option Nat
  | [] => none
  | i :: rest => match res i with
    | .accept => some i
    | .ignore => seqOn res rest
    | _ => none

/-- contract: no timeouts, and a quit is followed (in index order) only by quits -/
structure WB (res : Nat → Verdict) : Prop where
  noTimeout : ∀ i, res i ≠ .timeout
  quitSuffix : ∀ i j, i < j → res i = .quit → res j = .quit

theorem seqOn_append_ignore (res) (A B : List Nat) (h : ∀ a ∈ A, res a = .ignore) :
    seqOn res (A ++ B) = seqOn res B := by
  induction A with
  | nil => rfl
  | cons a A ih =>
    have ha := h a (by simp)
    simp only [List.cons_append, seqOn, ha]
    exact ih (fun x hx => h x (by simp [hx]))

/-- for a list sorted by index, under the contract, `wfs` (which skips QUIT) equals the reference scan -/
theorem wfs_eq_seqOn (res) (wb : WB res) : ∀ (L : List Nat), L.Pairwise (· < ·) → wfs res L = seqOn res L := by
  intro L hs
  induction L with
  | nil => rfl
  | cons i L ih =>
    have hs' := (List.pairwise_cons.mp hs)
    simp only [wfs, seqOn]
    cases hri : res i with
    | accept => simp
    | ignore => simp; exact ih hs'.2
    | timeout => exact absurd hri (wb.noTimeout i)
    | quit =>
      simp
      -- all later are quit, so wfs finds nothing
      have : ∀ (M : List Nat), (∀ j ∈ M, res j = .quit) → wfs res M = none := by
        intro M hM
        induction M with
        | nil => rfl
        | cons j M ihM =>
          simp only [wfs]
          have := hM j (by simp)
          simp [this]
          exact ihM (fun x hx => hM x (by simp [hx]))
      exact this L (fun j hj => wb.quitSuffix i j (hs'.1 j hj) hri)

end Cvise.R

namespace Cvise.R

theorem processDone_true (MAXT : Nat) (done res) : ∀ (L : List Nat) (tc : Nat), processDone MAXT done res L tc true = ([], tc, true) := by
  intro L
  induction L with
  | nil => intro tc; rfl
  | cons i L ih => intro tc; simp [processDone, ih]

/-- what one scan does to the reference answer: while not quitting it only drops IGNOREd futures;
    when it quits, what is kept already determines the answer of the whole enumeration -/
theorem processDone_spec (MAXT : Nat) (done res) (wb : WB res) (X : List Nat) :
    ∀ (L : List Nat) (tc : Nat),
      let r := processDone MAXT done res L tc false
      r.1.Sublist L ∧
      (r.2.2 = false → seqOn res (r.1 ++ X) = seqOn res (L ++ X)) ∧
      (r.2.2 = true → seqOn res r.1 = seqOn res (L ++ X)) := by
  intro L
  induction L with
  | nil => intro tc; simp [processDone]
  | cons i L ih =>
    intro tc
    simp only [processDone, Bool.false_eq_true, if_false]
    by_cases hd : done i = true
    · simp only [hd, if_true]
      cases hri : res i with
      | timeout => exact absurd hri (wb.noTimeout i)
      | accept =>
        simp [processDone_true, seqOn, hri]
      | ignore =>
        have := ih tc
        simp only [List.cons_append, seqOn, hri]
        refine ⟨List.Sublist.cons _ this.1, this.2.1, this.2.2⟩
      | quit =>
        simp [processDone_true, seqOn, hri]
    · simp only [hd, Bool.false_eq_true, if_false]
      have := ih tc
      obtain ⟨h1, h2, h3⟩ := this
      refine ⟨List.Sublist.cons_cons _ h1, ?_, ?_⟩
      · intro hq
        simp only [List.cons_append, seqOn]
        cases res i <;> simp
        exact h2 hq
      · intro hq
        simp only [List.cons_append, seqOn]
        cases res i <;> simp
        exact h3 hq

theorem seqOn_range (res : Nat → Verdict) (m : Nat) : ∀ (k i : Nat), i + k = m →
    seqOn res (List.range' i k) = seqFirst res m i := by
  intro k
  induction k with
  | zero =>
    intro i h
    unfold seqFirst
    have : i ≥ m := by omega
    simp [this, seqOn]
  | succ k ih =>
    intro i h
    unfold seqFirst
    have : ¬ i ≥ m := by omega
    simp only [this, dite_false, List.range'_succ, seqOn]
    cases res i <;> simp
    exact ih (i+1) (by omega)

/-- generalised statement: at iteration `t` with in-flight list `futs` -/
theorem loop_eq_seqOn (MAXT : Nat) (res) (wb : WB res) (done : Nat → Nat → Bool) (m : Nat) :
    ∀ (t : Nat) (futs : List Nat) (tc : Nat), t < m →
      futs.Pairwise (· < ·) → (∀ i ∈ futs, i < t) →
      loop MAXT res done m t futs tc = seqOn res (futs ++ List.range' t (m - t)) := by
  suffices H : ∀ (k t : Nat), m - t = k → ∀ (futs : List Nat) (tc : Nat), t < m →
      futs.Pairwise (· < ·) → (∀ i ∈ futs, i < t) →
      loop MAXT res done m t futs tc = seqOn res (futs ++ List.range' t (m - t)) from
    fun t => H (m - t) t rfl
  intro k
  induction k with
  | zero => intro t h futs tc ht; omega
  | succ k ih =>
    intro t h futs tc ht hs hlt
    unfold loop
    have spec := processDone_spec MAXT (done t) res wb (List.range' t (m - t)) futs tc
    generalize processDone MAXT (done t) res futs tc false = r at spec
    obtain ⟨K, tc', q⟩ := r
    simp only at spec ⊢
    obtain ⟨hsub, hf, ht'⟩ := spec
    have hsK : K.Pairwise (· < ·) := hs.sublist hsub
    have hltK : ∀ i ∈ K, i < t := fun i hi => hlt i (hsub.subset hi)
    cases q with
    | true =>
      simp only [if_true]
      rw [wfs_eq_seqOn res wb K hsK]
      exact ht' rfl
    | false =>
      simp only [Bool.false_eq_true, if_false]
      have hsK' : (K ++ [t]).Pairwise (· < ·) := by
        rw [List.pairwise_append]
        refine ⟨hsK, by simp, ?_⟩
        intro a ha b hb
        simp at hb; subst hb; exact hltK a ha
      have hrange : List.range' t (m - t) = t :: List.range' (t+1) (m - (t+1)) := by
        have : m - t = (m - (t+1)) + 1 := by omega
        rw [this, List.range'_succ]
      by_cases hend : t + 1 ≥ m
      · simp only [hend, dite_true]
        rw [wfs_eq_seqOn res wb _ hsK', ← hf rfl]
        have : m - t = 1 := by omega
        simp [this]
      · simp only [hend, dite_false]
        rw [ih (t+1) (by omega) (K ++ [t]) tc' (by omega) hsK'
          (by intro i hi; simp at hi; rcases hi with hi | hi; exact Nat.lt_succ_of_lt (hltK i hi); omega)]
        rw [← hf rfl, hrange]
        simp

/-- C02 core: for every completion schedule the speculative round returns what the sequential scan returns -/
theorem round_par_eq_seq (MAXT : Nat) (res) (wb : WB res) (done : Nat → Nat → Bool) (m : Nat) (hm : 0 < m) (tc : Nat) :
    loop MAXT res done m 0 [] tc = seqFirst res m 0 := by
  rw [loop_eq_seqOn MAXT res wb done m 0 [] tc hm (by simp) (by simp)]
  simpa using seqOn_range res m m 0 (by omega)

end Cvise.R


namespace Cvise.R

theorem processDone_congr (MAXT : Nat) (done : Nat → Bool) (res res' : Nat → Verdict) :
    ∀ (L : List Nat) (tc : Nat) (q : Bool), (∀ i ∈ L, res i = res' i) →
      processDone MAXT done res L tc q = processDone MAXT done res' L tc q := by
  intro L
  induction L with
  | nil => intros; rfl
  | cons i L ih =>
    intro tc q h
    have hi := h i List.mem_cons_self
    have ih' := fun tc q => ih tc q (fun j hj => h j (List.mem_cons_of_mem _ hj))
    simp only [processDone, hi, ih']

theorem processDone_mem (MAXT : Nat) (done : Nat → Bool) (res : Nat → Verdict) :
    ∀ (L : List Nat) (tc : Nat) (q : Bool), ∀ j ∈ (processDone MAXT done res L tc q).1, j ∈ L := by
  intro L
  induction L with
  | nil => intro tc q j hj; simp [processDone] at hj
  | cons i L ih =>
    intro tc q j hj
    simp only [processDone] at hj
    split at hj
    · exact List.mem_cons_of_mem _ (ih _ _ j hj)
    · split at hj
      · split at hj
        · exact List.mem_cons_of_mem _ (ih _ _ j hj)
        · simp only [List.mem_cons] at hj ⊢
          rcases hj with hj | hj
          · exact Or.inl hj
          · exact Or.inr (ih _ _ j hj)
        · exact List.mem_cons_of_mem _ (ih _ _ j hj)
        · exact List.mem_cons_of_mem _ (ih _ _ j hj)
      · simp only [List.mem_cons] at hj ⊢
        rcases hj with hj | hj
        · exact Or.inl hj
        · exact Or.inr (ih _ _ j hj)

theorem wfs_congr (res res' : Nat → Verdict) : ∀ (L : List Nat), (∀ i ∈ L, res i = res' i) → wfs res L = wfs res' L := by
  intro L
  induction L with
  | nil => intros; rfl
  | cons i L ih =>
    intro h
    simp only [wfs, h i List.mem_cons_self, ih (fun j hj => h j (List.mem_cons_of_mem _ hj))]

theorem loop_congr (MAXT : Nat) (res res' : Nat → Verdict) (done : Nat → Nat → Bool) (m : Nat)
    (h : ∀ i, i < m → res i = res' i) : ∀ (k t : Nat) (futs : List Nat) (tc : Nat), m - t = k → t < m → (∀ i ∈ futs, i < m) →
      loop MAXT res done m t futs tc = loop MAXT res' done m t futs tc := by
  intro k
  induction k with
  | zero => intro t futs tc hk ht; omega
  | succ k ih =>
    intro t futs tc hk ht hf
    unfold loop
    rw [processDone_congr MAXT (done t) res res' futs tc false (fun i hi => h i (hf i hi))]
    have hmem := processDone_mem MAXT (done t) res' futs tc false
    generalize processDone MAXT (done t) res' futs tc false = r at hmem ⊢
    obtain ⟨K, tc', q⟩ := r
    simp only at hmem ⊢
    have hK : ∀ i ∈ K, i < m := fun i hi => hf i (hmem i hi)
    have hKt : ∀ i ∈ K ++ [t], i < m := by
      intro i hi
      simp only [List.mem_append, List.mem_singleton] at hi
      rcases hi with hi | hi
      · exact hK i hi
      · omega
    split
    · exact wfs_congr res res' K (fun i hi => h i (hK i hi))
    · split
      · exact wfs_congr res res' _ (fun i hi => h i (hKt i hi))
      · exact ih (t+1) _ tc' (by omega) (by omega) hKt

theorem seqFirst_congr (res res' : Nat → Verdict) (m : Nat) (h : ∀ i, i < m → res i = res' i) :
    ∀ (k i : Nat), m - i = k → seqFirst res m i = seqFirst res' m i := by
  intro k
  induction k with
  | zero =>
    intro i hk
    unfold seqFirst
    have : i ≥ m := by omega
    simp [this]
  | succ k ih =>
    intro i hk
    unfold seqFirst
    have hi : ¬ i ≥ m := by omega
    simp only [hi, dite_false]
    rw [h i (by omega)]
    cases res' i <;> simp
    exact ih (i+1) (by omega)

end Cvise.R
