import Cvise.Model.Effects
namespace Cvise.Eff

/-- the invariant linking the concrete state and the analysis: every variable that points to the parameter object is
    in the may-alias set, fresh locations are above 0, and the parameter object is written only if the flag says so -/
structure Rel (s : State) (a : List Nat) (w : Bool) : Prop where
  alias : ∀ v, s.env v = 0 → v ∈ a
  next : 0 < s.next
  wr : 0 ∈ s.written → w = true

theorem analyse_sound : ∀ (p : List Stmt) (s : State) (a : List Nat) (w : Bool), Rel s a w →
    analyse p a w = false → 0 ∉ (exec p s).written := by
  intro p
  induction p with
  | nil =>
    intro s a w hr h
    simp only [analyse] at h
    simp only [exec, List.foldl_nil]
    intro hw; have := hr.wr hw; rw [h] at this; cases this
  | cons st rest ih =>
    intro s a w hr h
    simp only [exec, List.foldl_cons]
    cases st with
    | copyOf x y =>
      simp only [analyse] at h
      apply ih (step s (.copyOf x y)) _ w _ h
      refine ⟨?_, by simp [step], by simpa [step] using hr.wr⟩
      intro v hv
      simp only [step] at hv
      by_cases hvx : v = x
      · simp only [hvx, if_true] at hv; have := hr.next; omega
      · simp only [hvx, if_false] at hv
        simp only [List.mem_filter, decide_eq_true_eq]
        exact ⟨hr.alias v hv, hvx⟩
    | fresh x =>
      simp only [analyse] at h
      apply ih (step s (.fresh x)) _ w _ h
      refine ⟨?_, by simp [step], by simpa [step] using hr.wr⟩
      intro v hv
      simp only [step] at hv
      by_cases hvx : v = x
      · simp only [hvx, if_true] at hv; have := hr.next; omega
      · simp only [hvx, if_false] at hv
        simp only [List.mem_filter, decide_eq_true_eq]
        exact ⟨hr.alias v hv, hvx⟩
    | alias x y =>
      simp only [analyse] at h
      apply ih (step s (.alias x y)) _ w _ h
      refine ⟨?_, by simpa [step] using hr.next, by simpa [step] using hr.wr⟩
      intro v hv
      simp only [step] at hv
      by_cases hvx : v = x
      · simp only [hvx, if_true] at hv
        have hy := hr.alias y hv
        have : a.contains y = true := by simpa using hy
        rw [if_pos this, hvx]; exact List.mem_cons_self
      · simp only [hvx, if_false] at hv
        have hva := hr.alias v hv
        split
        · exact List.mem_cons_of_mem _ hva
        · simp only [List.mem_filter, decide_eq_true_eq]; exact ⟨hva, hvx⟩
    | write x =>
      simp only [analyse] at h
      apply ih (step s (.write x)) a (w || a.contains x) _ h
      refine ⟨by simpa [step] using hr.alias, by simpa [step] using hr.next, ?_⟩
      intro hw
      simp only [step, List.mem_cons] at hw
      rcases hw with hw | hw
      · have := hr.alias x hw.symm
        simp [this]
      · simp [hr.wr hw]

/-- C11(a): if the analysis says a path cannot mutate the parameter, executing it leaves the parameter object unwritten -/
theorem no_mutation (p : List Stmt) (h : mayMutateParam p = false) : 0 ∉ (exec p State.init).written := by
  apply analyse_sound p State.init [0] false _ h
  refine ⟨?_, by simp [State.init], by simp [State.init]⟩
  intro v hv
  simp only [State.init] at hv
  by_cases h0 : v = 0
  · simp [h0]
  · simp only [h0, if_false] at hv; omega

end Cvise.Eff
