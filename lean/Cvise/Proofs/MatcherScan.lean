import Cvise.Model.Matcher
namespace Cvise.M

theorem depth_step (o c : Char) (x : Char) (xs : List Char) (d : Int) :
    depth o c (x :: xs) d = depth o c xs (if x = o then d + 1 else if x = c then d - 1 else d) := rfl

theorem scan_sound (o c : Char) : ∀ (xs : List Char) (d k : Nat), 0 < d →
    scan o c xs d = some k → ClosesAt o c xs d k := by
  intro xs
  induction xs with
  | nil => intro d k hd h; cases d with
    | zero => omega
    | succ d => simp [scan] at h
  | cons x xs ih =>
    intro d k hd h
    cases d with
    | zero => omega
    | succ d =>
      simp only [scan] at h
      -- common reasoning for the three branches
      have key : ∀ (d' : Nat), (0 < d' ∨ True) →
          (if x = o then ((d:Int) + 1 + 1) else if x = c then ((d:Int) + 1 - 1) else ((d:Int)+1)) = (d' : Int) →
          (scan o c xs d').map (· + 1) = some k → ClosesAt o c (x :: xs) (d+1) k := by
        intro d' _ hd' hk
        cases hs : scan o c xs d' with
        | none => simp [hs] at hk
        | some k' =>
          simp [hs] at hk
          subst hk
          by_cases hd0 : d' = 0
          · subst hd0
            simp [scan] at hs
            subst hs
            refine ⟨by simp, ?_, ?_⟩
            · simp only [List.take_succ_cons, List.take_zero, depth_step, depth]
              push_cast; exact hd'
            · intro j hj
              have : j = 0 := by omega
              subst this; simp [depth]
          · have := ih d' k' (by omega) hs
            obtain ⟨h1, h2, h3⟩ := this
            refine ⟨by simp; omega, ?_, ?_⟩
            · simp only [List.take_succ_cons, depth_step]
              push_cast; rw [hd']; exact h2
            · intro j hj
              cases j with
              | zero => simp [depth]
              | succ j =>
                simp only [List.take_succ_cons, depth_step]
                push_cast; rw [hd']; exact h3 j (by omega)
      split at h
      · rename_i hxo
        exact key (d+2) (Or.inr trivial) (by rw [if_pos hxo]; push_cast; omega) h
      · rename_i hxo
        split at h
        · rename_i hxc
          exact key d (Or.inr trivial) (by rw [if_neg hxo, if_pos hxc]; omega) h
        · rename_i hxc
          exact key (d+1) (Or.inr trivial) (by rw [if_neg hxo, if_neg hxc]; push_cast; rfl) h

/-- the closing position is unique -/
theorem closesAt_unique (o c : Char) (xs : List Char) (d k k' : Nat)
    (h : ClosesAt o c xs d k) (h' : ClosesAt o c xs d k') : k = k' := by
  rcases Nat.lt_trichotomy k k' with hlt | heq | hgt
  · have := h'.2.2 k hlt; rw [h.2.1] at this; omega
  · exact heq
  · have := h.2.2 k' hgt; rw [h'.2.1] at this; omega

/-- completeness: if some prefix closes the group, `scan` finds it -/
theorem scan_complete (o c : Char) : ∀ (xs : List Char) (d k : Nat), 0 < d →
    ClosesAt o c xs d k → scan o c xs d = some k := by
  intro xs
  induction xs with
  | nil =>
    intro d k hd ⟨h1, h2, _⟩
    simp at h1; subst h1; simp [depth] at h2; omega
  | cons x xs ih =>
    intro d k hd ⟨h1, h2, h3⟩
    cases d with
    | zero => omega
    | succ d =>
      cases k with
      | zero => simp [depth] at h2; omega
      | succ k =>
        simp only [List.take_succ_cons, depth_step] at h2
        have h3' : ∀ j, j < k → 0 < depth o c (xs.take j) (if x = o then ((d+1:Nat):Int) + 1 else if x = c then ((d+1:Nat):Int) - 1 else ((d+1:Nat):Int)) := by
          intro j hj
          have := h3 (j+1) (by omega)
          simpa only [List.take_succ_cons, depth_step] using this
        simp only [scan]
        have fin : ∀ (d' : Nat), (if x = o then ((d+1:Nat):Int) + 1 else if x = c then ((d+1:Nat):Int) - 1 else ((d+1:Nat):Int)) = (d' : Int) →
            (scan o c xs d').map (· + 1) = some (k+1) := by
          intro d' hd'
          rw [hd'] at h2 h3'
          by_cases hd0 : d' = 0
          · subst hd0
            cases k with
            | zero => simp [scan]
            | succ k =>
              have := h3' 0 (by omega)
              simp [depth] at this
          · have := ih d' k (by omega) ⟨by simp at h1; omega, h2, h3'⟩
            simp [this]
        split
        · rename_i hxo
          exact fin (d+2) (by rw [if_pos hxo]; push_cast; omega)
        · rename_i hxo
          split
          · rename_i hxc
            exact fin d (by rw [if_neg hxo, if_pos hxc]; push_cast; omega)
          · rename_i hxc
            exact fin (d+1) (by rw [if_neg hxo, if_neg hxc])

theorem scan_iff (o c : Char) (xs : List Char) (d k : Nat) (hd : 0 < d) :
    scan o c xs d = some k ↔ ClosesAt o c xs d k :=
  ⟨scan_sound o c xs d k hd, scan_complete o c xs d k hd⟩

end Cvise.M

