import Cvise.Proofs.PassesLines
import Cvise.Proofs.BinaryTerm
/-! C03: every pass proposes a bounded number of candidates, whatever the verdicts -/
namespace Cvise.P
open Cvise Cvise.M Cvise.D

theorem runHistory_cons {σ : Type} (P : TextPass σ) (a : Bool) (hs : List Bool) (s : Text) (st : σ) (acc : List (PR × Text))
    (pr : PR) (s2 : Text) (st2 : σ) (h : P.transform s st = (pr, s2, st2)) :
    runHistory P (a :: hs) s (some st) acc =
      if pr = .stop ∨ pr = .error ∨ pr = .crash then (acc ++ [(pr, s2)], false)
      else if a ∧ pr = .ok then runHistory P hs s2 (P.aos s2 st2) (acc ++ [(pr, s2)])
      else runHistory P hs s (P.advance s st) (acc ++ [(pr, s2)]) := by
  simp only [runHistory, h]

/-- generic bound: a measure that drops on `advance` and on accept-then-`advance_on_success` bounds the number of
    candidates under **every** accept/reject history -/
theorem drive_bound {σ : Type} (P : TextPass σ) (μ : Text → σ → Nat)
    (H1 : ∀ s st st', P.advance s st = some st' → μ s st' < μ s st)
    (H2 : ∀ s st s2 st2 st', P.transform s st = (.ok, s2, st2) → P.aos s2 st2 = some st' → μ s2 st' < μ s st) :
    ∀ (hist : List Bool) (s : Text) (st : σ) (acc : List (PR × Text)),
      (runHistory P hist s (some st) acc).1.length ≤ acc.length + μ s st + 1 := by
  intro hist
  induction hist with
  | nil => intro s st acc; simp only [runHistory]; omega
  | cons a hs ih =>
    intro s st acc
    rcases htr : P.transform s st with ⟨pr, s2, st2⟩
    rw [runHistory_cons P a hs s st acc pr s2 st2 htr]
    · split
      · simp only [List.length_append, List.length_singleton]; omega
      · split
        · rename_i hacc
          cases haos : P.aos s2 st2 with
          | none => cases hs <;> simp [runHistory] <;> omega
          | some st' =>
            have hpr : pr = .ok := hacc.2
            subst hpr
            have := H2 s st s2 st2 st' htr haos
            have := ih s2 st' (acc ++ [(.ok, s2)])
            simp only [List.length_append, List.length_singleton] at this
            omega
        · cases hadv : P.advance s st with
          | none => cases hs <;> simp [runHistory] <;> omega
          | some st' =>
            have := H1 s st st' hadv
            have := ih s st' (acc ++ [(pr, s2)])
            simp only [List.length_append, List.length_singleton] at this
            omega

/-! ### counter passes -/

/-- comments: at most `|subs| + 1` candidates (the state only grows, `transform` stops beyond the table) -/
def commentsMu (_ : Text) (st : Nat) : Nat := Gen.commentsSubs.length + 1 - st

theorem commentsLoop_state (s : Text) : ∀ (fuel st : Nat) (out : Text) (st' : Nat),
    commentsLoop s fuel st = (.ok, out, st') → st ≤ st' ∧ st' < Gen.commentsSubs.length := by
  intro fuel
  induction fuel with
  | zero => intro st out st' h; simp [commentsLoop] at h
  | succ f ih =>
    intro st out st' h
    simp only [commentsLoop] at h
    split at h
    · simp at h
    · rename_i id repl hget
      split at h
      · cases h
        have := (List.getElem?_eq_some_iff.mp hget).1
        omega
      · have := ih _ _ _ h; omega

/-- the mutable-state quirk of `comments`: an accepted candidate keeps the state, so the bound uses that the accepted
    text no longer matches the same substitution; here only the all-reject bound is a theorem (see C03 notes) -/
theorem comments_reject_bound (s : Text) (hist : List Bool) (hr : ∀ a ∈ hist, a = false) (st : Nat) (acc : List (PR × Text)) :
    (runHistory comments hist s (some st) acc).1.length ≤ acc.length + (Gen.commentsSubs.length + 1 - st) + 1 := by
  induction hist generalizing st acc with
  | nil => simp only [runHistory]; omega
  | cons a hs ih =>
    have ha : a = false := hr a List.mem_cons_self
    subst ha
    rcases htr : comments.transform s st with ⟨pr, s2, st2⟩
    rw [runHistory_cons comments false hs s st acc pr s2 st2 htr]
    · split
      · simp only [List.length_append, List.length_singleton]; omega
      · simp only [Bool.false_eq_true, false_and, if_false]
        have hadv : comments.advance s st = some (st + 1) := rfl
        rw [hadv]
        have := ih (fun x hx => hr x (List.mem_cons_of_mem _ hx)) (st + 1) (acc ++ [(pr, s2)])
        simp only [List.length_append, List.length_singleton] at this
        -- beyond the table the transform reports STOP, so the state never exceeds the table length in a live run
        by_cases hlt : st < Gen.commentsSubs.length + 1
        · omega
        · -- st ≥ length+1: transform = stop, contradiction with the branch
          exfalso
          rename_i hnot
          apply hnot
          have : comments.transform s st = (.stop, s, st) := by
            simp only [comments, commentsLoop]
            have : Gen.commentsSubs[st]? = none := by
              apply List.getElem?_eq_none; omega
            simp [this]
          rw [this] at htr
          cases htr
          left; rfl

/-! ### binary-search passes: `lines` through the cursor measure of C06 -/

def linesMu (s : Text) (st : BS) : Nat :=
  st.chunk * (2 * (splitLines s).length + 2) + ((splitLines s).length - st.index) + (splitLines s).length

end Cvise.P

namespace Cvise.D
variable {C σ : Type} [DecidableEq C] [Inhabited σ] [Inhabited C]

/-- the size a main-loop outcome carries (0 for an error: the loop stops there anyway) -/
def resTotal (W : World C) : LRes C → Nat
  | .inl (x, _) => totalSize W.size x.disk
  | .inr _ => 0

/-- C03 for the main loop: with any pass behaviour (growing, neutral, failing), `rounds` beyond the current total
    size + 1 are never used — another round starts only after the previous one made the total strictly smaller, so the
    loop ends after at most `total + 1` rounds -/
theorem mainLoop_stops (cfg : Cfg) (W : World C) (dn : Sched) (orderOf : List C → List Nat) (fuel : Nat)
    (ps : List (PassI C σ)) : ∀ (k : Nat) (acc : LRes C), resTotal W acc < k →
      ∀ n, k ≤ n → mainLoop cfg W dn orderOf fuel ps n acc = mainLoop cfg W dn orderOf fuel ps k acc := by
  intro k
  induction k with
  | zero => intro acc h; omega
  | succ k ih =>
    intro acc h n hn
    cases n with
    | zero => omega
    | succ n =>
      simp only [mainLoop]
      cases acc with
      | inr e => rfl
      | inl xr =>
        obtain ⟨x, rid⟩ := xr
        simp only [resTotal] at h
        simp only
        split
        · rfl
        · cases hr : runPasses cfg W dn orderOf fuel ps (.inl (x, rid)) with
          | inr e => rfl
          | inl yr =>
            obtain ⟨y, rid'⟩ := yr
            simp only
            split
            · rfl
            · rename_i hlt
              exact ih (.inl (y, rid')) (by simp only [resTotal]; omega) n (by omega)

end Cvise.D
