import Cvise.Model.PassGroup
namespace Cvise.PG

/-- what the documented rule says about one entry -/
def selSpec (K : Known) (o : Opts) (e : Entry) : Option Sel :=
  match e.pass?.bind (fun n => K.passes.lookup n) with
  | some cls => if selected o e cls then some { cls := cls, arg := e.arg, maxT := e.maxT } else none
  | none => none

theorem includePass_ok (K : Known) (o : Opts) (e : Entry) (b : Bool) (h : includePass K o e = .ok b) :
    (inclOk o e && exclOk o e) = b := by
  unfold includePass at h
  unfold inclOk exclOk
  cases hi : e.incl <;> cases hx : e.excl <;> simp only [hi, hx] at h ⊢ <;> grind

theorem entry_spec (eager : Bool) (K : Known) (o : Opts) (cat : String) (e : Entry) (r : Option Sel)
    (h : entry eager K o cat e = .ok r) : r = selSpec K o e := by
  unfold entry at h
  simp only at h
  split at h
  · cases h
  · split at h
    · cases h
    · rename_i hinc
      cases h
      have hf := includePass_ok K o e false hinc
      unfold selSpec selected
      cases hp : e.pass?.bind (fun n => K.passes.lookup n) with
      | none => rfl
      | some cls => simp [hf]
    · rename_i hinc
      have ht := includePass_ok K o e true hinc
      split at h
      · cases h
      · rename_i n hn
        split at h
        · cases h
        · rename_i cls hcls
          unfold selSpec selected
          simp only [hn, Option.bind, hcls, ht]
          split at h
          · rename_i hr; cases h; simp_all
          · rename_i hr
            split at h
            · rename_i hc; cases h; simp_all
            · rename_i hc
              split at h
              · rename_i hn'; cases h; simp_all
              · rename_i hn'; cases h; simp [hc, hn']; simpa using hr

theorem entries_spec (eager : Bool) (K : Known) (o : Opts) (cat : String) : ∀ (es : List Entry) (rs : List Sel),
    entries eager K o cat es = .ok rs → rs = es.filterMap (selSpec K o) := by
  intro es
  induction es with
  | nil => intro rs h; simp [entries] at h; subst h; rfl
  | cons e es ih =>
    intro rs h
    simp only [entries] at h
    split at h
    · cases h
    · rename_i r hr
      split at h
      · cases h
      · rename_i rs' hrs
        cases h
        have h1 := entry_spec eager K o cat e r hr
        have h2 := ih rs' hrs
        simp only [List.filterMap_cons, ← h1, ← h2]
        cases r <;> rfl

theorem parseCats_spec (eager : Bool) (K : Known) (o : Opts) (g : Group) : ∀ (cs : List String) (s : List (String × List Sel)),
    parseCats eager K o g cs = .ok s →
      s = cs.map (fun cat => (cat, ((g.lookup cat).getD []).filterMap (selSpec K o))) ∧ ∀ cat ∈ cs, (g.lookup cat).isSome := by
  intro cs
  induction cs with
  | nil => intro s h; simp [parseCats] at h; subst h; simp
  | cons cat cs ih =>
    intro s h
    simp only [parseCats] at h
    split at h
    · cases h
    · rename_i es hes
      split at h
      · cases h
      · rename_i sel hsel
        split at h
        · cases h
        · rename_i rest hrest
          cases h
          obtain ⟨h1, h2⟩ := ih rest hrest
          have := entries_spec eager K o cat es sel hsel
          refine ⟨by simp [hes, ← this, ← h1], ?_⟩
          intro c hc
          simp only [List.mem_cons] at hc
          rcases hc with hc | hc
          · subst hc; simp [hes]
          · exact h2 c hc

/-- C13: an accepted dictionary yields, per category and in file order, exactly the entries the documented rule
    selects, each with its class, argument and max-transforms limit -/
theorem parse_eq_spec (eager : Bool) (K : Known) (o : Opts) (g : Group) (s : List (String × List Sel))
    (h : parse eager K o g = .ok s) :
    s = categories.map (fun cat => (cat, ((g.lookup cat).getD []).filterMap (selSpec K o))) ∧
    ∀ cat ∈ categories, (g.lookup cat).isSome := parseCats_spec eager K o g categories s h

/-- what makes an entry malformed, whatever the options -/
def Malformed (K : Known) (e : Entry) : Prop :=
  e.pass? = none ∨ (∃ n, e.pass? = some n ∧ K.passes.lookup n = none) ∨
  (∃ l b, e.incl = some l ∧ badOpt K l = some b) ∨ (∃ l b, e.excl = some l ∧ badOpt K l = some b)

theorem validate_malformed (K : Known) (cat : String) (e : Entry) (h : Malformed K e) : ∃ x, validate K cat e = .error x := by
  unfold validate
  cases hi : e.incl.bind (badOpt K) with
  | some b => exact ⟨_, rfl⟩
  | none =>
    simp only
    cases hx : e.excl.bind (badOpt K) with
    | some b => exact ⟨_, rfl⟩
    | none =>
      simp only
      rcases h with h | ⟨n, h1, h2⟩ | ⟨l, b, h1, h2⟩ | ⟨l, b, h1, h2⟩
      · simp [h]
      · simp [h1, h2]
      · simp [h1, Option.bind, h2] at hi
      · simp [h1, Option.bind, h2] at hx

theorem entry_eager_rejects (K : Known) (o : Opts) (cat : String) (e : Entry) (h : Malformed K e) :
    ∃ x, entry true K o cat e = .error x := by
  obtain ⟨x, hx⟩ := validate_malformed K cat e h
  exact ⟨x, by simp [entry, hx, Except.map]⟩

theorem entries_eager_rejects (K : Known) (o : Opts) (cat : String) : ∀ (es : List Entry), (∃ e ∈ es, Malformed K e) →
    ∃ x, entries true K o cat es = .error x := by
  intro es
  induction es with
  | nil => rintro ⟨e, he, _⟩; cases he
  | cons e es ih =>
    rintro ⟨e', he', hm⟩
    simp only [entries]
    cases hr : entry true K o cat e with
    | error x => exact ⟨x, rfl⟩
    | ok r =>
      simp only
      simp only [List.mem_cons] at he'
      rcases he' with rfl | he'
      · obtain ⟨x, hx⟩ := entry_eager_rejects K o cat e' hm
        rw [hx] at hr; cases hr
      · obtain ⟨x, hx⟩ := ih ⟨e', he', hm⟩
        rw [hx]; exact ⟨x, rfl⟩

theorem parseCats_eager_rejects (K : Known) (o : Opts) (g : Group) : ∀ (cs : List String),
    (∃ cat ∈ cs, g.lookup cat = none ∨ ∃ es, g.lookup cat = some es ∧ ∃ e ∈ es, Malformed K e) →
    ∃ x, parseCats true K o g cs = .error x := by
  intro cs
  induction cs with
  | nil => rintro ⟨c, hc, _⟩; cases hc
  | cons cat cs ih =>
    rintro ⟨c, hc, hbad⟩
    simp only [parseCats]
    cases hl : g.lookup cat with
    | none => exact ⟨_, rfl⟩
    | some es =>
      simp only
      cases he : entries true K o cat es with
      | error x => exact ⟨x, rfl⟩
      | ok sel =>
        simp only
        simp only [List.mem_cons] at hc
        rcases hc with rfl | hc
        · rcases hbad with hn | ⟨es', h1, h2⟩
          · rw [hl] at hn; cases hn
          · rw [hl] at h1; cases h1
            obtain ⟨x, hx⟩ := entries_eager_rejects K o c es h2
            rw [hx] at he; cases he
        · obtain ⟨x, hx⟩ := ih ⟨c, hc, hbad⟩
          rw [hx]; exact ⟨x, rfl⟩

/-- C13 (with validation before filtering): a file with a missing category, an entry without or with an unknown pass,
    or an unknown option — anywhere, whether or not the active options would have filtered the entry out — is
    rejected with a C-Vise error -/
theorem parse_rejects (K : Known) (o : Opts) (g : Group)
    (h : ∃ cat ∈ categories, g.lookup cat = none ∨ ∃ es, g.lookup cat = some es ∧ ∃ e ∈ es, Malformed K e) :
    ∃ x, parse true K o g = .error x := parseCats_eager_rejects K o g categories h

def f6K : Known := { options := ["slow", "windows"], passes := [("lines", "LinesPass")] }
def f6O : Opts := { active := [], removed := [], notC := false, ren := false }
def f6G : Group := [("first", [{ pass? := some "nosuch", incl := some ["slow"] }]), ("main", []), ("last", [])]

/-- F6: the shipped (lazy) parser accepts an unknown pass hidden behind a failing include filter -/
theorem lazy_accepts_hidden_unknown_pass :
    parse false f6K f6O f6G = .ok [("first", []), ("main", []), ("last", [])] := by rfl

theorem eager_rejects_hidden_unknown_pass : parse true f6K f6O f6G = .error (.unknownPass "nosuch") := by rfl

end Cvise.PG

namespace Cvise.PG

def wellFormed (K : Known) (e : Entry) : Bool :=
  (e.incl.bind (badOpt K)).isNone && (e.excl.bind (badOpt K)).isNone && (e.pass?.bind (fun n => K.passes.lookup n)).isSome

def groupOK (K : Known) (g : Group) : Bool :=
  categories.all fun cat => match g.lookup cat with
    | none => false
    | some es => es.all (wellFormed K)

theorem includePass_total (K : Known) (o : Opts) (e : Entry) (h1 : (e.incl.bind (badOpt K)) = none)
    (h2 : (e.excl.bind (badOpt K)) = none) : ∃ b, includePass K o e = .ok b := by
  unfold includePass
  cases hi : e.incl with
  | none =>
    simp only
    cases hx : e.excl with
    | none => exact ⟨true, rfl⟩
    | some l =>
      simp only
      have : badOpt K l = none := by simpa [hx, Option.bind] using h2
      simp only [this]; exact ⟨_, rfl⟩
  | some l =>
    simp only
    have hb : badOpt K l = none := by simpa [hi, Option.bind] using h1
    simp only [hb]
    cases meets l o.active with
    | false => exact ⟨false, rfl⟩
    | true =>
      simp only
      cases hx : e.excl with
      | none => exact ⟨true, rfl⟩
      | some l' =>
        simp only
        have : badOpt K l' = none := by simpa [hx, Option.bind] using h2
        simp only [this]; exact ⟨_, rfl⟩

theorem entry_total (eager : Bool) (K : Known) (o : Opts) (cat : String) (e : Entry) (h : wellFormed K e = true) :
    ∃ r, entry eager K o cat e = .ok r := by
  unfold wellFormed at h
  simp only [Bool.and_eq_true, Option.isNone_iff_eq_none, Option.isSome_iff_exists] at h
  obtain ⟨⟨h1, h2⟩, cls, h3⟩ := h
  have hv : validate K cat e = .ok cls := by
    unfold validate
    simp only [h1, h2]
    cases hp : e.pass? with
    | none => simp [hp] at h3
    | some n => simp only [hp, Option.bind] at h3; simp [h3]
  obtain ⟨b, hb⟩ := includePass_total K o e h1 h2
  unfold entry
  have hpre : (if eager = true then (validate K cat e).map (fun _ => ()) else Except.ok ()) = Except.ok () := by
    cases eager <;> simp [hv, Except.map]
  simp only [hpre, hb]
  cases b with
  | false => exact ⟨none, rfl⟩
  | true =>
    simp only
    cases hp : e.pass? with
    | none => simp [hp] at h3
    | some n =>
      simp only [hp, Option.bind] at h3
      simp only [h3]
      split
      · exact ⟨_, rfl⟩
      · split
        · exact ⟨_, rfl⟩
        · split <;> exact ⟨_, rfl⟩

theorem entries_total (eager : Bool) (K : Known) (o : Opts) (cat : String) : ∀ (es : List Entry),
    es.all (wellFormed K) = true → ∃ rs, entries eager K o cat es = .ok rs := by
  intro es
  induction es with
  | nil => intro _; exact ⟨[], rfl⟩
  | cons e es ih =>
    intro h
    simp only [List.all_cons, Bool.and_eq_true] at h
    obtain ⟨r, hr⟩ := entry_total eager K o cat e h.1
    obtain ⟨rs, hrs⟩ := ih h.2
    simp only [entries, hr, hrs]
    exact ⟨_, rfl⟩

theorem parseCats_total (eager : Bool) (K : Known) (o : Opts) (g : Group) : ∀ (cs : List String),
    (cs.all fun cat => match g.lookup cat with | none => false | some es => es.all (wellFormed K)) = true →
    ∃ s, parseCats eager K o g cs = .ok s := by
  intro cs
  induction cs with
  | nil => intro _; exact ⟨[], rfl⟩
  | cons c cs ih =>
    intro h
    simp only [List.all_cons, Bool.and_eq_true] at h
    obtain ⟨s, hs⟩ := ih h.2
    cases hl : g.lookup c with
    | none => simp [hl] at h
    | some es =>
      simp only [hl] at h
      obtain ⟨rs, hrs⟩ := entries_total eager K o c es h.1
      simp only [parseCats, hl, hrs, hs]
      exact ⟨_, rfl⟩

/-- a well-formed dictionary is accepted under every option combination -/
theorem parse_total (eager : Bool) (K : Known) (o : Opts) (g : Group) (h : groupOK K g = true) :
    ∃ s, parse eager K o g = .ok s := parseCats_total eager K o g categories h

end Cvise.PG
