import Cvise.Proofs.DriverAccept
import Cvise.Proofs.DriverFmt
/-! C20: per pass, `failed ≤ executed` in every reachable state: each started candidate is judged a failure at most
    once (the scan removes what it judged, the final wait only sees what is left), for every schedule. -/
namespace Cvise.D
variable {C σ : Type} [DecidableEq C]

/-- `n` for the current pass, 0 for the others -/
def wt (p c n : Nat) : Nat := if p = c then n else 0

theorem check_failed_le (cfg : Cfg) (size : C → Nat) (cur : C) (e : EnvRes C σ) (g g' : Side C) (gu gu' : Bool) (o : Outcome)
    (h : check cfg size cur e g gu = (o, g', gu')) (p : Nat) :
    g.failed p ≤ g'.failed p ∧ g'.failed p ≤ g.failed p + wt p g.curPass 1 := by
  rcases check_failed cfg size cur e g g' gu gu' o h with h1 | h1
  · rw [h1]; unfold wt; split <;> omega
  · rw [h1]; unfold bump wt; split <;> omega

theorem saveExtra_frame (cfg : Cfg) (g : Side C) :
    (saveExtra cfg g).failed = g.failed ∧ (saveExtra cfg g).executed = g.executed ∧
    (saveExtra cfg g).worked = g.worked ∧ (saveExtra cfg g).curPass = g.curPass := by
  unfold saveExtra; split <;> simp

/-- the frame + failure budget of an outcome of the scan -/
def ScanOK (g : Side C) (n : Nat) (r : RRes C (List Nat × RS × Bool)) : Prop :=
  match r with
  | .inl ((k, _, _), g') =>
    g'.executed = g.executed ∧ g'.worked = g.worked ∧ g'.curPass = g.curPass ∧
    ∀ p, g'.failed p + wt p g.curPass k.length ≤ g.failed p + wt p g.curPass n
  | .inr (_, g') =>
    g'.executed = g.executed ∧ g'.worked = g.worked ∧ g'.curPass = g.curPass ∧
    ∀ p, g'.failed p ≤ g.failed p + wt p g.curPass n

theorem wt_succ (p c n : Nat) : wt p c (n + 1) = wt p c n + wt p c 1 := by unfold wt; split <;> omega

theorem processDone_ok (cfg : Cfg) (size : C → Nat) (cur : C) (env : Nat → EnvRes C σ) (done : Nat → Bool) :
    ∀ (L : List Nat) (g : Side C) (rs : RS) (q : Bool),
      ScanOK g L.length (processDone cfg size cur env done L g rs q) := by
  intro L
  induction L with
  | nil => intro g rs q; simp [processDone, ScanOK]
  | cons i L ih =>
    intro g rs q
    simp only [processDone, List.length_cons]
    -- a recursive call from a state g1 that already satisfies the frame and spent at most one failure
    have step : ∀ (g1 : Side C) (rs1 : RS) (q1 : Bool),
        g1.executed = g.executed → g1.worked = g.worked → g1.curPass = g.curPass →
        (∀ p, g1.failed p ≤ g.failed p + wt p g.curPass 1) →
        ScanOK g (L.length + 1) (processDone cfg size cur env done L g1 rs1 q1) := by
      intro g1 rs1 q1 e1 e2 e3 e4
      have := ih g1 rs1 q1
      generalize processDone cfg size cur env done L g1 rs1 q1 = r at this ⊢
      unfold ScanOK at this ⊢
      rcases r with ⟨⟨k, a, b⟩, g'⟩ | ⟨er, g'⟩
      · simp only at this ⊢
        obtain ⟨f1, f2, f3, f4⟩ := this
        refine ⟨by rw [f1, e1], by rw [f2, e2], by rw [f3, e3], ?_⟩
        intro p
        have h1 := f4 p; have h2 := e4 p
        rw [e3] at h1
        by_cases hp : p = g.curPass <;> simp [wt, hp] at h1 h2 ⊢ <;> omega
      · simp only at this ⊢
        obtain ⟨f1, f2, f3, f4⟩ := this
        refine ⟨by rw [f1, e1], by rw [f2, e2], by rw [f3, e3], ?_⟩
        intro p
        have h1 := f4 p; have h2 := e4 p
        rw [e3] at h1
        by_cases hp : p = g.curPass <;> simp [wt, hp] at h1 h2 ⊢ <;> omega
    -- the same, but the head future is kept in the list
    have keep : ∀ (g1 : Side C) (rs1 : RS) (q1 : Bool),
        g1.executed = g.executed → g1.worked = g.worked → g1.curPass = g.curPass → g1.failed = g.failed →
        ScanOK g (L.length + 1)
          (match processDone cfg size cur env done L g1 rs1 q1 with
            | .inl ((k, rs, q), g) => .inl ((i :: k, rs, q), g)
            | .inr e => .inr e) := by
      intro g1 rs1 q1 e1 e2 e3 e4
      have := ih g1 rs1 q1
      generalize processDone cfg size cur env done L g1 rs1 q1 = r at this ⊢
      unfold ScanOK at this ⊢
      rcases r with ⟨⟨k, a, b⟩, g'⟩ | ⟨er, g'⟩
      · simp only [List.length_cons] at this ⊢
        obtain ⟨f1, f2, f3, f4⟩ := this
        refine ⟨by rw [f1, e1], by rw [f2, e2], by rw [f3, e3], ?_⟩
        intro p
        have h1 := f4 p
        rw [e3, e4] at h1
        by_cases hp : p = g.curPass <;> simp [wt, hp] at h1 ⊢ <;> omega
      · simp only at this ⊢
        obtain ⟨f1, f2, f3, f4⟩ := this
        refine ⟨by rw [f1, e1], by rw [f2, e2], by rw [f3, e3], ?_⟩
        intro p
        have h1 := f4 p
        rw [e3, e4] at h1
        by_cases hp : p = g.curPass <;> simp [wt, hp] at h1 ⊢ <;> omega
    split
    · exact step g rs q rfl rfl rfl (fun p => by simp)
    · split
      · split
        · have sf := saveExtra_frame cfg { g with timeouts := g.timeouts + 1 }
          exact step _ _ _ sf.2.1 sf.2.2.1 sf.2.2.2 (fun p => by rw [sf.1]; simp)
        · simp only [ScanOK]; exact ⟨trivial, trivial, trivial, fun p => by simp⟩
        · cases hc : check cfg size cur (env i) g rs.gu with
          | mk o rest =>
            obtain ⟨g1, gu1⟩ := rest
            have fr := check_frame cfg size cur (env i) g g1 rs.gu gu1 o hc
            have fl := check_failed_le cfg size cur (env i) g g1 rs.gu gu1 o hc
            cases o with
            | accept =>
              simp only
              have := (check_accept cfg size cur (env i) g g1 rs.gu gu1 hc).2.1
              subst this
              exact keep _ _ _ rfl rfl rfl rfl
            | ignore => simp only; exact step _ _ _ fr.1 fr.2.1 fr.2.2 (fun p => (fl p).2)
            | quit => simp only; exact step _ _ _ fr.1 fr.2.1 fr.2.2 (fun p => (fl p).2)
            | raise e =>
              simp only [ScanOK]
              refine ⟨fr.1, fr.2.1, fr.2.2, fun p => ?_⟩
              have h1 := (fl p).2
              by_cases hp : p = g.curPass <;> simp [wt, hp] at h1 ⊢ <;> omega
      · exact keep _ _ _ rfl rfl rfl rfl


def RRes.side {α : Type} : RRes C α → Side C
  | .inl (_, g) => g
  | .inr (_, g) => g

theorem wfs_ok (cfg : Cfg) (size : C → Nat) (cur : C) (env : Nat → EnvRes C σ) :
    ∀ (L : List Nat) (g : Side C) (rs : RS),
      let g' := RRes.side (wfs cfg size cur env L g rs)
      g'.executed = g.executed ∧ g'.worked = g.worked ∧ g'.curPass = g.curPass ∧
      ∀ p, g'.failed p ≤ g.failed p + wt p g.curPass L.length := by
  intro L
  induction L with
  | nil => intro g rs; simp [wfs, RRes.side]
  | cons i L ih =>
    intro g rs
    simp only [wfs, List.length_cons]
    have step : ∀ (g1 : Side C) (rs1 : RS),
        g1.executed = g.executed → g1.worked = g.worked → g1.curPass = g.curPass →
        (∀ p, g1.failed p ≤ g.failed p + wt p g.curPass 1) →
        let g' := RRes.side (wfs cfg size cur env L g1 rs1)
        g'.executed = g.executed ∧ g'.worked = g.worked ∧ g'.curPass = g.curPass ∧
        ∀ p, g'.failed p ≤ g.failed p + wt p g.curPass (L.length + 1) := by
      intro g1 rs1 e1 e2 e3 e4
      obtain ⟨f1, f2, f3, f4⟩ := ih g1 rs1
      refine ⟨by rw [f1, e1], by rw [f2, e2], by rw [f3, e3], ?_⟩
      intro p
      have h1 := f4 p; have h2 := e4 p
      rw [e3] at h1
      by_cases hp : p = g.curPass <;> simp [wt, hp] at h1 h2 ⊢ <;> omega
    split
    · exact step g rs rfl rfl rfl (fun p => by simp)
    · simp [RRes.side]
    · cases hc : check cfg size cur (env i) g rs.gu with
      | mk o rest =>
        obtain ⟨g1, gu1⟩ := rest
        have fr := check_frame cfg size cur (env i) g g1 rs.gu gu1 o hc
        have fl := check_failed_le cfg size cur (env i) g g1 rs.gu gu1 o hc
        have direct : g1.executed = g.executed ∧ g1.worked = g.worked ∧ g1.curPass = g.curPass ∧
            ∀ p, g1.failed p ≤ g.failed p + wt p g.curPass (L.length + 1) := by
          refine ⟨fr.1, fr.2.1, fr.2.2, fun p => ?_⟩
          have h1 := (fl p).2
          by_cases hp : p = g.curPass <;> simp [wt, hp] at h1 ⊢ <;> omega
        cases o with
        | accept => simp only [RRes.side]; exact direct
        | raise e => simp only [RRes.side]; exact direct
        | ignore => simp only; exact step _ _ fr.1 fr.2.1 fr.2.2 (fun p => (fl p).2)
        | quit => simp only; exact step _ _ fr.1 fr.2.1 fr.2.2 (fun p => (fl p).2)

/-- a round keeps `failed ≤ executed` for every pass, and touches nothing but the statistics of the current pass
    beyond what `check` may do; `worked` is untouched -/
theorem roundLoop_ok (cfg : Cfg) (size : C → Nat) (pkey : Nat) (cur : C) (env : Nat → EnvRes C σ) (more : Nat → Bool)
    (done : Nat → Nat → Bool) : ∀ (fuel t : Nat) (futs : List Nat) (g : Side C) (rs : RS),
      (∀ p, g.failed p + wt p g.curPass futs.length ≤ g.executed p) →
      let g' := RRes.side (roundLoop cfg size pkey cur env more done fuel t futs g rs)
      g'.worked = g.worked ∧ g'.curPass = g.curPass ∧ ∀ p, g'.failed p ≤ g'.executed p := by
  intro fuel
  induction fuel with
  | zero =>
    intro t futs g rs h
    simp only [roundLoop, RRes.side]
    exact ⟨trivial, trivial, fun p => by have := h p; omega⟩
  | succ f ih =>
    intro t futs g rs h
    simp only [roundLoop]
    have pd := processDone_ok cfg size cur env (done t) futs g rs false
    generalize processDone cfg size cur env (done t) futs g rs false = r at pd ⊢
    unfold ScanOK at pd
    rcases r with ⟨⟨k, rs1, q⟩, g1⟩ | ⟨er, g1⟩
    · simp only at pd ⊢
      obtain ⟨f1, f2, f3, f4⟩ := pd
      have base : ∀ p, g1.failed p + wt p g1.curPass k.length ≤ g1.executed p := by
        intro p; have := f4 p; have := h p; rw [f1, f3]; omega
      split
      · obtain ⟨w1, w2, w3, w4⟩ := wfs_ok cfg size cur env k g1 rs1
        refine ⟨by rw [w2, f2], by rw [w3, f3], ?_⟩
        intro p
        have := w4 p; have := base p; rw [w1]; omega
      · -- schedule candidate t
        have base2 : ∀ p, g1.failed p + wt p g1.curPass (k ++ [t]).length ≤ bump g1.executed g1.curPass p := by
          intro p
          have := base p
          by_cases hp : p = g1.curPass <;> simp [wt, bump, hp] at this ⊢ <;> omega
        split
        · have := ih (t+1) (k ++ [t])
            { g1 with executed := bump g1.executed g1.curPass, log := g1.log ++ [.sched pkey (t+1)] } rs1 base2
          simp only at this
          rw [f3] at this ⊢
          exact ⟨by rw [this.1, f2], by rw [this.2.1], this.2.2⟩
        · obtain ⟨w1, w2, w3, w4⟩ := wfs_ok cfg size cur env (k ++ [t])
            { g1 with executed := bump g1.executed g1.curPass, log := g1.log ++ [.sched pkey (t+1)] } rs1
          simp only at w1 w2 w3 w4
          refine ⟨by rw [w2, f2], by rw [w3, f3], ?_⟩
          intro p
          have := w4 p; have := base2 p; rw [w1]; omega
    · simp only [RRes.side] at pd ⊢
      obtain ⟨f1, f2, f3, f4⟩ := pd
      refine ⟨f2, f3, ?_⟩
      intro p; have := f4 p; have := h p; rw [f1]; omega


variable [Inhabited σ] [Inhabited C]

/-- the statistics invariant of a driver state: for every pass, failed ≤ executed -/
def StatOK (x : St C) : Prop := ∀ p, x.side.failed p ≤ x.side.executed p

def LRes.st' : LRes C → St C
  | .inl (x, _) => x
  | .inr (_, x) => x

theorem fileLoop_stat (cfg : Cfg) (W : World C) (dn : Sched) (P : PassI C σ) (k startSize : Nat) :
    ∀ (fuel rid : Nat) (s : σ) (succ : Nat) (x : St C), StatOK x →
      StatOK (LRes.st' (fileLoop cfg W dn P k startSize fuel rid s succ x)) := by
  intro fuel
  induction fuel with
  | zero => intro rid s succ x hx; simpa [fileLoop, LRes.st'] using hx
  | succ f ih =>
    intro rid s succ x hx
    simp only [fileLoop]
    split
    · simpa [LRes.st'] using hx
    · have rl := roundLoop_ok cfg W.size P.key (x.disk.getD k default)
        (envOf W P x.disk k (x.disk.getD k default) s rid)
        (fun t => (nthState P (x.disk.getD k default) s t).isSome) (dn rid) (cfg.giveup + 1000) 0 [] x.side {}
        (by intro p; have := hx p; simp [wt]; exact this)
      generalize roundLoop cfg W.size P.key (x.disk.getD k default) (envOf W P x.disk k (x.disk.getD k default) s rid)
        (fun t => (nthState P (x.disk.getD k default) s t).isSome) (dn rid) (cfg.giveup + 1000) 0 [] x.side {} = r at rl ⊢
      rcases r with ⟨⟨_ | i⟩, g⟩ | ⟨e, g⟩
      · simp only [RRes.side] at rl; simp only [LRes.st']; exact rl.2.2
      · simp only [RRes.side] at rl
        simp only
        have hcommit : ∀ (y : St C), y.side.failed = g.failed → y.side.executed = g.executed → StatOK y := by
          intro y h1 h2 p
          rw [h1, h2]; exact rl.2.2 p
        split
        · simp only [LRes.st']; exact hcommit _ rfl rfl
        · split
          · simp only [LRes.st']; exact hcommit _ rfl rfl
          · split
            · simp only [LRes.st']; exact hcommit _ rfl rfl
            · exact ih _ _ _ _ (hcommit _ rfl rfl)
      · simp only [RRes.side] at rl; simp only [LRes.st']; exact rl.2.2


theorem statOK_congr {x y : St C} (h1 : y.side.failed = x.side.failed) (h2 : y.side.executed = x.side.executed)
    (h : StatOK x) : StatOK y := by
  intro p; rw [h1, h2]; exact h p

theorem fileStep_stat (cfg : Cfg) (W : World C) (dn : Sched) (P : PassI C σ) (fuel : Nat) (acc : LRes C) (k : Nat)
    (h : StatOK (LRes.st' acc)) : StatOK (LRes.st' (fileStep cfg W dn P fuel acc k)) := by
  unfold fileStep
  cases acc with
  | inr e => exact h
  | inl xr =>
    obtain ⟨x, rid⟩ := xr
    simp only [LRes.st'] at h
    simp only
    split
    · exact h
    · split
      · exact statOK_congr rfl rfl h
      · have hy : StatOK (LRes.st' (newLoop cfg W dn P k fuel rid x (x.disk.getD k default))) := by
          unfold newLoop
          have hr : StatOK (fmtStep W P x (k := k) (x.disk.getD k default)).1 := by
            unfold StatOK; rw [fmtStep_side]; exact h
          split
          · exact hr
          · split
            · exact hr
            · exact fileLoop_stat cfg W dn P k _ fuel rid _ 0 _ hr
        generalize newLoop cfg W dn P k fuel rid x (x.disk.getD k default) = r at hy ⊢
        rcases r with ⟨y, rid'⟩ | ⟨e, y⟩
        · simp only [LRes.st'] at hy
          simp only
          split <;> simp only [LRes.st']
          · exact statOK_congr rfl rfl hy
          · exact hy
        · exact hy

theorem runPass_stat (cfg : Cfg) (W : World C) (dn : Sched) (P : PassI C σ) (order : List Nat) (fuel rid : Nat) (x : St C)
    (h : StatOK x) : StatOK (LRes.st' (runPass cfg W dn P order fuel rid x)) := by
  unfold runPass
  simp only
  have h0 : StatOK ({ x with leftover := false, side := { x.side with curPass := P.key } } : St C) :=
    statOK_congr rfl rfl h
  split
  · exact h0
  · generalize ({ x with leftover := false, side := { x.side with curPass := P.key } } : St C) = x0 at h0 ⊢
    have : ∀ (order : List Nat) (acc : LRes C), StatOK (LRes.st' acc) →
        StatOK (LRes.st' (order.foldl (fileStep cfg W dn P fuel) acc)) := by
      intro order
      induction order with
      | nil => intro acc h; exact h
      | cons k ks ih => intro acc h; exact ih _ (fileStep_stat cfg W dn P fuel acc k h)
    exact this order _ h0

theorem runPasses_stat (cfg : Cfg) (W : World C) (dn : Sched) (orderOf : List C → List Nat) (fuel : Nat) :
    ∀ (ps : List (PassI C σ)) (acc : LRes C), StatOK (LRes.st' acc) →
      StatOK (LRes.st' (runPasses cfg W dn orderOf fuel ps acc)) := by
  intro ps
  induction ps with
  | nil => intro acc h; exact h
  | cons P ps ih =>
    intro acc h
    simp only [runPasses]
    cases acc with
    | inr e => exact h
    | inl xr => obtain ⟨x, rid⟩ := xr; exact ih _ (runPass_stat cfg W dn P _ fuel rid x h)

theorem mainLoop_stat (cfg : Cfg) (W : World C) (dn : Sched) (orderOf : List C → List Nat) (fuel : Nat) (ps : List (PassI C σ)) :
    ∀ (rounds : Nat) (acc : LRes C), StatOK (LRes.st' acc) →
      StatOK (LRes.st' (mainLoop cfg W dn orderOf fuel ps rounds acc)) := by
  intro rounds
  induction rounds with
  | zero => intro acc h; exact h
  | succ n ih =>
    intro acc h
    simp only [mainLoop]
    cases acc with
    | inr e => exact h
    | inl xr =>
      obtain ⟨x, rid⟩ := xr
      simp only
      split
      · exact h
      · have h2 := runPasses_stat cfg W dn orderOf fuel ps (.inl (x, rid)) h
        generalize runPasses cfg W dn orderOf fuel ps (.inl (x, rid)) = r at h2 ⊢
        rcases r with ⟨y, rid'⟩ | ⟨e, y⟩
        · simp only
          split
          · exact h2
          · exact ih _ h2
        · exact h2

/-- C20 `failed_le`: after `reduce` (any outcome, any schedule, any faults), for every pass "failed" ≤ "total executed" -/
theorem reduce_failed_le (cfg : Cfg) (W : World C) (dn : Sched) (orderOf : List C → List Nat) (fuel : Nat)
    (first main last : List (PassI C σ)) (x : St C) (h : StatOK x) (p : Nat) :
    (LRes.st' (reduce cfg W dn orderOf fuel first main last x)).side.failed p ≤
    (LRes.st' (reduce cfg W dn orderOf fuel first main last x)).side.executed p := by
  unfold reduce
  exact runPasses_stat cfg W dn orderOf fuel last _
    (mainLoop_stat cfg W dn orderOf fuel main _ _ (runPasses_stat cfg W dn orderOf fuel first (.inl (x, 0)) h)) p

end Cvise.D
