import Cvise.Model.Driver
/-!
`--start-with-pass`, `skip_initial` and missing prerequisites (`runPassG`, `runPassesG`, `mainLoopG`, `reduceG`):
* without the option the gated driver *is* the plain driver on the passes whose prerequisites are there;
* while the option is pending, calls for other passes change nothing at all (files, table, statistics, log, round id);
* the first available pass with the named key clears the option, and from there on the run is the plain one;
* every property of the plain driver that each `runPass` preserves carries over to the gated driver (`*_lift`).
-/
namespace Cvise.D
variable {C σ : Type} [DecidableEq C] [Inhabited σ] [Inhabited C]

theorem runPassesG_err (cfg : Cfg) (W : World C) (dn : Sched) (orderOf : List C → List Nat) (fuel : Nat) (avail : PassI C σ → Bool) :
    ∀ (ps : List (PassI C σ)) (e : Err × St C) (sw : Option Nat),
      runPassesG cfg W dn orderOf fuel avail ps (.inr e, sw) = (.inr e, sw) := by
  intro ps
  induction ps with
  | nil => intro e sw; rfl
  | cons P ps _ => intro e sw; simp only [runPassesG]

theorem runPasses_err (cfg : Cfg) (W : World C) (dn : Sched) (orderOf : List C → List Nat) (fuel : Nat) :
    ∀ (ps : List (PassI C σ)) (e : Err × St C), runPasses cfg W dn orderOf fuel ps (.inr e) = .inr e := by
  intro ps
  induction ps with
  | nil => intro e; rfl
  | cons P ps _ => intro e; simp only [runPasses]

/-- without the option: the plain `_run_additional_passes` over the passes whose prerequisites are there -/
theorem runPassesG_none (cfg : Cfg) (W : World C) (dn : Sched) (orderOf : List C → List Nat) (fuel : Nat) (avail : PassI C σ → Bool) :
    ∀ (ps : List (PassI C σ)) (acc : LRes C),
      runPassesG cfg W dn orderOf fuel avail ps (acc, none) = (runPasses cfg W dn orderOf fuel (ps.filter avail) acc, none) := by
  intro ps
  induction ps with
  | nil => intro acc; rfl
  | cons P ps ih =>
    intro acc
    cases acc with
    | inr e =>
      rw [runPassesG_err, runPasses_err]
    | inl xr =>
      obtain ⟨x, rid⟩ := xr
      simp only [runPassesG]
      by_cases ha : avail P = true
      · simp only [ha, if_true, List.filter_cons_of_pos, runPassG, runPasses]
        exact ih _
      · have ha' : avail P = false := by simpa using ha
        simp only [ha', Bool.false_eq_true, if_false]
        rw [List.filter_cons_of_neg (by simp [ha'])]
        exact ih _

theorem mainLoopG_none (cfg : Cfg) (W : World C) (dn : Sched) (orderOf : List C → List Nat) (fuel : Nat) (avail : PassI C σ → Bool)
    (ps : List (PassI C σ)) : ∀ (rounds : Nat) (acc : LRes C),
      mainLoopG cfg W dn orderOf fuel avail ps rounds (acc, none) = (mainLoop cfg W dn orderOf fuel (ps.filter avail) rounds acc, none) := by
  intro rounds
  induction rounds with
  | zero => intro acc; rfl
  | succ n ih =>
    intro acc
    cases acc with
    | inr e => simp only [mainLoopG, mainLoop]
    | inl xr =>
      obtain ⟨x, rid⟩ := xr
      simp only [mainLoopG, mainLoop]
      split
      · rfl
      · rw [runPassesG_none]
        generalize runPasses cfg W dn orderOf fuel (ps.filter avail) (.inl (x, rid)) = r
        cases r with
        | inr e => rfl
        | inl yr =>
          obtain ⟨y, rid'⟩ := yr
          simp only
          split
          · rfl
          · exact ih _

/-- **without `--start-with-pass` the gated driver is the plain driver** on the passes whose prerequisites are there
    (so every theorem about `reduce` is a theorem about `reduceG … none`) -/
theorem reduceG_none (cfg : Cfg) (W : World C) (dn : Sched) (orderOf : List C → List Nat) (fuel : Nat) (avail : PassI C σ → Bool)
    (first main last : List (PassI C σ)) (x : St C) :
    reduceG cfg W dn orderOf fuel avail false first main last x none =
      (reduce cfg W dn orderOf fuel (first.filter avail) (main.filter avail) (last.filter avail) x, none) := by
  simp only [reduceG, reduce, Bool.false_eq_true, if_false]
  rw [runPassesG_none, mainLoopG_none, runPassesG_none]

/-- `skip_initial` only drops the first group -/
theorem reduceG_skipInitial (cfg : Cfg) (W : World C) (dn : Sched) (orderOf : List C → List Nat) (fuel : Nat) (avail : PassI C σ → Bool)
    (first main last : List (PassI C σ)) (x : St C) (sw : Option Nat) :
    reduceG cfg W dn orderOf fuel avail true first main last x sw = reduceG cfg W dn orderOf fuel avail false [] main last x sw := by
  simp only [reduceG, if_true, Bool.false_eq_true, if_false, runPassesG]

/-- no available pass of the list carries the named key -/
def NoneNamed (avail : PassI C σ → Bool) (n : Nat) (ps : List (PassI C σ)) : Prop := ∀ P ∈ ps, avail P = true → P.key ≠ n

/-- **passes before `--start-with-pass` are not run**: while the option is pending, a list without the named pass
    (or whose named pass lacks its prerequisites) changes nothing — files, replay table, statistics, log and round id
    are what they were, and the option is still pending -/
theorem runPassesG_skip (cfg : Cfg) (W : World C) (dn : Sched) (orderOf : List C → List Nat) (fuel : Nat) (avail : PassI C σ → Bool) (n : Nat) :
    ∀ (ps : List (PassI C σ)) (x : St C) (rid : Nat), NoneNamed avail n ps →
      runPassesG cfg W dn orderOf fuel avail ps (.inl (x, rid), some n) = (.inl (x, rid), some n) := by
  intro ps
  induction ps with
  | nil => intro x rid _; rfl
  | cons P ps ih =>
    intro x rid h
    have ht : NoneNamed avail n ps := fun Q hQ => h Q (List.mem_cons_of_mem _ hQ)
    simp only [runPassesG]
    by_cases ha : avail P = true
    · have hk : ¬ n = P.key := fun e => h P List.mem_cons_self ha e.symm
      simp only [ha, if_true, runPassG, hk, if_false]
      exact ih x rid ht
    · have ha' : avail P = false := by simpa using ha
      simp only [ha', Bool.false_eq_true, if_false]
      exact ih x rid ht

/-- **the option clears exactly at the first available pass with the named key**, and from there the run is the plain one -/
theorem runPassesG_hit (cfg : Cfg) (W : World C) (dn : Sched) (orderOf : List C → List Nat) (fuel : Nat) (avail : PassI C σ → Bool) (n : Nat)
    (pre post : List (PassI C σ)) (P : PassI C σ) (x : St C) (rid : Nat)
    (hpre : NoneNamed avail n pre) (ha : avail P = true) (hk : P.key = n) :
    runPassesG cfg W dn orderOf fuel avail (pre ++ P :: post) (.inl (x, rid), some n) =
      (runPasses cfg W dn orderOf fuel (P :: post.filter avail) (.inl (x, rid)), none) := by
  induction pre with
  | nil =>
    simp only [List.nil_append, runPassesG, ha, if_true, runPassG, hk, runPasses]
    exact runPassesG_none cfg W dn orderOf fuel avail post _
  | cons Q pre ih =>
    have ht : NoneNamed avail n pre := fun R hR => hpre R (List.mem_cons_of_mem _ hR)
    simp only [List.cons_append, runPassesG]
    by_cases hq : avail Q = true
    · have hne : ¬ n = Q.key := fun e => hpre Q List.mem_cons_self hq e.symm
      simp only [hq, if_true, runPassG, hne, if_false]
      exact ih ht
    · have hq' : avail Q = false := by simpa using hq
      simp only [hq', Bool.false_eq_true, if_false]
      exact ih ht

/-- a main loop none of whose available passes is the named one does nothing, however many rounds it is given -/
theorem mainLoopG_skip (cfg : Cfg) (W : World C) (dn : Sched) (orderOf : List C → List Nat) (fuel : Nat) (avail : PassI C σ → Bool) (n : Nat)
    (ps : List (PassI C σ)) (h : NoneNamed avail n ps) (rounds : Nat) (x : St C) (rid : Nat) :
    mainLoopG cfg W dn orderOf fuel avail ps rounds (.inl (x, rid), some n) = (.inl (x, rid), some n) := by
  cases rounds with
  | zero => rfl
  | succ r =>
    simp only [mainLoopG]
    split
    · rfl
    · rw [runPassesG_skip cfg W dn orderOf fuel avail n ps x rid h]
      simp

/-- the named pass is in the main group (and not among the available passes of the first group): the first round runs
    the main passes from the named one on, later rounds run them all -/
theorem mainLoopG_hit (cfg : Cfg) (W : World C) (dn : Sched) (orderOf : List C → List Nat) (fuel : Nat) (avail : PassI C σ → Bool) (n : Nat)
    (pre post : List (PassI C σ)) (P : PassI C σ) (x : St C) (rid rounds : Nat)
    (hpre : NoneNamed avail n pre) (ha : avail P = true) (hk : P.key = n) (h0 : totalSize W.size x.disk ≠ 0) :
    mainLoopG cfg W dn orderOf fuel avail (pre ++ P :: post) (rounds + 1) (.inl (x, rid), some n) =
      (match runPasses cfg W dn orderOf fuel (P :: post.filter avail) (.inl (x, rid)) with
       | .inr e => .inr e
       | .inl (y, rid') =>
         if totalSize W.size y.disk ≥ totalSize W.size x.disk then .inl (y, rid')
         else mainLoop cfg W dn orderOf fuel ((pre ++ P :: post).filter avail) rounds (.inl (y, rid')), none) := by
  simp only [mainLoopG, h0, if_false]
  rw [runPassesG_hit cfg W dn orderOf fuel avail n pre post P x rid hpre ha hk]
  generalize runPasses cfg W dn orderOf fuel (P :: post.filter avail) (.inl (x, rid)) = r
  cases r with
  | inr e => rfl
  | inl yr =>
    obtain ⟨y, rid'⟩ := yr
    simp only
    split
    · rfl
    · exact mainLoopG_none cfg W dn orderOf fuel avail _ rounds _

/-! ### lifting: what every `runPass` preserves, the gated driver preserves -/

theorem runPassG_lift (cfg : Cfg) (W : World C) (dn : Sched) (Q : LRes C → Prop)
    (hQ : ∀ (P : PassI C σ) order fuel rid x, Q (.inl (x, rid)) → Q (runPass cfg W dn P order fuel rid x))
    (P : PassI C σ) (order : List Nat) (fuel rid : Nat) (x : St C) (sw : Option Nat) (h : Q (.inl (x, rid))) :
    Q (runPassG cfg W dn P order fuel rid x sw).1 := by
  unfold runPassG
  cases sw with
  | none => exact hQ P order fuel rid x h
  | some n =>
    simp only
    split
    · exact hQ P order fuel rid x h
    · exact h

theorem runPassesG_lift (cfg : Cfg) (W : World C) (dn : Sched) (orderOf : List C → List Nat) (fuel : Nat) (avail : PassI C σ → Bool)
    (Q : LRes C → Prop)
    (hQ : ∀ (P : PassI C σ) order fuel rid x, Q (.inl (x, rid)) → Q (runPass cfg W dn P order fuel rid x)) :
    ∀ (ps : List (PassI C σ)) (acc : LRes C) (sw : Option Nat), Q acc → Q (runPassesG cfg W dn orderOf fuel avail ps (acc, sw)).1 := by
  intro ps
  induction ps with
  | nil => intro acc sw h; exact h
  | cons P ps ih =>
    intro acc sw h
    cases acc with
    | inr e => rw [runPassesG_err]; exact h
    | inl xr =>
      obtain ⟨x, rid⟩ := xr
      simp only [runPassesG]
      split
      · have := runPassG_lift cfg W dn Q hQ P (orderOf x.disk) fuel rid x sw h
        generalize runPassG cfg W dn P (orderOf x.disk) fuel rid x sw = r at this ⊢
        obtain ⟨r1, r2⟩ := r
        exact ih r1 r2 this
      · exact ih _ sw h

theorem mainLoopG_lift (cfg : Cfg) (W : World C) (dn : Sched) (orderOf : List C → List Nat) (fuel : Nat) (avail : PassI C σ → Bool)
    (Q : LRes C → Prop)
    (hQ : ∀ (P : PassI C σ) order fuel rid x, Q (.inl (x, rid)) → Q (runPass cfg W dn P order fuel rid x))
    (ps : List (PassI C σ)) :
    ∀ (rounds : Nat) (acc : LRes C) (sw : Option Nat), Q acc → Q (mainLoopG cfg W dn orderOf fuel avail ps rounds (acc, sw)).1 := by
  intro rounds
  induction rounds with
  | zero => intro acc sw h; exact h
  | succ r ih =>
    intro acc sw h
    cases acc with
    | inr e => simp only [mainLoopG]; exact h
    | inl xr =>
      obtain ⟨x, rid⟩ := xr
      simp only [mainLoopG]
      split
      · exact h
      · have h2 := runPassesG_lift cfg W dn orderOf fuel avail Q hQ ps (.inl (x, rid)) sw h
        generalize runPassesG cfg W dn orderOf fuel avail ps (.inl (x, rid), sw) = r2 at h2 ⊢
        obtain ⟨r21, sw'⟩ := r2
        cases r21 with
        | inr e => exact h2
        | inl yr =>
          obtain ⟨y, rid'⟩ := yr
          simp only
          split
          · exact h2
          · exact ih _ sw' h2

/-- whatever holds of the start state and is preserved by every single `run_pass` holds of the result of the gated
    reduction — with or without `--start-with-pass`, `skip_initial`, missing prerequisites -/
theorem reduceG_lift (cfg : Cfg) (W : World C) (dn : Sched) (orderOf : List C → List Nat) (fuel : Nat) (avail : PassI C σ → Bool)
    (Q : LRes C → Prop)
    (hQ : ∀ (P : PassI C σ) order fuel rid x, Q (.inl (x, rid)) → Q (runPass cfg W dn P order fuel rid x))
    (skip : Bool) (first main last : List (PassI C σ)) (x : St C) (sw : Option Nat) (h : Q (.inl (x, 0))) :
    Q (reduceG cfg W dn orderOf fuel avail skip first main last x sw).1 := by
  unfold reduceG
  dsimp only
  have h1 : Q (if skip = true then ((.inl (x, 0) : LRes C), sw) else runPassesG cfg W dn orderOf fuel avail first (.inl (x, 0), sw)).1 := by
    split
    · exact h
    · exact runPassesG_lift cfg W dn orderOf fuel avail Q hQ first _ sw h
  generalize (if skip = true then ((.inl (x, 0) : LRes C), sw) else runPassesG cfg W dn orderOf fuel avail first (.inl (x, 0), sw)) = r1 at h1 ⊢
  obtain ⟨a1, s1⟩ := r1
  have h2 := mainLoopG_lift cfg W dn orderOf fuel avail Q hQ main (totalSize W.size x.disk + 2) a1 s1 h1
  generalize mainLoopG cfg W dn orderOf fuel avail main (totalSize W.size x.disk + 2) (a1, s1) = r2 at h2 ⊢
  obtain ⟨a2, s2⟩ := r2
  exact runPassesG_lift cfg W dn orderOf fuel avail Q hQ last a2 s2 h2

end Cvise.D
