import Cvise.Model.Binary
import Cvise.Gen.BinaryPy
/-! The bodies of `BinaryState` translated from the current `abstract.py` are extensionally the hand-written
    model, so every theorem about `Cvise.BS.*` is a theorem about what the source says now. -/
namespace Cvise
open Cvise.Gen

theorem gen_end_eq (s : BS) : BinaryPy.end_ s = s.end_ := rfl
theorem gen_realChunk_eq (s : BS) : BinaryPy.realChunk s = s.realChunk := rfl

theorem gen_advance_eq (s : BS) : BinaryPy.advance s = s.advance := by
  unfold BinaryPy.advance BS.advance
  first | rfl | (simp only; done) | grind

theorem gen_aos_eq (s : BS) (n : Nat) : BinaryPy.advanceOnSuccess s n = s.advanceOnSuccess n := by
  unfold BinaryPy.advanceOnSuccess BS.advanceOnSuccess
  first | (simp only [gen_advance_eq]; done) | (simp only [gen_advance_eq]; rfl) | grind [gen_advance_eq]

theorem gen_create_eq (n : Nat) : BinaryPy.create n = BS.create n := by
  unfold BinaryPy.create BS.create
  first | rfl | (simp only; done) | grind

end Cvise
