import Cvise.Proofs.PassesIntsDiffers
import Cvise.Proofs.PassesBalTerm
/-!
C03 for the `finditer`-driven passes whose accepted candidates are strictly shorter (ints a, b, c; special b, c): under
every accept/reject history at most `|s|² + 4|s| + 3` candidates.  Measure `|s|·(|s|+3) + (modifications left)`:
`advance` uses up one modification of the current text, an accepted candidate is shorter and `advance_on_success`
recomputes at most `|s'| + 2` modifications for it.
-/
namespace Cvise.P
open Cvise Cvise.M Cvise.D

theorem rxFindAll_length (r : Rx) (s : Array Nat) : ∀ (fuel p : Nat), (rxFindAll r s fuel p).length ≤ fuel := by
  intro fuel
  induction fuel with
  | zero => intro p; simp [rxFindAll]
  | succ f ih =>
    intro p
    simp only [rxFindAll]
    split
    · simp
    · rename_i a e c _
      simp only [List.length_cons]
      have := ih (if e = a then e + 1 else e)
      omega

theorem modsOf_length (id : Nat) (rec : List RPiece) (s : Text) : (modsOf id rec s).length ≤ s.length + 2 := by
  simp only [modsOf, List.length_reverse, List.length_map]
  exact rxFindAll_length _ _ _ _

/-- the cursors the pass can reach on `s`: computed for `s`, pointing at one of its modifications -/
def ModI (id : Nat) (rec : List RPiece) (s : Text) (st : ModSt) : Prop := st.mods = modsOf id rec s ∧ st.index < st.mods.length

theorem modNew_inv (id : Nat) (rec : List RPiece) (s : Text) (st : ModSt) (h : modNew id rec s = some st) : ModI id rec s st := by
  unfold modNew at h
  simp only at h
  split at h
  · cases h
  · rename_i hne
    cases h
    refine ⟨rfl, ?_⟩
    simp only
    cases hm : modsOf id rec s with
    | nil => simp [hm] at hne
    | cons x xs => simp

def modMu (s : Text) (st : ModSt) : Nat := s.length * (s.length + 3) + (st.mods.length - st.index)

/-- generic: a `finditer`-driven pass all of whose modifications shorten the text proposes at most `|s|² + 4|s| + 3`
    candidates under every accept/reject history -/
theorem modPass_bound (id : Nat) (rec : List RPiece)
    (hshort : ∀ (s : Text), ∀ m ∈ modsOf id rec s, (s.take m.1.1 ++ m.2 ++ s.drop m.1.2).length < s.length)
    (hist : List Bool) (s : Text) (st : ModSt) (hnew : (modPass id rec).new s = some st) :
    (runHistory (modPass id rec) hist s (some st) []).1.length ≤ s.length * (s.length + 3) + s.length + 3 := by
  have hI0 : ModI id rec s st := modNew_inv id rec s st hnew
  have key := drive_bound_inv (modPass id rec) (ModI id rec) modMu
    (by
      intro s st st' hI h
      simp only [modPass] at h
      split at h
      · cases h
      · rename_i hlt
        cases h
        exact ⟨hI.1, by simp only; omega⟩)
    (by
      intro s st s2 st2 st' _ _ h
      exact modNew_inv id rec s2 st' h)
    (by
      intro s st st' hI h
      simp only [modPass] at h
      split at h
      · cases h
      · rename_i hlt
        cases h
        unfold modMu
        simp only
        omega)
    (by
      intro s st s2 st2 st' hI htr h
      have hI' := modNew_inv id rec s2 st' h
      simp only [modPass] at htr
      split at htr
      · cases htr
      · rename_i a e r hget
        cases htr
        have hmem : ((a, e), r) ∈ modsOf id rec s := by rw [← hI.1]; exact List.mem_of_getElem? hget
        have hl := hshort s _ hmem
        simp only at hl
        have hlen2 := modsOf_length id rec (s.take a ++ r ++ s.drop e)
        unfold modMu
        rw [hI'.1]
        have h0 : st'.index = 0 := by
          simp only [modPass] at h
          unfold modNew at h
          simp only at h
          split at h
          · cases h
          · cases h; rfl
        rw [h0]
        have hidx := hI.2
        generalize (s.take a ++ r ++ s.drop e).length = n2 at hl hlen2 ⊢
        generalize (modsOf id rec (s.take a ++ r ++ s.drop e)).length = k2 at hlen2 ⊢
        have : n2 * (n2 + 3) ≤ (s.length - 1) * (s.length + 2) := by apply Nat.mul_le_mul <;> omega
        have e1 : (s.length - 1) * (s.length + 2) + (s.length + 2) = s.length * (s.length + 2) := by
          have : s.length - 1 + 1 = s.length := by omega
          calc (s.length - 1) * (s.length + 2) + (s.length + 2) = (s.length - 1 + 1) * (s.length + 2) := by rw [Nat.add_mul, Nat.one_mul]
            _ = s.length * (s.length + 2) := by rw [this]
        have e2 : s.length * (s.length + 3) = s.length * (s.length + 2) + s.length := by
          rw [Nat.mul_add, Nat.mul_add]; omega
        omega)
    hist s st [] hI0
  simp only [List.length_nil] at key
  have hm := modsOf_length id rec s
  unfold modMu at key
  rw [hI0.1] at key
  have : (modsOf id rec s).length - st.index ≤ s.length + 2 := by omega
  omega

/-- shorter replacement ⇒ shorter text -/
theorem splice_length_lt (s r : Text) (a e : Nat) (h1 : a ≤ e) (h2 : e ≤ s.length) (h3 : r.length < e - a) :
    (s.take a ++ r ++ s.drop e).length < s.length := by
  simp [List.length_append, List.length_take, List.length_drop]
  omega

theorem mods_shorten (id : Nat) (rec : List RPiece) (s : Text)
    (hshort : ∀ a e c, (e, c) ∈ ends (toArr s) (rxTbl id) a [] → e ≤ s.length → (rec.flatMap (evalRPiece s c)).length < e - a) :
    ∀ m ∈ modsOf id rec s, (s.take m.1.1 ++ m.2 ++ s.drop m.1.2).length < s.length := by
  intro m hm
  simp only [modsOf, List.mem_reverse, List.mem_map] at hm
  obtain ⟨⟨a, e, c⟩, hmem, rfl⟩ := hm
  obtain ⟨h1, h2, h3⟩ := rxFindAll_mem _ _ _ _ a e c hmem
  rw [toArr_size] at h3
  exact splice_length_lt s _ a e h2 h3 (hshort a e c h1 h3)

/-- ints a / b / c -/
theorem ints_bound (arg : String) (harg : arg = "a" ∨ arg = "b" ∨ arg = "c") (hist : List Bool) (s : Text) (st : ModSt)
    (hnew : (modPass (intsEntry arg).1 (intsEntry arg).2).new s = some st) :
    (runHistory (modPass (intsEntry arg).1 (intsEntry arg).2) hist s (some st) []).1.length ≤ s.length * (s.length + 3) + s.length + 3 := by
  apply modPass_bound _ _ _ hist s st hnew
  intro s'
  apply mods_shorten
  intro a e c hm he
  rcases harg with rfl | rfl | rfl
  · rw [ints_a_shape.1]; exact shapeA_shorter _ ints_a_shape.2 s' a e c hm he
  · rw [ints_b_shape.1]; exact shapeB_shorter _ ints_b_shape.2 s' a e c hm he
  · rw [ints_c_shape.1]; exact shapeC_shorter _ ints_c_shape.2 s' a e c hm he

/-- special b / c -/
theorem special_bc_bound (arg : String) (harg : arg = "b" ∨ arg = "c") (hist : List Bool) (s : Text) (st : ModSt)
    (hnew : (modPass (specialEntry arg).1 (specialEntry arg).2).new s = some st) :
    (runHistory (modPass (specialEntry arg).1 (specialEntry arg).2) hist s (some st) []).1.length ≤ s.length * (s.length + 3) + s.length + 3 := by
  apply modPass_bound _ _ _ hist s st hnew
  intro s'
  apply mods_shorten
  intro a e c hm he
  obtain ⟨h1, h2⟩ := special_bc_shape arg harg
  rw [h1]
  have := h2 (toArr s') a [] (e, c) hm
  simp only [List.flatMap_nil, List.length_nil]
  omega

end Cvise.P
