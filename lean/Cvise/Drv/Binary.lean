import Cvise.Model.Binary
import Cvise.Model.BinaryVariants
import Cvise.Drv.Util
namespace Cvise.Drv
open Cvise

def showBS : Option BS → String
  | none => "N"
  | some s => s!"{s.index},{s.chunk},{s.instances},{s.end_},{s.realChunk}"

/-- `level <n> <chunk>`: the `(counter, to-counter)` requests of one rejected-throughout level (`BS.level`), and whether
    their expansion is exactly 1..n (`C15.level_tiles`, evaluated) -/
def handleLevel (args : List String) : String :=
  match args with
  | [n, c] =>
    let n := nat! n
    let s : BS := ⟨0, nat! c, n⟩
    let l := s.level n
    let ok := l.flatMap BS.expand == List.range' 1 n
    s!"{" ".intercalate (l.map fun (a, b) => s!"{a}-{b}")} {if ok then "tiles" else "does-not-tile"}"
  | _ => "bad-op"

/-- `bin <n> op…` with op = `a` (advance) | `s<k>` (advance_on_success k); prints the cursor after create and after every op -/
def handleBin (args : List String) : String :=
  match args with
  | n :: ops =>
    let s0 := BS.create (nat! n)
    let rec go (s : Option BS) (ops : List String) (acc : List String) : List String :=
      match ops with
      | [] => acc
      | op :: rest =>
        match s with
        | none => acc
        | some st =>
          let s' := if op = "a" then st.advance else st.advanceOnSuccess (nat! (op.drop 1).toString)
          go s' rest (acc ++ [showBS s'])
    " ".intercalate (go s0 ops [showBS s0])
  | _ => "bad-op"

/-- `binrun <n> <required ids>`: the whole delta-debugging run on items 0..n-1 with a required-subset test -/
def handleBinRun (args : List String) : String :=
  match args with
  | [n, req] =>
    let n := nat! n
    let R := natList req
    let test : List Nat → Bool := fun l => R.all (fun r => l.contains r)
    match startTrace test (startFuel n) (List.range n) with
    | none => "out-of-fuel"
    | some (r, tr) =>
      let t := tr.map fun (i, e, v) => s!"{i}-{e}{if v then "A" else "R"}"
      s!"{" ".intercalate t} => {showNatList r}"
  | _ => "bad-op"

/-- `binrunt <n> <table>`: run with an arbitrary deterministic test given as a finite table
    `cand:v;cand:v;…` (candidates not listed are uninteresting) -/
def handleBinRunT (args : List String) : String :=
  match args with
  | [n, table] =>
    let n := nat! n
    let tbl : List (List Nat × Bool) := if table = "-" then [] else
      (table.splitOn ";").map fun e => match e.splitOn ":" with
        | [c, v] => (natList c, bool! v)
        | _ => ([], false)
    let test : List Nat → Bool := fun l => (tbl.lookup l).getD false
    match startTrace test (startFuel n) (List.range n) with
    | none => "out-of-fuel"
    | some (r, tr) =>
      let t := tr.map fun (i, e, v) => s!"{i}-{e}{if v then "A" else "R"}"
      s!"{" ".intercalate t} => {showNatList r}"
  | _ => "bad-op"

def parseTable (table : String) : List (List Nat × Bool) :=
  if table = "-" then [] else
    (table.splitOn ";").map fun e => match e.splitOn ":" with
      | [c, v] => (natList c, bool! v)
      | _ => ([], false)

def showTrace (tr : List (Nat × Nat × Bool)) : String :=
  " ".intercalate (tr.map fun (i, e, v) => s!"{i}-{e}{if v then "A" else "R"}")

/-- `binrung <n> R <required ids>` / `binrung <n> T <table>`: the gcda run (restart after every accepted removal) -/
def handleBinRunG (args : List String) : String :=
  match args with
  | [n, kind, arg] =>
    let n := nat! n
    let test : List Nat → Bool :=
      if kind = "R" then (let R := natList arg; fun l => R.all (fun r => l.contains r))
      else (let tbl := parseTable arg; fun l => (tbl.lookup l).getD false)
    match gcdaStartTrace test (gcdaFuel n) (List.range n) with
    | none => "out-of-fuel"
    | some (r, tr) => s!"{showTrace tr} => {showNatList r}"
  | _ => "bad-op"

/-- `binruni <n> <b|0|1> R <required ids>` / `… T <table>`: the ifs run; the test is the items-only verdict, and
    (mode 0 / 1) additionally requires the value to be 0 / 1 -/
def handleBinRunI (args : List String) : String :=
  match args with
  | [n, vmode, kind, arg] =>
    let n := nat! n
    let base : List Nat → Bool :=
      if kind = "R" then (let R := natList arg; fun l => R.all (fun r => l.contains r))
      else (let tbl := parseTable arg; fun l => (tbl.lookup l).getD false)
    let test : List Nat → Bool → Bool := fun l v =>
      base l && (if vmode = "b" then true else if vmode = "1" then v else !v)
    match ifsStartTrace test (ifsFuel n) (List.range n) with
    | none => "out-of-fuel"
    | some (r, tr) =>
      let t := tr.map fun (i, e, v, a) => s!"{i}-{e}/{if v then 1 else 0}{if a then "A" else "R"}"
      s!"{" ".intercalate t} => {showNatList r}"
  | _ => "bad-op"

end Cvise.Drv
