import Cvise.Model.Driver
import Cvise.Model.WorldFS
import Cvise.Drv.Util
/-! line protocol for whole `reduce` / `run_pass` scenarios with table-driven stub passes -/
namespace Cvise.Drv
open Cvise Cvise.D

def section? (secs : List String) (name : String) : String :=
  match secs.find? (fun s => s.startsWith (name ++ "=")) with
  | some s => (s.drop (name.length + 1)).toString
  | none => "-"

def items (s : String) (sep : String) : List String := if s = "-" || s = "" then [] else s.splitOn sep

def optInt (s : String) : Option Int := if s = "N" then none else s.toInt?

structure TPass where
  key : Nat
  maxT : Option Nat
  new : List (Nat × Nat)
  adv : List ((Nat × Nat) × Nat)
  aos : List ((Nat × Nat) × Nat)
  tr : List ((Nat × Nat) × (PR × Nat × Nat))
  fmt : List (Nat × List Nat) := []       -- content ↦ alternatives `new` tries to rewrite the file to
  bail : Bool := false
  avail : Bool := true                    -- `check_prerequisites()`

def prOf (s : String) : PR :=
  if s = "OK" then .ok else if s = "INVALID" then .invalid else if s = "STOP" then .stop else if s = "ERROR" then .error else .crash

def parsePass (s : String) : TPass :=
  let fs := s.splitOn ";"
  let get (n : String) := section? fs n
  let trip (x : String) : (Nat × Nat) × Nat := match x.splitOn ":" with
    | [a, b, c] => ((nat! a, nat! b), nat! c)
    | _ => ((0, 0), 0)
  { key := nat! (get "key"), maxT := optNat (get "maxT"),
    new := (items (get "new") ",").map fun x => match x.splitOn ":" with | [a, b] => (nat! a, nat! b) | _ => (0, 0),
    adv := (items (get "adv") ",").map trip,
    aos := (items (get "aos") ",").map trip,
    tr := (items (get "tr") ",").map fun x => match x.splitOn ":" with
      | [a, b, r, c, d] => ((nat! a, nat! b), (prOf r, nat! c, nat! d))
      | _ => ((0, 0), (.crash, 0, 0)),
    fmt := (items (get "fmt") ",").map fun x => match x.splitOn ":" with
      | a :: rest => (nat! a, rest.map (nat! ·))
      | _ => (0, []),
    bail := get "bail" = "1", avail := get "avail" != "0" }

def TPass.toI (t : TPass) : PassI Nat Nat where
  key := t.key
  maxT := t.maxT
  new := fun c => t.new.lookup c
  advance := fun c s => t.adv.lookup (c, s)
  aos := fun c s => t.aos.lookup (c, s)
  transform := fun c s => (t.tr.lookup (c, s)).getD (.invalid, c, s)
  fmt := fun c => (t.fmt.lookup c).getD []
  bail := t.bail

def exitOf (s : String) : Exit :=
  if s = "timeout" then .timeout else if s = "foreign" then .foreign else if s = "broken" then .broken else .code (int! s)

def showErr : Err → String
  | .zeroSize => "ZeroSizeError"
  | .passBug _ => "PassBugError"
  | .assertion => "AssertionError"
  | .foreign => "ForeignError"
  | .fileNotFound => "FileNotFoundError"

def showEv : Ev Nat → Option String
  | .commit p f c => some s!"C{p}.{f}.{c}"
  | .replay p f c => some s!"R{p}.{f}.{c}"
  | _ => none

def insertSorted (k : Nat) (l : List Nat) (le : Nat → Nat → Bool) : List Nat :=
  match l with
  | [] => [k]
  | x :: xs => if le k x then k :: x :: xs else x :: insertSorted k xs le

/-- stable sort by decreasing size of the `perm` order (what `sorted(set, key=size, reverse=True)` does to the
    iteration order the harness observed) -/
def orderBy (size : Nat → Nat) (perm : List Nat) (disk : List Nat) : List Nat :=
  perm.foldr (fun k acc => insertSorted k acc (fun a b => size (disk.getD a 0) ≥ size (disk.getD b 0))) []

def handleDrv (line : String) : String :=
  let secs := (line.splitOn "|").map (fun s => s.trimAscii.toString)
  let secs := secs.map (fun s => if s.startsWith "drv " then (s.drop 4).toString else s)     -- the first section follows the command word
  let get (n : String) := section? secs n
  let c := (get "cfg").splitOn ","
  let g (i : Nat) := c.getD i "N"
  let cfg : Cfg := {
    cacheOn := bool! (g 0), jointKey := bool! (g 1), maxImp := optInt (g 2), skipN := optNat (g 3), silent := bool! (g 4),
    die := bool! (g 5), noGiveUp := bool! (g 6), alsoInteresting := optInt (g 7), giveup := nat! (g 8),
    maxTimeouts := nat! (g 9), maxCrash := nat! (g 10), maxExtra := nat! (g 11), growth := nat! (g 12), releaseBeforeBail := bool! (g 15) }
  let side0 : Side Nat := { bug := nat! (g 13), extra := nat! (g 14) }
  let sizes := natList (get "sizes")
  let size := fun (cid : Nat) => sizes.getD cid 0
  let disk := natList (get "disk")
  let perm := natList (get "perm")
  let passes := (items (get "passes") "/").map parsePass
  let grp (n : String) : List (PassI Nat Nat) :=
    let idx := natList (section? ((get "groups").splitOn ";") n)
    idx.filterMap fun i => (passes[i]?).map TPass.toI
  let testTbl : List (List Nat × Exit) := (items (get "test") ";").map fun e => match e.splitOn ":" with
    | [j, x] => (natList' j, exitOf x)
    | _ => ([], .code 1)
  let faults : List ((Nat × Nat) × Exit) := (items (get "faults") ";").map fun e => match e.splitOn ":" with
    | [k, x] => (match k.splitOn "." with | [a, b] => (nat! a, nat! b) | _ => (0, 0), exitOf x)
    | _ => ((0, 0), .code 1)
  let sched : List ((Nat × Nat) × List Nat) := (items (get "sched") ";").map fun e => match e.splitOn ":" with
    | [k, x] => (match k.splitOn "." with | [a, b] => (nat! a, nat! b) | _ => (0, 0), natList' x)
    | _ => ((0, 0), [])
  let W : World Nat := {
    size := size,
    test := fun joint => (testTbl.lookup joint).getD (.code 1),
    fault := fun rid ord => faults.lookup (rid, ord) }
  let dn : Sched := fun rid t i => ((sched.lookup (rid, t)).getD []).contains i
  let fuel := nat! (get "fuel")
  let mode := get "mode"
  let x0 : St Nat := { disk := disk, side := side0 }
  -- `--start-with-pass`: the key of the named pass (`N`: option not given); a pass is runnable unless its entry says avail=0
  let sw : Option Nat := optNat (get "sw")
  let unavail : List Nat := (passes.filter (fun t => !t.avail)).map (·.key)
  let avail : PassI Nat Nat → Bool := fun P => !unavail.contains P.key
  let r : LRes Nat :=
    if mode = "pass" then
      match (grp "main") with
      | [P] => (runPassG cfg W dn P (orderBy size perm disk) fuel 0 x0 sw).1
      | _ => .inl (x0, 0)
    else (reduceG cfg W dn (orderBy size perm) fuel avail (get "skipInitial" = "1") (grp "first") (grp "main") (grp "last") x0 sw).1
  let (outcome, x) := match r with
    | .inl (x, _) => ("ok", x)
    | .inr (e, x) => (showErr e, x)
  let dbg := get "debug" = "1"
  let evs := x.side.log.filterMap (fun e => match e with
    | .sched p o => if dbg then some s!"S{p}.{o}" else none
    | .fail p => if dbg then some s!"X{p}" else none
    | e => showEv e)
  let keys := (passes.map (·.key)).eraseDups
  let stat := keys.map fun k => s!"{k}:{x.side.worked k}/{x.side.failed k}/{x.side.executed k}"
  let tot (f : Nat → Nat) : Nat := (keys.map f).foldl (· + ·) 0
  -- the working directory after the run (only when the scenario lists it): the model's own event log applied to the
  -- initial listing by `W.afterReduce`; report directories are compared by their number only (`bug=` / `extra=`)
  let wfs := get "wfs"
  let fsOut : String :=
    if wfs = "-" then "" else
      let names := items (get "names") ";"
      let fs0 : Cvise.W.FS := (items wfs ";").map fun e => match e.splitOn ":" with
        | [p, c] => (p, [nat! c])
        | _ => ("?", [])
      let log : List (Ev Cvise.W.Bytes) := x.side.log.map fun e => match e with
        | .commit p k c => .commit p k [c]
        | .replay p k c => .replay p k [c]
        | .tested j ex => .tested (j.map fun c => [c]) ex
        | .sched p o => .sched p o
        | .fail p => .fail p
        | .bugdir => .bugdir
        | .extradir => .extradir
      let out := Cvise.W.afterReduceD names (fun n => s!"cvise_bug_{n}") (fun n => s!"cvise_extra_{n}") (get "tidy" = "1" || mode = "pass") fs0 log
        (x.disk.map fun c => [c])
      let listing := (out.filter fun e => !Cvise.W.isReportPath e.1).map fun e => s!"{e.1}:{(e.2.headD 0)}"
      " fs=" ++ ";".intercalate (listing.toArray.qsort (· < ·)).toList
  s!"{outcome} disk={showNatList x.disk} worked={tot x.side.worked} failed={tot x.side.failed} executed={tot x.side.executed} bug={x.side.bug} extra={x.side.extra} stats={if stat.isEmpty then "-" else ",".intercalate stat} log={if evs.isEmpty then "-" else ",".intercalate evs}{fsOut}"
where
  natList' (s : String) : List Nat := if s = "-" || s = "" then [] else (s.splitOn ".").map nat!

end Cvise.Drv
