import Cvise.Model.ClangDelta
import Cvise.Drv.Util
/-! line protocol for the clang_delta counter protocol model: `cd <clauses> <queryOnly> <tooBig> <warn> <silent> <invalidCounterCode>`;
    the clause string is the skeleton the translator read (letters q c w r x n) -/
namespace Cvise.Drv
open Cvise.CD

def clOf : Char → Cl
  | 'q' => .q | 'c' => .c | 'w' => .w | 'r' => .r | 'x' => .x | _ => .n

def handleCD (args : List String) : String :=
  match args with
  | [sk, q, big, warn, silent, code] =>
    let o := run (sk.toList.map clOf) { queryOnly := bool! q, tooBig := bool! big, warn := bool! warn, silent := bool! silent } {}
    s!"rewrote={showBool o.rewrote} err={showBool o.maxInstanceError} exit={exitOf (int! code) (-1) o} wf={showBool (wf (sk.toList.map clOf))}"
  | _ => "bad-op"

end Cvise.Drv
