import Cvise.Model.Passes
import Cvise.Drv.Util
namespace Cvise.Drv
open Cvise Cvise.P Cvise.D

def showPR : PR → String
  | .ok => "OK" | .invalid => "INVALID" | .stop => "STOP" | .error => "ERROR" | .crash => "CRASH"

def showObs (r : List (PR × Text) × Bool) : String :=
  let body := r.1.map fun (pr, t) => s!"{showPR pr}:{showText t}"
  (if body.isEmpty then "-" else "|".intercalate body) ++ s!" alive={showBool r.2}"

def drive {σ : Type} (P : TextPass σ) (hist : List Bool) (s : Text) : String :=
  showObs (runHistory P hist s (P.new s) [])

/-- `pass <name> <arg|-> <history of a/r|-> <text>` -/
def handlePass (args : List String) : String :=
  match args with
  | [name, arg, hist, text] =>
    let s := textOf text
    let h : List Bool := if hist = "-" then [] else hist.toList.map (fun c => c == 'a')
    if name = "balanced" then
      match balCfg arg with
      | some cfg => drive (balanced cfg) h s
      | none => "unknown-arg"
    else if name = "ternary" then drive (ternary arg) h s
    else if name = "peep" then drive (peep arg) h s
    else if name = "comments" then drive comments h s
    else if name = "blank" then drive blank h s
    else if name = "includes" then drive includes h s
    else if name = "lines" then drive linesPass h s
    else if name = "line_markers" then drive lineMarkers h s
    else if name = "ints" then (match intsPass arg with | some p => drive p h s | none => "unknown-arg")
    else if name = "special" then (match specialPass arg with | some p => drive p h s | none => "unknown-arg")
    else "unknown-pass"
  | _ => "bad-op"

end Cvise.Drv
