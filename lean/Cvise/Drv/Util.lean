/-! helpers for the line protocol (no imports beyond core) -/
namespace Cvise.Drv

def toks (line : String) : List String :=
  (line.splitOn " ").filter (· ≠ "")

def nat! (s : String) : Nat := s.toNat?.getD 0
def int! (s : String) : Int := s.toInt?.getD 0

/-- "-" = empty list, otherwise comma separated naturals -/
def natList (s : String) : List Nat :=
  if s = "-" then [] else (s.splitOn ",").map nat!

def showNatList (l : List Nat) : String :=
  if l.isEmpty then "-" else ",".intercalate (l.map toString)

/-- text as a list of code points -/
def textOf (s : String) : List Char := (natList s).map Char.ofNat
def showText (l : List Char) : String := showNatList (l.map Char.toNat)

def bool! (s : String) : Bool := s = "1" || s = "T" || s = "true"
def showBool (b : Bool) : String := if b then "1" else "0"

def optNat (s : String) : Option Nat := if s = "N" then none else s.toNat?
def showOptNat : Option Nat → String
  | none => "N"
  | some n => toString n

end Cvise.Drv
