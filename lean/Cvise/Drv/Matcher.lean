import Cvise.Model.Matcher
import Cvise.Model.Rx
import Cvise.Gen.Regex
import Cvise.Gen.Parts
import Cvise.Drv.Util
namespace Cvise.Drv
open Cvise Cvise.M

/-- the regex oracle of the matcher model, instantiated with the `Rx` engine on the generated pattern table -/
def mkRx (arr : Array Nat) : RxO := fun id _ p mode =>
  match Gen.rxTable[id]? with
  | none => none
  | some r =>
    if mode then (rxSearchFrom r arr p).map fun (a, e, _) => (a, e)
    else (rxMatchAt r arr p).map fun (e, _) => (p, e)

def showSpan (m : Span) : String := s!"{m.1},{m.2}"

def showSearch : Option (Span × List Span) → String
  | none => "N"
  | some (all, sp) => ";".intercalate (showSpan all :: sp.map showSpan)

def peepBParts (s : List Char) (i : Nat) : Option (List Pat) :=
  match Gen.peepB[i]? with
  | none => none
  | some (ps, _) =>
    let front := if s.head? = some ',' then Gen.peepBorderOpt else Gen.peepBorder
    let back := if s.getLast? = some ',' then Gen.peepBorderOpt else Gen.peepBorder
    some ([front] ++ ps.map (·.1) ++ [back])

def partsById (id : String) (s : List Char) : Option (List Pat) :=
  match id.splitOn ":" with
  | ["tern"] => some (Gen.ternaryParts.map (·.1))
  | ["peepC"] => some (Gen.peepC.map (·.1))
  | ["peepA", i] => (Gen.peepA[nat! i]?).map fun (ps, _) => ps.map (·.1)
  | ["peepB", i] => peepBParts s (nat! i)
  | ["bal", arg] => (Gen.balancedCfg.find? (·.1 = arg)).map fun (_, o, c, pre, _) =>
      match pre with
      | some id => [Pat.rx id, Pat.bal o c]
      | none => [Pat.bal o c]
  | _ => none

/-- `msearch <parts> <mode 0|1> <pos> <text>` -/
def handleMSearch (args : List String) : String :=
  match args with
  | [pid, mode, pos, text] =>
    let s := textOf text
    match partsById pid s with
    | none => "bad-parts"
    | some parts => showSearch (search (mkRx (toArr s)) parts s (int! pos) (bool! mode))
  | _ => "bad-op"

/-- `rx <id> <match|search|all> <pos> <text>` -/
def handleRx (args : List String) : String :=
  match args with
  | [id, op, pos, text] =>
    let arr := toArr (textOf text)
    match Gen.rxTable[nat! id]? with
    | none => "bad-id"
    | some r =>
      let showCaps (c : Caps) : String :=
        let cs := c.foldr (fun (g : Nat × Nat × Nat) (acc : List (Nat × Nat × Nat)) => if acc.any (·.1 = g.1) then acc else g :: acc) []
        "/".intercalate ((cs.mergeSort (fun a b => a.1 ≤ b.1)).map fun (g, a, e) => s!"{g}:{a}-{e}")
      let p := nat! pos
      if op = "match" then
        match rxMatchAt r arr p with
        | none => "N"
        | some (e, c) => s!"{p},{e} {showCaps c}"
      else if op = "search" then
        match rxSearchFrom r arr p with
        | none => "N"
        | some (a, e, c) => s!"{a},{e} {showCaps c}"
      else
        let all := rxFindAll r arr (arr.size + 2) p
        if all.isEmpty then "N" else " | ".intercalate (all.map fun (a, e, c) => s!"{a},{e} {showCaps c}")
  | _ => "bad-op"

end Cvise.Drv
