import Cvise.Model.Clex
import Cvise.Drv.Util
import Cvise.Gen.Tools
namespace Cvise.Drv
open Cvise Cvise.Clex

def kindOf (n : Nat) : Kind :=
  match n with
  | 999 => .keyword | 1000 => .op | 1001 => .ident | 1002 => .other | 1003 => .number
  | 1004 => .ws | 1005 => .newline | 1006 => .string | _ => .unknown

def modeOf (s : String) : Option Mode :=
  if s = "print" then some .print else if s = "rename-toks" then some .rename else if s = "delete-string" then some .deleteString
  else if s = "shorten-string" then some .shortenString else if s = "x-string" then some .xString else if s = "define" then some .define
  else if s.startsWith "rm-toks-" then some (.rmToks (nat! (s.drop 8).toString))
  else if s.startsWith "rm-tok-pattern-" then some (.rmTokPattern (nat! (s.drop 15).toString))
  else none

/-- `clex <mode> <idx> <tok;tok;…>` with tok = `kind:codepoints` -/
def handleClex (args : List String) : String :=
  match args with
  | [mode, idx, toks] =>
    let ts : List Tok := if toks = "-" then [] else (toks.splitOn ";").map fun t =>
      match t.splitOn ":" with
      | [k, s] => ⟨kindOf (nat! k), textOf s⟩
      | _ => ⟨.unknown, []⟩
    match modeOf mode with
    | none => "bad-mode"
    | some m =>
      let r := run Gen.clexDefineBounded m (nat! idx) ts
      let e := match r.exit with | .ok => "51" | .stop => "71" | .crash => "crash"
      s!"{e} {showText r.out}"
  | _ => "bad-op"

end Cvise.Drv
