import Cvise.Model.PassGroup
import Cvise.Gen.PassGroups
import Cvise.Drv.Util
namespace Cvise.Drv
open Cvise Cvise.PG

def strOf (s : String) : String := String.ofList (textOf s)
def optStr (s : String) : Option String := if s = "N" then none else some (strOf s)
def strList (s : String) : List String := if s = "-" then [] else (s.splitOn "+").map strOf
def optStrList (s : String) : Option (List String) := if s = "N" then none else some (strList s)

def parseEntry (s : String) : Entry :=
  let f := s.splitOn "/"
  { pass? := optStr (f.getD 0 "N"), arg := optStr (f.getD 1 "N"), incl := optStrList (f.getD 2 "N"),
    excl := optStrList (f.getD 3 "N"), c := bool! (f.getD 4 "0"), ren := bool! (f.getD 5 "0"), maxT := optNat (f.getD 6 "N") }

def showSel (s : Sel) : String :=
  reprOf s.cls s.arg ++ (match s.maxT with | some n => s!" ({n} T)" | none => "")

def showPErr : PErr → String
  | .missingCategory c => s!"error:CViseError:Missing category {c}"
  | .invalidPass c => s!"error:CViseError:Invalid pass in category {c}"
  | .unknownPass n => s!"error:CViseError:Unkown pass {n}"
  | .badOption o => s!"error:PassOptionError:{o}"

/-- `group eager=<b> active=<a+b> removed=<..> notC=<b> ren=<b> | cat=entry;entry… | …` (strings as code points) -/
def handleGroup (line : String) : String :=
  let secs := (line.splitOn "|").map (fun s => s.trimAscii.toString)
  match secs with
  | [] => "bad-op"
  | hd :: cats =>
    let kv := (hd.splitOn " ").filter (· ≠ "")
    let get (n : String) : String := match kv.find? (fun s => s.startsWith (n ++ "=")) with
      | some s => (s.drop (n.length + 1)).toString
      | none => "-"
    let o : Opts := { active := strList (get "active"), removed := strList (get "removed"), notC := bool! (get "notC"), ren := bool! (get "ren") }
    let g : Group := cats.map fun c => match c.splitOn "=" with
      | [name, es] => (strOf name, if es = "-" then [] else (es.splitOn ";").map parseEntry)
      | _ => ("?", [])
    match parse (bool! (get "eager")) Gen.known o g with
    | .error e => showPErr e
    | .ok s => "ok " ++ " | ".intercalate (s.map fun (c, sel) => c ++ "=" ++ (if sel.isEmpty then "-" else "; ".intercalate (sel.map showSel)))

end Cvise.Drv
