"""C20 — the pass statistics report what actually happened."""
import json
import time

from vlib import conclude
import drvlib as D

OBLIGATIONS = ['Cvise.C20.judge_once', 'Cvise.C20.round_failed_le', 'Cvise.C20.failed_le_executed', 'Cvise.C20.worked_eq_accepted', 'Cvise.C20.executed_eq_started',
               'Cvise.C20.pass_time_bounds', 'Cvise.C20.shipped_clock',
               'Cvise.D.processDone_ok', 'Cvise.D.wfs_ok', 'Cvise.D.roundLoop_ok', 'Cvise.D.fileLoop_stat']


def oracle(scen, obs):
    return D.oracle_C20(scen, obs, obs.get('elapsed'))


def nontriv(scen, obs):
    # a round that ended by cancellation/quit while candidates were in flight, or with failures and successes mixed
    tot = [sum(v[j] for v in obs['stats'].values()) for j in range(3)]
    if tot[0] > 0 and tot[1] > 0 and tot[2] > tot[0] + tot[1]:
        return D.scen_key(scen)
    return None


def scens(ctx, n):
    bias = {'p_contract': 0.25, 'p_faults': 0.6, 'p_small_consts': 0.5}
    return [D.gen_scenario(ctx.rng, bias) for _ in range(n)]


def run(ctx):
    if ctx.replay:
        D.replay_drv(ctx, json.load(open(ctx.replay)), [oracle])
        return 1 if ctx.violations else 0
    ctx.lean_gate(OBLIGATIONS)
    diffs = []
    t0 = time.monotonic()
    rows = D.sweep(ctx, scens(ctx, 500 if ctx.tier == 'quick' else 8000), [oracle], diffs, nontriv)
    elapsed = time.monotonic() - t0
    total_pass_time = sum(sum(o['seconds'].values()) for _, o, _, _ in rows if 'seconds' in o)
    if total_pass_time > elapsed + 1e-6:
        ctx.report('pass-time-exceeds-elapsed', f'{total_pass_time} > {elapsed}', {'kind': 'timing'})
    ctx.sample({'scenario_key': D.scen_key(rows[2][0]), 'observed': rows[2][2], 'scheduled_by_shim': len(rows[2][1]['scheduled'])})

    def search(budget):
        D.sweep(ctx, scens(ctx, 2000), [oracle], [], nontriv)
    conclude(ctx, diffs, search)
    ctx.assumptions += ['time.monotonic is non-decreasing; pass intervals are disjoint because PassStatistic.start asserts no pass is open']
    return ctx.finish(obligations=OBLIGATIONS,
                      rule='table passes with faults/limits/errors under scripted schedules; per pass: worked == commits seen by a wrapper of process_result, '
                           'executed == candidates the shim saw scheduled, failed <= executed, seconds >= 0, sum of pass seconds <= elapsed; all compared with the model\'s per-pass counters. '
                           'non-trivial = run with accepts, failures and cancelled/unjudged candidates',
                      extra={'sum_pass_seconds': round(total_pass_time, 4), 'elapsed': round(elapsed, 4)})
