"""C20 — the pass statistics report what actually happened."""
import json
import time

from vlib import conclude
import drvlib as D

OBLIGATIONS = ['Cvise.C20.judge_once', 'Cvise.C20.round_failed_le', 'Cvise.C20.failed_le_executed', 'Cvise.C20.worked_eq_accepted', 'Cvise.C20.executed_eq_started',
               'Cvise.C20.pass_time_bounds', 'Cvise.C20.shipped_clock', 'Cvise.C20.gated_statistics',
               'Cvise.D.processDone_ok', 'Cvise.D.wfs_ok', 'Cvise.D.roundLoop_ok', 'Cvise.D.fileLoop_stat']


def oracle(scen, obs):
    return D.oracle_C20(scen, obs, obs.get('elapsed'))


def nontriv(scen, obs):
    # a round that ended by cancellation/quit while candidates were in flight, or with failures and successes mixed
    tot = [sum(v[j] for v in obs['stats'].values()) for j in range(3)]
    if tot[0] > 0 and tot[1] > 0 and tot[2] > tot[0] + tot[1]:
        return D.scen_key(scen)
    return None


def scens(ctx, n):
    bias = {'p_contract': 0.25, 'p_faults': 0.6, 'p_small_consts': 0.5}
    return [D.gen_scenario(ctx.rng, bias) for _ in range(n)]


SITE = r'''
import sys, time
_real = time.monotonic
_t = [1000.0]
def _mono():
    f = sys._getframe(1)
    fn, name = f.f_code.co_filename, f.f_code.co_name
    if fn.endswith('statistics.py') and name == 'stop':
        _t[0] += 1.2            # all the time of the run is spent inside pass runs …
        return _t[0]
    if fn.endswith('statistics.py') or fn.endswith('cvise.py'):
        _t[0] += 0.01           # … and almost none outside
        return _t[0]
    return _real()
time.monotonic = _mono
'''


def cli_part(ctx):
    """the table printed at the end, from the real command line: `cvise.py` is run on a small input with two tool-free passes
    under a scripted clock (time passes inside pass runs only; the elapsed time has a fractional part below one half):
    every pass time and percentage is >= 0 and the percentages add up to at most 100"""
    import os
    import re
    import subprocess
    import sys as _sys
    import tempfile
    from pathlib import Path
    from vlib import REPO
    d = Path(tempfile.mkdtemp(prefix='c20cli-', dir=ctx.scratch))
    (d / 'stub' / 'chardet').mkdir(parents=True)
    (d / 'stub' / 'chardet' / '__init__.py').write_text("def detect(b):\n    return {'encoding': 'ascii', 'confidence': 1.0}\n")
    (d / 'stub' / 'sitecustomize.py').write_text(SITE)
    (d / 'group.json').write_text('{"first": [], "main": [{"pass": "blank"}], "last": []}')
    (d / 'work').mkdir()
    (d / 'work' / 'a.c').write_text('int keep;\n\n\nint x;\n\n')
    (d / 'work' / 't.sh').write_text('#!/bin/sh\ngrep -q keep a.c\n')
    os.chmod(d / 'work' / 't.sh', 0o755)
    env = dict(os.environ, PYTHONPATH=f"{d / 'stub'}:{REPO}", TMPDIR=str(d))
    r = subprocess.run([_sys.executable, str(REPO / 'cvise.py'), '--pass-group-file', str(d / 'group.json'), '--n', '1', '--no-cache', 't.sh', 'a.c'],
                       cwd=d / 'work', env=env, capture_output=True, text=True, timeout=120)
    ctx.count()
    text = r.stderr + r.stdout
    rows = re.findall(r'^\s+(\S.*?)\s+(-?\d+\.\d+)\s+(-?\d+\.\d+)\s+(\d+)\s+(\d+)\s+(\d+)\s*$', text, re.M)
    m = re.search(r'Runtime: (\d+) seconds', text)
    sc = {'kind': 'cli', 'rows': rows, 'runtime': m.group(1) if m else None}
    if not rows:
        ctx.notes['cli'] = 'cvise.py did not print a statistics table here: ' + text[-300:]
        return
    ctx.nontrivial(('cli', len(rows)))
    secs = [float(x[1]) for x in rows]
    pct = [float(x[2]) for x in rows]
    if any(v < 0 for v in secs + pct):
        ctx.report('negative-pass-time:cli', f'statistics table: {rows}', sc)
    elif sum(pct) > 100.0 + 0.01 * len(pct):
        ctx.report('pass-time-exceeds-elapsed:cli', f'the time (%) column adds up to {sum(pct):.2f} (passes {sum(secs):.2f} s, printed runtime {sc["runtime"]} s)', sc)
    ctx.notes['cli'] = {'rows': len(rows), 'percent_sum': round(sum(pct), 2)}


def run(ctx):
    if ctx.replay:
        D.replay_drv(ctx, json.load(open(ctx.replay)), [oracle])
        return 1 if ctx.violations else 0
    ctx.lean_gate(OBLIGATIONS)
    diffs = []
    t0 = time.monotonic()
    rows = D.sweep(ctx, scens(ctx, 500 if ctx.tier == 'quick' else 8000), [oracle], diffs, nontriv)
    cli_part(ctx)
    elapsed = time.monotonic() - t0
    total_pass_time = sum(sum(o['seconds'].values()) for _, o, _, _ in rows if 'seconds' in o)
    if total_pass_time > elapsed + 1e-6:
        ctx.report('pass-time-exceeds-elapsed', f'{total_pass_time} > {elapsed}', {'kind': 'timing'})
    ctx.sample({'scenario_key': D.scen_key(rows[2][0]), 'observed': rows[2][2], 'scheduled_by_shim': len(rows[2][1]['scheduled'])})

    def search(budget):
        D.sweep(ctx, scens(ctx, 2000), [oracle], [], nontriv)
    conclude(ctx, diffs, search)
    ctx.assumptions += ['time.monotonic is non-decreasing; pass intervals are disjoint because PassStatistic.start asserts no pass is open']
    return ctx.finish(obligations=OBLIGATIONS,
                      rule='table passes with faults/limits/errors under scripted schedules; per pass: worked == commits seen by a wrapper of process_result, '
                           'executed == candidates the shim saw scheduled, failed <= executed, seconds >= 0, sum of pass seconds <= elapsed; all compared with the model\'s per-pass counters. '
                           'non-trivial = run with accepts, failures and cancelled/unjudged candidates',
                      extra={'sum_pass_seconds': round(total_pass_time, 4), 'elapsed': round(elapsed, 4), 'cli_table': ctx.notes.get('cli')})
