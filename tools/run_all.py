#!/usr/bin/env python3
"""run every registered check (quick by default) in parallel; print one line per check"""
import json, subprocess, sys, time
from concurrent.futures import ThreadPoolExecutor
from pathlib import Path
V = Path(__file__).resolve().parent.parent
tier = sys.argv[1] if len(sys.argv) > 1 else 'quick'
only = sys.argv[2:]
man = json.load(open(V / 'MANIFEST.json'))
def run(c):
    t = time.time()
    r = subprocess.run(c['quick_cmd' if tier == 'quick' else 'thorough_cmd'], shell=True, cwd=V, capture_output=True, text=True)
    ev = json.load(open(V / c['evidence_file']))
    cov = ev['coverage']
    return c['property_id'], r.returncode, round(time.time() - t, 1), cov['evaluations'], cov['distinct_nontrivial'], f"{cov['discharged']}/{cov['obligations']}", cov['lean_gate'].get('ok'), [l for l in r.stdout.split('\n') if l.startswith(('VIOLATION', 'KNOWN', 'TOOL'))]
cs = [c for c in man['checks'] if not only or c['property_id'] in only]
with ThreadPoolExecutor(max_workers=int(__import__('os').environ.get('J', '6'))) as ex:
    for res in ex.map(run, cs):
        print(*res)
