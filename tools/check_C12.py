"""C12 — delimiter matching returns exactly the leftmost genuinely balanced match (nestedmatcher.py)."""
import json
import re
import signal

from vlib import conclude, enc_text, REPO
import realcode  # noqa: F401  (puts /repo on sys.path)
import gen_inputs as G
from cvise.utils import nestedmatcher as nm
from cvise.passes.balanced import BalancedPass
from cvise.passes.ternary import TernaryPass
from cvise.passes.peep import PeepPass

OBLIGATIONS = [
    'Cvise.C12.scan_iff', 'Cvise.C12.closing_unique', 'Cvise.C12.helper_iff', 'Cvise.C12.bal_search_leftmost',
    'Cvise.C12.bal_search_none', 'Cvise.C12.search_leftmost', 'Cvise.C12.search_none', 'Cvise.C12.search_nonsearch',
    'Cvise.C12.search_leftmost_engine', 'Cvise.C12.find_leftmost', 'Cvise.C12.find_none',
    'Cvise.M.rxOracle_contract', 'Cvise.ends_bounds',
]


# ------------------------------------------------------------------ part lists of the real passes
def balanced_args():
    # the arguments the pass accepts: asked from the pass itself (every string constant of its module is a candidate), so
    # that the list does not depend on how the argument dispatch is written
    import gen_model
    return gen_model.probe_accepted_args(BalancedPass, gen_model.module_string_constants(REPO / 'cvise/passes/balanced.py'))


def peep_c_parts():
    return [nm.RegExPattern(r'^while\s*'), nm.BalancedPattern(nm.BalancedExpr.parens), nm.RegExPattern(r'\s*'),
            (nm.BalancedPattern(nm.BalancedExpr.curlies), 'body')]


def parts_of(pid, s):
    """(part list, is `find`) for a protocol part id — mirrors what the passes pass to the matcher"""
    k = pid.split(':')
    if k[0] == 'bal':
        cfg = getattr(BalancedPass(k[1], {}), '_BalancedPass__get_config')()
        parts = ([nm.RegExPattern(cfg['prefix'])] if cfg['prefix'] else []) + [nm.BalancedPattern(cfg['search'])]
        return parts, cfg
    if k[0] == 'tern':
        return TernaryPass.parts, None
    if k[0] == 'peepA':
        return PeepPass.regexes_to_replace[int(k[1])][0], None
    if k[0] == 'peepB':
        front = PeepPass.border_or_space_optional_pattern if s.startswith(',') else PeepPass.border_or_space_pattern
        back = PeepPass.border_or_space_optional_pattern if s.endswith(',') else PeepPass.border_or_space_pattern
        return [front] + PeepPass.delimited_regexes_to_replace[int(k[1])][0] + [back], None
    if k[0] == 'peepC':
        return peep_c_parts(), None
    raise KeyError(pid)


class Hang(Exception):
    pass


def _alarm(signum, frame):
    raise Hang()


def real_search(pid, s, pos, mode):
    parts, cfg = parts_of(pid, s)
    # the limit is CPU time of this process (30 s), so that a loaded machine cannot make a healthy matcher look hung;
    # wall clock only as a distant backstop
    signal.signal(signal.SIGPROF, _alarm)
    signal.signal(signal.SIGALRM, _alarm)
    signal.setitimer(signal.ITIMER_PROF, 30.0)
    signal.setitimer(signal.ITIMER_REAL, 600.0)
    try:
        if cfg is not None and mode:
            m = nm.find(cfg['search'], s, pos=pos, prefix=cfg['prefix'])
            full = nm.search(parts, s, pos) if m else None
            if (m is None) != (full is None) or (m and full['all'] != m):
                return ('find!=search', m, full)
            r = full
        else:
            r = nm.search(parts, s, pos=pos, search=mode)
    finally:
        signal.setitimer(signal.ITIMER_PROF, 0)
        signal.setitimer(signal.ITIMER_REAL, 0)
    return r


# ------------------------------------------------------------------ naive reference (the direct oracle)
def naive_bal(s, a, o, c):
    if a >= len(s) or s[a] != o:
        return None
    d = 0
    for i in range(a, len(s)):
        if s[i] == o:
            d += 1
        elif s[i] == c:
            d -= 1
        if d == 0:
            return i + 1
    return None


def naive_pat(pat, s, a):
    if isinstance(pat, nm.RegExPattern):
        m = re.compile(pat.expr, re.DOTALL).match(s, a)
        return (m.start(), m.end()) if m else None
    if isinstance(pat, nm.BalancedPattern):
        b = naive_bal(s, a, pat.start, pat.end)
        return (a, b) if b is not None else None
    if isinstance(pat, nm.OrPattern):
        return naive_pat(pat.left, s, a) or naive_pat(pat.right, s, a)
    return None


def naive_seq(parts, s, a):
    spans = []
    p = a
    for part in parts:
        pat = part[0] if isinstance(part, tuple) else part
        if p > len(s):
            return None
        m = naive_pat(pat, s, p)
        if m is None:
            return None
        spans.append(m)
        p = m[1]
    return (a, p), spans


def judge(pid, s, pos, mode, r):
    """None if the real answer `r` satisfies the property, else a signature"""
    parts, cfg = parts_of(pid, s)
    if isinstance(r, tuple):
        return 'find-disagrees-with-search'
    if pos < 0 or pos >= len(s) or not parts:
        return None if r is None else 'match-outside-string'
    if r is not None:
        a, e = r['all']
        ref = naive_seq(parts, s, a)
        if ref is None or ref[0] != (a, e):
            return 'reported-span-does-not-match'
        if a < pos:
            return 'match-before-requested-position'
        for part, sp in zip(parts, ref[1]):
            if isinstance(part, tuple) and r.get(part[1]) != sp:
                return 'named-part-span-wrong'
        hi = a
    else:
        hi = len(s)
    first = parts[0][0] if isinstance(parts[0], tuple) else parts[0]
    for a2 in range(pos, hi):
        if naive_seq(parts, s, a2) is not None:
            return 'not-leftmost' if r is not None else 'match-missed'
        if not mode and naive_pat(first, s, a2) is None:
            # non-search mode stops at the first start where the first part does not match
            return None if r is None else 'not-leftmost'
    return None


def show(r, parts):
    if r is None:
        return 'N'
    if isinstance(r, tuple):
        return 'find!=search'
    a, e = r['all']
    ref = naive_seq(parts, '', 0)
    return None


def render_real(pid, s, r):
    """same rendering as the Lean driver: all;span per part — part spans are recomputed from the real answer's start
    by re-matching each part with the real matcher (the real API only returns named parts)"""
    if r is None:
        return 'N'
    if isinstance(r, tuple):
        return 'find!=search'
    parts, _ = parts_of(pid, s)
    a, e = r['all']
    out = [f'{a},{e}']
    p = a
    for part in parts:
        pat = part[0] if isinstance(part, tuple) else part
        m = nm._nestedmatcher__match_pattern(pat, s, pos=p, search=False) if hasattr(nm, '_nestedmatcher__match_pattern') else getattr(nm, '__match_pattern')(pat, s, pos=p, search=False)
        if m is None:
            out.append('?')
            break
        if isinstance(part, tuple) and r.get(part[1]) != m:
            out.append('named-mismatch')
        out.append(f'{m[0]},{m[1]}')
        p += m[1] - m[0]
    return ';'.join(out)


# ------------------------------------------------------------------ case generation
def cases(ctx, deep=False):
    quick = ctx.tier == 'quick' and not deep
    rng = ctx.rng
    out = []   # (pid, s, pos, mode)
    args = balanced_args()

    def add_all_pos(pid, s, mode):
        for pos in range(-1, len(s) + 2):
            out.append((pid, s, pos, mode))

    # exhaustive: balanced groups over the delimiter alphabet
    pairs = {'parens': '()', 'curly': '{}', 'square': '[]', 'angles': '<>'}
    for arg, oc in pairs.items():
        L = (6 if arg == 'parens' else 4) if quick else (8 if arg == 'parens' else 6)
        for s in G.all_strings(oc + 'a', L):
            if oc[0] in s:
                add_all_pos(f'bal:{arg}', s, True)
    for s in G.all_strings('={} a', 4 if quick else 6):
        if '{' in s and '=' in s:
            add_all_pos('bal:curly3', s, True)
    # every balanced argument on random nested text
    for arg in args:
        for _ in range(20 if quick else 200):
            s = ''.join(rng.choice(['(', ')', '{', '}', '[', ']', '<', '>', 'a', ' ', '=', ';']) for _ in range(rng.randint(0, 24)))
            for pos in {-1, 0, rng.randint(0, len(s) + 1), len(s)}:
                out.append((f'bal:{arg}', s, pos, True))
    # ternary: small exhaustive + planted
    for s in G.all_strings('a?: (;', 5 if quick else 6):
        if '?' in s and ':' in s:
            add_all_pos('tern', s, True)
    for _ in range(150 if quick else 2000):
        core = G.sample_parts(TernaryPass.parts, rng)
        s = rng.choice(['', 'x = ', ';', '((']) + core + rng.choice(['', 'y;', ' ? 1 : 2;'])
        if rng.random() < 0.4:
            s = G.mutate(s, rng)
        for pos in {0, rng.randint(-1, len(s) + 1)}:
            out.append(('tern', s, pos, True))
    # ternary: chained and nested conditionals, a blank or not in every gap (a later attempt may have to start inside the
    # text an earlier, failed attempt consumed)
    shapes = ['a?b?c:d:e', 'a?b:c?d:e', 'a?b?c?d:e:f:g', '(a?b:c)?d:e', 'a?(b?c:d):e', 'a?b?c:d:e?f:g']
    for si, shape in enumerate(shapes):
        gaps = len(shape) - 1
        masks = range(1 << gaps) if (si < 2 or not quick) and gaps <= 8 else [rng.getrandbits(gaps) for _ in range(80 if quick else 600)]
        for mask in masks:
            body = ''.join(ch + (' ' if i < gaps and mask >> i & 1 else '') for i, ch in enumerate(shape))
            pre, suf = (' ', ' ') if si < 2 else (rng.choice(['', ' ', '=', '(', ';']), rng.choice(['', ' ', ';', ')', ',']))
            s = pre + body + suf
            out.append(('tern', s, 0, True))
            if mask % 7 == 0:
                out.append(('tern', s, rng.randint(0, len(s)), True))
    # peep: every rule of a and b planted, plus damage; search=False as the pass calls it
    reps = 3 if quick else 25
    for name, table in (('peepA', PeepPass.regexes_to_replace), ('peepB', PeepPass.delimited_regexes_to_replace)):
        for i, (parts, _) in enumerate(table):
            for _ in range(reps):
                core = G.sample_parts(parts, rng)
                pre = rng.choice(['', ' ', ';', 'a', ',', '{ '])
                s = pre + (' ' if name == 'peepB' and rng.random() < 0.7 else '') + core + rng.choice(['', ' ', ';', ',', ')b'])
                if rng.random() < 0.3:
                    s = G.mutate(s, rng)
                for pos in {0, len(pre), rng.randint(0, max(0, len(s)))}:
                    out.append((f'{name}:{i}', s, pos, False))
    for _ in range(60 if quick else 600):
        s = rng.choice(['', ' ', 'x;']) + G.sample_parts(peep_c_parts(), rng) + rng.choice(['', ' y'])
        if rng.random() < 0.3:
            s = G.mutate(s, rng)
        for pos in {0, rng.randint(0, len(s))}:
            out.append(('peepC', s, pos, False))
    # token soup against random rules
    for _ in range(300 if quick else 5000):
        s = G.soup(rng, rng.randint(1, 10))
        pid = rng.choice(['tern', f'peepA:{rng.randrange(len(PeepPass.regexes_to_replace))}',
                          f'peepB:{rng.randrange(len(PeepPass.delimited_regexes_to_replace))}', 'peepC',
                          'bal:' + rng.choice(args)])
        out.append((pid, s, rng.randint(-1, len(s) + 1), pid.startswith('tern') or pid.startswith('bal')))
    return out


CORPUS = [
    ('bal:parens', 'a((b) (c)', 0, True), ('bal:parens', '((', 0, True), ('bal:parens', '', 0, True), ('bal:parens', '()', 5, True),
    ('bal:curly3', 'int a[] = {1,2};', 0, True), ('bal:curly3', '= = {}', 0, True),
    ('tern', 'x = (a ? b : c);', 0, True), ('tern', ' a?b:c ', 0, True), ('tern', ';(a)?(b):(c);', 1, True),
    ('peepC', 'while (a) { break; }', 0, False), ('peepC', ' while (a) {}', 1, False),
]


def run_cases(ctx, cs, diffs):
    lines, reals, kept = [], [], []
    fired = {}
    for pid, s, pos, mode in cs:
        scen = {'kind': 'match', 'parts': pid, 's': s, 'pos': pos, 'search': mode}
        try:
            r = real_search(pid, s, pos, mode)
        except Hang:
            ctx.report('matcher-hangs', f'nestedmatcher did not return within 30 s of CPU time on {pid}', scen)
            continue
        except Exception as e:
            ctx.report('matcher-raises', f'nestedmatcher raised {type(e).__name__}: {e}', scen)
            continue
        ctx.count()
        sig = judge(pid, s, pos, mode, r)
        if sig:
            ctx.report(sig, f'{pid} on {s!r} pos={pos} search={mode}: got {r}', scen)
        if r is not None and not isinstance(r, tuple):
            fam = pid.split(':')[0] + (':' + pid.split(':')[1] if pid.startswith('peep') and ':' in pid else '')
            fired[fam] = fired.get(fam, 0) + 1
            if r['all'][0] != pos:
                ctx.nontrivial((pid, s, pos))
        elif r is None and 0 <= pos < len(s):
            parts, cfg = parts_of(pid, s)
            first = parts[0][0] if isinstance(parts[0], tuple) else parts[0]
            if isinstance(first, nm.BalancedPattern) and first.start in s[pos:]:
                ctx.nontrivial((pid, s, pos))
        lines.append(f'msearch {pid} {1 if mode else 0} {pos} {enc_text(s)}')
        reals.append(render_real(pid, s, r))
        kept.append(scen)
    outs = ctx.model(lines)
    for sc, r, m in zip(kept, reals, outs):
        if r != m:
            diffs.append({**sc, 'real': r, 'model': m})
    return fired, kept, reals


def replay(ctx, scen):
    r = real_search(scen['parts'], scen['s'], scen['pos'], scen['search'])
    sig = judge(scen['parts'], scen['s'], scen['pos'], scen['search'], r)
    if sig:
        ctx.report(sig, f'got {r}', scen)
    print('replayed ->', sig or 'holds', r)


def run(ctx):
    if ctx.replay:
        replay(ctx, json.load(open(ctx.replay)))
        return 1 if ctx.violations else 0
    ctx.lean_gate(OBLIGATIONS)
    diffs = []
    cs = CORPUS + cases(ctx)
    fired, kept, reals = run_cases(ctx, cs, diffs)
    # size boundary: nesting far beyond Python's recursion limit, long runs of unclosed openers, long flat inputs (real
    # matcher only: it must neither raise nor hang, and the answers are known in closed form)
    for n in (900, 1100, 1500, 5000):
        deep = [('bal:parens', '(' * n + ')' * n, 0, True, (0, 2 * n)), ('bal:parens', 'y' + '(' * n, 0, True, None),
                ('bal:curly', 'x' + '{' * n + 'a' + '}' * n + ';', 1, False, (1, 2 * n + 2)), ('bal:parens', '()' * n, 2, True, (2, 4)),
                ('bal:angles', '<' * n + '>' * (n - 1), 0, True, (1, 2 * n - 1))]
        for pid, text, pos, mode, want in deep:
            scen = {'kind': 'match', 'parts': pid, 's': text, 'pos': pos, 'search': mode}
            ctx.count()
            try:
                r = real_search(pid, text, pos, mode)
            except Hang:
                ctx.report('matcher-hangs', f'nestedmatcher did not return within 30 s of CPU time on {pid} with {n}-deep nesting', scen)
                continue
            except Exception as e:
                ctx.report('matcher-raises', f'nestedmatcher raised {type(e).__name__} on {pid} with {n}-deep nesting', scen)
                continue
            got = tuple(r['all']) if isinstance(r, dict) else r
            if got != want:
                ctx.report('not-leftmost', f'{pid} on {n}-deep input pos={pos}: got {got}, expected {want}', scen)
            ctx.nontrivial((pid, n, pos))
    for i in (3, len(kept) // 2, len(kept) - 7):
        ctx.sample({'scenario': kept[i], 'observed': reals[i]})

    def search(budget):
        run_cases(ctx, cases(ctx, deep=True), [])
    conclude(ctx, diffs, search)
    npeep = len(PeepPass.regexes_to_replace) + len(PeepPass.delimited_regexes_to_replace)
    ctx.assumptions += ["regular-expression parts: the span Python's re.match returns for that part alone (the matcher never backtracks into an earlier part)",
                        'inputs are restricted to code points on which the model\'s character classes and Python\'s agree (ASCII + listed Unicode spaces)']
    return ctx.finish(
        obligations=OBLIGATIONS,
        rule='all strings up to a length bound over {o,c,a} for the four delimiter pairs and over "={} a" for curly3, all positions -1..len+1; '
             'ternary small-exhaustive; every peep rule planted (regex parts sampled from their parse tree) and damaged; token soup. '
             'Each case: real nestedmatcher vs Lean model (all part spans) and vs a naive reference matcher. '
             'non-trivial = the match does not start at pos, or none is returned although the opener occurs at/after pos',
        extra={'peep_rules_fired': len([k for k in fired if k.startswith('peep')]), 'peep_rules_total': npeep + 1,
               'matches_by_family': {k: v for k, v in sorted(fired.items()) if not k.startswith('peep')}})
