"""Deterministic scheduler shim: replaces pebble.ProcessPool / concurrent.futures.wait / multiprocessing.Manager as
seen by cvise.utils.testing with in-process fakes, so that *which futures are done when the loop looks* is scripted.
No source hook is needed: the names are rebound on the imported module (and restored afterwards)."""
import concurrent.futures
import queue

import realcode  # noqa: F401
from cvise.utils import testing


class Foreign(Exception):
    pass


class FakeFuture:
    def __init__(self, pool, fn, idx):
        self.pool, self.fn, self.idx = pool, fn, idx
        self._done = False
        self._res = None
        self._exc = None
        self._cancelled = False

    def _complete(self):
        if self._done or self._cancelled:
            return
        fault = self.pool.ctl.fault_for(self.pool.rid, self.idx + 1)
        if fault == 'timeout':
            self._exc = TimeoutError('Task timeout', 1)
        elif fault == 'foreign':
            self._exc = Foreign('scripted foreign exception')
        else:
            self._res = self.fn()
        self._done = True
        self.pool.completed.append(self.idx)

    def done(self):
        return self._done or self._cancelled

    def cancel(self):
        if not self._done:
            self._cancelled = True
            self.pool.cancelled.append(self.idx)
        return True

    def exception(self):
        if self._cancelled:
            raise concurrent.futures.CancelledError()
        return self._exc

    def result(self, timeout=None):
        self._complete()
        if self._cancelled:
            raise concurrent.futures.CancelledError()
        if self._exc:
            raise self._exc
        return self._res


class FakePool:
    ctl = None   # the Control object of the current run

    def __init__(self, max_workers=None):
        self.ctl = FakePool.ctl
        self.rid = self.ctl.next_round()
        self.n = 0
        self.futs = []
        self.completed = []
        self.cancelled = []
        self.polls = 0
        self.ctl.pool = self
        self.stopped = False

    def __enter__(self):
        return self

    def __exit__(self, *a):
        return False

    def schedule(self, fn, timeout=None):
        f = FakeFuture(self, fn, self.n)
        self.n += 1
        self.futs.append(f)
        self.ctl.scheduled.append((self.rid, self.n))
        if self.ctl.sched is None and self.ctl.p_eager and self.ctl.rng.random() < self.ctl.p_eager:
            # the worker is already through with this candidate (transform and test) when the parent executes its next
            # statement: a legitimate interleaving of the real pool; the parent still only *sees* it at its next scan
            f._complete()
        return f

    def stop(self):
        self.stopped = True

    def join(self):
        pass

    def poll(self, current):
        """called right before every scan of process_done_futures"""
        t = self.polls
        pend = [f.idx for f in self.futs if not f.done()]
        for i in self.ctl.choose(self.rid, t, pend):
            if 0 <= i < len(self.futs):
                self.futs[i]._complete()
        self.polls += 1
        self.ctl.played[(self.rid, t)] = sorted(f.idx for f in current if f._done)


class Control:
    """script + record of one run"""

    def __init__(self, sched=None, faults=None, rng=None, p_done=0.5, wait_policy='first', p_eager=0.0):
        self.p_eager = p_eager      # probability that a candidate has run to its end before `schedule` returns (random mode only)
        self.sched = sched          # {(rid, t): [idx]} or None -> random with p_done
        self.faults = faults or {}  # {(rid, order): kind}
        self.rng = rng
        self.p_done = p_done
        self.wait_policy = wait_policy
        self.rounds = 0
        self.played = {}
        self.scheduled = []
        self.pool = None
        self.forced = []

    def next_round(self):
        r = self.rounds
        self.rounds += 1
        return r

    def fault_for(self, rid, order):
        return self.faults.get((rid, order))

    def choose(self, rid, t, pending):
        if self.sched is not None:
            return [i for i in self.sched.get((rid, t), []) if i in pending]
        return [i for i in pending if self.rng.random() < self.p_done]


def fake_wait(futs, return_when=None):
    futs = list(futs)
    if futs and not any(f.done() for f in futs):
        ctl = futs[0].pool.ctl
        pick = futs[0] if ctl.wait_policy == 'first' or ctl.rng is None else ctl.rng.choice(futs)
        pick._complete()
        ctl.forced.append((pick.pool.rid, pick.idx))


class FakeManager:
    def Queue(self):
        return queue.Queue()


class Installed:
    """context manager: install the fakes into cvise.utils.testing, restore on exit"""

    def __init__(self, ctl):
        self.ctl = ctl

    def __enter__(self):
        self.saved = (testing.pebble.ProcessPool, testing.wait, testing.Manager, testing.TestManager.process_done_futures)
        FakePool.ctl = self.ctl
        testing.pebble.ProcessPool = FakePool
        testing.wait = fake_wait
        testing.Manager = FakeManager
        orig = self.saved[3]

        def pdf(tm):
            self.ctl.pool.poll(list(tm.futures))
            return orig(tm)
        testing.TestManager.process_done_futures = pdf
        return self.ctl

    def __exit__(self, *a):
        testing.pebble.ProcessPool, testing.wait, testing.Manager, testing.TestManager.process_done_futures = self.saved
        return False
