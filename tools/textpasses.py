"""The built-in text passes that need no external tool, with input generators that plant their instances."""
import gen_inputs as G
import realcode  # noqa: F401


def make(name, arg):
    from cvise.passes.balanced import BalancedPass
    from cvise.passes.blank import BlankPass
    from cvise.passes.comments import CommentsPass
    from cvise.passes.includes import IncludesPass
    from cvise.passes.ints import IntsPass
    from cvise.passes.line_markers import LineMarkersPass
    from cvise.passes.lines import LinesPass
    from cvise.passes.peep import PeepPass
    from cvise.passes.special import SpecialPass
    from cvise.passes.ternary import TernaryPass
    cls = {'balanced': BalancedPass, 'blank': BlankPass, 'comments': CommentsPass, 'includes': IncludesPass, 'ints': IntsPass,
           'line_markers': LineMarkersPass, 'lines': LinesPass, 'peep': PeepPass, 'special': SpecialPass, 'ternary': TernaryPass}[name]
    p = cls(arg, {})
    p.max_transforms = None
    return p


PASSES = ([('balanced', a) for a in ['parens', 'curly', 'square', 'angles', 'parens-only', 'curly-only', 'parens-inside', 'curly-inside',
                                     'parens-to-zero', 'curly2', 'curly3', 'square-inside', 'angles-inside', 'angles-only', 'square-only']]
          + [('blank', None), ('comments', None), ('includes', None), ('line_markers', None), ('lines', 'None')]
          + [('ints', a) for a in 'abcd'] + [('peep', a) for a in 'abc'] + [('special', a) for a in 'abc'] + [('ternary', a) for a in 'bc'])


def gen_text(name, arg, rng, size=None):
    """C-like text in which the pass finds instances"""
    n = size if size is not None else rng.randint(1, 6)
    parts = []
    for _ in range(n):
        r = rng.random()
        if name == 'balanced':
            pairs = {'parens': '()', 'curly': '{}', 'square': '[]', 'angles': '<>'}
            oc = pairs[[k for k in pairs if arg.startswith(k[:5])][0]] if any(arg.startswith(k[:5]) for k in pairs) else '()'
            grp = G.balanced_group(oc[0], oc[1], rng)
            parts.append(rng.choice(['f', 'x = ', 'a', '= ', '']) + grp + rng.choice([';', ' ', '', '\n']))
        elif name == 'blank':
            parts.append(rng.choice(['\n', '  \n', '#define X\n', 'int a;\n', '\t\n', '# 1 "f"\n', 'b;\n', ' #pragma x\n', 'a #b\n', ' \t \n']))
        elif name == 'comments':
            parts.append(rng.choice(['/* c */', '/* a\n b **/', 'int a; // x\n', '// y\n', 'a /*/ b */ c', 'x = 1;\n', '/**/', 'u / v * w\n']))
        elif name == 'includes':
            parts.append(rng.choice(['#include <a.h>\n', '  # include "b.h"\n', 'int a;\n', '#define I\n', '\n', '#include <c>\n',
                                     'x #include <d>\n', '// #include "e.h"\n']))
        elif name == 'line_markers':
            parts.append(rng.choice(['# 1 "f.c"\n', '  #  22 "g.h" 2\n', 'int a;\n', '#define L 3\n', '#1\n', '\n',
                                     'int a = b #1;\n', '#define C(a) a ## 1\n', 's = "issue #12";\n', 'x # 7\n',
                                     # a marker only if the pattern is allowed to run across line ends
                                     '#\n', '  #  \n', '12, 13 };\n', '  7\n', '#\n\n 5 "x"\n']))
        elif name == 'lines':
            parts.append(rng.choice(['int a;\n', 'b();\n', '\n', '}\n', 'x = 1;\n']))
        elif name == 'ints':
            lit = rng.choice(['10', '0x1F', '42u', '007', '0xFFul', '123456', '1', '0', '-5', '+0x10', '9L'])
            parts.append(rng.choice([' ', '(', ',', ';', '{', '*', 'a']) + lit + rng.choice([' ', ')', ',', ';', '}', 'b', '']))
        elif name == 'special':
            parts.append(rng.choice(["transparent_crc (a, b, c);", "transparent_crc(x)", "extern 'C' ", "extern 'C++' ", 'int a;', "extern 'C'{}", 'transparent_crc()']))
        elif name == 'ternary':
            parts.append(rng.choice([' a ? b : c;', '(x?(y):z)', ' = (a) ? 1 : -2 ;', 'q;', ' a?b:c?d:e ', '{p ? q : r}', ' ? : ']))
        elif name == 'peep':
            from cvise.passes.peep import PeepPass
            if arg == 'a':
                parts.append(rng.choice([' ', ';', 'x']) + G.sample_parts(rng.choice(PeepPass.regexes_to_replace)[0], rng) + rng.choice([' ', ';', '']))
            elif arg == 'b':
                parts.append(rng.choice([' ', ';', '(', ',']) + G.sample_parts(rng.choice(PeepPass.delimited_regexes_to_replace)[0], rng) + rng.choice([' ', ';', ')', ',']))
            else:
                parts.append(rng.choice(['while (a) { b; break; }', ' while(x){break ;}', 'while (1) {}', 'a;', 'while (', 'while (a) (b) {c}']))
    s = ''.join(parts)
    if rng.random() < 0.15:
        s = G.mutate(s, rng)
    return s[:60] if name == 'peep' else s
