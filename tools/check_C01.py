"""C01 — the reduced test cases are always an interesting set."""
import json

from vlib import conclude
import drvlib as D

OBLIGATIONS = [
    'Cvise.C01.commit_tested', 'Cvise.C01.runPass_safe', 'Cvise.C01.reduce_safe', 'Cvise.C01.single_file_key_counterexample', 'Cvise.C01.shipped_key_ok',
    'Cvise.D.roundLoop_sound', 'Cvise.D.isAccept_iff', 'Cvise.D.check_accept', 'Cvise.D.fileLoop_safe', 'Cvise.D.fileStep_inv', 'Cvise.C01.reduce_gated_safe',
]

# finding F1 as a scenario: two identical test cases, a pass that empties a file, interesting iff some file keeps "foo"
F1 = {
    'texts': ['foo\nbar\n', ''], 'files': ['a.c', 'b.c'], 'disk': [0, 0],
    'passes': [{'name': 'wipe', 'maxT': None, 'new': {'0': 0}, 'adv': {}, 'aos': {}, 'tr': {'0.0': ['OK', 1, 0]}}],
    'groups': {'first': [], 'main': [0], 'last': []}, 'cfg': {'cacheOn': True}, 'consts': {},
    'test': {'0.0': 0, '1.0': 0, '0.1': 0, '1.1': 1}, 'faults': {}, 'N': 2, 'p_done': 1.0, 'mode': 'reduce', 'fuel': 50,
}


def stale_other_file(rng):
    """a pass meets the same content of one file again while another test case changed to a different content of the
    same size in between: a replay is sound only if the key carries the contents of the other files"""
    k = rng.randint(2, 4)
    texts = ['F' * (k + 4), 'f' * k, 'P' * (k + 1), 'Q' * (k + 1)]          # 0: F, 1: F' (reduced), 2: P, 3: Q (same size as P)
    def one(name, tr):
        return {'name': name, 'maxT': None, 'new': {c.split('.')[0]: 0 for c in tr}, 'adv': {}, 'aos': {}, 'tr': tr}
    passes = [one('reduce', {'0.0': ['OK', 1, 0]}), one('undo', {'1.0': ['OK', 0, 0]}), one('other', {'2.0': ['OK', 3, 0]}),
              one('idle', {})]
    return {'texts': texts, 'files': ['a.c', 'b.c'], 'disk': [0, 2], 'passes': passes, 'groups': {'first': [0, 1, 2, 0], 'main': [3], 'last': []},
            'cfg': {'cacheOn': True, 'silent': True}, 'consts': {}, 'test': {'0.2': 0, '1.2': 0, '0.3': 0, '1.3': 1}, 'faults': {},
            'N': rng.choice([1, 2]), 'p_done': 1.0, 'wait_policy': 'first', 'mode': 'reduce', 'contract': False, 'rank': [0, 1, 2, 3], 'fuel': 100}


def signature(scen, obs):
    sig = D.oracle_C01(scen, obs)
    if sig and scen['cfg'].get('cacheOn', True) and len(scen['files']) > 1 and any(e.startswith('R') for e in obs['log']):
        return sig + ':multi-file-cache-replay'
    return sig


def nontriv(scen, obs):
    if any(e.startswith('C') for e in obs['log']):
        return D.scen_key(scen)
    return None


def scenarios(ctx, n, deep=False):
    bias = {'files': [1, 2, 2, 3], 'p_equal_files': 0.5, 'p_cache': 0.75, 'p_contract': 0.3, 'p_shared_alphabet': 0.4, 'p_fmt': 0.3}
    return [D.gen_scenario(ctx.rng, bias) for _ in range(n)]


def real_lines_part(ctx, only=None):
    """the real LinesPass (with the stand-in topformflat) under the real run_pass: its new() reformats the user's file in
    place and keeps that only if the sanity check passes.  Predicates that depend on the layout (both reformatted
    alternatives are rejected) and predicates that do not; afterwards the file must be the original or interesting."""
    import random
    import re
    import shutil
    import tempfile
    from pathlib import Path
    import harness_drv as H
    import shim
    from vlib import VERIF
    from cvise.passes.lines import LinesPass
    tool = str(VERIF / 'tools' / 'standins' / 'topformflat')
    preds = {'needs-indent': lambda fs: re.search(r'^  keep1;', fs['a.c'], re.M) is not None,
             'needs-one-line': lambda fs: 'int f() { keep1; x; }' in fs['a.c'],
             'any-layout': lambda fs: 'keep1' in fs['a.c']}
    texts = ['  keep1;\n  x;\n  y;\n', 'int f() { keep1; x; }\nint g() { y; }\n', 'a;\n  keep1;\nb; c;\n']
    cases = [(arg, ti, pn) for arg in ('0', '1', '2', '10') for ti in range(len(texts)) for pn in preds]
    for arg, ti, pn in (cases if only is None else [only]):
        text, pred = texts[ti], preds[pn]
        if not pred({'a.c': text}):
            continue
        d = Path(tempfile.mkdtemp(prefix='c01l-', dir=ctx.scratch))
        import logging
        logging.disable(logging.CRITICAL)
        try:
            ctl = shim.Control(sched=None, faults={}, rng=random.Random(ctx.rng.getrandbits(32)), p_done=ctx.rng.choice([0.0, 1.0]), wait_policy='first')
            obs = H.run_real_textpass(LinesPass(arg, {'topformflat': tool}), {'a.c': text}, pred, ctx.rng.choice([1, 2, 3]), ctl, d)
        finally:
            logging.disable(logging.NOTSET)
            shutil.rmtree(d, ignore_errors=True)
        ctx.count()
        final = obs['final']['a.c']
        if final != text and not pred({'a.c': final}):
            ctx.report('final-set-never-tested-interesting:real-lines-pass', f'LinesPass::{arg} on {text!r} with predicate {pn}: the file is left as {final!r}, which the test rejects (outcome {obs["outcome"]})',
                       {'kind': 'real-lines', 'case': [arg, ti, pn]})
        if obs['accepted'] or final != text:
            ctx.nontrivial(('real-lines', arg, ti, pn))


def run(ctx):
    if ctx.replay and json.load(open(ctx.replay)).get('kind') == 'real-lines':
        real_lines_part(ctx, tuple(json.load(open(ctx.replay))['case']))
        print('replayed ->', 'fails' if ctx.violations else 'holds')
        return 1 if ctx.violations else 0
    if ctx.replay:
        D.replay_drv(ctx, json.load(open(ctx.replay)), [signature])
        return 1 if ctx.violations else 0
    ctx.lean_gate(OBLIGATIONS)
    diffs = []
    n = 400 if ctx.tier == 'quick' else 6000
    rows = D.sweep(ctx, [F1] + [stale_other_file(ctx.rng) for _ in range(4)] + scenarios(ctx, n), [signature], diffs, nontriv)
    real_lines_part(ctx)
    for i in (0, 5, len(rows) // 2):
        ctx.sample({'scenario_key': D.scen_key(rows[i][0]), 'files': rows[i][0]['files'], 'cfg': rows[i][0]['cfg'], 'observed': rows[i][2]})

    def search(budget):
        D.sweep(ctx, scenarios(ctx, 1500), [signature], [], nontriv)
    conclude(ctx, diffs, search)
    ctx.assumptions += ['a test script that rewrites its own candidate is outside the quantifier (predicates, not mutators)',
                        "a pass whose new() rewrites the file in place (LinesPass) is modelled by table passes that rewrite through the real check_sanity callback; the real topformflat is a stand-in (C04/C05/C08/C10 real-pool scenarios)"]
    return ctx.finish(obligations=OBLIGATIONS,
                      rule='table-driven stub passes (OK/INVALID/STOP/ERROR/crash, growing, unchanged), 1-3 files incl. identical ones, cache on/off, limits, '
                           'faults (timeout, signal, non-zero, broken, foreign exception), N in 1..4, scripted random schedules; real run_pass/reduce under the shim vs '
                           'Lean model; oracle: final files = original or a joint content some invocation saw with exit 0. non-trivial = at least one commit; distinct by scenario hash')
