"""K-pass: drive a real text pass object and the Lean pass model through the same accept/reject history."""
import shutil
import tempfile
from pathlib import Path

import realcode  # noqa: F401
import textpasses as T
from cvise.passes.abstract import PassResult, ProcessEventNotifier
from vlib import enc_text


def drive_real(name, arg, text, hist, workdir):
    """returns (list of (result, candidate text), alive flag, extras) — same loop as `Cvise.P.runHistory`"""
    d = Path(tempfile.mkdtemp(prefix='kp-', dir=workdir))
    try:
        path = d / 'a.c'
        path.write_text(text)
        p = T.make(name, arg)
        state = p.new(str(path), None)
        obs = []
        cur = text
        extras = {'leftovers': [], 'states': []}
        for a in hist:
            if state is None:
                return obs, False, extras
            cd = Path(tempfile.mkdtemp(prefix='c-', dir=d))
            cand = cd / 'a.c'
            cand.write_text(cur)
            res, st2 = p.transform(str(cand), state, ProcessEventNotifier(None))
            out = cand.read_text()
            left = sorted(x.name for x in cd.iterdir() if x.name != 'a.c')
            if left:
                extras['leftovers'].append(left)
            obs.append((res.name, out if res == PassResult.OK else cur))
            if res in (PassResult.STOP, PassResult.ERROR):
                return obs, False, extras
            if a and res == PassResult.OK:
                path.write_text(out)
                cur = out
                state = p.advance_on_success(str(cand), st2)
            else:
                state = p.advance(str(path), state)
            shutil.rmtree(cd, ignore_errors=True)
        return obs, state is not None, extras
    finally:
        shutil.rmtree(d, ignore_errors=True)


def render(obs, alive):
    body = '|'.join(f'{r}:{enc_text(t)}' for r, t in obs) or '-'
    return f'{body} alive={1 if alive else 0}'


def model_line(name, arg, text, hist):
    h = ''.join('a' if x else 'r' for x in hist) or '-'
    return f'pass {name} {arg if arg is not None else "-"} {h} {enc_text(text)}'
