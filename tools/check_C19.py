"""C19 — every clang_delta transformation follows the counter protocol (source-text analysis; the tool cannot be built here)."""
import json

from vlib import conclude, REPO
import cdgen

OBLIGATIONS = ['Cvise.C19.wf_query', 'Cvise.C19.wf_range', 'Cvise.C19.all_wf', 'Cvise.C19.names_nodup', 'Cvise.C19.protocol',
               'Cvise.C19.exit_code_convention', 'Cvise.C19.manager_conventions']


def guarded(sk, pred):
    for k in sk:
        if pred(k):
            return True
        if k in 'rx':
            return False
    return False


def judge(name, cls, sk):
    if sk is None:
        return 'no-HandleTranslationUnit-found'
    if 'r' not in sk:
        return 'rewriting-clause-not-found'      # unverified, not silently well-formed
    if 'x' in sk and any(k in sk for k in 'cw') and sk.index('x') < min(sk.index(k) for k in 'cw' if k in sk):
        return 'silent-return-before-counter-check'       # some inputs leave the function before the out-of-range test
    if not guarded(sk, lambda k: k == 'q'):
        return 'rewrite-before-query-return'
    if not guarded(sk, lambda k: k in 'cw'):
        if 'x' in sk and ('c' in sk or 'w' in sk) and sk.index('x') < min(sk.index(k) for k in 'cw' if k in sk):
            return 'silent-return-before-counter-check'       # some inputs leave the function before the out-of-range test
        return 'rewrite-before-counter-check'
    return None


def run(ctx):
    ex = cdgen.Extractor(REPO)
    regs = ex.registrations()
    if ctx.replay and json.load(open(ctx.replay)).get('kind') == 'fake-clang':
        import cdharness
        cdharness.check_part(ctx, model_side=False)
        print('replayed ->', 'fails' if ctx.violations else 'holds')
        return 1 if ctx.violations else 0
    if ctx.replay:
        o = json.load(open(ctx.replay))
        sk = ex.skeleton(o['class'])
        sig = judge(o['name'], o['class'], sk)
        print(o['name'], ''.join(sk or ['?']), '->', sig or 'holds')
        if sig:
            ctx.report(sig, 'replayed', o)
        return 1 if ctx.violations else 0
    ctx.lean_gate(OBLIGATIONS)
    shapes = {}
    names = {}
    for name, cls, f in regs:
        sk = ex.skeleton(cls)
        ctx.count()
        names.setdefault(name, []).append(f)
        shape = ''.join(sk or ['?'])
        shapes[shape] = shapes.get(shape, 0) + 1
        ctx.nontrivial(shape)
        sig = judge(name, cls, sk)
        if sig:
            gap = None
            for st in cdgen.split_stmts((ex.allfuncs.get((cls, 'HandleTranslationUnit')) or ['{}'])[0]):
                g = cdgen.counter_guard_gap(st)
                if g and g[0] == 'gap':
                    gap = {'statement': ' '.join(st.split())[:300], 'let_through': g[1]}     # values for which no branch ends in the out-of-range error
            ctx.report(sig + ':' + name, f'{name} ({cls}, {f}): clause order {shape}' + (f'; the counter guard lets through {gap["let_through"]} (ToCounter -1 = not given)' if gap else ''),
                       {'kind': 'clang_delta-unit', 'name': name, 'class': cls, 'file': f, 'clauses': shape, 'guard_gap': gap})
    for n, fs in names.items():
        if len(fs) > 1:
            ctx.report('name-registered-twice:' + n, f'{n} registered in {fs}', {'kind': 'clang_delta-name', 'name': n, 'files': fs})
    conv = ex.conventions()
    if conv['invalid_counter'] is None or not conv['die_uses_errorcode'] or not conv['invalid_counter_on_max_instance']:
        ctx.report('out-of-range-exit-convention', f'conventions read: {conv}', {'kind': 'clang_delta-conv', 'conv': conv})
    ctx.notes['checkCounterValidity_evaluated'] = conv.get('check_counter_validity_how')
    if not conv['check_counter_validity_ok'] and conv.get('check_counter_validity_how') == 'unreadable':
        # neither compilable in the stub nor readable: the tie is broken, but that is not a failing input
        ctx.report('broken:checkCounterValidity-unreadable', f'Transformation::checkCounterValidity can neither be compiled in the stub class nor read: {conv["check_counter_validity_gap"]}'[:380],
                   {'kind': 'clang_delta-conv', 'function': 'Transformation::checkCounterValidity', 'broken': 'correspondence'}, nofail=True)
    elif not conv['check_counter_validity_ok']:
        ctx.report('checkCounterValidity-lets-out-of-range-through', f'Transformation::checkCounterValidity mishandles {conv["check_counter_validity_gap"]} (ToCounter -1 = not given; evaluated: {conv.get("check_counter_validity_how")})',
                   {'kind': 'clang_delta-conv', 'function': 'Transformation::checkCounterValidity', 'values': conv['check_counter_validity_gap']})
    if not conv['query_returns_before_output']:
        ctx.report('query-opens-the-output', 'the query path (TransformationManager::verify, then doTransformation up to the QueryInstanceOnly return) opens a file for writing: --query-instances with --output creates or truncates that file',
                   {'kind': 'clang_delta-conv', 'function': 'TransformationManager::doTransformation', 'input': '--query-instances=<any> --output=<file>'})
    ctx.sample({'name': regs[0][0], 'class': regs[0][1], 'clauses': ''.join(ex.skeleton(regs[0][1]))})
    ctx.sample({'name': 'simplify-struct', 'clauses': ''.join(ex.skeleton('SimplifyStruct') or ['?'])})
    # the driver code of the tree (CLI, manager, the driver-side functions of Transformation, one real unit) compiled against
    # stand-in Clang headers and run: the command-line protocol is observed, and compared with the protocol model
    import cdharness
    diffs = []
    cdharness.check_part(ctx, model_side=True, diffs=diffs)
    conclude(ctx, diffs, None)
    ctx.assumptions += ['a statement is "rewriting" iff it (or a function / visitor class it reaches by name inside clang_delta/) mentions TheRewriter or RewriteHelper',
                        'a counter check counts only if its if-chain, evaluated over small values of (TransformationCounter, ValidInstanceNum, ToCounter) with every other condition taken as false, ends in TransMaxInstanceError/TransToCounterTooBigError whenever the counter exceeds the instances', 'the C++ of the 73 transformations is not executed or modelled beyond the order of these clauses (no Clang development files); what *is* built and run is the driver code of the tree — ClangDelta.cpp, TransformationManager.cpp, the driver-side functions of Transformation.cpp and the LocalToGlobal unit — against stand-in Clang headers (tools/cdharness.py): exit statuses, messages, query-before-output and the counter checks of that unit are observed and compared with the protocol model (CD.run / CD.exitOf)']
    return ctx.finish(obligations=OBLIGATIONS,
                      rule='all registered transformations (every static RegisterTransformation<…> in clang_delta/*.cpp); one skeleton each; '
                           'distinct = distinct clause-order shapes; the theorem all_wf decides the whole regenerated table',
                      extra={'registrations': len(regs), 'shapes': shapes, 'exhaustive': True, 'tie': 'regeneration for the 73 units; the driver code is compiled against stand-in Clang headers and run (tools/cdharness.py)'})
