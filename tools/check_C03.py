"""C03 — every pass and the whole reduction terminate."""
import itertools
import json
import shutil

from vlib import conclude
import drvlib as D
import gen_inputs as G
import kpass
import textpasses as T
from cvise.passes.peep import PeepPass

OBLIGATIONS = ['Cvise.C03.drive_bound', 'Cvise.C03.binary_search_bound', 'Cvise.C03.peep_advance_progress', 'Cvise.C03.comments_reject_bound',
               'Cvise.C03.main_rounds_le', 'Cvise.C03.shipped_stop_cmp', 'Cvise.step_mu', 'Cvise.D.mainLoop_stops', 'Cvise.C03.balanced_bound',
               'Cvise.C03.balanced_recipes_shrink', 'Cvise.C03.ternary_bound', 'Cvise.C03.pass_run_on_a_file_terminates', 'Cvise.C03.reduction_terminates',
               'Cvise.C03.balanced_parallel_terminates', 'Cvise.C03.ternary_parallel_terminates',
               'Cvise.C03.ints_bound', 'Cvise.C03.special_bc_bound', 'Cvise.C03.blank_bound', 'Cvise.C03.includes_bound', 'Cvise.C03.comments_bound', 'Cvise.C03.gcda_bound', 'Cvise.C03.ifs_bound']


def cap_for(name, arg, n):
    if name == 'peep':
        lim = {'a': len(PeepPass.regexes_to_replace), 'b': len(PeepPass.delimited_regexes_to_replace), 'c': 1}[arg]
        return (n + 2) * (lim + 1) * 3
    return 50 + 8 * (n + 2) ** 2


def drive(ctx, name, arg, text, hist_fn, label):
    """drive until the pass reports it is finished or the polynomial cap is exceeded"""
    cap = cap_for(name, arg, len(text))
    hist = [hist_fn(i) for i in range(cap + 1)]
    obs, alive, _ = kpass.drive_real(name, arg, text, hist, ctx.scratch)
    ctx.count()
    if alive and len(obs) > cap:
        ctx.report(f'too-many-candidates:{name}', f'{name}::{arg} on {text!r} ({label}): still proposing after {cap} candidates',
                   {'kind': 'term', 'pass': name, 'arg': arg, 'text': text, 'history': label})
    return len(obs)


def pass_part(ctx, lines, reals):
    rng = ctx.rng
    quick = ctx.tier == 'quick'
    worst = {}
    cases = []
    for name, arg in T.PASSES:
        if name == 'peep' and arg != 'c':
            reps = 2 if quick else 12
        else:
            reps = 10 if quick else 80
        for _ in range(reps):
            cases.append((name, arg, T.gen_text(name, arg, rng, size=rng.randint(1, 4))))
    # small exhaustive strings for the cheap passes
    for s in G.all_strings('(a)', 4 if quick else 6):
        if s:
            cases.append(('balanced', 'parens', s))
            cases.append(('balanced', 'parens-to-zero', s))
    for name, arg, text in cases:
        pats = [('all-reject', lambda i: False), ('all-accept', lambda i: True), ('alternate', lambda i: i % 2 == 0)]
        seed = rng.getrandbits(30)
        pats.append((f'random:{seed}', lambda i, seed=seed: (seed >> (i % 30)) & 1 == 1))
        for label, fn in pats:
            try:
                k = drive(ctx, name, arg, text, fn, label)
            except Exception as e:
                ctx.report(f'pass-raises:{name}', f'{name}::{arg}: {type(e).__name__}: {e}', {'kind': 'term', 'pass': name, 'arg': arg, 'text': text, 'history': label})
                continue
            key = f'{name}::{arg}'
            if k > worst.get(key, (0,))[0]:
                worst[key] = (k, len(text))
            if k >= 3:
                ctx.nontrivial((name, arg, text, label))
        # the model must stop at the same point: compare a long mostly-rejecting history
        hist = [(i % 3 == 1) for i in range(min(cap_for(name, arg, len(text)), 120))]
        obs, alive, _ = kpass.drive_real(name, arg, text, hist, ctx.scratch)
        lines.append(kpass.model_line(name, arg, text, hist))
        reals.append(({'kind': 'term', 'pass': name, 'arg': arg, 'text': text}, kpass.render(obs, alive)))
    return worst


class _Slow(BaseException):
    pass


def _slow(signum, frame):
    raise _Slow()


STRESS = ['"src/*.c" ' + 'abcdefghij' * 5 + '\n', 'a/*p' + 'x' * 60, ' ' * 200 + 'x\n', '(' * 40 + '\n', '0' * 80 + '\n', 'a ? ' * 30 + '\n', '#' * 50 + '\n',
          '/*' * 30 + '\n', 'x = ' + '1' * 60 + ';\n', '\\\n' * 40, '"' + 'a' * 100 + '\n', '// ' + '/' * 80 + '\n', 'a' * 30 + '(' + 'b,' * 40 + '\n',
          '0x' + 'F' * 60 + 'uL\n', '{' * 25 + ';' + '}' * 24 + '\n']


def stress_part(ctx):
    """the work for one candidate is bounded too: inputs built to make a careless pattern backtrack (unclosed comment or
    string, long runs of one character, deep unclosed nesting) must not stall a pass"""
    import signal
    n = 0
    for name, arg in T.PASSES:
        for text in STRESS:
            # CPU time of this process, not wall clock: a loaded machine must not make a healthy pass look stalled
            signal.signal(signal.SIGPROF, _slow)
            signal.signal(signal.SIGALRM, _slow)
            signal.setitimer(signal.ITIMER_PROF, 20.0)
            signal.setitimer(signal.ITIMER_REAL, 600.0)
            try:
                kpass.drive_real(name, arg, text, [False, True, False, False], ctx.scratch)
            except _Slow:
                ctx.report(f'pass-stalls-on-one-candidate:{name}', f'{name}::{arg} did not get through 4 candidates in 20 s of CPU time on {text[:50]!r}… ({len(text)} characters)',
                           {'kind': 'stress', 'pass': name, 'arg': arg, 'text': text})
            except Exception:
                pass
            finally:
                signal.setitimer(signal.ITIMER_PROF, 0)
                signal.setitimer(signal.ITIMER_REAL, 0)
            n += 1
    ctx.cov['evaluations'] += n
    ctx.notes['stress_runs'] = n


UNDECODABLE = [b'int a; /* caf\xe9 */\n\n#include <a.h>\n# 1 "f.c"\n// x\nint b = (1) ? 2 : 3;\n', b'\xff\xfe\n\n#include <b.h>\n/* c */\n']


def undecodable_part(ctx, only=None):
    """input files that are not valid UTF-8 (a Latin-1 byte in a comment): the pass is driven as the driver drives it — a
    `transform` that raises is an ignored candidate, the cursor moves on — and must still report that it is finished.
    (A pass whose `new` / `advance` raises ends the run with that exception: it ends.)"""
    import copy as _copy
    import tempfile
    from pathlib import Path
    from cvise.passes.abstract import PassResult, ProcessEventNotifier
    import logging
    cap = 400
    for name, arg in T.PASSES:
        if only and (name, arg) != tuple(only):
            continue
        for data in UNDECODABLE:
            d = Path(tempfile.mkdtemp(prefix='c03u-', dir=ctx.scratch))
            try:
                f = d / 'a.c'
                f.write_bytes(data)
                p = T.make(name, arg)
                ended = None
                try:
                    st = p.new(str(f), None)
                except Exception as e:  # noqa: BLE001
                    ended = f'new raises {type(e).__name__}'
                    st = None
                k = 0
                while st is not None and k < cap:
                    k += 1
                    c = d / 'cand.c'
                    c.write_bytes(data)
                    try:
                        res, _st2 = p.transform(str(c), _copy.deepcopy(st), ProcessEventNotifier(None))
                    except Exception:  # noqa: BLE001 — what TestEnvironment.run does: print, carry on
                        res = None
                    if res in (PassResult.STOP, PassResult.ERROR):
                        ended = res.name
                        break
                    try:
                        st = p.advance(str(f), st)
                    except Exception as e:  # noqa: BLE001
                        ended = f'advance raises {type(e).__name__}'
                        break
                ctx.count()
                if ended is None and st is not None:
                    ctx.report(f'never-finishes-on-undecodable-input:{name}', f'{name}::{arg} on a file that is not valid UTF-8 ({data[:24]!r}…): still proposing after {cap} candidates, every transform raises and the cursor just moves on; only the give-up limit would end it',
                               {'kind': 'undecodable', 'pass': name, 'arg': arg, 'bytes': list(data)})
                else:
                    ctx.nontrivial(('undecodable', name, arg, ended or 'finished'))
            finally:
                shutil.rmtree(d, ignore_errors=True)


def tree_part(ctx):
    """the full verdict tree for small inputs: every accept/reject sequence ends"""
    rng = ctx.rng
    n = 0
    for name, arg in [('balanced', 'parens'), ('ternary', 'b'), ('lines', 'None'), ('ints', 'a'), ('comments', None), ('blank', None), ('includes', None),
                      ('line_markers', None), ('special', 'b'), ('balanced', 'curly-only')]:
        for _ in range(3 if ctx.tier == 'quick' else 20):
            text = T.gen_text(name, arg, rng, size=2)
            depth = 7 if ctx.tier == 'quick' else 9
            for bits in itertools.product([False, True], repeat=depth):
                obs, alive, _ = kpass.drive_real(name, arg, text, list(bits) + [False] * cap_for(name, arg, len(text)), ctx.scratch)
                n += 1
                if alive:
                    ctx.report(f'too-many-candidates:{name}', f'{name}::{arg} on {text!r} prefix {bits}', {'kind': 'term', 'pass': name, 'arg': arg, 'text': text, 'history': list(bits)})
                    break
    ctx.cov['evaluations'] += n
    return n


def main_loop_part(ctx, diffs):
    """growing / size-neutral / failing stub passes: the main loop ends, and within (initial total + 1) rounds"""
    bias = {'p_contract': 0.3, 'p_faults': 0.1, 'files': [1, 2], 'max_passes': 3, 'p_endless': 0.15}
    scens = [D.gen_scenario(ctx.rng, bias) for _ in range(200 if ctx.tier == 'quick' else 3000)]

    def orc(scen, obs):
        if obs['outcome'] == 'Watchdog':
            return 'reduction-does-not-end'
        main = scen['groups']['main']
        marks = obs.get('marked', [])
        nfirst, nlast = len(scen['groups']['first']), len(scen['groups']['last'])
        if obs['outcome'] != 'ok' or not main or (len(marks) - nfirst - nlast) % len(main) != 0:
            return None          # a run that ended with an error has no complete round structure to judge
        rounds = (len(marks) - nfirst - nlast) // len(main)
        body = marks[nfirst:nfirst + rounds * len(main)]
        if [m[1] for m in body] != main * rounds:
            return None
        starts = [body[j * len(main)][3] for j in range(rounds)]      # total size when round j of the main loop starts
        for a, b in zip(starts, starts[1:]):
            if not b < a:
                return 'main-loop-round-started-without-progress'
        return None

    def nt(scen, obs):
        return D.scen_key(scen) if len([m for m in obs.get('marked', [])]) > len(scen['groups']['first']) + len(scen['groups']['main']) + len(scen['groups']['last']) else None
    D.sweep(ctx, scens + [stop_family(ctx.rng) for _ in range(12 if ctx.tier == 'quick' else 100)], [orc, oracle_stop, D.oracle_giveup], diffs, nt)


def stop_family(rng):
    """a pass that never runs out of cursors and relies on its helper saying STOP (comments, blank, includes, clang, clex work
    like that): with one test at a time nothing is started after the candidate that said STOP, whatever the options"""
    S = rng.randint(2, 5)
    k = rng.randrange(S)
    p = {'name': 'p0', 'maxT': None, 'new': {'0': 0}, 'adv': {f'0.{j}': (j + 1) % S for j in range(S)}, 'aos': {},
         'tr': {f'0.{j}': ['STOP' if j == k else 'INVALID', 0, j] for j in range(S)}}
    return {'texts': ['abcdef', 'abc'], 'files': ['a.c'], 'disk': [0], 'passes': [p], 'groups': {'first': [], 'main': [0], 'last': []},
            'cfg': {'cacheOn': rng.random() < 0.5, 'silent': rng.random() < 0.6, 'noGiveUp': False, 'die': False}, 'consts': {'GIVEUP_CONSTANT': 12},
            'test': {'0': 0, '1': 0}, 'faults': {}, 'N': 1, 'p_done': 1.0, 'wait_policy': 'first', 'mode': 'pass', 'contract': False, 'rank': [0, 1],
            'fuel': 400, 'stop_at': k + 1}


def oracle_stop(scen, obs):
    if 'stop_at' in scen and len([1 for rid, _ in obs.get('scheduled', []) if rid == 0]) > scen['stop_at']:
        return 'candidates-started-after-the-pass-said-STOP'
    return None


def run(ctx):
    if ctx.replay:
        o = json.load(open(ctx.replay))
        if o.get('kind') == 'term':
            h = o['history']
            fn = (lambda i: False) if h == 'all-reject' else (lambda i: True) if h == 'all-accept' else (lambda i: i % 2 == 0) if h == 'alternate' else \
                (lambda i: (int(h.split(':')[1]) >> (i % 30)) & 1 == 1) if isinstance(h, str) else (lambda i: h[i] if i < len(h) else False)
            drive(ctx, o['pass'], o['arg'], o['text'], fn, str(h))
        elif o.get('kind') == 'undecodable':
            undecodable_part(ctx, only=(o['pass'], o['arg']))
        elif o.get('kind') == 'stress':
            global STRESS
            saved, passes = STRESS, T.PASSES
            STRESS, T.PASSES = [o['text']], [(o['pass'], o['arg'])]
            try:
                stress_part(ctx)
            finally:
                STRESS, T.PASSES = saved, passes
        else:
            D.replay_drv(ctx, o, [oracle_stop])
        print('replayed ->', 'fails' if ctx.violations else 'holds')
        return 1 if ctx.violations else 0
    ctx.lean_gate(OBLIGATIONS)
    diffs, lines, reals = [], [], []
    worst = pass_part(ctx, lines, reals)
    outs = ctx.model(lines)
    for (sc, r), m in zip(reals, outs):
        if r != m:
            diffs.append({**sc, 'real': r[:300], 'model': m[:300]})
    ntree = tree_part(ctx)
    stress_part(ctx)
    undecodable_part(ctx)
    main_loop_part(ctx, diffs)
    ctx.sample({'worst_candidate_counts(pass: [candidates, input length])': dict(sorted(worst.items())[:8])})
    conclude(ctx, diffs, None)
    ctx.assumptions += ['the candidate cap is 50 + 8(n+2)^2 for an input of n characters (3(n+2)(rules+1) for peep): a pass that is still proposing beyond it is reported',
                        'peep under accepts and ints/special under accepts are bounded by observation only (rule-specific measures are not proved)']
    return ctx.finish(obligations=OBLIGATIONS,
                      rule='every tool-free text pass and argument on planted inputs and small exhaustive strings, driven to the end under all-reject, all-accept, alternating and seeded verdict sequences, '
                           'plus the full verdict tree to depth 7/9 for small inputs; the number of candidates must stay under a polynomial cap and the Lean model must stop at the same candidate; '
                           'main loop: growing / neutral / failing stub passes, number of rounds <= initial total size + 1. non-trivial = run with >= 3 candidates',
                      extra={'worst_by_pass': {k: list(v) for k, v in sorted(worst.items())}, 'verdict_tree_runs': ntree})
