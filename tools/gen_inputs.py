"""Seeded input generators shared by the checks: C-like token soup, strings sampled from a regex's parse tree,
balanced groups, and instance-planting helpers.  All randomness comes from the rng passed in."""
import itertools
import re
import re._constants as sc
import re._parser as sp

TOKENS = ['(', ')', '{', '}', '[', ']', '<', '>', ',', ';', ':', '?', '=', '+', '-', '*', '&', '|', "'", '"', '#', '\n', ' ',
          'a', 'b1', 'x', '0', '1', '10', '0x1F', '42u', 'while', 'struct', 'if', 'int', 'char', 'class', 'for', 'goto',
          'namespace', '::', '+=', '-=', '&&', '==', '!', '~', '.', 'f', 'union', 'enum', 'typeof', 'break']

SPACE_SAMPLES = [' ', ' ', '\n', '\t']


def sample_in(av, rng):
    neg = any(op is sc.NEGATE for op, _ in av)
    pos = []
    for op, a in av:
        if op is sc.LITERAL:
            pos.append(chr(a))
        elif op is sc.RANGE:
            pos.append(chr(rng.randint(a[0], a[1])))
        elif op is sc.CATEGORY:
            if a is sc.CATEGORY_SPACE:
                pos.append(rng.choice(SPACE_SAMPLES))
            elif a is sc.CATEGORY_DIGIT:
                pos.append(rng.choice('0123456789'))
            elif a is sc.CATEGORY_WORD:
                pos.append(rng.choice('ab_1'))
    if not neg:
        return rng.choice(pos) if pos else 'a'
    for _ in range(20):
        c = rng.choice('ab1 ;(){}=x')
        if not re.match('[' + ''.join(re.escape(p) for p in pos) + ']', c):
            return c
    return 'q'


def sample_sub(sub, rng, depth=0):
    out = []
    for op, av in sub:
        if op is sc.LITERAL:
            out.append(chr(av))
        elif op is sc.NOT_LITERAL:
            out.append('a' if chr(av) != 'a' else 'b')
        elif op is sc.IN:
            out.append(sample_in(av, rng))
        elif op is sc.ANY:
            out.append(rng.choice('ab1 ,\n\n'))        # the patterns are compiled with DOTALL: `.` covers line ends too
        elif op is sc.BRANCH:
            out.append(sample_sub(rng.choice(av[1]), rng, depth + 1))
        elif op in (sc.MAX_REPEAT, sc.MIN_REPEAT):
            lo, hi, body = av
            n = rng.randint(lo, min(hi, lo + 2))
            out.append(''.join(sample_sub(body, rng, depth + 1) for _ in range(n)))
        elif op is sc.SUBPATTERN:
            out.append(sample_sub(av[3], rng, depth + 1))
        elif op in (sc.ASSERT_NOT, sc.AT):
            pass
    return ''.join(out)


def sample_regex(expr, rng, flags=0):
    """a string that (very likely) matches `expr`"""
    return sample_sub(sp.parse(expr, flags), rng)


def balanced_group(o, c, rng, depth=0):
    inner = []
    for _ in range(rng.randint(0, 3)):
        r = rng.random()
        if r < 0.3 and depth < 2:
            inner.append(balanced_group(o, c, rng, depth + 1))
        elif r < 0.4:
            inner.append(rng.choice('([{<') if rng.random() < 0.5 else rng.choice(')]}>'))   # foreign delimiter
        else:
            inner.append(rng.choice(['a', 'b1', ' ', ',', '1', ';']))
    return o + ''.join(inner) + c


def soup(rng, n, tokens=TOKENS):
    return ''.join(rng.choice(tokens) for _ in range(n))


def all_strings(alphabet, maxlen):
    for n in range(maxlen + 1):
        for t in itertools.product(alphabet, repeat=n):
            yield ''.join(t)


def sample_parts(parts, rng):
    """a string matching a nestedmatcher part list (regex parts sampled, balanced parts generated)"""
    from cvise.utils import nestedmatcher as nm
    out = []
    for part in parts:
        if isinstance(part, tuple):
            part = part[0]
        out.append(sample_pat(part, rng))
    return ''.join(out)


def sample_pat(pat, rng):
    from cvise.utils import nestedmatcher as nm
    if isinstance(pat, nm.RegExPattern):
        return sample_regex(pat.expr, rng, re.DOTALL)
    if isinstance(pat, nm.BalancedPattern):
        return balanced_group(pat.start, pat.end, rng)
    if isinstance(pat, nm.OrPattern):
        return sample_pat(pat.left if rng.random() < 0.5 else pat.right, rng)
    return ''


def mutate(s, rng):
    """small random damage: delete / duplicate / replace a character"""
    if not s:
        return s
    i = rng.randrange(len(s))
    r = rng.random()
    if r < 0.4:
        return s[:i] + s[i + 1:]
    if r < 0.7:
        return s[:i] + s[i] + s[i:]
    return s[:i] + rng.choice('(){};, a1') + s[i + 1:]
