"""The command-line front end (`cvise.py`) run for real, observed from outside.

`run_cli(args, cwd, …)` starts `<tree>/cvise.py` in a child interpreter whose `sitecustomize` (on a private PYTHONPATH)
* provides a stand-in `chardet` (not installed here; the front end imports it unconditionally, uses it only for --to-utf8),
* optionally pretends to be another platform (`sys.platform`),
* optionally *captures the hand-over to the driver*: `TestManager.__init__` and `CVise.reduce` are wrapped so that the
  arguments the front end passes (every limit and flag by parameter name, the schedule as `str(pass)` per category, the
  `skip_initial` flag, `tidy`) are written to a JSON file and the process exits before anything is reduced.

Nothing of the tree is edited; the wrappers live in the child only."""
import json
import os
import subprocess
import sys
import tempfile
from pathlib import Path

from vlib import REPO

SITE = r'''
import json, os, sys
_plat = os.environ.get('CLIPROBE_PLATFORM')
if _plat:
    # everything that looks at the platform while being *imported* (psutil, multiprocessing, the key reader) is imported
    # first; the front end itself reads sys.platform when it runs
    import multiprocessing, subprocess, tempfile, shutil, psutil, pebble      # noqa: E401,F401
    import cvise.utils.testing, cvise.cvise, cvise.utils.readkey              # noqa: E401,F401
    sys.platform = _plat
_cap = os.environ.get('CLIPROBE_CAPTURE')
if _cap:
    import inspect
    from cvise.utils import testing as _t
    from cvise import cvise as _c
    _rec = {}
    _init = _t.TestManager.__init__
    _sig = inspect.signature(_init)

    def _wrapped_init(self, *a, **k):
        b = _sig.bind(self, *a, **k)
        b.apply_defaults()
        d = {}
        for name, v in b.arguments.items():
            if name in ('self', 'pass_statistic'):
                continue
            d[name] = [str(x) for x in v] if isinstance(v, (list, tuple, set)) else (v if isinstance(v, (int, float, str, bool, type(None))) else str(v))
        _rec['test_manager'] = d
        if os.environ.get('CLIPROBE_REAL_INIT'):
            _init(self, *a, **k)      # run the real start-up validation too (misuse probes)

    def _wrapped_reduce(self, pass_group, skip_initial=False):
        _rec['schedule'] = {k: [str(p) for p in v] for k, v in pass_group.items()}
        _rec['limits'] = {k: [getattr(p, 'max_transforms', None) for p in v] for k, v in pass_group.items()}
        _rec['skip_initial'] = skip_initial
        _rec['tidy'] = getattr(self, 'tidy', None)
        _rec['skip_sanity'] = getattr(self, 'skip_interestingness_test_check', None)
        with open(_cap, 'w') as f:
            json.dump(_rec, f)
        sys.stdout.flush()
        os._exit(0)
    _t.TestManager.__init__ = _wrapped_init
    _c.CVise.reduce = _wrapped_reduce
'''


def stub_dir(scratch):
    d = Path(tempfile.mkdtemp(prefix='cli-stub-', dir=scratch))
    (d / 'chardet').mkdir()
    (d / 'chardet' / '__init__.py').write_text(
        "def detect(b):\n"
        "    try:\n"
        "        b.decode('ascii')\n"
        "        return {'encoding': 'ascii', 'confidence': 1.0}\n"
        "    except UnicodeDecodeError:\n"
        "        pass\n"
        "    try:\n"
        "        b.decode('utf-8')\n"
        "        return {'encoding': 'utf-8', 'confidence': 0.9}\n"
        "    except UnicodeDecodeError:\n"
        "        return {'encoding': 'ISO-8859-1', 'confidence': 0.7}\n")
    (d / 'sitecustomize.py').write_text(SITE)
    return d


def run_cli(stub, args, cwd, platform=None, capture=False, real_init=False, tmpdir=None, timeout=120):
    """returns (returncode, output, captured dict or None)"""
    env = dict(os.environ, PYTHONPATH=f'{stub}:{REPO}')
    env.pop('CLIPROBE_PLATFORM', None)
    env.pop('CLIPROBE_CAPTURE', None)
    env.pop('CLIPROBE_REAL_INIT', None)
    if platform:
        env['CLIPROBE_PLATFORM'] = platform
    cap = None
    if capture:
        fd, cap = tempfile.mkstemp(prefix='cli-cap-', suffix='.json', dir=str(stub))
        os.close(fd)
        os.unlink(cap)
        env['CLIPROBE_CAPTURE'] = cap
        if real_init:
            env['CLIPROBE_REAL_INIT'] = '1'
    if tmpdir:
        env['TMPDIR'] = str(tmpdir)
    r = subprocess.run([sys.executable, str(REPO / 'cvise.py')] + list(args), cwd=str(cwd), env=env, capture_output=True, text=True, timeout=timeout)
    got = None
    if cap and os.path.exists(cap):
        try:
            got = json.load(open(cap))
        finally:
            os.unlink(cap)
    return r.returncode, r.stdout + r.stderr, got


def listing(d):
    out = []
    for root, dirs, files in os.walk(d):
        for f in files:
            p = Path(root) / f
            try:
                out.append((str(p.relative_to(d)), p.read_bytes(), p.stat().st_mode & 0o7777))
            except OSError:
                out.append((str(p.relative_to(d)), None, None))
        for x in dirs:
            out.append((str((Path(root) / x).relative_to(d)) + '/', None, None))
    return sorted(out, key=lambda e: e[0])
