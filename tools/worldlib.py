"""Real-pool scenarios and model-independent oracles for C04, C05, C08 (and the runtime part of C09/C17)."""
import hashlib

import harness_real as HR


def sha_text(t):
    return hashlib.sha1(t.encode()).hexdigest()


HDR = '// WASHANG WASKILL WASSLOW WASFORK\n'


def scen_basic(rng):
    """two test cases (one in a sub-directory), odd modes, a pre-existing .orig, unrelated files"""
    return {'name': 'basic', 'tree': {'a.c': {'text': 'keep1\nx\ny\nz\n', 'mode': '640'}, 'sub/b.c': {'text': 'keepb\nw\nv\n', 'mode': '600'},
                                     'other.txt': {'text': 'untouched', 'mode': '604'}, 'a.c.orig': {'text': 'older backup', 'age_s': 86400},      # an existing backup, older than its test case
                                     'sub/b.c.orig': {'text': '', 'mode': '600'},        # an existing backup that happens to be empty
                                     'sub/notes': {'text': 'n'}},
            'test_cases': ['a.c', 'sub/b.c'], 'predicate': 'grep -q keep1 a.c && grep -q keepb sub/b.c',
            'groups': {'first': [{'name': 'LinePass'}], 'main': [{'name': 'LinePass', 'arg': 'm'}], 'last': []}, 'N': rng.choice([1, 2, 4]), 'timeout': 5}


def scen_faults(rng):
    """slow / hanging / killed / forking tests, cancellation because an earlier candidate wins"""
    lines = ['HANGLINE', 'KILLLINE', 'SLOWLINE', 'FORKLINE', 'keep1', 'x', 'y']
    rng.shuffle(lines)
    return {'name': 'faults', 'tree': {'a.c': {'text': HDR + '\n'.join(lines) + '\n'}}, 'test_cases': ['a.c'],
            'predicate': 'grep -q keep1 a.c && grep -q WASHANG a.c && grep -q HANGLINE a.c && grep -q KILLLINE a.c && grep -q FORKLINE a.c',
            'groups': {'first': [], 'main': [{'name': 'LinePass'}], 'last': []}, 'N': rng.choice([2, 3, 4]), 'timeout': 1, 'mode': 'pass',
            'consts': {'MAX_TIMEOUTS': 3}}


def scen_mess(rng):
    """the test script creates, deletes and overwrites files inside its own directory"""
    return {'name': 'mess', 'tree': {'a.c': {'text': 'MESS\nkeep1\nx\n'}, 'b.c': {'text': 'keepb\nq\n'}, 'created_by_test.txt': {'text': 'mine'}},
            'test_cases': ['a.c', 'b.c'], 'predicate': 'grep -q keep1 a.c && grep -q MESS a.c',
            'groups': {'first': [], 'main': [{'name': 'LinePass'}], 'last': []}, 'N': 2, 'timeout': 5}


def scen_noise(rng):
    """megabytes of output and bytes that are not UTF-8 (F12)"""
    return {'name': 'noise', 'tree': {'a.c': {'text': 'NOISE\nBADUTF\nkeep1\nx\ny\n'}}, 'test_cases': ['a.c'],
            'predicate': 'grep -q keep1 a.c && grep -q BADUTF a.c && grep -q NOISE a.c',
            'groups': {'first': [], 'main': [{'name': 'LinePass'}], 'last': []}, 'N': 2, 'timeout': 10, 'mode': 'pass'}


def scen_zero(rng):
    return {'name': 'zero-size', 'tree': {'a.c': {'text': ''}}, 'test_cases': ['a.c'], 'predicate': 'exit 0', 'skip_sanity': False,
            'groups': {'first': [], 'main': [{'name': 'LinePass'}], 'last': []}, 'N': 2, 'timeout': 5, 'mode': 'pass', 'expect': 'ZeroSizeError'}


def scen_insane(rng):
    """the input is rejected by the test: the start-up sanity check fails"""
    return {'name': 'insane-input', 'tree': {'a.c': {'text': 'keep1\nx\n'}}, 'test_cases': ['a.c'], 'predicate': 'exit 1', 'skip_sanity': False,
            'groups': {'first': [], 'main': [{'name': 'LinePass'}], 'last': []}, 'N': 2, 'timeout': 5, 'expect': 'InsaneTestCaseError'}


def scen_format_insane(rng):
    """the quiet route: LinesPass.new reformats the file, its sanity checks fail (the test needs the indentation), the pass
    restores the file and carries on — nothing is reported, nothing may stay behind"""
    return {'name': 'format-insane', 'tree': {'a.c': {'text': '  keep1;\n  x;\n  y;\n'}}, 'test_cases': ['a.c'], 'predicate': 'grep -q "^  keep1" a.c',
            'groups': {'first': [], 'main': [{'name': 'lines', 'arg': rng.choice(['0', '1'])}], 'last': []}, 'N': 2, 'timeout': 5,
            'external': {'topformflat': 'standin:topformflat'}}


def scen_vanish(rng):
    """a test case disappears from the user's directory while the pass runs (here: the test removes it through its absolute
    path): the pass run ends with an error — and must still clean up after itself"""
    return {'name': 'vanishing-test-case', 'tree': {'a.c': {'text': 'keep1\nx\ny\nz\n'}, 'b.c': {'text': 'q\n'}}, 'test_cases': ['a.c', 'b.c'],
            'predicate': 'rm -f "@WD@/b.c"; grep -q keep1 a.c', 'groups': {'first': [], 'main': [{'name': 'LinePass'}], 'last': []},
            'N': 2, 'timeout': 5, 'mode': 'pass', 'expect_any': True}


def scen_die(rng):
    return {'name': 'die-on-pass-bug', 'tree': {'a.c': {'text': 'keep1\nx\n'}}, 'test_cases': ['a.c'], 'predicate': 'exit 0',
            'groups': {'first': [], 'main': [{'name': 'UnalteredPass'}], 'last': []}, 'N': 2, 'timeout': 5, 'mode': 'pass',
            'cfg': {'die': True}, 'expect': 'PassBugError'}


def scen_die_busy(rng):
    """the pass run ends with a reported error (--die-on-pass-bug on an unaltered candidate) while later candidates are
    inside slow tests that have children of their own"""
    return {'name': 'die-while-others-run', 'tree': {'a.c': {'text': '// WASHANG WASFORK\nHANGLINE\nFORKLINE\nkeep1\nx\n'}}, 'test_cases': ['a.c'],
            'predicate': 'grep -q keep1 a.c', 'groups': {'first': [], 'main': [{'name': 'UnalteredPass', 'arg': 'then-lines'}], 'last': []},
            'N': rng.choice([3, 4]), 'timeout': 20, 'mode': 'pass', 'cfg': {'die': True}, 'expect': 'PassBugError'}


def scen_error_pass(rng):
    return {'name': 'helper-error', 'tree': {'a.c': {'text': 'keep1\nx\n'}}, 'test_cases': ['a.c'], 'predicate': 'exit 0',
            'groups': {'first': [], 'main': [{'name': 'ErrorPass'}, {'name': 'LinePass'}], 'last': []}, 'N': 2, 'timeout': 5}


def scen_grow(rng):
    return {'name': 'growth-bailout', 'tree': {'a.c': {'text': 'keep1\nx\ny\n', 'mode': '640'}, 'b.c': {'text': 'k\nq\n', 'mode': '644'}}, 'test_cases': ['a.c', 'b.c'],
            'predicate': 'grep -q keep1 a.c', 'groups': {'first': [], 'main': [{'name': 'LinePass', 'arg': 'grow'}], 'last': []},
            'N': 2, 'timeout': 5, 'mode': 'pass'}


def scen_save_temps(rng):
    s = scen_basic(rng)
    s['name'] = 'save-temps'
    s['cfg'] = {'save_temps': True}
    return s


def scen_skip_sanity(rng):
    """--skip-interestingness-test-check: everything else (backups included) as usual"""
    s = scen_basic(rng)
    s['name'] = 'skip-sanity'
    s['skip_sanity'] = True
    s['tree'] = {k: v for k, v in s['tree'].items() if not k.endswith('.orig')}
    return s


def scen_tidy(rng):
    s = scen_basic(rng)
    s['name'] = 'tidy'
    s['cfg'] = {'tidy': True}
    return s


def scen_modes(rng, real):
    """a pass whose `new` resets the mode of the test case (LinesPass reformats through a 0600 temporary file), one test case
    on which it then makes progress and one on which no candidate is accepted; modes other than 0600"""
    spec = {'name': 'lines', 'arg': '0'} if real else {'name': 'LinePass', 'arg': 'chmod'}
    return {'name': 'modes:' + ('lines0' if real else 'stub'),
            # modes with bits above 0777 too (sticky, set-gid): "their original values" means all of them
            'tree': {'a.c': {'text': 'int keep1;\nint x;\nint y;\n', 'mode': '1644'}, 'sub/b.c': {'text': 'int only;\n', 'mode': '2640'}},
            'test_cases': ['a.c', 'sub/b.c'], 'predicate': 'grep -q keep1 a.c && grep -q only sub/b.c',
            'groups': {'first': [], 'main': [spec], 'last': []}, 'N': rng.choice([1, 2]), 'timeout': 5,
            'mode': rng.choice(['pass', 'reduce']), 'external': {'topformflat': 'standin:topformflat'}}


def scen_real_pass(rng, which):
    ext = {'unifdef': 'standin:unifdef', 'topformflat': 'standin:topformflat', 'clang_delta': 'standin:clang_delta'}
    text = 'int keep1;\n#if FOO\nint a;\n#else\nint b;\n#endif\n\n// c\nint x; /* d */\n#if BAR\nint y;\n#endif\n# 1 "f.h"\n#include <s.h>\nint z = (1 ? 2 : 3);\n'
    spec = {'ifs': {'name': 'ifs'}, 'lines0': {'name': 'lines', 'arg': '0'}, 'linesNone': {'name': 'lines', 'arg': 'None'},
            'blank': {'name': 'blank'}, 'comments': {'name': 'comments'}, 'includes': {'name': 'includes'}, 'line_markers': {'name': 'line_markers'},
            'balanced': {'name': 'balanced', 'arg': 'parens'}, 'ternary': {'name': 'ternary', 'arg': 'b'}, 'unifdef': {'name': 'unifdef'},
            'ints': {'name': 'ints', 'arg': 'a'}, 'peep': {'name': 'peep', 'arg': 'a'}}[which.replace('-dense', '')]
    if which.endswith('-dense'):
        # the same pass on a text without blank lines (what a second run of the pass meets): other branches of the pass
        which = which[:-len('-dense')]
        text = 'int keep1;\n#define X 1\n#if FOO\nint a;\n#endif\nint x; /* d */\n# 1 "f.h"\n#include <s.h>\nint z = (1 ? 2 : 3);\n'
        spec = dict(spec)
        return {'name': 'real-pass:' + which + '-dense', 'tree': {'a.c': {'text': text}, 'b.h': {'text': 'int other;\n'}}, 'test_cases': ['a.c', 'b.h'],
                'predicate': 'grep -q keep1 a.c', 'groups': {'first': [], 'main': [spec], 'last': []}, 'N': 2, 'timeout': 5, 'mode': 'pass',
                'external': ext}
    return {'name': 'real-pass:' + which, 'tree': {'a.c': {'text': text}, 'b.h': {'text': 'int other;\n'}}, 'test_cases': ['a.c', 'b.h'],
            'predicate': 'grep -q keep1 a.c', 'groups': {'first': [], 'main': [spec], 'last': []}, 'N': 2, 'timeout': 5, 'mode': 'pass',
            'external': ext}


def scen_real_pass_latin1(rng, which):
    """the same real passes on a test case that is not valid UTF-8 (a Latin-1 byte in a comment, no --to-utf8): whatever the
    pass makes of it — most raise — every invocation of the test still sees exactly the test cases"""
    s = scen_real_pass(rng, which)
    s['name'] = s['name'] + ':latin1'
    s['tree']['a.c'] = {'text': s['tree']['a.c']['text'].replace('// c\n', '// caf\xe9\n'), 'latin1': True}
    s['expect_any'] = True
    s['consts'] = {'GIVEUP_CONSTANT': 30}       # comments / includes never answer STOP on such a file (F17): let them give up soon
    return s


def scen_helper_hangs(rng):
    """a helper program that is still running when its candidate is cancelled: the symbol listing (`unifdef -s`) of the
    first candidate hangs, the second candidate is interesting and wins, the first one is cancelled — its helper must
    not survive the pass run"""
    s = scen_real_pass(rng, 'unifdef')
    s['name'] = 'helper-hangs-while-another-candidate-wins'
    s['tree']['a.c']['text'] = 'int keep1;\n#ifdef FOO\nint a;\n#else\nint b;\n#endif\n#ifdef BAR\nint y;\n#endif\n'
    s['env'] = {'STANDIN_LIST_HANG_ONCE': 25}
    s['N'] = 2
    s['timeout'] = 10
    return s


def scen_main_helper_hangs(rng, which):
    """a helper started from the main process (`new` / `advance_on_success`: the instance query of the clang binary search,
    the function listing of the gcda pass) hangs past the pass's own time limit: it must not survive the pass run"""
    if which == 'clang':
        return {'name': 'main-process-helper-hangs:clang-query', 'tree': {'a.c': {'text': 'keep1\nI0;\nI1;\nI2;\nint x;\n'}}, 'test_cases': ['a.c'],
                'predicate': 'grep -q keep1 a.c', 'groups': {'first': [], 'main': [{'name': 'clangbinarysearch', 'arg': 'remove-unused-function'}], 'last': []},
                'N': 2, 'timeout': 5, 'mode': 'pass', 'external': {'clang_delta': 'standin:clang_delta'},
                'cd_scen': {'query_hang': [rng.choice(['c++11', 'c++17', 'c++2b'])], 'hang_s': 25},
                'class_consts': {'cvise.passes.clangbinarysearch.ClangBinarySearchPass.QUERY_TIMEOUT': 1}}
    return {'name': 'main-process-helper-hangs:gcda-listing', 'tree': {'a.gcda': {'text': 'HDR toy coverage file\nF0:aa\nF1:bb\nF2:cc\n'}}, 'test_cases': ['a.gcda'],
            'predicate': 'grep -q HDR a.gcda', 'groups': {'first': [], 'main': [{'name': 'gcda-binary', 'arg': 'None'}], 'last': []},
            'N': 2, 'timeout': 5, 'mode': 'pass', 'external': {'gcov-dump': 'standin:gcov-dump'}, 'env': {'STANDIN_HANG': 25}}


def scen_stdin_closed(rng):
    """a pass run that ends through an error before its first candidate: key presses are listened for (no --skip-key-off)
    but the process has no standard input"""
    s = scen_basic(rng)
    s['name'] = 'stdin-closed'
    s['cfg'] = {'keys_on': True}
    s['stdin_closed'] = True
    s['expect_any'] = True
    return s


def scen_order(rng, N):
    """an earlier candidate whose test is slow but interesting, a later one that is fast and interesting: the earlier must win"""
    return {'name': f'order-N{N}', 'tree': {'a.c': {'text': '// WASSLOW\nSLOWLINE\nB\nkeep1\n'}}, 'test_cases': ['a.c'],
            'predicate': 'grep -q keep1 a.c && grep -q WASSLOW a.c && (grep -q SLOWLINE a.c || grep -q "^B" a.c)',
            'groups': {'first': [], 'main': [{'name': 'LinePass'}], 'last': []}, 'N': N, 'timeout': 10, 'mode': 'pass'}


def scen_dotdot(rng):
    """F10: a test case given with a `..` component"""
    return {'name': 'dotdot', 'tree': {'keep': {'text': 'k'}, '../x.c': {'text': 'a\nb\nc\nd\n'}}, 'test_cases': ['../x.c'],
            'predicate': 'grep -q b ../x.c', 'groups': {'first': [], 'main': [{'name': 'LinePass'}], 'last': []},
            'N': 2, 'timeout': 5, 'mode': 'pass', 'expect_any': True}


REAL_PASSES = ['ifs', 'lines0', 'linesNone', 'blank', 'comments', 'includes', 'line_markers', 'balanced', 'ternary', 'unifdef', 'ints', 'peep',
               'blank-dense', 'includes-dense', 'line_markers-dense', 'comments-dense']


# ------------------------------------------------------------------ oracles
def norm(p):
    import os
    return os.path.normpath(p)


def oracle_C05(scen, obs):
    """every invocation: fresh directory, exactly the test cases, non-current files = accepted versions"""
    tcs = [norm(t) for t in scen['test_cases']]
    orig = {norm(t): sha_text(scen['tree'][norm(t)]['text']) for t in scen['test_cases'] if norm(t) in scen['tree']}
    seen_cwd = set()
    commits = sorted(obs.get('commits', []))
    invs = obs.get('invocations', [])
    # a candidate that is cancelled while its script lists the directory yields a truncated manifest (the directory is
    # being removed under it); a missing test case counts only when it is systematic
    EMPTY = ('', 'da39a3ee5e6b4b0d3255bfef95601890afd80709')
    miss = [inv for inv in invs if set(tcs) - {norm(k) for k in inv['files']}]
    systematic_missing = len(miss) >= 2 and len(miss) * 2 >= len(invs) or (scen.get('N') == 1 and miss)
    if '..' in ''.join(scen['test_cases']) and invs:
        # a path with `..` leaves the private directory: the manifest cannot contain it
        if all(not inv['files'] for inv in invs):
            return 'test-case-outside-private-directory'
    for inv in invs:
        cwd = inv.get('cwd')
        if not cwd or not inv['files']:
            continue        # a script that started after its directory was removed (cancelled candidate on a loaded machine): nothing to judge
        if cwd in seen_cwd:
            return 'test-directory-reused'
        seen_cwd.add(cwd)
        files = {norm(k): v for k, v in inv['files'].items()}
        if any(v == '' for v in files.values()):
            continue        # listed while the directory was being removed under it (cancelled candidate)
        extra = sorted(set(files) - set(tcs))
        missing = sorted(set(tcs) - set(files))
        if extra:
            return 'extra-file-in-test-directory:' + extra[0].split('/')[-1][:3]
        if missing:
            if systematic_missing:
                return 'test-case-missing-in-test-directory'
            continue
        # accepted versions at the time the invocation started
        state = dict(orig)
        hist = {t: {orig.get(t)} for t in tcs}
        for tm, f, h in commits:
            hist.setdefault(norm(f), set()).add(h)
            if tm < inv.get('time', 0):
                state[norm(f)] = h
        diff = [t for t in tcs if files[t] != state.get(t)]
        if len(diff) > 1:
            # more than the file being reduced differs from the accepted versions
            return 'other-test-case-not-the-accepted-version'
    return None


def oracle_C08(scen, obs):
    if obs.get('tmp_left') and not scen.get('cfg', {}).get('save_temps'):
        return 'temp-dir-left:' + scen['name'].split(':')[0]
    if obs.get('alive'):
        return 'process-left-running:' + scen['name'].split(':')[0]
    return None


def oracle_C04(scen, obs):
    before, after = obs['before'], obs['after']
    tcs = [norm(t) for t in scen['test_cases']]
    tidy = scen.get('cfg', {}).get('tidy', False)
    for path, (h, mode) in before.items():
        if path not in after:
            return 'file-disappeared:' + path.split('/')[-1][:8]
        if path in tcs:
            if after[path][1] != mode and obs['outcome'] == 'ok':
                return 'test-case-mode-not-restored'
            continue
        if after[path] != [h, mode]:
            if path.endswith('.orig'):
                return 'existing-orig-overwritten'
            return 'unrelated-file-changed'
    for path in after:
        if path in before:
            continue
        top = path.split('/')[0]
        if top.startswith('cvise_bug_') or top.startswith('cvise_extra_'):
            continue
        if path.endswith('.orig') and path[:-5] in tcs and not tidy:
            if after[path][0] != before[path[:-5]][0]:
                return 'orig-differs-from-original-bytes'
            continue
        return 'unexpected-new-file:' + path.split('/')[-1][:8]
    if not tidy and obs['outcome'] == 'ok' and scen.get('mode', 'reduce') == 'reduce':
        for t in tcs:
            if t + '.orig' not in after:
                return 'orig-missing'
    if not obs.get('cwd_same', True):
        return 'process-cwd-changed'
    return None


def oracle_completes(scen, obs):
    if obs['outcome'] in ('WEDGED', 'HARNESS-CRASH'):
        return 'run-' + obs['outcome'].lower()
    exp = scen.get('expect', 'ok')
    if scen.get('expect_any'):
        return None
    if obs['outcome'] != exp:
        return f'outcome-{obs["outcome"]}-instead-of-{exp}'
    return None


def run(ctx, scen, timeout=90):
    obs = HR.run_scenario(scen, ctx.scratch, timeout=timeout)
    return obs
