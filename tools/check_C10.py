"""C10 — the pass cache is transparent."""
import copy
import json

from vlib import conclude, ToolTrouble
import drvlib as D
import harness_drv as H

OBLIGATIONS = ['Cvise.C01.runPass_safe', 'Cvise.C02.reduce_schedule_irrelevant', 'Cvise.C10.cache_entries_are_results',
               'Cvise.C10.replay_is_recorded_result', 'Cvise.C10.cache_transparent', 'Cvise.C10.cache_transparent_files',
               'Cvise.C10.shipped_facts', 'Cvise.C10.decr_good']


def scens(ctx, n, files=(1,)):
    out = []
    bias = {'files': list(files), 'p_contract': 0.7, 'p_cache': 1.0, 'max_passes': 3, 'p_faults': 0.0, 'p_small_consts': 0.0,
            'p_twin': 0.4, 'p_own_rank': 0.5, 'p_fmt': 0.35}
    while len(out) < n:
        s = D.gen_scenario(ctx.rng, bias)
        s['faults'] = {}
        s['consts'] = {}
        s['cfg'] = {'cacheOn': True, 'silent': True}
        if ctx.rng.random() < 0.4:
            # non-idempotent passes: every candidate is interesting and the cursor moves on after a success, so the states
            # before the last success were never tried on the content the pass ends with
            s['contract'] = False
            for k in s['test']:
                s['test'][k] = 0
            for p in s['passes']:
                p['maxT'] = None
                for k in list(p['tr']):
                    c, st = k.split('.')
                    if f'{c}.{int(st) + 1}' in p['tr']:
                        p['aos'][k] = int(st) + 1
                    else:
                        p['aos'].pop(k, None)
        if not s.get('contract'):
            # a pass outside C02's contract (e.g. STOP before the end of the enumeration) makes run_pass depend on the
            # schedule whatever the cache does: such passes are paired under the sequential schedule only
            s['N'] = 1
            s['p_done'] = 1.0
            s['wait_policy'] = 'first'
        # make a pass meet the same content again: repeat passes across groups
        m = s['groups']['main']
        s['groups']['last'] = list(s['groups']['last']) + [m[0]]
        if ctx.rng.random() < 0.5:
            s['groups']['first'] = list(s['groups']['first']) + [m[-1]]
        # passes that trigger bug reports make run_pass history dependent (NoReports hypothesis): drop ERROR/unchanged
        for p in s['passes']:
            for k, v in p['tr'].items():
                if v[0] in ('ERROR', 'CRASH') or (v[0] == 'OK' and str(v[1]) == k.split('.')[0]):
                    v[0] = 'INVALID'
        out.append(s)
    return out


def twin_family(rng):
    """the same pass listed with and without max-transforms (as all.json does), an undoing pass in between, so that the
    unlimited entry meets the very content the limited one started from"""
    n = rng.randint(3, 5)                      # contents n-1 (largest) … 0; the pass walks n-1 -> n-2 -> … -> 0
    texts = ['a' * (2 * i + 1) for i in range(n)]
    step = {'name': 'walk', 'maxT': rng.choice([1, 2]), 'new': {str(c): 0 for c in range(n)}, 'adv': {}, 'aos': {f'{c}.0': 0 for c in range(n)},
            'tr': {f'{c}.0': ['OK', c - 1, 0] if c > 0 else ['STOP', c, 0] for c in range(n)}}
    twin = copy.deepcopy(step)
    twin['maxT'] = None
    undo = {'name': 'undo', 'maxT': None, 'new': {str(c): 0 for c in range(n)}, 'adv': {}, 'aos': {},
            'tr': {f'{c}.0': ['OK', n - 1, 0] if c < n - 1 else ['STOP', c, 0] for c in range(n)}}
    idle = {'name': 'idle', 'maxT': None, 'new': {}, 'adv': {}, 'aos': {}, 'tr': {}}
    order = rng.choice([[0, 1, 2], [2, 1, 0]])
    return {'texts': texts, 'files': ['a.c'], 'disk': [n - 1], 'passes': [step, undo, twin, idle],
            'groups': {'first': order, 'main': [3], 'last': []}, 'cfg': {'cacheOn': True, 'silent': True}, 'consts': {},
            'test': {str(c): 0 for c in range(n)}, 'faults': {}, 'N': 1, 'p_done': 1.0, 'wait_policy': 'first', 'mode': 'reduce',
            'contract': False, 'rank': list(range(n)), 'fuel': 400}


def real_reformat_pairs(ctx):
    """real pool, real LinesPass (its `new` reformats the file in place through topformflat and keeps the result if the
    sanity check passes) met twice with an undoing pass in between: with and without the table the files must agree"""
    import worldlib as W
    for text, pred in (('    int a;\n    int b;\n', 'grep -q "int a" a.c && grep -q "int b" a.c'),
                       ('    int keep1;\n    int x;\n', 'grep -q keep1 a.c')):
        outs = {}
        for nc in (False, True):
            scen = {'name': 'reformat-revisit', 'tree': {'a.c': {'text': text}}, 'test_cases': ['a.c'], 'predicate': pred,
                    'groups': {'first': [{'name': 'lines', 'arg': '0'}, {'name': 'LinePass', 'arg': 'indent'}, {'name': 'lines', 'arg': '0'}],
                               'main': [{'name': 'LinePass'}], 'last': []}, 'N': 2, 'timeout': 5, 'cfg': {'no_cache': nc},
                    'external': {'topformflat': 'standin:topformflat'}}
            obs = W.run(ctx, scen)
            ctx.count()
            outs[nc] = (obs['outcome'], (obs.get('after') or {}).get('a.c'))
        if outs[False] != outs[True]:
            ctx.report('cache-changes-the-result:real-lines-pass', f'real LinesPass met twice: with the table {outs[False]}, with --no-cache {outs[True]}',
                       {'kind': 'real-pair', 'text': text, 'predicate': pred})
        else:
            ctx.nontrivial(('real-reformat', text))


def real_twin_pairs(ctx):
    """a schedule built by the tree's own pass-group parser in which the same pass and argument is listed with and without
    max-transforms (as all.json lists clang passes), an undoing pass in between: the unlimited entry meets the very content the
    limited one started from and must not be answered with the limited one's result"""
    import worldlib as W
    text = 'int keep1;\nint x;\nint y;\nint z;\nint w;\n'
    for first in ([{'pass': 'lines', 'arg': 'None', 'max-transforms': 1}, {'pass': 'lines', 'arg': 'None'}],
                  [{'pass': 'lines', 'arg': 'None', 'max-transforms': 1}, {'pass': 'lines', 'arg': 'None', 'max-transforms': 2}, {'pass': 'lines', 'arg': 'None'}],
                  [{'pass': 'blank', 'max-transforms': 1}, {'pass': 'lines', 'arg': 'None', 'max-transforms': 1}, {'pass': 'lines', 'arg': 'None'}]):
        outs = {}
        for nc in (False, True):
            scen = {'name': 'twin-revisit', 'tree': {'a.c': {'text': text}}, 'test_cases': ['a.c'], 'predicate': 'grep -q keep1 a.c',
                    'group_dict': {'first': first, 'main': [{'pass': 'blank'}], 'last': []},
                    'splice': [['first', i, {'name': 'LinePass', 'arg': 'restore=' + text}] for i in range(len(first) - 1, 0, -1)],
                    'groups': {}, 'N': 1, 'timeout': 5, 'cfg': {'no_cache': nc}, 'external': {'topformflat': 'standin:topformflat'}}
            obs = W.run(ctx, scen)
            ctx.count()
            outs[nc] = (obs['outcome'], (obs.get('after') or {}).get('a.c'))
        if outs[False] != outs[True]:
            ctx.report('cache-changes-the-result:limited-and-unlimited-entry', f'schedule {first} (parsed by parse_pass_group_dict, the original text put back in between): with the table {outs[False]}, with --no-cache {outs[True]}',
                       {'kind': 'real-twin-pair', 'first': first, 'text': text})
        elif outs[True][0] != 'ok':
            raise ToolTrouble(f'twin pair did not run: {outs[True]}')
        else:
            ctx.nontrivial(('real-twin', json.dumps(first)))


def real_bytes_pairs(ctx):
    """the replay writes back exactly the bytes a run of the pass left: a test case with carriage returns, form feeds and
    bytes outside ASCII, a test that needs them, the same pass run twice (the second run is a replay)"""
    import worldlib as W
    for text, pred, latin1 in (('int keep1;\r\nint x;\r\n', "grep -q keep1 a.c && grep -q 'int x' a.c && grep -q $'\\r' a.c", False),
                               ('int keep1;\rint x;\r', "grep -q keep1 a.c && grep -q $'\\r' a.c", False),
                               ('int keep1;\f\n\r\nint x;\v\n', "grep -q keep1 a.c && grep -q 'int x' a.c && grep -q $'\\r' a.c", False)):
        outs = {}
        for nc in (False, True):
            scen = {'name': 'bytes-revisit', 'tree': {'a.c': {'text': text, 'latin1': latin1}}, 'test_cases': ['a.c'], 'predicate': pred,
                    'groups': {'first': [{'name': 'LinePass'}, {'name': 'LinePass'}], 'main': [{'name': 'LinePass'}], 'last': [{'name': 'LinePass'}]},
                    'N': 2, 'timeout': 5, 'cfg': {'no_cache': nc}}
            obs = W.run(ctx, scen)
            ctx.count()
            outs[nc] = (obs['outcome'], (obs.get('after') or {}).get('a.c'))
        if outs[False] != outs[True]:
            ctx.report('cache-changes-the-result:bytes', f'test case {text!r}, a pass that accepts nothing run four times: with the table {outs[False]}, with --no-cache {outs[True]}',
                       {'kind': 'real-bytes-pair', 'text': text})
        else:
            ctx.nontrivial(('real-bytes', text))


def run_pairs(ctx, scen_list, diffs, judge_multi=False):
    on = scen_list
    off = []
    for s in on:
        t = copy.deepcopy(s)
        t['cfg']['cacheOn'] = False
        off.append(t)
    rows_on = D.run_both(ctx, on)
    rows_off = D.run_both(ctx, off)
    hits = 0
    for (s, o1, r1, m1), (_, o2, r2, m2) in zip(rows_on, rows_off):
        ctx.count()
        if r1 != m1:
            diffs.append({'kind': 'drv', 'scenario': s, 'real': r1, 'model': m1})
        if r2 != m2:
            diffs.append({'kind': 'drv', 'scenario': _, 'real': r2, 'model': m2})
        nrep = len([e for e in o1['log'] if e.startswith('R')])
        hits += nrep
        if nrep and any(e.startswith('C') for e in o1['log']):
            ctx.nontrivial(D.scen_key(s))
        if (o1['disk'] != o2['disk'] or o1['outcome'] != o2['outcome']) and (len(s['files']) == 1 or judge_multi):
            ctx.report('cache-changes-the-result', f'cache on: {o1["outcome"]} {o1["disk"]}; cache off: {o2["outcome"]} {o2["disk"]}',
                       {'kind': 'drv-pair', 'scenario': s})
    return hits, rows_on


def run(ctx):
    if ctx.replay:
        obj = json.load(open(ctx.replay))
        if obj.get('kind') == 'real-bytes-pair':
            real_bytes_pairs(ctx)
            print('replayed ->', 'fails' if ctx.violations else 'holds')
            return 1 if ctx.violations else 0
        if obj.get('kind') == 'real-twin-pair':
            real_twin_pairs(ctx)
            print('replayed ->', 'fails' if ctx.violations else 'holds')
            return 1 if ctx.violations else 0
        if obj.get('kind') == 'real-pair':
            real_reformat_pairs(ctx)
            print('replayed ->', 'fails' if ctx.violations else 'holds')
            return 1 if ctx.violations else 0
        if 'scenario' not in obj:
            print('this replay names a broken proof or correspondence, not an input')
            return 1
        run_pairs(ctx, [obj['scenario']], [])
        print('replayed ->', 'fails' if ctx.violations else 'holds')
        return 1 if ctx.violations else 0
    ctx.lean_gate(OBLIGATIONS)
    diffs = []
    n = 250 if ctx.tier == 'quick' else 4000
    hits, rows = run_pairs(ctx, scens(ctx, n) + [twin_family(ctx.rng) for _ in range(6)], diffs)
    hits2, _ = run_pairs(ctx, scens(ctx, n // 4, files=(2, 3)), diffs, judge_multi=True)
    real_reformat_pairs(ctx)
    real_bytes_pairs(ctx)
    real_twin_pairs(ctx)
    ctx.sample({'scenario_key': D.scen_key(rows[0][0]), 'with_cache': rows[0][2]})

    def search(budget):
        run_pairs(ctx, scens(ctx, 800), [])
    conclude(ctx, diffs, search)
    ctx.assumptions += ['deterministic passes = no bug reports (a pass that reports bugs makes run_pass depend on how many report directories exist); the generator removes ERROR / unchanged-OK entries',
                        'multi-file pairs are judged too since the table is keyed on the joint contents (fix 55bceb9)']
    return ctx.finish(obligations=OBLIGATIONS,
                      rule='paired real runs (cache on / --no-cache) of the same scenario and schedule seed, passes repeated across first/main/last so that a pass meets the same content again; '
                           'final files and outcome must agree; each run also compared with the model. non-trivial = pair with >= 1 cache replay and >= 1 commit',
                      extra={'cache_replays_single_file': hits, 'cache_replays_multi_file': hits2})
