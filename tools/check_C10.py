"""C10 — the pass cache is transparent."""
import copy
import json

from vlib import conclude
import drvlib as D
import harness_drv as H

OBLIGATIONS = ['Cvise.C01.runPass_safe', 'Cvise.C02.reduce_schedule_irrelevant', 'Cvise.C10.cache_entries_are_results',
               'Cvise.C10.replay_is_recorded_result', 'Cvise.C10.cache_transparent', 'Cvise.C10.cache_transparent_files',
               'Cvise.C10.shipped_facts', 'Cvise.C10.decr_good']


def scens(ctx, n, files=(1,)):
    out = []
    bias = {'files': list(files), 'p_contract': 0.7, 'p_cache': 1.0, 'max_passes': 3, 'p_faults': 0.0, 'p_small_consts': 0.0}
    while len(out) < n:
        s = D.gen_scenario(ctx.rng, bias)
        s['faults'] = {}
        s['consts'] = {}
        s['cfg'] = {'cacheOn': True, 'silent': True}
        if ctx.rng.random() < 0.4:
            # non-idempotent passes: every candidate is interesting and the cursor moves on after a success, so the states
            # before the last success were never tried on the content the pass ends with
            s['contract'] = False
            for k in s['test']:
                s['test'][k] = 0
            for p in s['passes']:
                p['maxT'] = None
                for k in list(p['tr']):
                    c, st = k.split('.')
                    if f'{c}.{int(st) + 1}' in p['tr']:
                        p['aos'][k] = int(st) + 1
                    else:
                        p['aos'].pop(k, None)
        if not s.get('contract'):
            # a pass outside C02's contract (e.g. STOP before the end of the enumeration) makes run_pass depend on the
            # schedule whatever the cache does: such passes are paired under the sequential schedule only
            s['N'] = 1
            s['p_done'] = 1.0
            s['wait_policy'] = 'first'
        # make a pass meet the same content again: repeat passes across groups
        m = s['groups']['main']
        s['groups']['last'] = list(s['groups']['last']) + [m[0]]
        if ctx.rng.random() < 0.5:
            s['groups']['first'] = list(s['groups']['first']) + [m[-1]]
        # passes that trigger bug reports make run_pass history dependent (NoReports hypothesis): drop ERROR/unchanged
        for p in s['passes']:
            for k, v in p['tr'].items():
                if v[0] in ('ERROR', 'CRASH') or (v[0] == 'OK' and str(v[1]) == k.split('.')[0]):
                    v[0] = 'INVALID'
        out.append(s)
    return out


def run_pairs(ctx, scen_list, diffs, judge_multi=False):
    on = scen_list
    off = []
    for s in on:
        t = copy.deepcopy(s)
        t['cfg']['cacheOn'] = False
        off.append(t)
    rows_on = D.run_both(ctx, on)
    rows_off = D.run_both(ctx, off)
    hits = 0
    for (s, o1, r1, m1), (_, o2, r2, m2) in zip(rows_on, rows_off):
        ctx.count()
        if r1 != m1:
            diffs.append({'kind': 'drv', 'scenario': s, 'real': r1, 'model': m1})
        if r2 != m2:
            diffs.append({'kind': 'drv', 'scenario': _, 'real': r2, 'model': m2})
        nrep = len([e for e in o1['log'] if e.startswith('R')])
        hits += nrep
        if nrep and any(e.startswith('C') for e in o1['log']):
            ctx.nontrivial(D.scen_key(s))
        if (o1['disk'] != o2['disk'] or o1['outcome'] != o2['outcome']) and (len(s['files']) == 1 or judge_multi):
            ctx.report('cache-changes-the-result', f'cache on: {o1["outcome"]} {o1["disk"]}; cache off: {o2["outcome"]} {o2["disk"]}',
                       {'kind': 'drv-pair', 'scenario': s})
    return hits, rows_on


def run(ctx):
    if ctx.replay:
        obj = json.load(open(ctx.replay))
        run_pairs(ctx, [obj['scenario']], [])
        print('replayed ->', 'fails' if ctx.violations else 'holds')
        return 1 if ctx.violations else 0
    ctx.lean_gate(OBLIGATIONS)
    diffs = []
    n = 250 if ctx.tier == 'quick' else 4000
    hits, rows = run_pairs(ctx, scens(ctx, n), diffs)
    hits2, _ = run_pairs(ctx, scens(ctx, n // 4, files=(2, 3)), diffs, judge_multi=True)
    ctx.sample({'scenario_key': D.scen_key(rows[0][0]), 'with_cache': rows[0][2]})

    def search(budget):
        run_pairs(ctx, scens(ctx, 800), [])
    conclude(ctx, diffs, search)
    ctx.assumptions += ['deterministic passes = no bug reports (a pass that reports bugs makes run_pass depend on how many report directories exist); the generator removes ERROR / unchanged-OK entries',
                        'multi-file pairs are judged too since the table is keyed on the joint contents (fix 55bceb9)']
    return ctx.finish(obligations=OBLIGATIONS,
                      rule='paired real runs (cache on / --no-cache) of the same scenario and schedule seed, passes repeated across first/main/last so that a pass meets the same content again; '
                           'final files and outcome must agree; each run also compared with the model. non-trivial = pair with >= 1 cache replay and >= 1 commit',
                      extra={'cache_replays_single_file': hits, 'cache_replays_multi_file': hits2})
