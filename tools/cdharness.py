"""Fake-clang build of clang_delta's *driver* code, for the C14 / C19 checks.

clang_delta cannot be built here (no Clang development files).  What can be built is everything that implements the
command-line and counter protocol: `ClangDelta.cpp` (the CLI, compiled verbatim), `TransformationManager.cpp` (verbatim
except `initializeCompilerInstance`, which is pure Clang set-up and is replaced by a stand-in that reads a toy source
file), the driver-side member functions of `Transformation.cpp` (extracted by name: Initialize, outputTransformedSource,
outputOriginalSource, getTransErrorMsg, checkCounterValidity, the destructor) and one real transformation unit,
`LocalToGlobal.cpp` (registration, Initialize, HandleTranslationUnit, destructor) — against a small set of stand-in
`clang/…` and `llvm/…` headers.  The AST visitors are stand-ins: every marker `/*@*/` in the toy source is one instance,
rewriting instance k replaces the k-th marker by `/*moved*/`.

The binary is then driven with real command lines (and by the real Python `ClangPass`), so the exit statuses, messages
and the order "query return before anything is written" are *observed* on the repository's own manager code instead of
read off its text.  If the sources take a shape the stand-in headers do not cover, `build` raises `CannotBuild`; the
checks then say so in the evidence and rely on the translator alone (never an alarm by itself).

The stand-in headers and the extraction code were written by an independent sub-agent for its demonstration of a seeded
change (seeded/C19-E/demo.py) and are reused here.
"""
import os
import re
import shutil
import subprocess


class CannotBuild(Exception):
    pass


def die(msg):
    raise CannotBuild(msg)


OUT_OF_RANGE_MSG = 'The counter value exceeded the number of transformation instances!'

MOCKCLANG_H = r'''
#ifndef MOCKCLANG_H
#define MOCKCLANG_H
// Stand-in for the parts of the Clang/LLVM API that the clang_delta driver
// code (not the AST-walking code) touches.
#include <cassert>
#include <cstdio>
#include <cstdlib>
#include <iostream>
#include <map>
#include <memory>
#include <optional>
#include <set>
#include <sstream>
#include <string>
#include <system_error>
#include <vector>

#ifndef LLVM_VERSION_MAJOR
#define LLVM_VERSION_MAJOR 18
#endif

namespace llvm {

class StringRef {
  std::string S;
public:
  StringRef() {}
  StringRef(const char *P) : S(P ? P : "") {}
  StringRef(const std::string &Str) : S(Str) {}
  std::string str() const { return S; }
  size_t size() const { return S.size(); }
};

template <typename T, unsigned N = 8> class SmallVector : public std::vector<T> {
public:
  using std::vector<T>::vector;
  T pop_back_val() { T V = this->back(); this->pop_back(); return V; }
};

template <typename T, unsigned N> class SmallPtrSet : public std::set<T> {};

class raw_ostream {
public:
  virtual ~raw_ostream() {}
  raw_ostream &operator<<(const std::string &S) { emit(S); return *this; }
  raw_ostream &operator<<(const char *S) { emit(S ? S : ""); return *this; }
  raw_ostream &operator<<(char C) { emit(std::string(1, C)); return *this; }
  raw_ostream &operator<<(int V) { emit(std::to_string(V)); return *this; }
  raw_ostream &operator<<(unsigned V) { emit(std::to_string(V)); return *this; }
  raw_ostream &operator<<(long V) { emit(std::to_string(V)); return *this; }
  raw_ostream &operator<<(unsigned long V) { emit(std::to_string(V)); return *this; }
  void flush() { doFlush(); }
protected:
  virtual void emit(const std::string &S) = 0;
  virtual void doFlush() {}
};

class raw_file_ostream_base : public raw_ostream {
protected:
  FILE *F = nullptr;
  void emit(const std::string &S) override { if (F) fwrite(S.data(), 1, S.size(), F); }
  void doFlush() override { if (F) fflush(F); }
};

class raw_stdout_ostream : public raw_file_ostream_base {
public:
  raw_stdout_ostream() { F = stdout; }
};

inline raw_ostream &outs() { static raw_stdout_ostream S; return S; }

namespace sys { namespace fs { enum FileAccess { FA_Read = 1, FA_Write = 2 }; } }

class raw_fd_ostream : public raw_file_ostream_base {
public:
  raw_fd_ostream(const std::string &Name, std::error_code &EC, int /*Access*/) {
    F = fopen(Name.c_str(), "w");
    if (!F) EC = std::make_error_code(std::errc::io_error);
  }
  ~raw_fd_ostream() override { if (F) fclose(F); }
};

class MemoryBufferRef {
  const std::string *Buf;
public:
  explicit MemoryBufferRef(const std::string *B) : Buf(B) {}
  const char *getBufferStart() const { return Buf->c_str(); }
};

} // namespace llvm

namespace clang {

class ArraySubscriptExpr; class ArrayType; class CXXConstructExpr;
class CXXConstructorDecl; class CXXCtorInitializer; class CXXDestructorDecl;
class CXXMemberCallExpr; class CXXMethodDecl; class CXXRecordDecl; class CallExpr;
class ClassTemplateDecl; class ConstantArrayType; class DeclContext;
class DeclRefExpr; class DeclStmt; class DeclarationName; class DependentNameType;
class Expr; class FieldDecl; class FunctionDecl; class IfStmt; class InitListExpr;
class MemberExpr; class NamedDecl; class NestedNameSpecifier;
class NestedNameSpecifierLoc; class ParmVarDecl; class QualType; class RecordDecl;
class RecordTypeLoc; class Stmt; class TemplateArgument; class TemplateDecl;
class TemplateParameterList; class TemplateSpecializationType;
class TemplateTypeParmType; class Type; class TypeLoc; class ValueDecl;
class VarDecl; class ASTContext; class CXXCatchStmt;

class Decl { public: virtual ~Decl() {} };
class TranslationUnitDecl : public Decl {};
class DeclGroupRef {};

class FileID { public: int ID = 1; };

class SourceLocation {
public:
  unsigned ID = 0;
  bool isInvalid() const { return ID == 0; }
};

class SourceRange {
  SourceLocation B, E;
public:
  SourceRange() {}
  SourceRange(SourceLocation b, SourceLocation e) : B(b), E(e) {}
  SourceLocation getBegin() const { return B; }
  SourceLocation getEnd() const { return E; }
};

struct LangOptions {
  bool CPlusPlus = false;
  bool C99 = false;
  bool OpenCL = false;
};

struct PrintingPolicy {};

class SourceManager {
public:
  std::string MainBuf;
  FileID getMainFileID() const { return FileID(); }
  std::optional<llvm::MemoryBufferRef> getBufferOrNone(FileID) const {
    return llvm::MemoryBufferRef(&MainBuf);
  }
};

class RewriteBuffer {
public:
  std::string Buf;
  std::string::const_iterator begin() const { return Buf.begin(); }
  std::string::const_iterator end() const { return Buf.end(); }
};

// A rewrite buffer exists only once something has been rewritten, exactly
// like clang::Rewriter::getRewriteBufferFor.
class Rewriter {
  SourceManager *SM = nullptr;
  std::unique_ptr<RewriteBuffer> RB;
public:
  static int &numEdits() { static int N = 0; return N; }
  void setSourceMgr(SourceManager &S, const LangOptions &) { SM = &S; }
  const RewriteBuffer *getRewriteBufferFor(FileID) const { return RB.get(); }
  // stand-in edit primitive: replace the Nth (1-based) occurrence of Marker
  bool ReplaceNthMarker(const std::string &Marker, int Nth, const std::string &New) {
    if (!RB) { RB.reset(new RewriteBuffer()); RB->Buf = SM->MainBuf; }
    size_t Pos = std::string::npos, From = 0;
    int Seen = 0;
    std::string &B = RB->Buf;
    while ((Pos = B.find(Marker, From)) != std::string::npos) {
      if (++Seen == Nth) { B.replace(Pos, Marker.size(), New); ++numEdits(); return true; }
      From = Pos + Marker.size();
    }
    return false;
  }
};

class DiagnosticsEngine {
  bool Suppress = false, ErrorOccurred = false;
public:
  void setSuppressAllDiagnostics(bool V) { Suppress = V; }
  void setIgnoreAllWarnings(bool) {}
  bool hasErrorOccurred() const { return ErrorOccurred; }
  bool hasFatalErrorOccurred() const { return false; }
};

class DiagnosticConsumer { public: void EndSourceFile() {} };
class Preprocessor {};

class ASTConsumer {
public:
  virtual ~ASTConsumer() {}
  virtual void Initialize(ASTContext &) {}
  virtual bool HandleTopLevelDecl(DeclGroupRef) { return true; }
  virtual void HandleTranslationUnit(ASTContext &) {}
};

class ASTContext {
public:
  TranslationUnitDecl TU;
  SourceManager SM;
  LangOptions LO;
  DiagnosticsEngine *Diags = nullptr;
  TranslationUnitDecl *getTranslationUnitDecl() { return &TU; }
  SourceManager &getSourceManager() { return SM; }
  const LangOptions &getLangOpts() const { return LO; }
  DiagnosticsEngine &getDiagnostics() { return *Diags; }
};

class Sema { public: ASTContext *Ctx = nullptr; ASTConsumer *Consumer = nullptr; };

enum TranslationUnitKind { TU_Complete };

class CompilerInstance {
  LangOptions LO;
  DiagnosticsEngine Diags;
  DiagnosticConsumer DC;
  Preprocessor PP;
  ASTContext Ctx;
  Sema S;
  std::unique_ptr<ASTConsumer> Consumer;
public:
  CompilerInstance() { Ctx.Diags = &Diags; }
  LangOptions &getLangOpts() { return LO; }
  DiagnosticsEngine &getDiagnostics() { return Diags; }
  DiagnosticConsumer &getDiagnosticClient() { return DC; }
  Preprocessor &getPreprocessor() { return PP; }
  ASTContext &getASTContext() { return Ctx; }
  void setASTConsumer(std::unique_ptr<ASTConsumer> C) { Consumer = std::move(C); }
  void createSema(TranslationUnitKind, void *) {
    Ctx.LO = LO; S.Ctx = &Ctx; S.Consumer = Consumer.get();
  }
  Sema &getSema() { return S; }
};

// clang::ParseAST: initialise the consumer, (no top-level decls in the toy
// front end), then hand over the translation unit.
inline void ParseAST(Sema &S) {
  S.Consumer->Initialize(*S.Ctx);
  S.Consumer->HandleTranslationUnit(*S.Ctx);
}

inline std::string getClangFullVersion() { return "clang version 0.0 (stand-in)"; }

} // namespace clang

// What the stand-in AST visitors agree on: one marker == one instance.
#define MOCK_INSTANCE_MARKER "/*@*/"
#define MOCK_REWRITTEN_TEXT "/*moved*/"

#endif
'''

STUB_HEADERS = [
    'llvm/ADT/SmallPtrSet.h', 'llvm/ADT/SmallString.h', 'llvm/ADT/StringExtras.h',
    'llvm/Support/raw_ostream.h', 'llvm/Support/VirtualFileSystem.h',
    'clang/AST/ASTConsumer.h', 'clang/AST/ASTContext.h', 'clang/AST/PrettyPrinter.h',
    'clang/AST/NestedNameSpecifier.h', 'clang/AST/DeclTemplate.h',
    'clang/AST/RecursiveASTVisitor.h', 'clang/Rewrite/Core/Rewriter.h',
    'clang/Basic/SourceLocation.h', 'clang/Basic/SourceManager.h', 'clang/Basic/Version.h',
    'clang/Basic/Builtins.h', 'clang/Basic/Diagnostic.h', 'clang/Basic/FileManager.h',
    'clang/Basic/LangOptions.h', 'clang/Basic/LangStandard.h', 'clang/Basic/TargetInfo.h',
    'clang/Lex/Preprocessor.h', 'clang/Lex/Lexer.h',
    'clang/Frontend/CompilerInstance.h', 'clang/Parse/ParseAST.h',
]

# Stand-in for TransformationManager::initializeCompilerInstance: the same
# shape as the real one (language from the file extension, option hand-over,
# consumer installation, source file opened) without any Clang.
MOCK_INIT_COMPILER_INSTANCE = r'''
bool TransformationManager::initializeCompilerInstance(std::string &ErrorMsg)
{
  if (ClangInstance) {
    ErrorMsg = "CompilerInstance has been initialized!";
    return false;
  }
  ClangInstance = new CompilerInstance();
  std::string Ext;
  size_t Dot = SrcFileName.rfind('.');
  if (Dot != std::string::npos)
    Ext = SrcFileName.substr(Dot + 1);
  LangOptions &LO = ClangInstance->getLangOpts();
  if (Ext == "c") {
    LO.C99 = true;
  }
  else if (Ext == "cpp" || Ext == "cc" || Ext == "cxx" || Ext == "C") {
    LO.CPlusPlus = true;
  }
  else if (Ext == "cl") {
    LO.OpenCL = true;
    LO.C99 = true;
  }
  else {
    ErrorMsg = "Unsupported file type!";
    return false;
  }

  if (DoReplacement)
    CurrentTransformationImpl->setReplacement(Replacement);
  if (DoPreserveRoutine)
    CurrentTransformationImpl->setPreserveRoutine(PreserveRoutine);
  if (CheckReference)
    CurrentTransformationImpl->setReferenceValue(ReferenceValue);

  assert(CurrentTransformationImpl && "Bad transformation instance!");
  ClangInstance->setASTConsumer(
    std::unique_ptr<ASTConsumer>(CurrentTransformationImpl));

  FILE *F = fopen(SrcFileName.c_str(), "r");
  if (!F) {
    ErrorMsg = "Cannot open source file!";
    return false;
  }
  std::string &Buf = ClangInstance->getASTContext().getSourceManager().MainBuf;
  char Tmp[4096];
  size_t N;
  while ((N = fread(Tmp, 1, sizeof(Tmp), F)) > 0)
    Buf.append(Tmp, N);
  fclose(F);
  return true;
}
'''

MOCK_TRANSFORMATION_EXTRA = r'''
// RewriteUtils is not part of the counter protocol: inert stand-ins.
RewriteUtils *RewriteUtils::GetInstance(clang::Rewriter *) { return NULL; }
void RewriteUtils::Finalize(void) {}
'''

# Stand-ins for the three AST visitors of LocalToGlobal.cpp.
MOCK_LTG_VISITORS = r'''
static int MockSelectedInstance = 0;
static int MockDummyDecl;

// collection: every marker is one instance; remember the selected one
class LocalToGlobalFunctionVisitor {
  LocalToGlobal *ConsumerInstance;
public:
  explicit LocalToGlobalFunctionVisitor(LocalToGlobal *I) : ConsumerInstance(I) {}
  bool TraverseDecl(Decl *) {
    const std::string &Src = ConsumerInstance->SrcManager->MainBuf;
    const std::string M = MOCK_INSTANCE_MARKER;
    for (size_t P = Src.find(M); P != std::string::npos; P = Src.find(M, P + M.size())) {
      ConsumerInstance->ValidInstanceNum++;
      if (ConsumerInstance->ValidInstanceNum == ConsumerInstance->TransformationCounter) {
        ConsumerInstance->TheFuncDecl = reinterpret_cast<FunctionDecl *>(&MockDummyDecl);
        ConsumerInstance->TheVarDecl = reinterpret_cast<const VarDecl *>(&MockDummyDecl);
        MockSelectedInstance = ConsumerInstance->ValidInstanceNum;
      }
    }
    return true;
  }
};

class LocalToGlobalCollectionVisitor {
public:
  explicit LocalToGlobalCollectionVisitor(LocalToGlobal *) {}
};

// rewriting: edits the text of the selected instance
class LToGASTVisitor {
  LocalToGlobal *ConsumerInstance;
public:
  explicit LToGASTVisitor(LocalToGlobal *I) : ConsumerInstance(I) {}
  bool TraverseDecl(Decl *) {
    ConsumerInstance->TheRewriter.ReplaceNthMarker(MOCK_INSTANCE_MARKER,
                                                   MockSelectedInstance,
                                                   MOCK_REWRITTEN_TEXT);
    return true;
  }
};
'''


def match_brace(text, open_idx):
    """index just after the '}' matching text[open_idx] == '{' (skips strings,
    chars and comments)"""
    assert text[open_idx] == '{'
    i, depth, n = open_idx, 0, len(text)
    while i < n:
        c = text[i]
        if text.startswith('//', i):
            i = text.find('\n', i)
            if i < 0:
                break
            continue
        if text.startswith('/*', i):
            i = text.find('*/', i) + 2
            continue
        if c == '"' or c == "'":
            q = c
            i += 1
            while i < n and text[i] != q:
                if text[i] == '\\':
                    i += 1
                i += 1
            i += 1
            continue
        if c == '{':
            depth += 1
        elif c == '}':
            depth -= 1
            if depth == 0:
                return i + 1
        i += 1
    die('unbalanced braces')


def find_function(text, qualified_name):
    """(start, end) of the out-of-line definition of qualified_name in text,
    start being the beginning of the line(s) holding the return type."""
    pat = re.compile(r'(?m)^[ \t]*(?:[\w:<>\*&~]+[ \t\n]+)*?' + re.escape(qualified_name) + r'\s*\(')
    for m in pat.finditer(text):
        # parameter list
        i = text.index('(', m.end() - 1)
        depth = 0
        while True:
            if text[i] == '(':
                depth += 1
            elif text[i] == ')':
                depth -= 1
                if depth == 0:
                    break
            i += 1
        j = i + 1
        while text[j] in ' \t\n':
            j += 1
        if text.startswith('const', j):
            j += 5
            while text[j] in ' \t\n':
                j += 1
        if text[j] != '{':
            continue  # a declaration or a call
        return m.start(), match_brace(text, j)
    return None


def extract(text, qualified_name, fname):
    r = find_function(text, qualified_name)
    if r is None:
        die('cannot find the definition of %s in %s' % (qualified_name, fname))
    line = text.count('\n', 0, r[0]) + 1
    return '#line %d "%s"\n%s\n' % (line, fname, text[r[0]:r[1]])


def build(tree, tmp):
    cd = os.path.join(tree, 'clang_delta')
    stubs = os.path.join(tmp, 'stubs')
    for h in STUB_HEADERS:
        p = os.path.join(stubs, h)
        os.makedirs(os.path.dirname(p), exist_ok=True)
        with open(p, 'w') as f:
            f.write('#include "mockclang.h"\n')
    with open(os.path.join(stubs, 'mockclang.h'), 'w') as f:
        f.write(MOCKCLANG_H)
    # clang_delta/git_version.cpp is generated by CMake from git_version.cpp.in
    with open(os.path.join(tmp, 'gen_git_version.cpp'), 'w') as f:
        f.write('#include "git_version.h"\nconst char git_version[] = "stand-in";\n')

    def rd(name):
        with open(os.path.join(cd, name)) as f:
            return f.read()

    # --- TransformationManager.cpp: everything except initializeCompilerInstance
    tm_name = os.path.join(cd, 'TransformationManager.cpp')
    tm = rd('TransformationManager.cpp')
    r = find_function(tm, 'TransformationManager::initializeCompilerInstance')
    if r is None:
        die('cannot find initializeCompilerInstance')
    cut = tm[r[0]:r[1]]
    tm_src = ('#line 1 "%s"\n' % tm_name + tm[:r[0]]
              + '\n' * cut.count('\n')  # keep the line numbers
              + tm[r[1]:]
              + '\n// ---- stand-in ----\n' + MOCK_INIT_COMPILER_INSTANCE)
    with open(os.path.join(tmp, 'gen_TransformationManager.cpp'), 'w') as f:
        f.write(tm_src)

    # --- Transformation.cpp: the driver-side member functions
    t_name = os.path.join(cd, 'Transformation.cpp')
    t = rd('Transformation.cpp')
    parts = ['#include "mockclang.h"\n#include "Transformation.h"\n'
             'using namespace std;\nusing namespace clang;\n']
    for fn in ('Transformation::Initialize', 'Transformation::outputTransformedSource',
               'Transformation::outputOriginalSource', 'Transformation::getTransErrorMsg',
               'Transformation::checkCounterValidity', 'Transformation::~Transformation'):
        parts.append(extract(t, fn, t_name))
    parts.append(MOCK_TRANSFORMATION_EXTRA)
    with open(os.path.join(tmp, 'gen_Transformation.cpp'), 'w') as f:
        f.write('\n'.join(parts))

    # --- LocalToGlobal.cpp: registration + Initialize + HandleTranslationUnit + dtor
    l_name = os.path.join(cd, 'LocalToGlobal.cpp')
    l = rd('LocalToGlobal.cpp')
    m_desc = re.search(r'static\s+const\s+char\s*\*\s*DescriptionMsg\s*=.*?;\s*\n', l, re.S)
    m_reg = re.search(r'static\s+RegisterTransformation\s*<\s*LocalToGlobal\s*>\s*\w+\s*\([^;]*\)\s*;', l, re.S)
    if not m_desc or not m_reg:
        die('cannot find the registration of local-to-global')
    parts = ['#include "mockclang.h"\n#include "LocalToGlobal.h"\n#include "TransformationManager.h"\n'
             'using namespace clang;\n',
             '#line %d "%s"\n%s' % (l.count('\n', 0, m_desc.start()) + 1, l_name, m_desc.group(0)),
             '#line %d "%s"\n%s\n' % (l.count('\n', 0, m_reg.start()) + 1, l_name, m_reg.group(0)),
             MOCK_LTG_VISITORS]
    for fn in ('LocalToGlobal::Initialize', 'LocalToGlobal::HandleTranslationUnit',
               'LocalToGlobal::~LocalToGlobal'):
        parts.append(extract(l, fn, l_name))
    with open(os.path.join(tmp, 'gen_LocalToGlobal.cpp'), 'w') as f:
        f.write('\n'.join(parts))

    exe = os.path.join(tmp, 'fake_clang_delta')
    cxx = shutil.which('g++') or shutil.which('clang++')
    if not cxx:
        die('no C++ compiler')
    cmd = [cxx, '-std=c++17', '-O0', '-w',
           '-DENABLE_TRANS_ASSERT=1', '-DPACKAGE_VERSION="stand-in"',
           '-I', stubs, '-I', cd,
           os.path.join(cd, 'ClangDelta.cpp'),
           os.path.join(tmp, 'gen_TransformationManager.cpp'),
           os.path.join(tmp, 'gen_Transformation.cpp'),
           os.path.join(tmp, 'gen_LocalToGlobal.cpp'),
           os.path.join(tmp, 'gen_git_version.cpp'),
           '-o', exe]
    p = subprocess.run(cmd, capture_output=True, text=True, timeout=100)
    if p.returncode != 0:
        die('the fake-clang clang_delta did not compile: ' + (p.stderr or p.stdout)[-600:])
    return exe



def run(exe, args, timeout=20):
    p = subprocess.run([exe] + args, capture_output=True, text=True, timeout=timeout)
    return p.returncode, p.stdout, p.stderr


BODY = ('void f(void) { int a = 1; /*@*/ int b = 2; /*@*/ }\n'
        'void g(void) { int c = 3; /*@*/ }\n')


def rewritten(body, k):
    pos = -1
    for _ in range(k):
        pos = body.index('/*@*/', pos + 1)
    return body[:pos] + '/*moved*/' + body[pos + 5:]


def protocol_observations(exe, tmp):
    """drive the binary through the command-line protocol; returns a list of (label, problem or None, detail)"""
    obs = []
    n_markers = BODY.count('/*@*/')
    for ext, expected in (('c', n_markers), ('cpp', n_markers), ('cl', 0)):
        src = os.path.join(tmp, 'input.' + ext)
        with open(src, 'w') as f:
            f.write(BODY)
        outf = os.path.join(tmp, 'out.' + ext)
        # query: prints the count, exit 0, rewrites nothing, opens no output file
        if os.path.exists(outf):
            os.unlink(outf)
        rc, out, err = run(exe, ['--query-instances=local-to-global', '--output=' + outf, src])
        m = re.match(r'Available transformation instances: (\d+)\n$', out)
        n = int(m.group(1)) if m else None
        prob = None
        if rc != 0 or n is None:
            prob = 'query-does-not-report-a-count'
        elif n != expected:
            prob = 'query-reports-the-wrong-count'
        elif open(src).read() != BODY:
            prob = 'query-rewrites-the-input'
        elif os.path.exists(outf):
            prob = 'query-opens-the-output'
        obs.append((f'query:{ext}', prob, f'rc={rc} stdout={out!r} output-file-created={os.path.exists(outf)}'))
        if n is None:
            continue
        # counters within range rewrite exactly that instance, exit 0
        for k in range(1, n + 1):
            rc, out, err = run(exe, ['--transformation=local-to-global', f'--counter={k}', src])
            ok = rc == 0 and out == rewritten(BODY, k)
            obs.append((f'counter-in-range:{ext}:{k}', None if ok else 'in-range-counter-does-not-rewrite-that-instance', f'rc={rc} stdout={out[:120]!r}'))
        # the count on stderr when asked for
        if n:
            rc, out, err = run(exe, ['--transformation=local-to-global', '--counter=1', '--report-instances-count', src])
            ok = rc == 0 and re.search(r'^Available transformation instances: %d$' % n, err, re.M)
            obs.append((f'report-instances-count:{ext}', None if ok else 'count-not-reported-on-stderr', f'rc={rc} stderr={err[-160:]!r}'))
        # counters beyond the instances: the out-of-range error, exit 1, nothing transformed
        for k in (n + 1, n + 2, n + 50):
            rc, out, err = run(exe, ['--transformation=local-to-global', f'--counter={k}', src])
            ok = rc == 1 and OUT_OF_RANGE_MSG in out and BODY not in out and '/*moved*/' not in out
            obs.append((f'counter-beyond:{ext}:{k}', None if ok else 'out-of-range-counter-not-refused-with-exit-1', f'rc={rc} stdout={out[:160]!r}'))
    # counters that are out of range in other ways: with the warn flag (this unit does not clamp: still the out-of-range
    # error and its exit status), values beyond the range of an int (refused, nothing rewritten)
    src = os.path.join(tmp, 'input.c')
    rc, out, err = run(exe, ['--transformation=local-to-global', f'--counter={n_markers + 1}', '--warn-on-counter-out-of-bounds', src])
    ok = rc == 1 and OUT_OF_RANGE_MSG in out and '/*moved*/' not in out
    obs.append(('counter-beyond-with-warn-flag', None if ok else 'out-of-range-counter-not-refused-with-exit-1', f'rc={rc} stdout={out[:160]!r}'))
    for big in (2 ** 32 + 1, 2 ** 32 + n_markers, 2 ** 31 - 1, 2 ** 31, 2 ** 63 + 2, 10 ** 22):
        rc, out, err = run(exe, ['--transformation=local-to-global', f'--counter={big}', src])
        ok = rc not in (0,) and rc > 0 and '/*moved*/' not in out and BODY not in out
        obs.append((f'huge-counter:{big}', None if ok else 'counter-beyond-int-range-not-refused', f'rc={rc} stdout={out[:120]!r}'))
    rc, out, err = run(exe, ['--transformation=local-to-global', '--counter=1', f'--to-counter={2 ** 32 + 2}', src])
    ok = rc > 0 and '/*moved*/' not in out
    obs.append(('huge-to-counter', None if ok else 'counter-beyond-int-range-not-refused', f'rc={rc} stdout={out[:120]!r}'))
    # conventions of the CLI
    rc, out, err = run(exe, ['--transformation=no-such-transformation', '--counter=1', src])
    obs.append(('unknown-transformation', None if rc == 255 else 'unknown-transformation-exit-code', f'rc={rc} out={(out + err)[:160]!r}'))
    rc, out, err = run(exe, ['--transformation=local-to-global', '--counter=1', os.path.join(tmp, 'missing.c')])
    obs.append(('missing-file', None if rc == 255 else 'missing-file-exit-code', f'rc={rc} out={(out + err)[:160]!r}'))
    rc, out, err = run(exe, ['--transformations'])
    obs.append(('list', None if rc == 0 and 'local-to-global' in out else 'transformations-not-listed', f'rc={rc} out={out[:160]!r}'))
    return obs


def check_part(ctx, python_side=False, model_side=False, diffs=None):
    """build the fake-clang binary from the tree under test, judge the observed command-line protocol and (for C14) the real
    Python drivers run against it.  A tree whose driver sources cannot be built against the stand-in headers is noted in
    the evidence and judged by the translator alone."""
    import tempfile
    from vlib import REPO
    diffs = diffs if diffs is not None else []
    tmp = tempfile.mkdtemp(prefix='cdh-', dir=ctx.scratch)
    try:
        try:
            exe = build(str(REPO), tmp)
        except (CannotBuild, subprocess.TimeoutExpired, OSError) as e:
            ctx.notes['fake_clang'] = ('not built, the C side is judged from the source text only: ' + str(e))[:400]
            return
        ctx.notes['fake_clang'] = 'built from ClangDelta.cpp, TransformationManager.cpp, Transformation.cpp, LocalToGlobal.cpp of the tree'
        for label, prob, detail in protocol_observations(exe, tmp):
            ctx.count()
            if prob:
                ctx.report(prob + ':' + label.split(':')[0], f'clang_delta driver code of the tree, compiled against stand-in Clang headers: {label}: {detail}'[:390],
                           {'kind': 'fake-clang', 'label': label})
            else:
                ctx.nontrivial(('fake-clang', label))
        if model_side:
            # correspondence: the protocol model (Lean, `CD.run` over the clause order the translator read for LocalToGlobal,
            # `CD.exitOf` with the regenerated ErrorInvalidCounter) against what the compiled driver code does
            import cdgen
            ex = cdgen.Extractor(REPO)
            sk = ''.join(ex.skeleton('LocalToGlobal') or [])
            code = ex.conventions().get('invalid_counter')
            n = BODY.count('/*@*/')
            src = os.path.join(tmp, 'm.c')
            with open(src, 'w') as f:
                f.write(BODY)
            lines, reals, labels = [], [], []
            for q in (0, 1):
                for k in (1, n, n + 1, n + 7):
                    args = (['--query-instances=local-to-global'] if q else ['--transformation=local-to-global', f'--counter={k}']) + [src]
                    rc, out, err = run(exe, args)
                    reals.append(f"rewrote={int('/*moved*/' in out)} err={int(OUT_OF_RANGE_MSG in out)} exit={rc}")
                    lines.append(f'cd {sk or "n"} {q} {int(k > n)} 0 0 {code if code is not None else 1}')
                    labels.append(f'query={q} counter={k} instances={n}')
            outs = ctx.model(lines)
            for lab, r, m in zip(labels, reals, outs):
                ctx.count()
                if r != m.split(' wf=')[0]:
                    diffs.append({'kind': 'cd-protocol', 'input': lab, 'clauses': sk, 'real': r, 'model': m})
        if not python_side:
            return
        import realcode  # noqa: F401
        from cvise.passes.abstract import PassResult, ProcessEventNotifier
        from cvise.passes.clang import ClangPass
        from cvise.passes.clangbinarysearch import ClangBinarySearchPass
        n = BODY.count('/*@*/')
        src = os.path.join(tmp, 'py.cpp')
        p = ClangPass('local-to-global', {'clang_delta': exe})
        p.user_clang_delta_std = None
        st = p.new(src)
        for k in range(1, n + 3):
            with open(src, 'w') as f:
                f.write(BODY)
            try:
                res, _ = p.transform(src, st, ProcessEventNotifier(None))
            except Exception as e:  # noqa: BLE001
                ctx.report('python-driver-raises-on-the-real-tool:clang', f'ClangPass.transform --counter={k}: {type(e).__name__}: {e}', {'kind': 'fake-clang', 'label': f'py-clang:{k}'})
                break
            after = open(src).read()
            ctx.count()
            want = (PassResult.OK, rewritten(BODY, k)) if k <= n else (PassResult.STOP, BODY)
            if (res, after) != want:
                ctx.report('python-driver-misreads-the-real-tool:clang', f'ClangPass with the tree\'s clang_delta driver code, --counter={k} of {n}: result {res}, file {after[:60]!r}',
                           {'kind': 'fake-clang', 'label': f'py-clang:{k}'})
                break
            st = p.advance(src, st)
        b = ClangBinarySearchPass('local-to-global', {'clang_delta': exe})
        b.user_clang_delta_std = None
        b.clang_delta_preserve_routine = None
        with open(src, 'w') as f:
            f.write(BODY)
        try:
            s0 = b.new(src)
            got = s0.instances if s0 is not None else 0
        except Exception as e:  # noqa: BLE001
            got = f'{type(e).__name__}: {e}'
        ctx.count()
        if got != n:
            ctx.report('count-message-not-parsed:real-tool', f'ClangBinarySearchPass.new on a file with {n} instances, against the tree\'s clang_delta driver code: {got}',
                       {'kind': 'fake-clang', 'label': 'py-cbs-new'})
        else:
            ctx.nontrivial(('fake-clang', 'py-cbs-new'))
    finally:
        shutil.rmtree(tmp, ignore_errors=True)


if __name__ == '__main__':
    import sys
    import tempfile
    tree = sys.argv[1] if len(sys.argv) > 1 else '/repo'
    tmp = tempfile.mkdtemp(prefix='cdh-')
    try:
        exe = build(tree, tmp)
        for o in protocol_observations(exe, tmp):
            print(o)
    finally:
        shutil.rmtree(tmp, ignore_errors=True)
