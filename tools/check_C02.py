"""C02 — parallel speculative reduction equals the sequential greedy reduction."""
import hashlib
import itertools
import json
import random
import shutil
import tempfile
from pathlib import Path

from vlib import conclude
import drvlib as D
import harness_drv as H
import shim
import textpasses as T
from realcode import RefLoop

OBLIGATIONS = [
    'Cvise.C02.round_par_eq_seq', 'Cvise.C02.seq_first_is_first', 'Cvise.C02.round_no_skip',
    'Cvise.C02.round_winner_eq_seq', 'Cvise.C02.reduce_schedule_irrelevant', 'Cvise.C02.accepted_sequence_schedule_irrelevant',
    'Cvise.D.roundLoop_sim', 'Cvise.D.check_tame', 'Cvise.D.fileLoop_schedule_irrelevant',
]


def in_contract(scen):
    return scen.get('contract') and not scen.get('faults')


def oracle(scen, obs):
    if not in_contract(scen):
        return None
    # the reference does not know the tie order of equal-sized files; scenarios with ties are judged on one file only
    sizes = [len(t) for t in scen['texts']]
    disk, log, outcome = D.ref_sequential(scen)
    if len(scen['files']) > 1:
        # replay the reference with the observed visiting order impossible here: restrict to single-file scenarios
        return None
    if outcome != obs['outcome']:
        return 'outcome-differs-from-sequential'
    commits = [e for e in obs['log'] if e.startswith('C')]
    # the reference has no replay table: a run that replayed an earlier result of a pass has no commit events for it
    # (that the replay writes what the pass would have produced is C10's property; the final files are still compared)
    if commits != log and not any(e.startswith('R') for e in obs['log']):
        return 'accepted-sequence-differs-from-sequential'
    if obs['disk'] != disk:
        return 'final-file-differs-from-sequential'
    return None


def nontriv(scen, obs):
    if in_contract(scen) and any(e.startswith('C') for e in obs['log']) and scen['N'] > 1 and obs['played']:
        return D.scen_key(scen)
    return None


def contract_scens(ctx, n):
    bias = {'files': [1, 1, 1, 2], 'p_contract': 1.0, 'p_cache': 0.3, 'max_states': 5, 'p_empty': 0.1}
    out = []
    for _ in range(n):
        s = D.gen_scenario(ctx.rng, bias)
        s['cfg'] = {'cacheOn': s['cfg'].get('cacheOn', False)}
        for p in s['passes']:
            p['maxT'] = None          # limits are not part of C02's hypothesis; the sequential reference has none
        out.append(s)
    return out


def all_schedules_round(ctx, diffs, max_m):
    """exhaustive completion schedules for single rounds of <= max_m candidates: every verdict vector in contract
    x every done-matrix, on the real run_parallel_tests (one file, one round)"""
    count = 0
    for m in range(1, max_m + 1):
        for verdicts in itertools.product('AIS', repeat=m):
            if any(verdicts[i] == 'S' and verdicts[j] != 'S' for i in range(m) for j in range(i + 1, m)):
                continue
            # content 0 -> candidates: A => OK to an interesting content, I => OK to an uninteresting one, S => STOP
            texts = ['xxxxxx'] + [f'i{j}' for j in range(m)]
            p = {'name': 'p0', 'maxT': None, 'new': {'0': 0}, 'adv': {f'0.{s}': s + 1 for s in range(m - 1)}, 'aos': {},
                 'tr': {f'0.{s}': ['STOP' if v == 'S' else 'OK', 1 + s if v != 'S' else 0, s] for s, v in enumerate(verdicts)}}
            test = {'0': 0}
            for s, v in enumerate(verdicts):
                test[str(1 + s)] = 0 if v == 'A' else 1
            scens = []
            for bits in itertools.product([0, 1], repeat=m * m):
                sched = {}
                for t in range(m):
                    sched[f'0.{t}'] = [i for i in range(m) if bits[t * m + i]]
                scens.append({'texts': texts, 'files': ['a.c'], 'disk': [0], 'passes': [p], 'groups': {'first': [], 'main': [0], 'last': []},
                              'cfg': {'cacheOn': False}, 'consts': {}, 'test': test, 'faults': {}, 'N': ctx.rng.choice([1, 2, m, m + 1]),
                              'sched': sched, 'mode': 'pass', 'contract': True, 'fuel': 5})
            rows = D.sweep(ctx, scens, [oracle], diffs, nontriv)
            count += len(rows)
    return count


def text_pass_runs(ctx, n):
    """real text passes under the shim with several schedules/N vs the reference loop on the same pass class"""
    rng = ctx.rng
    done = 0
    for _ in range(n):
        name, arg = rng.choice(T.PASSES)
        text = T.gen_text(name, arg, rng)
        if not text:
            continue
        tag = rng.getrandbits(32)
        dens = rng.choice([90, 150, 210])

        def pred(files, tag=tag, dens=dens):
            return hashlib.sha1(f'{tag}:{files["a.c"]}'.encode()).digest()[0] < dens
        d = Path(tempfile.mkdtemp(prefix='tp-', dir=ctx.scratch))
        try:
            (d / 'ref').mkdir()
            ref_path = d / 'ref' / 'a.c'
            ref_path.write_text(text)
            loop = RefLoop(T.make(name, arg), ref_path, lambda p: pred({'a.c': Path(p).read_text()}), d / 'ref', max_steps=3000)
            try:
                loop.run()
            except Exception as e:
                continue      # the pass itself cannot handle this input sequentially: not a C02 matter
            if loop.timed_out:
                continue
            ref_final = ref_path.read_text()
            ref_acc = [r['after'].decode() for r in loop.trace if r['accepted']]
            if any(r['result'] == 'ERROR' for r in loop.trace):
                continue
            for rep in range(2):
                N = rng.choice([1, 2, 3, 5])
                cp = {'seed': rng.getrandbits(32), 'p_done': rng.choice([0.0, 0.4, 1.0]), 'wait_policy': rng.choice(['first', 'random']), 'p_eager': rng.choice([0.0, 0.5, 1.0])}
                ctl = shim.Control(sched=None, faults={}, rng=random.Random(cp['seed']), p_done=cp['p_done'], wait_policy=cp['wait_policy'], p_eager=cp['p_eager'])
                obs = H.run_real_textpass(T.make(name, arg), {'a.c': text}, pred, N, ctl, Path(tempfile.mkdtemp(prefix='r-', dir=d)))
                ctx.count()
                done += 1
                scen = {'kind': 'textpass', 'pass': name, 'arg': arg, 'text': text, 'pred': [tag, dens], 'N': N, 'schedule': cp}
                if obs['outcome'] != 'ok':
                    ctx.report('parallel-run-raises', f'{name}::{arg} raised {obs["outcome"]}: {obs.get("error_text")}', scen)
                elif obs['final']['a.c'] != ref_final:
                    ctx.report('final-file-differs-from-sequential', f'{name}::{arg} N={N}: {obs["final"]["a.c"]!r} vs sequential {ref_final!r}', scen)
                elif [a for _, a in obs['accepted']] != ref_acc:
                    ctx.report('accepted-sequence-differs-from-sequential', f'{name}::{arg} N={N}', scen)
                if ref_acc and N > 1:
                    ctx.nontrivial(('tp', name, arg, text, tag, N, rep))
        finally:
            shutil.rmtree(d, ignore_errors=True)
    return done


def real_pool_part(ctx):
    """real pebble pool, real processes: a slow-but-interesting earlier candidate against a fast later one, N = 1 vs 2, 3, 4"""
    import worldlib as W
    from concurrent.futures import ThreadPoolExecutor
    ns = [1, 2, 3, 4] if ctx.tier != 'quick' else [1, 2, 3]
    scens = [W.scen_order(ctx.rng, n) for n in ns]
    with ThreadPoolExecutor(max_workers=4) as ex:
        obs = list(ex.map(lambda sc: W.run(ctx, sc), scens))
    ref = None
    for sc, ob in zip(scens, obs):
        ctx.count()
        seq = [c[2] for c in ob.get('commits', [])]
        fin = ob.get('after', {}).get('a.c')
        if ob['outcome'] != 'ok':
            ctx.report('parallel-run-raises', f"{sc['name']}: {ob['outcome']}", {'kind': 'real-order', 'scenario': sc})
            continue
        if sc['N'] == 1:
            ref = (seq, fin)
        elif ref is not None and (seq, fin) != ref:
            ctx.report('real-pool-result-depends-on-parallelism', f"{sc['name']}: accepted {len(seq)} steps, final differs from the N=1 run", {'kind': 'real-order', 'scenario': sc})
        if seq:
            ctx.nontrivial(('real-order', sc['N']))


def replay(ctx, obj):
    if obj.get('kind') == 'real-order':
        real_pool_part(ctx)
        return
    if obj.get('kind') == 'textpass':
        tag, dens = obj['pred']

        def pred(files):
            return hashlib.sha1(f'{tag}:{files["a.c"]}'.encode()).digest()[0] < dens
        d = Path(tempfile.mkdtemp(prefix='tp-', dir=ctx.scratch))
        (d / 'ref').mkdir()
        rp = d / 'ref' / 'a.c'
        rp.write_text(obj['text'])
        loop = RefLoop(T.make(obj['pass'], obj['arg']), rp, lambda p: pred({'a.c': Path(p).read_text()}), d / 'ref', max_steps=3000)
        loop.run()
        cp = obj.get('schedule') or {'seed': ctx.seed, 'p_done': 0.4, 'wait_policy': 'first', 'p_eager': 0.0}
        ctl = shim.Control(sched=None, faults={}, rng=random.Random(cp['seed']), p_done=cp['p_done'], wait_policy=cp['wait_policy'], p_eager=cp['p_eager'])
        obs = H.run_real_textpass(T.make(obj['pass'], obj['arg']), {'a.c': obj['text']}, pred, obj['N'], ctl, d / 'run1')
        print('sequential:', repr(rp.read_text()), 'parallel:', repr(obs['final']['a.c']), obs['outcome'])
        if obs['outcome'] != 'ok' or obs['final']['a.c'] != rp.read_text():
            ctx.report(obj.get('signature', 'final-file-differs-from-sequential'), 'replayed', obj)
    else:
        D.replay_drv(ctx, obj, [oracle])


def run(ctx):
    if ctx.replay:
        replay(ctx, json.load(open(ctx.replay)))
        return 1 if ctx.violations else 0
    ctx.lean_gate(OBLIGATIONS)
    diffs = []
    quick = ctx.tier == 'quick'
    n_ex = all_schedules_round(ctx, diffs, 2 if quick else 3)
    rows = D.sweep(ctx, contract_scens(ctx, 250 if quick else 4000), [oracle], diffs, nontriv)
    n_tp = text_pass_runs(ctx, 120 if quick else 1500)
    real_pool_part(ctx)
    ctx.sample({'scenario_key': D.scen_key(rows[1][0]), 'N': rows[1][0]['N'], 'played': rows[1][1]['played'], 'observed': rows[1][2]})

    def search(budget):
        D.sweep(ctx, contract_scens(ctx, 1500), [oracle], [], nontriv)
        text_pass_runs(ctx, 300)
    conclude(ctx, diffs, search)
    ctx.assumptions += ['multi-file scenarios are compared with the model only (the visiting order of equal-sized files is a Python set order); the sequential reference judges single-file runs',
                        'the shim plays which futures are done at each scan; real-pool timing is exercised in C08/C09']
    return ctx.finish(obligations=OBLIGATIONS,
                      rule='(1) every in-contract verdict vector x every done-matrix for single rounds of <= %d candidates on the real run_parallel_tests (exhaustive); '
                           '(2) contract-respecting table passes, whole reduce, seeded schedules, N in 1..4, vs model and vs a pure sequential reference; '
                           '(3) every built-in text pass that needs no tool, generated inputs, hash predicates, N in {1,2,3,5}, vs the reference loop on the same pass. '
                           'non-trivial = run with a commit and N>1 (distinct by scenario hash / input)' % (2 if quick else 3),
                      extra={'exhaustive_round_runs': n_ex, 'text_pass_runs': n_tp, 'exhaustive': True})
