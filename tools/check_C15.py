"""C15 — clang_delta is driven so that instance ranges tile the instances exactly."""
import json
import os
import shutil
from pathlib import Path

from vlib import conclude, enc_list, fresh_dir, VERIF
import realcode
from realcode import RefLoop
from cvise.passes.clangbinarysearch import ClangBinarySearchPass
from cvise.passes.clang import ClangPass

OBLIGATIONS = ['Cvise.C15.request_in_range', 'Cvise.C15.first_request', 'Cvise.C15.next_request_adjacent',
               'Cvise.C15.last_request_reaches_end', 'Cvise.C15.wrap_restarts', 'Cvise.C15.after_accept',
               'Cvise.C15.level_tiles', 'Cvise.C15.level_tiles_from', 'Cvise.C15.level_tiles_after_accept',
               'Cvise.C15.first_level_tiles', 'Cvise.C15.next_level_tiles', 'Cvise.C15.every_instance_requested', 'Cvise.C15.no_instance_requested_twice',
               'Cvise.C15.best_std_spec', 'Cvise.C15.shipped_cmp_is_ge', 'Cvise.gen_advance_eq', 'Cvise.gen_aos_eq',
               'Cvise.C15.failed_run_output_unused', 'Cvise.C15.signal_deaths_are_errors', 'Cvise.C15.run_table_complete']

TOOL = str(VERIF / 'tools' / 'standins' / 'clang_delta')
STDS = ['c++98', 'c++11', 'c++14', 'c++17', 'c++20', 'c++2b']


def setup(d, scen):
    (d / 'scen.json').write_text(json.dumps(scen))
    (d / 'log').write_text('')
    os.environ['CD_SCEN'] = str(d / 'scen.json')
    os.environ['CD_LOG'] = str(d / 'log')


def calls(d):
    return [json.loads(l) for l in (d / 'log').read_text().split('\n') if l]


def build(n):
    return ''.join((f'I{i};\n' if True else '') + (f'k{i};\n' if i % 3 == 0 else '') for i in range(n))


def items(text):
    return [int(l[1:-1]) for l in text.split('\n') if l.startswith('I')]


def clang_pass_part(ctx):
    """the one-instance-at-a-time driver (ClangPass): --counter walks 1, 2, …; the output of a run is used only when the
    tool exited 0 (a run that failed or died from a signal leaves the file alone and is not reported OK); out of range = STOP"""
    for k in range(25 if ctx.tier == 'quick' else 250):
        n = ctx.rng.randint(1, 7)
        code = ctx.rng.choice([255, 1, 2, 3, 254, -11, -6, -9, -15])
        scen = {'fail_at': [ctx.rng.randint(1, n)] if k % 3 else [], 'fail_code': code}
        clang_pass_case(ctx, n, scen)


def clang_pass_case(ctx, n, scen):
    from cvise.passes.abstract import PassResult, ProcessEventNotifier
    code = scen.get('fail_code')
    if True:
        d = fresh_dir(ctx, 'c15c')
        setup(d, scen)
        path = d / 'a.c'
        p = ClangPass('remove-unused-function', {'clang_delta': TOOL})
        p.user_clang_delta_std = None
        p.max_transforms = None
        sc = {'kind': 'clang', 'n': n, 'tool': scen}
        state = p.new(str(path))
        for step in range(n + 2):
            path.write_text(build(n))
            before = path.read_text()
            try:
                res, st2 = p.transform(str(path), state, ProcessEventNotifier(None))
            except Exception as e:  # noqa
                ctx.report('pass-raised', f'ClangPass.transform raised {type(e).__name__}: {e}', sc)
                break
            after = path.read_text()
            c = state
            ctx.count()
            if c in scen['fail_at']:
                if res == PassResult.OK:
                    ctx.report('failed-tool-run-reported-OK', f'ClangPass: the tool failed (status {code}) on --counter={c} but transform returned OK', sc)
                    break
                if after != before:
                    ctx.report('output-of-failed-tool-run-used', f'ClangPass: tool status {code} on --counter={c} but the candidate file was rewritten', sc)
                    break
            elif c <= n:
                want = ''.join(l + '\n' for i, l in enumerate(before.split('\n')[:-1]) if i != [j for j, x in enumerate(before.split('\n')) if x.startswith('I')][c - 1])
                if res != PassResult.OK or after.rstrip('\n') != want.rstrip('\n'):
                    ctx.report('clang-pass-candidate-is-not-the-tool-output', f'ClangPass --counter={c} of {n}: result {res}, file {after!r}', sc)
                    break
            else:
                if res != PassResult.STOP or after != before:
                    ctx.report('counter-beyond-the-instances-not-STOP', f'ClangPass --counter={c} of {n}: result {res}', sc)
                    break
            state = p.advance(str(path), state)
        ctx.nontrivial(('clangpass', n, tuple(scen['fail_at']), code))
        shutil.rmtree(d, ignore_errors=True)


def mk(arg='remove-unused-function', user_std=None):
    p = ClangBinarySearchPass(arg, {'clang_delta': TOOL})
    p.user_clang_delta_std = user_std
    p.clang_delta_preserve_routine = None
    p.max_transforms = None
    return p


def run_case(ctx, n, test_items, scen, user_std='c++17'):
    d = fresh_dir(ctx, 'c15')
    setup(d, scen)
    path = d / 'a.c'
    path.write_text(build(n) + ''.join(f'H9{j};\n' for j in range(scen.get('reveal', {}).get('count', 0))))
    p = mk(user_std=user_std)
    loop = RefLoop(p, path, lambda c: test_items(items(Path(c).read_text())), d, max_steps=4 * n * n + 8 * n + 20)
    loop.raised = None
    try:
        loop.run()
    except Exception as e:       # the pass itself raised: judged after the trace
        import traceback
        loop.raised = f'{type(e).__name__}: {e} @ ' + ' < '.join(f'{f.name}:{f.lineno}' for f in reversed(traceback.extract_tb(e.__traceback__)[-3:]))
    final = path.read_text()
    cl = calls(d)
    shutil.rmtree(d, ignore_errors=True)
    return loop, final, cl, p


def judge(ctx, n, label, loop, final, cl, required, test_items, scen):
    sc = {'kind': 'cbs', 'n': n, 'test': label, 'tool': scen}
    if loop.timed_out:
        ctx.report('no-termination', 'clangbinarysearch did not finish', sc)
        return
    # argv log of transform calls, in order, with the number of instances the file had at that moment
    reqs = []
    for r in loop.trace:
        cur = items(r['before'].decode())
        st = r['state']
        c, t = st['index'] + 1, min(st['index'] + st['chunk'], st['instances'])
        reqs.append((c, t, len(cur), r['result'], r['accepted'], st['chunk']))
        if not (1 <= c <= t <= len(cur)):
            ctx.report('request-outside-reported-count', f'--counter={c} --to-counter={t} with {len(cur)} instances', sc)
            return
        if c in scen.get('fail_at', []) and r['result'] == 'OK':
            ctx.report('failed-tool-run-reported-OK', f'the tool failed (status {scen.get("fail_code")}) on --counter={c} but transform returned OK', sc)
            return
        if r['result'] != 'OK' and r['after'] != r['before']:
            ctx.report('output-of-failed-tool-run-used', f'tool result {r["result"]} but the candidate file was rewritten', sc)
            return
    # after an accepted removal the driver continues from the tool-reported count minus the removed chunk
    for r, nxt in zip(loop.trace, loop.trace[1:]):
        if r['accepted']:
            st = r['state']
            removed = min(st['index'] + st['chunk'], st['instances']) - st['index']
            reported = len(items(r['before'].decode()))
            if nxt['state']['instances'] != reported - removed:
                ctx.report('count-after-accept-differs-from-reported-minus-removed',
                           f'the tool reported {reported} instances, {removed} were removed, the driver continues with {nxt["state"]["instances"]}', sc)
                return
    if loop.raised:
        ctx.report('pass-raised', f'clangbinarysearch raised {loop.raised}', sc)
        return
    tr = [a for a in cl if any(x.startswith('--transformation=') for x in a)]
    got = [(int([x for x in a if x.startswith('--counter=')][0].split('=')[1]), int([x for x in a if x.startswith('--to-counter=')][0].split('=')[1])) for a in tr]
    if got != [(c, t) for c, t, *_ in reqs]:
        ctx.report('argv-differs-from-cursor', f'tool was called with {got[:6]}…, cursor says {[(c, t) for c, t, *_ in reqs][:6]}…', sc)
        return
    # tiling per level while nothing is accepted in between
    i = 0
    while i < len(reqs):
        j = i
        while j + 1 < len(reqs) and reqs[j + 1][5] == reqs[i][5] and not reqs[j][4] and reqs[j + 1][0] != 1:
            j += 1
        level = reqs[i:j + 1]
        if all(not x[4] for x in level) and all(x[3] == 'OK' for x in level) and level[0][0] == 1 and (j + 1 == len(reqs) or reqs[j + 1][0] == 1):
            for a, b in zip(level, level[1:]):
                if b[0] != a[1] + 1:
                    ctx.report('ranges-gap-or-overlap', f'{a[:2]} followed by {b[:2]}', sc)
                    return
            # with instances that appear after a removal the driver's count lags behind the file until the next report:
            # "reaches the last instance" is then judged on the count the driver continues from (checked above)
            if level[-1][1] != level[-1][2] and 'reveal' not in scen:
                ctx.report('level-does-not-reach-last-instance', f'last range {level[-1][:2]} of {level[-1][2]}', sc)
                return
        i = j + 1
    if required is not None and items(final) != sorted(required):
        ctx.report('monotone-not-exact', f'result {items(final)} != required {sorted(required)}', sc)


def trace_str(loop, final):
    t = []
    for r in loop.trace:
        st = r['state']
        e = min(st['index'] + st['chunk'], st['instances'])
        t.append(f"{st['index']}-{e}{'A' if r['accepted'] else 'R'}")
    return f"{' '.join(t)} => {enc_list(items(final))}"


def run(ctx):
    import logging
    logging.getLogger().setLevel(logging.ERROR)
    if ctx.replay:
        o = json.load(open(ctx.replay))
        if o.get('kind') == 'clang':
            clang_pass_case(ctx, o['n'], o['tool'])
            print('replayed ->', 'fails' if ctx.violations else 'holds')
            return 1 if ctx.violations else 0
        req = o['test'].get('required')
        ti = (lambda its: all(r in its for r in req)) if req is not None else (lambda its: False)
        loop, final, cl, p = run_case(ctx, o['n'], ti, o['tool'])
        judge(ctx, o['n'], o['test'], loop, final, cl, None if o['test'].get('faulty') else req, ti, o['tool'])
        print('replayed ->', 'fails' if ctx.violations else 'holds')
        return 1 if ctx.violations else 0
    ctx.lean_gate(OBLIGATIONS)
    diffs = []
    lines, reals, scens = [], [], []
    nmax = 5 if ctx.tier == 'quick' else 7
    for n in range(0, nmax + 1):
        for mask in range(1 << n):
            req = [i for i in range(n) if mask >> i & 1]
            ti = (lambda its, req=req: all(r in its for r in req))
            loop, final, cl, p = run_case(ctx, n, ti, {})
            ctx.count()
            judge(ctx, n, {'required': req}, loop, final, cl, req, ti, {})
            if 0 < len(req) < n:
                ctx.nontrivial(('req', n, mask))
            lines.append(f'binrun {n} {enc_list(req)}')
            reals.append(trace_str(loop, final))
            scens.append({'n': n, 'required': req})
    # all-reject runs for larger N: pure tiling
    for n in range(8, 8 + (6 if ctx.tier == 'quick' else 30)):
        loop, final, cl, p = run_case(ctx, n, lambda its: False, {})
        ctx.count()
        judge(ctx, n, {'required': None, 'all_reject': True}, loop, final, cl, None, None, {})
        lines.append(f'binrunt {n} -')
        reals.append(trace_str(loop, final))
        scens.append({'n': n, 'all_reject': True})
        # the same run level by level: the (counter, to-counter) pairs of the argv log, split where the counter is 1 again,
        # against the model's `level n chunk` (the object of C15.level_tiles) for chunk = n, n/2, …, 1
        tr_ = [a for a in cl if any(x.startswith('--transformation=') for x in a) and any(x.startswith('--to-counter=') for x in a)]
        pairs = [(int([x for x in a if x.startswith('--counter=')][0].split('=')[1]), int([x for x in a if x.startswith('--to-counter=')][0].split('=')[1])) for a in tr_]
        groups = []
        for pr in pairs:
            if pr[0] == 1 or not groups:
                groups.append([])
            groups[-1].append(pr)
        c, k = n, 0
        while c >= 1:
            lines.append(f'level {n} {c}')
            reals.append((' '.join(f'{a}-{b}' for a, b in groups[k]) if k < len(groups) else 'no-such-level') + ' tiles')
            scens.append({'n': n, 'all_reject': True, 'level_chunk': c})
            c //= 2
            k += 1
        if k != len(groups):
            lines.append(f'level {n} 0')
            reals.append(f'{len(groups)} levels in the argv log, {k} expected')
            scens.append({'n': n, 'all_reject': True, 'levels': len(groups)})
    # tool failures: output of a failed run must not be used; STOP on 255, ERROR otherwise
    def fail_runs(count):
        for k in range(count):
            n = ctx.rng.randint(2, 9)
            # ordinary non-zero statuses and deaths from a signal (negative return code in Python)
            scen = {'fail_at': [ctx.rng.randint(1, n)], 'fail_code': ctx.rng.choice([255, 1, 2, 3, 254, -11, -6, -9])}
            req = [i for i in range(n) if ctx.rng.random() < 0.5]
            ti = (lambda its, req=req: all(r in its for r in req))
            loop, final, cl, p = run_case(ctx, n, ti, scen)
            ctx.count()
            judge(ctx, n, {'required': req, 'faulty': True}, loop, final, cl, None, ti, scen)
            ctx.nontrivial(('fail', n, scen['fail_at'][0], scen['fail_code'], tuple(req)))
    fail_runs(30 if ctx.tier == 'quick' else 300)
    # an accepted removal that makes new instances appear: the next accepted run reports a larger count
    for k in range(20 if ctx.tier == 'quick' else 200):
        n = ctx.rng.randint(2, 6)
        scen = {'reveal': {'trigger': ctx.rng.randrange(n), 'count': ctx.rng.randint(1, 4)}}
        req = [i for i in range(n) if ctx.rng.random() < 0.5 and i != scen['reveal']['trigger']]
        ti = (lambda its, req=req: all(r in its for r in req))
        loop, final, cl, p = run_case(ctx, n, ti, scen)
        ctx.count()
        judge(ctx, n, {'required': req, 'reveal': True}, loop, final, cl, None, ti, scen)
        ctx.nontrivial(('reveal', n, k))
    # standard detection: the most instances, newest on ties; failing / silent / slow queries count as 0
    for k in range(12 if ctx.tier == 'quick' else 120):
        n = ctx.rng.randint(1, 6)
        bonus = {s: ctx.rng.choice([0, 0, 1, 2, -1]) for s in STDS}
        scen = {'std_bonus': bonus, 'query_fail': [s for s in STDS if ctx.rng.random() < 0.1], 'query_silent': [s for s in STDS if ctx.rng.random() < 0.1]}
        d = fresh_dir(ctx, 'c15s')
        setup(d, scen)
        (d / 'a.c').write_text(build(n))
        p = mk(user_std=None)
        st = p.new(str(d / 'a.c'))
        counts = []
        for s in STDS:
            c = max(0, n + bonus[s])
            if s in scen['query_silent']:
                c = 0
            # a failing query still prints nothing -> 0
            if s in scen['query_fail']:
                c = 0
            counts.append(c)
        best = max(range(len(STDS)), key=lambda i: (counts[i], i))
        ctx.count()
        if p.clang_delta_std != STDS[best]:
            ctx.report('wrong-standard-chosen', f'counts {dict(zip(STDS, counts))}: chose {p.clang_delta_std}, expected {STDS[best]}', {'kind': 'std', 'n': n, 'tool': scen})
        if (st.instances if st else 0) != counts[best]:
            ctx.report('instances-differ-from-report', f'{st.instances if st else 0} vs {counts[best]}', {'kind': 'std', 'n': n, 'tool': scen})
        if len(set(counts)) > 1:
            ctx.nontrivial(('std', k))
        # the same pass object starts on the same file again later (next round of the main loop) when the counts per
        # standard have changed: the choice is made afresh
        bonus2 = {s_: ctx.rng.choice([0, 0, 1, 2, -1]) for s_ in STDS}
        scen2 = {'std_bonus': bonus2}
        setup(d, scen2)
        st2 = p.new(str(d / 'a.c'))
        counts2 = [max(0, n + bonus2[s_]) for s_ in STDS]
        best2 = max(range(len(STDS)), key=lambda i: (counts2[i], i))
        ctx.count()
        if p.clang_delta_std != STDS[best2] or (st2.instances if st2 else 0) != counts2[best2]:
            ctx.report('wrong-standard-chosen:second-start-on-the-same-file', f'second new() on the same file: counts {dict(zip(STDS, counts2))}: chose {p.clang_delta_std} with {st2.instances if st2 else 0} instances, expected {STDS[best2]}',
                       {'kind': 'std', 'n': n, 'tool': scen, 'tool2': scen2})
        shutil.rmtree(d, ignore_errors=True)
    clang_pass_part(ctx)
    outs = ctx.model(lines)
    for sc, r, m, ln in zip(scens, reals, outs, lines):
        if r != m:
            diffs.append({**sc, 'line': ln, 'real': r, 'model': m})
    ctx.sample({'scenario': scens[7], 'observed': reals[7]})
    conclude(ctx, diffs, lambda budget: fail_runs(150))
    ctx.assumptions += ['the stand-in tool defines an instance as a line starting with "I"; real clang_delta is not available',
                        'a tool run that exits 0 without the stderr count line is outside the tool contract (AttributeError in advance_on_success), recorded in DESIGN.md']
    return ctx.finish(obligations=OBLIGATIONS,
                      rule='real ClangBinarySearchPass against a scripted stand-in: all 2^n required subsets (n <= %d), all-reject runs for larger n, injected tool failures, '
                           'per-standard counts with failing/silent queries; argv log and candidate bytes judged (range within count, adjacency, level reaches N, gating on exit 0, standard choice) and traces compared with the model. '
                           'non-trivial = proper non-empty subset / injected failure / standards that differ' % nmax,
                      extra={'exhaustive': True})
