"""C17 — misuse is refused cleanly with a readable C-Vise error and no side effects."""
import json

from vlib import conclude
import worldlib as W

OBLIGATIONS = ['Cvise.C17.misuse_is_cvise_error', 'Cvise.C17.render_total', 'Cvise.C17.render_names_item', 'Cvise.C17.shipped_validation',
               'Cvise.C17.old_validation_counterexamples']

TREE = {'a.c': {'text': 'keep1\nx\n'}, 'other.txt': {'text': 'o'}}
GROUPS = {'first': [], 'main': [{'name': 'LinePass'}], 'last': []}


def scenarios():
    out = []

    def add(name, item, cls, **kw):
        s = {'name': name, 'tree': dict(TREE), 'test_cases': ['a.c'], 'predicate': 'grep -q keep1 a.c', 'groups': GROUPS, 'N': 2, 'timeout': 5,
             'item': item, 'expect_class': cls, 'startup': True}
        s.update(kw)
        out.append(s)
    add('missing-test-case', 'nosuch.c', 'InvalidTestCaseError', test_cases=['nosuch.c'])
    add('second-test-case-missing', 'gone.c', 'InvalidTestCaseError', test_cases=['a.c', 'gone.c'])
    add('unreadable-test-case', 'a.c', 'InvalidTestCaseError', tree={'a.c': {'text': 'keep1\n', 'mode': '600'}, 'other.txt': {'text': 'o'}}, drop_to_nobody=True)
    add('unwritable-test-case', 'a.c', 'InvalidTestCaseError', tree={'a.c': {'text': 'keep1\n', 'mode': '644'}, 'other.txt': {'text': 'o'}}, drop_to_nobody=True)
    add('absolute-path', '/etc/hostname', 'AbsolutePathTestCaseError', test_cases=['/etc/hostname'])
    add('dotdot-path', '../x.c', 'ParentDirTestCaseError', tree={'a.c': {'text': 'k'}, '../x.c': {'text': 'a\nb\n'}}, test_cases=['../x.c'])
    add('script-missing', 'nosuch.sh', 'InvalidInterestingnessTestError', script_name='nosuch.sh', write_script=False)
    add('script-not-executable', 'test.sh', 'InvalidInterestingnessTestError', script_mode='644')
    add('insane-input', 'a.c', 'InsaneTestCaseError', predicate='exit 1')
    add('insane-input-signal', 'a.c', 'InsaneTestCaseError', predicate='kill -9 $$')
    add('insane-input-save-temps', 'a.c', 'InsaneTestCaseError', predicate='exit 1', cfg={'save_temps': True})
    add('insane-input-script-without-shebang', 'a.c', 'InsaneTestCaseError', predicate='exit 1', script_shebang='')
    add('insane-input-script-interpreter-missing', 'test.sh', 'InsaneTestCaseError', predicate='exit 1', script_shebang='#!/nonexistent/interpreter')
    # several test cases: every one of them is named by the message, which must still print
    add('insane-input-two-files', 'a.c', 'InsaneTestCaseError', predicate='exit 1', tree={'a.c': {'text': 'keep1\n'}, 'sub/b.c': {'text': 'x\n'}, 'other.txt': {'text': 'o'}}, test_cases=['a.c', 'sub/b.c'])
    add('insane-input-three-files', 'sub/b.c', 'InsaneTestCaseError', predicate='grep -q nothing a.c', tree={'a.c': {'text': 'keep1\n'}, 'sub/b.c': {'text': 'x\n'}, 'c.h': {'text': 'y\n'}}, test_cases=['c.h', 'a.c', 'sub/b.c'])
    add('second-test-case-absolute', '/etc/hostname', 'AbsolutePathTestCaseError', test_cases=['a.c', '/etc/hostname'])
    add('second-test-case-dotdot', '../x.c', 'ParentDirTestCaseError', tree={'a.c': {'text': 'k'}, '../x.c': {'text': 'a\nb\n'}}, test_cases=['a.c', '../x.c'])
    # test-case names with characters that mean something to str.format / % / the shell: the message must still print and name them
    for odd in ('a{0}.c', '{x}.c', 'a}.c', 'b%s.c', 'sub dir/c d.c', "q'uote.c"):
        add(f'insane-input-odd-name:{odd}', odd, 'InsaneTestCaseError', predicate='exit 1', tree={odd: {'text': 'keep1\n'}, 'other.txt': {'text': 'o'}}, test_cases=[odd])
    # an unknown argument must be refused whatever the input looks like (also inputs on which the pass has nothing to do)
    texts = {'': 'keep1 (a ? b : c) 0x10;\nint x = {1};\n', ':plain-words': 'keep1\nplain words only\n', ':one-word': 'keep1\n',
             ':digits-only': 'keep1 1 2 3\n', ':blank-lines': 'keep1\n\n   \n'}
    import gen_model
    from vlib import REPO
    valid = gen_model.py_arg_sets(REPO)
    for p in ['balanced', 'ints', 'special', 'peep', 'ternary', 'indent']:
        # other shapes of "unknown": empty, missing, and strings built from valid arguments (substring / prefix tests)
        vs = [a for a in valid.get(p, []) if isinstance(a, str)]
        odd = {':empty': '', ':missing': None, ':valid-args-joined': ''.join(vs[:2]), ':valid-arg-prefix': (vs[0][:-1] if vs and len(vs[0]) > 1 else 'zz'),
               ':valid-arg-upper': (vs[0].upper() if vs else 'ZZ'),
               # a pass-group file is JSON: the argument may be a list, an object or a number
               ':list-of-valid-arg': [vs[0]] if vs else ['zz'], ':object': {(vs[0] if vs else 'zz'): 1}, ':number': 7}
        for tag, a in odd.items():
            if isinstance(a, str) and a in vs:
                continue
            add(f'unknown-argument:{p}{tag}', str(a), 'UnknownArgumentError', startup=False,
                tree={'a.c': {'text': texts['']}, 'other.txt': {'text': 'o'}},
                groups={'first': [], 'main': [{'name': p, 'arg': a}], 'last': []}, external={'clang-format': '/bin/true'})
        for tag, text in texts.items():
            add(f'unknown-argument:{p}{tag}', 'bogus-arg', 'UnknownArgumentError', startup=False,
                tree={'a.c': {'text': text}, 'other.txt': {'text': 'o'}},
                groups={'first': [], 'main': [{'name': p, 'arg': 'bogus-arg'}], 'last': []}, external={'clang-format': '/bin/true'})
    return out


def judge(scen, obs):
    if obs['outcome'] in ('WEDGED', 'HARNESS-CRASH'):
        return 'run-' + obs['outcome'].lower()
    if obs['outcome'] == 'ok':
        return 'misuse-accepted'
    if not obs.get('is_cvise_error'):
        return 'not-a-cvise-error:' + obs['outcome']
    if not obs.get('error_str_ok'):
        return 'error-message-cannot-be-printed'
    if scen['item'] not in (obs.get('error_text') or ''):
        return 'message-does-not-name-the-item'
    if obs['outcome'] != scen['expect_class']:
        return None       # another C-Vise error type that names the item is still a clean refusal
    if scen.get('startup') and 'before' in obs:
        if obs['before'] != obs['after']:
            return 'working-directory-changed-by-refused-run'
        if obs.get('tmp_left') and not scen.get('cfg', {}).get('save_temps'):      # --save-temps keeps the sanity directory on purpose
            return 'temp-dir-left-by-refused-run'
    return None


def cli_part(ctx, only=None):
    """start-up misuse through the real front end (`cvise.py`), with an interestingness test given as --commands: the run is
    refused and the working directory holds afterwards exactly what it held before (no stray script, no backup)"""
    import os
    import shutil
    import tempfile
    from pathlib import Path
    import cliprobe
    base = Path(tempfile.mkdtemp(prefix='c17cli-', dir=ctx.scratch))
    stub = cliprobe.stub_dir(base)
    cases = [('missing-test-case', ['nosuch.c']), ('second-test-case-missing', ['a.c', 'gone.c']), ('absolute-path', ['/etc/hostname']),
             ('dotdot-path', ['../x.c']), ('commands-reject-the-input', ['a.c'])]
    for name, tcs in cases:
        if only and name != only:
            continue
        for how in ('commands', 'script'):
            wd = base / f'wd-{name}-{how}'
            wd.mkdir()
            (wd / 'a.c').write_text('int keep1;\nint x;\n')
            (wd / 'notes.txt').write_text('untouched\n')
            (base / 'x.c').write_text('a\n')
            tmpd = base / f'tmp-{name}-{how}'
            tmpd.mkdir()
            cmd = 'grep -q keep1 a.c' if name != 'commands-reject-the-input' else 'exit 1'
            if how == 'commands':
                args = ['--commands', cmd] + tcs
            else:
                (wd / 't.sh').write_text('#!/bin/sh\n' + cmd + '\n')
                os.chmod(wd / 't.sh', 0o755)
                args = ['t.sh'] + tcs
            before = cliprobe.listing(wd)
            rc, out, _ = cliprobe.run_cli(stub, ['--n', '2'] + args, wd, tmpdir=tmpd)
            after = cliprobe.listing(wd)
            ctx.count()
            sc = {'kind': 'cli-misuse', 'case': name, 'how': how}
            if before != after:
                new = [e[0] for e in after if e not in before]
                ctx.report('working-directory-changed-by-refused-run:cli', f'cvise.py {" ".join(args)}: the working directory changed: {new or "contents/modes differ"}; output tail: {out[-120:]!r}', sc)
            elif 'Error' not in out and 'cannot' not in out and 'does not return zero' not in out:
                ctx.report('misuse-accepted:cli', f'cvise.py {" ".join(args)} printed no refusal (exit {rc}): {out[-160:]!r}', sc)
            else:
                ctx.nontrivial(('cli-misuse', name, how))
    shutil.rmtree(base, ignore_errors=True)


def run(ctx):
    if ctx.replay and json.load(open(ctx.replay)).get('kind') == 'cli-misuse':
        cli_part(ctx, json.load(open(ctx.replay))['case'])
        print('replayed ->', 'fails' if ctx.violations else 'holds')
        return 1 if ctx.violations else 0
    if ctx.replay:
        scen = json.load(open(ctx.replay))['scenario']
        obs = W.run(ctx, scen)
        sig = judge(scen, obs)
        print(scen['name'], obs['outcome'], (obs.get('error_text') or '')[:120], '->', sig or 'holds')
        if sig:
            ctx.report(sig + ':' + scen['name'], sig, {'scenario': scen})
        return 1 if ctx.violations else 0
    ctx.lean_gate(OBLIGATIONS)
    seen = {}
    from concurrent.futures import ThreadPoolExecutor
    sl = scenarios()
    with ThreadPoolExecutor(max_workers=4) as ex:
        results = list(ex.map(lambda sc: W.run(ctx, sc), sl))
    for scen, obs in zip(sl, results):
        ctx.count()
        sig = judge(scen, obs)
        seen[scen['name']] = obs['outcome']
        ctx.nontrivial(scen['name'])
        if sig:
            ctx.report(sig + ':' + scen['name'].split(':')[0], f"{scen['name']}: {obs['outcome']}: {(obs.get('error_text') or '')[:160]}", {'kind': 'misuse', 'scenario': scen})
        if len(ctx.cov['samples']) < 4:
            ctx.sample({'misuse': scen['name'], 'outcome': obs['outcome'], 'message': (obs.get('error_text') or '')[:120]})
    cli_part(ctx)
    conclude(ctx, [], None)
    ctx.assumptions += ['unreadable / unwritable files are produced by running the real constructor in a child that drops to uid nobody (root would pass every access check)']
    return ctx.finish(obligations=OBLIGATIONS,
                      rule='every misuse class (missing / unreadable / unwritable / absolute / ".." test case, missing / non-executable script, input the test rejects by exit code or signal, '
                           'unknown argument for each argument-taking pass) run through the real constructor and CVise.reduce in a child process: exception must be a CViseError subclass, str() must work and name the item, '
                           'and for start-up misuse the recursive snapshot (path, sha1, mode) and TMPDIR must be unchanged; distinct = misuse classes',
                      extra={'outcomes': seen, 'exhaustive': True})
