"""C14 — shipped schedules name only passes, arguments and tool behaviours that exist."""
import json
import shutil
import os
import re
import stat
import tempfile
from pathlib import Path

from vlib import conclude, REPO, VERIF
import cdgen
import gen_model
import realcode  # noqa: F401
from cvise.cvise import CVise
from cvise.passes.abstract import PassResult, ProcessEventNotifier
from cvise.utils.error import CViseError

OBLIGATIONS = ['Cvise.C14.groups_args_ok', 'Cvise.C14.balanced_args_consistent', 'Cvise.C14.exit_protocol', 'Cvise.C14.count_message',
               'Cvise.C13.shipped_wellformed', 'Cvise.C19.names_nodup']


def shipped_entries():
    for f in sorted((REPO / 'cvise/pass_groups').glob('*.json')):
        d = json.loads(f.read_text())
        for cat, es in d.items():
            for i, e in enumerate(es):
                yield f.name, cat, i, e


def stand_in(d, body):
    p = Path(d) / 'tool'
    p.write_text('#!/bin/sh\n' + body)
    p.chmod(p.stat().st_mode | stat.S_IEXEC)
    return str(p)


def run(ctx):
    ex = cdgen.Extractor(REPO)
    regs = {n: c for n, c, _ in ex.registrations()}
    multi = ex.multi_rewrite_classes()
    pyargs = gen_model.py_arg_sets(REPO)
    drv = (REPO / 'clex/driver.c').read_text()
    for name, val in re.findall(r'^\s*#\s*define\s+(\w+)\s+\(?(\d+)\)?\s*$', drv, re.M):     # integer macros used in the range checks
        drv = re.sub(r'\b' + name + r'\b(?!\s+\(?\d)', val, drv)
    exact = set(re.findall(r'strcmp\(cmd,\s*"([^"]+)"\)\s*==\s*0', drv))
    pref = [(m.group(1), int(m.group(2)) + 1, int(m.group(3))) for m in
            re.finditer(r'strncmp\(cmd,\s*"([^"]+)",\s*\d+\)\s*==\s*0\)\s*\{[^}]*?assert\(n_toks\s*>\s*(\d+)\s*&&\s*n_toks\s*<=\s*(\d+)\)', drv, re.S)]

    def entry_ok(e):
        p, a = e.get('pass'), e.get('arg')
        if p not in CVise.pass_name_mapping:
            return 'unknown-pass'
        if p == 'clang':
            return None if a in regs else 'transformation-not-registered'
        if p == 'clangbinarysearch':
            if a not in regs:
                return 'transformation-not-registered'
            return None if regs[a] in multi else 'binary-search-on-single-rewrite-transformation'
        if p == 'clex':
            if a in exact:
                return None
            for pre, lo, hi in pref:
                if a and a.startswith(pre) and a[len(pre):].isdigit() and lo <= int(a[len(pre):]) <= hi:
                    return None
            return 'clex-mode-not-implemented'
        if p == 'lines':
            return None if a is not None and (a == 'None' or a.isdigit()) else 'lines-argument'
        if p in pyargs:
            # ask the real pass: instantiate and run its argument check
            return None if a in pyargs[p] else 'python-pass-rejects-argument'
        return None

    if ctx.replay and json.load(open(ctx.replay)).get('kind') == 'fake-clang':
        import cdharness
        cdharness.check_part(ctx, python_side=True)
        print('replayed ->', 'fails' if ctx.violations else 'holds')
        return 1 if ctx.violations else 0
    if ctx.replay:
        o = json.load(open(ctx.replay))
        if o.get('kind') == 'clex-run':
            import check_C18
            import minilex
            cd, exe = check_C18.build(ctx)
            toks, status, code, out, err = check_C18.run_clex(exe, cd, o['mode'], o['idx'], o['text'], minilex.Lexer(REPO / 'clex' / 'clex.l'), 'r')
            want = 51 if o['idx'] == 0 else 71
            print('clex', o['mode'], o['idx'], '->', code, 'holds' if code == want else 'fails')
            if code != want:
                ctx.report(f"clex-mode-fails-when-run:{o['mode']}", 'replayed', o)
            return 1 if ctx.violations else 0
        if 'entry' not in o:
            print('this replay names a broken proof or correspondence, not an input')
            return 1
        sig = entry_ok(o['entry'])
        print(o['entry'], '->', sig or 'holds')
        if sig:
            ctx.report(sig, 'replayed', o)
        return 1 if ctx.violations else 0
    ctx.lean_gate(OBLIGATIONS)
    kinds = {}
    for fname, cat, i, e in shipped_entries():
        ctx.count()
        sig = entry_ok(e)
        kinds[e.get('pass')] = kinds.get(e.get('pass'), 0) + 1
        ctx.nontrivial((e.get('pass'), e.get('arg')))
        if sig:
            ctx.report(f"{sig}:{e.get('pass')}:{e.get('arg')}", f'{fname} {cat}[{i}] = {e}', {'kind': 'group-entry', 'file': fname, 'category': cat, 'index': i, 'entry': e})
    # cross-check the Python passes against their own validation code: every shipped argument must survive the method that
    # raises UnknownArgumentError, and a bogus one must not
    d = tempfile.mkdtemp(prefix='c14-', dir=ctx.scratch)
    tc = Path(d) / 'a.c'
    checked = 0
    for p, allowed in pyargs.items():
        if p == 'indent':
            continue       # validated inside transform after running clang-format; covered by C17
        cls = CVise.pass_name_mapping[p]
        for a in allowed + ['bogus-argument']:
            tc.write_text('int a = (b ? 0x10u : c); // x\n')
            inst = cls(a, {})
            inst.max_transforms = None
            try:
                st = inst.new(str(tc), None)
                if st is not None or p in ('peep',):
                    st = st if st is not None else {'pos': 0, 'regex': 0}
                    inst.transform(str(tc), st, ProcessEventNotifier(None))
                    inst.advance(str(tc), st)
                ok = True
            except CViseError:
                ok = False
            except Exception as ex2:
                ok = False if 'not valid for pass' in str(ex2) or type(ex2).__name__ == 'AttributeError' else True
            checked += 1
            if ok != (a != 'bogus-argument'):
                ctx.report(f'python-pass-argument-check-disagrees:{p}:{a}', f'{cls.__name__}({a!r}) accepted={ok}', {'kind': 'py-arg', 'pass': p, 'arg': a})
    # exit codes and messages against the real drivers with a scripted stand-in tool
    from cvise.passes.clang import ClangPass
    from cvise.passes.clangbinarysearch import ClangBinarySearchPass
    from cvise.passes.clex import ClexPass
    from cvise.passes.abstract import BinaryState
    conv = ex.conventions()
    expect = {'clang': {0: 'OK', conv['invalid_counter']: 'STOP', conv['default_error'] % 256: 'STOP'},
              'clangbinarysearch': {0: 'OK', conv['invalid_counter']: 'ERROR', conv['default_error'] % 256: 'STOP'},
              'clex': {51: 'OK', 71: 'STOP'}}
    msg = conv['stderr_msg']
    for code in (0, 1, 255, 51, 71, 2):
        tool = stand_in(d, f'echo "out"; echo "{msg}7" >&2; exit {code}\n')
        for name, cls, st in (('clang', ClangPass, 1), ('clangbinarysearch', ClangBinarySearchPass, BinaryState.create(3)), ('clex', ClexPass, 0)):
            inst = cls('x', {'clang_delta': tool, 'clex': tool})
            inst.user_clang_delta_std = None
            inst.clang_delta_std = None
            inst.clang_delta_preserve_routine = None
            tc.write_text('int a;\n')
            res, st2 = inst.transform(str(tc), st, ProcessEventNotifier(None))
            checked += 1
            want = expect[name].get(code)
            if want and res.name != want:
                ctx.report(f'exit-code-misread:{name}:{code}', f'{name} reads exit {code} as {res.name}, the tool means {want}', {'kind': 'exit', 'driver': name, 'code': code})
            if name == 'clangbinarysearch' and code == 0 and getattr(st2, 'real_num_instances', None) != 7:
                ctx.report('count-message-not-parsed', f'stderr message "{msg}7" parsed as {getattr(st2, "real_num_instances", None)}', {'kind': 'msg'})
    # a helper that reports OK with empty output produced a legitimately empty variant (rm-toks on a file with few tokens)
    tool = stand_in(d, 'exit 51\n')
    inst = ClexPass('rm-toks-2', {'clex': tool})
    tc.write_text('x;\n')
    res, _ = inst.transform(str(tc), 0, ProcessEventNotifier(None))
    checked += 1
    if res.name != 'OK' or tc.read_text() != '':
        ctx.report('exit-code-misread:clex:51-empty-output', f'clex exit 51 with empty output read as {res.name}, file now {tc.read_text()!r}', {'kind': 'exit', 'driver': 'clex', 'code': 51, 'empty': True})
    # the count line is not always the first line of stderr: the out-of-bounds warning precedes it
    tool = stand_in(d, f'echo "out"; echo "Warning: number of transformation instances exceeded" >&2; echo "{msg}5" >&2; exit 0\n')
    inst = ClangBinarySearchPass('x', {'clang_delta': tool})
    inst.user_clang_delta_std = None
    inst.clang_delta_std = None
    inst.clang_delta_preserve_routine = None
    tc.write_text('int a;\n')
    res, st2 = inst.transform(str(tc), BinaryState.create(3), ProcessEventNotifier(None))
    checked += 1
    if getattr(st2, 'real_num_instances', None) != 5:
        ctx.report('count-message-not-parsed', f'stderr "Warning…" + "{msg}5" parsed as {getattr(st2, "real_num_instances", None)}', {'kind': 'msg', 'n': 5, 'warning_first': True})
    for n in (0, 1, 9, 10, 123, 99999):
        tool = stand_in(d, f'echo "{conv["stdout_msg"]}{n}"\n')
        inst = ClangBinarySearchPass('x', {'clang_delta': tool})
        inst.clang_delta_std = 'c++11'
        inst.clang_delta_preserve_routine = None
        got = inst.count_instances(str(tc))
        checked += 1
        if got != n:
            ctx.report('count-message-not-parsed', f'stdout message for {n} parsed as {got}', {'kind': 'msg', 'n': n})
    # every shipped clex mode is run on the real helper (driver.c compiled with a replaying yylex, as in C18): the first
    # index must produce a candidate (51) on a text that has material for every mode, a huge index must report STOP (71)
    import check_C18
    import minilex
    lexer = minilex.Lexer(REPO / 'clex' / 'clex.l')
    cd, exe = check_C18.build(ctx)
    rich = '#define AA 1\n' + ' '.join(f'int foo{j} = AA + "str{j}" ; /* c */ bar{j} ( foo{j} , 2 ) ;' for j in range(8)) + '\n'
    for arg in sorted({e.get('arg') for _, _, _, e in shipped_entries() if e.get('pass') == 'clex'}):
        for idx, want in ((0, 51), (10 ** 6, 71)):
            toks, status, code, out, err = check_C18.run_clex(exe, cd, arg, idx, rich, lexer, f'c14.{arg}.{idx}')
            checked += 1
            if code != want:
                ctx.report(f'clex-mode-fails-when-run:{arg}', f'clex {arg} {idx} on the sample text exits {code}, expected {want}: {err.strip()[:160]}',
                           {'kind': 'clex-run', 'mode': arg, 'idx': idx, 'text': rich})
    # … and every shipped entry of every pass goes through the real Python pass the way the driver would use it (new, then the
    # first transform), with the compiled clex and stand-ins for the other helpers: a pass that refuses a shipped argument
    # (UnknownArgumentError or any other exception from new / transform) does not implement its schedule
    from cvise.utils.error import UnknownArgumentError
    STAND = VERIF / 'tools' / 'standins'
    ext = {'clex': str(exe), 'clang_delta': str(STAND / 'clang_delta'), 'unifdef': str(STAND / 'unifdef'), 'topformflat': str(STAND / 'topformflat'),
           'clang-format': '/bin/true', 'gcov-dump': str(STAND / 'gcov-dump')}
    os.environ['CD_SCEN'] = str(Path(d) / 'cd.json')
    os.environ['CD_LOG'] = str(Path(d) / 'cd.log')
    (Path(d) / 'cd.json').write_text('{}')
    (Path(d) / 'cd.log').write_text('')
    seen_entries = set()
    for fname, cat, i, e in shipped_entries():
        key = (e.get('pass'), json.dumps(e.get('arg')))
        if key in seen_entries or e.get('pass') not in CVise.pass_name_mapping:
            continue
        seen_entries.add(key)
        tcp = Path(d) / 'entry.c'
        tcp.write_text(rich + 'I0;\n#if FOO\nint a;\n#endif\n')
        inst = CVise.pass_name_mapping[e['pass']](e.get('arg'), ext)
        inst.max_transforms = None
        inst.user_clang_delta_std = 'c++17'
        inst.clang_delta_preserve_routine = None
        checked += 1
        try:
            st = inst.new(str(tcp), lambda: None)
            if st is not None:
                inst.transform(str(tcp), st, ProcessEventNotifier(None))
        except UnknownArgumentError as ex_:
            ctx.report(f"python-pass-rejects-argument:{e['pass']}:{e.get('arg')}", f'{fname} {cat}[{i}] = {e}: the pass itself refuses it: {ex_}'[:380],
                       {'kind': 'group-entry', 'file': fname, 'category': cat, 'index': i, 'entry': e})
        except Exception as ex_:  # noqa: BLE001
            ctx.report(f"python-pass-raises-on-shipped-argument:{e['pass']}:{e.get('arg')}", f'{fname} {cat}[{i}] = {e}: {type(ex_).__name__}: {ex_}'[:380],
                       {'kind': 'group-entry', 'file': fname, 'category': cat, 'index': i, 'entry': e})
    shutil.rmtree(cd, ignore_errors=True)
    ctx.sample({'entry': {'pass': 'clangbinarysearch', 'arg': 'remove-unused-function'}, 'registered_class': regs.get('remove-unused-function'), 'multi': regs.get('remove-unused-function') in multi})
    ctx.sample({'clex_prefix_modes': pref, 'clex_exact': sorted(exact)})
    # both sides for real: the tree's clang_delta driver code compiled against stand-in Clang headers, driven by the tree's
    # ClangPass and ClangBinarySearchPass (exit statuses 0 / 1 / 255, the count message on stdout and stderr)
    import cdharness
    cdharness.check_part(ctx, python_side=True)
    conclude(ctx, [], None)
    ctx.assumptions += ['the 73 transformations of clang_delta cannot be built here (no Clang development files): their side of the conventions is read from the sources by cdgen.py; the driver code (CLI, manager, counter checks, count messages, exit statuses) is compiled against stand-in Clang headers and run, also under the real Python drivers (tools/cdharness.py)',
                        'clex modes are read from main() of driver.c (integer macros substituted) and each shipped mode is run once on the compiled helper; the exhaustive run of clex is C18']
    return ctx.finish(obligations=OBLIGATIONS,
                      rule='every entry of the four shipped groups judged against the regenerated acceptors (Lean: decide +kernel over the whole table; Python: same reading) and cross-checked by '
                           'running the real Python passes on every argument they compare with plus a bogus one, and the three drivers against a stand-in tool for exit codes 0/1/2/51/71/255 and count messages; '
                           'distinct = distinct (pass, arg) pairs',
                      extra={'entries_by_pass': kinds, 'cross_checks': checked, 'exhaustive': True})
