"""Scenario generator, pure reference loop and direct oracles for the driver-level properties
(C01, C02, C09, C10, C16, C20, parts of C08)."""
import copy
import hashlib
import itertools
import json
import shutil
import tempfile
from pathlib import Path

import harness_drv as H


# ------------------------------------------------------------------ scenario generation
def gen_scenario(rng, bias=None):
    """bias: dict of knobs.  Every scenario terminates by construction: accepted transitions strictly decrease a
    fixed random rank (so growing is possible, cycles are not), cursors only move forward."""
    bias = bias or {}
    nc = rng.randint(3, bias.get('max_contents', 6))
    lens = [rng.randint(1, 9) for _ in range(nc)]
    if rng.random() < bias.get('p_empty', 0.25):
        lens[rng.randrange(nc)] = 0
    texts = []
    shared = rng.random() < bias.get('p_shared_alphabet', 0.0)     # contents over one letter: concatenations of different pairs can coincide
    for i, L in enumerate(lens):
        ch = 'a' if shared else chr(97 + i)
        t = ch * L
        while t in texts:            # at most one empty text
            t += ch
        texts.append(t)
    rank = list(range(nc))
    rng.shuffle(rank)                # rank[c]: accepted steps go to strictly smaller rank
    nf = rng.choice(bias.get('files', [1, 1, 1, 2, 2, 3]))
    files = ['a.c', 'b.c', 'sub/c.c'][:nf]
    nonempty = [c for c in range(nc) if texts[c]] or [0]
    disk = [rng.choice(nonempty) for _ in range(nf)]
    if nf > 1 and rng.random() < bias.get('p_equal_files', 0.3):
        disk = [disk[0]] * nf
    S = rng.randint(1, bias.get('max_states', 4))
    npass = rng.randint(1, bias.get('max_passes', 3))
    contract = rng.random() < bias.get('p_contract', 0.5)   # well-behaved passes only (C02's hypothesis)
    passes = []
    for pi in range(npass):
        p = {'name': f'p{pi}', 'maxT': rng.choice([None, None, None, 0, 1, 2]) if not contract or rng.random() < 0.3 else None,
             'new': {}, 'adv': {}, 'aos': {}, 'tr': {}}
        stop_from = rng.randint(1, S) if rng.random() < 0.5 else S      # STOP only as a suffix (contract)
        # each pass is acyclic on its own (so it terminates); with its own order two passes can undo each other, so a pass
        # meets the same content again (the main loop still ends: it stops as soon as a round does not shrink the total)
        rank_p = rank
        if rng.random() < bias.get('p_own_rank', 0.3):
            rank_p = list(range(nc))
            rng.shuffle(rank_p)
        for c in range(nc):
            if rng.random() < 0.9:
                p['new'][str(c)] = 0
            lower = [d for d in range(nc) if rank_p[d] < rank_p[c]]
            for s in range(S):
                if s + 1 < S:
                    p['adv'][f'{c}.{s}'] = s + 1
                r = rng.random()
                if s >= stop_from:
                    res = 'STOP'
                elif r < 0.72 and lower:
                    res = 'OK'
                elif r < 0.9 or contract:
                    res = 'INVALID'
                elif r < 0.94:
                    res = 'STOP'
                elif r < 0.975:
                    res = 'ERROR'
                else:
                    res = 'CRASH'
                c2 = rng.choice(lower) if lower else c
                if res == 'OK' and not contract and rng.random() < bias.get('p_unaltered', 0.06):
                    c2 = c
                p['tr'][f'{c}.{s}'] = [res, c2 if res == 'OK' else c, s if rng.random() < 0.85 else min(S - 1, s + 1)]
                k = rng.random()
                nxt = s if k < 0.6 else (0 if k < 0.75 else (s + 1 if s + 1 < S else None))
                if nxt is not None and rng.random() < 0.9:
                    p['aos'][f'{c}.{s}'] = nxt
        passes.append(p)
    # a pass whose `new` rewrites the file in place (as LinesPass reformats it), keeping the result if the sanity check passes
    if not contract and rng.random() < bias.get('p_fmt', 0.15):
        q = passes[rng.randrange(npass)]
        q['fmt'] = {str(c): [rng.randrange(nc) for _ in range(rng.randint(1, 2))] for c in range(nc) if rng.random() < 0.6}
        q['fmt'] = {k: [a for a in v if str(a) != k and texts[a]] for k, v in q['fmt'].items()}
        q['bail'] = rng.random() < 0.4
    # the same pass listed twice: with a different max-transforms (as the shipped groups do) or as an exact duplicate
    if npass >= 2 and rng.random() < bias.get('p_twin', 0.15):
        i, j = rng.sample(range(npass), 2)
        twin = copy.deepcopy(passes[i])
        if rng.random() < 0.7:
            twin['maxT'] = rng.choice([1, 2]) if passes[i]['maxT'] is None else None
        passes[j] = twin
    idx = list(range(npass))
    groups = {'first': [], 'main': [], 'last': []}
    rng.shuffle(idx)
    groups['main'] = idx[:max(1, rng.randint(1, npass))]
    rest = idx[len(groups['main']):]
    for i in rest:
        groups[rng.choice(['first', 'last'])].append(i)
    if rng.random() < 0.3:
        groups['last'].append(groups['main'][0])      # a repeated pass meets the same content again (cache)
    density = rng.choice(bias.get('density', [60, 110, 170, 230]))
    seedtag = rng.getrandbits(32)
    test = {}
    for joint in itertools.product(range(nc), repeat=nf):
        h = hashlib.sha1(f'{seedtag}:{joint}'.encode()).digest()[0]
        ex = 0 if h < density else rng.choice([1, 1, 1, 7, -9])
        test['.'.join(map(str, joint))] = ex
    test['.'.join(map(str, disk))] = 0
    faults = {}
    if not contract and rng.random() < bias.get('p_faults', 0.5):
        for _ in range(rng.randint(1, 4)):
            kind = rng.choice(bias.get('fault_kinds', ['timeout', 'timeout', 7, -9, 1, 'broken', 'foreign']))
            faults[f'{rng.randint(0, 4)}.{rng.randint(1, 4)}'] = kind
    small = (not contract) and rng.random() < bias.get('p_small_consts', 0.4)
    consts = {}
    if small:
        consts = {'GIVEUP_CONSTANT': rng.choice([1, 2, 3]), 'MAX_TIMEOUTS': rng.choice([1, 2]),
                  'MAX_CRASH_DIRS': rng.choice([1, 2, 3]), 'MAX_EXTRA_DIRS': rng.choice([1, 2])}
    cfg = {'cacheOn': rng.random() < bias.get('p_cache', 0.6)}
    if not contract:
        cfg.update(maxImp=rng.choice([None, None, 0, 1, 3]), skipN=rng.choice([None, None, 0, 1, 2]),
                   silent=rng.random() < 0.4, die=rng.random() < 0.12, noGiveUp=rng.random() < 0.2,
                   alsoInteresting=rng.choice([None, None, 7]))
    if not contract and rng.random() < bias.get('p_endless', 0.0):
        # a pass that never says STOP and whose helper only fails: only the give-up limit ends it
        q = passes[rng.randrange(npass)]
        kind = rng.choice(['ERROR', 'INVALID', 'mixed', 'REJECT', 'REJECT', 'mixed-reject'])
        if 'REJECT' in kind or kind == 'mixed-reject':
            # candidates that are valid (OK, changed) but never interesting: a fresh content on which the test always
            # exits 1 (no table entry -> exit 1 on both sides)
            texts.append('never interesting %d\n' % rng.getrandbits(20))
        rej = len(texts) - 1
        for c in range(nc):
            q['new'][str(c)] = 0
            for s_ in range(S):
                q['adv'][f'{c}.{s_}'] = (s_ + 1) % S
                k2 = {'mixed': rng.choice(['ERROR', 'INVALID']), 'mixed-reject': rng.choice(['REJECT', 'INVALID', 'REJECT'])}.get(kind, kind)
                q['tr'][f'{c}.{s_}'] = ['OK', rej, s_] if k2 == 'REJECT' else [k2, c, s_]
        q['maxT'] = None
        cfg['noGiveUp'] = False
        cfg['die'] = False
        consts = dict(consts, GIVEUP_CONSTANT=rng.choice([2, 5, 9]), MAX_CRASH_DIRS=consts.get('MAX_CRASH_DIRS', 10))
    scen = {'texts': texts, 'files': files, 'disk': disk, 'passes': passes, 'groups': groups, 'cfg': cfg, 'consts': consts,
            'endless': locals().get('kind') if 'q' in locals() else None, 'S': S,
            'test': test, 'faults': faults, 'N': rng.choice([1, 2, 2, 3, 4]), 'p_done': rng.choice([0.0, 0.3, 0.6, 1.0]),
            'wait_policy': rng.choice(['first', 'random']), 'mode': 'reduce', 'contract': contract, 'rank': rank, 'fuel': 400}
    return scen


# ------------------------------------------------------------------ pure reference: the textbook sequential greedy loop
def ref_sequential(scen):
    """independent of the Lean model and of testing.py: one candidate at a time, first interesting wins.
    No cache, no faults, no limits.  Returns (final disk, commit log)."""
    texts = scen['texts']
    size = [len(t.encode()) for t in texts]
    disk = list(scen['disk'])
    test = scen['test']
    log = []

    class Zero(Exception):
        pass

    def run_pass(pi):
        p = scen['passes'][pi]
        if sum(size[c] for c in disk) == 0:
            raise Zero()
        order = sorted(range(len(disk)), key=lambda k: -size[disk[k]])   # ties: file order (checked separately)
        for k in order:
            if size[disk[k]] == 0:
                continue
            start = size[disk[k]]
            st = p['new'].get(str(disk[k]))
            while st is not None:
                # one round: scan candidates in enumeration order
                s = st
                won = None
                while s is not None:
                    res, c2, s2 = p['tr'].get(f'{disk[k]}.{s}', ['INVALID', disk[k], s])
                    if res == 'OK':
                        joint = list(disk)
                        joint[k] = c2
                        if test.get('.'.join(map(str, joint)), 1) == 0 and c2 != disk[k]:
                            won = (c2, s2)
                            break
                    elif res == 'STOP':
                        break
                    s = p['adv'].get(f'{disk[k]}.{s}')
                if won is None:
                    break
                disk[k] = won[0]
                log.append(f'C{H.pass_keys(scen)[pi]}.{k}.{won[0]}')      # events are labelled by repr(pass), as the driver's are
                if size[won[0]] >= 3 * start:
                    break
                st = p['aos'].get(f'{won[0]}.{won[1]}')
    try:
        for pi in scen['groups']['first']:
            run_pass(pi)
        while True:
            before = sum(size[c] for c in disk)
            if before == 0:
                break
            for pi in scen['groups']['main']:
                run_pass(pi)
            if sum(size[c] for c in disk) >= before:
                break
        for pi in scen['groups']['last']:
            run_pass(pi)
    except Zero:
        return disk, log, 'ZeroSizeError'
    return disk, log, 'ok'


def size_ties(scen):
    """True if two files ever have equal sizes among reachable contents (then the visiting order is not determined)"""
    return len(scen['files']) > 1


# ------------------------------------------------------------------ running both sides
def run_both(ctx, scens, joint_key=None, rng=None, keep=None):
    """returns list of (scen, obs, real_render, model_render)"""
    out = []
    lines = []
    jk, rb = source_flags()
    if joint_key is None:
        joint_key = jk
    wedged = 0
    for scen in scens:
        if wedged >= 2:
            break          # the code under test does not terminate: two witnesses are enough
        scen.setdefault('releaseBeforeBail', rb)
        scen.setdefault('budget_s', 8)
        d = Path(tempfile.mkdtemp(prefix='drv-', dir=ctx.scratch))
        try:
            obs = H.run_real(scen, d, rng=rng or ctx.rng)
        finally:
            shutil.rmtree(d, ignore_errors=True)
        if obs['outcome'] == 'Watchdog':
            wedged += 1
        lines.append(H.model_line(scen, obs, joint_key))
        out.append([scen, obs, H.render_obs(scen, obs), None])
    for row, m in zip(out, ctx.model(lines)):
        row[3] = m
    return out


def source_flags():
    """what the translator reads off /repo's run_pass right now: (cacheKeyJoint, releaseBeforeBail)"""
    import gen_model
    from vlib import REPO
    gen, _ = gen_model.generate(REPO)
    c = gen['Const.lean']
    return ('def cacheKeyJoint : Bool := true' in c, 'def releaseBeforeBail : Bool := true' in c)


# ------------------------------------------------------------------ direct oracles (model independent)
def exits_of(scen, obs):
    """(rid, order, joint) -> exit the patched test returned (recomputed from the scenario tables)"""
    res = []
    for rid, order, joint in obs['invocations']:
        f = scen.get('faults', {}).get(f'{rid}.{order}') if rid >= 0 else None
        if f == 'broken':
            ex = None
        elif isinstance(f, int):
            ex = f
        else:
            ex = scen['test'].get('.'.join(map(str, joint)), 1)
        res.append((rid, order, tuple(joint), ex))
    return res


def oracle_C01(scen, obs):
    """the files are the original or a joint content on which some invocation exited 0"""
    disk = tuple(obs['disk'])
    if list(disk) == list(scen['disk']):
        return None
    for rid, order, joint, ex in exits_of(scen, obs):
        if joint == disk and ex == 0:
            return None
    return 'final-set-never-tested-interesting'


def oracle_C09(scen, obs):
    """no commit without an exit-0 test of exactly that joint content; directory caps"""
    ok0 = {j for _, _, j, ex in exits_of(scen, obs) if ex == 0}
    disk = list(scen['disk'])
    for ev in obs['log']:
        pk, fi, c = map(int, ev[1:].split('.'))
        disk[fi] = c
        if ev[0] == 'C' and tuple(disk) not in ok0:
            return 'committed-candidate-whose-test-did-not-exit-0'
        if ev[0] == 'F' and tuple(disk) not in ok0:
            return 'file-rewritten-by-new-without-a-passing-sanity-check'
    c = scen.get('consts', {})
    if obs['bug'] > c.get('MAX_CRASH_DIRS', 10) + 1 + scen['cfg'].get('bug0', 0):
        return 'too-many-bug-dirs'
    if obs['extra'] > c.get('MAX_EXTRA_DIRS', 25000) + 1:
        return 'too-many-extra-dirs'
    return None


def oracle_C20(scen, obs, elapsed=None):
    sched_by_round = {}
    commits = {}
    for ev in obs['log']:
        if ev[0] == 'C':
            pk = int(ev[1:].split('.')[0])
            commits[pk] = commits.get(pk, 0) + 1
    for i in range(len(scen['passes'])):
        w, f, e = obs['stats'].get(i, (0, 0, 0))
        if w != commits.get(i, 0):
            return 'worked-differs-from-accepted'
        if f > e:
            return 'failed-exceeds-executed'
        if obs.get('seconds', {}).get(i, 0) < 0:
            return 'negative-pass-time'
    if sum(v[2] for v in obs['stats'].values()) != len(obs['scheduled']):
        return 'executed-differs-from-started'
    if elapsed is not None and sum(obs.get('seconds', {}).values()) > elapsed + 1e-6:
        return 'pass-time-exceeds-elapsed'
    return None


def oracle_C16(scen, obs):
    texts = scen['texts']
    size = [len(t.encode()) for t in texts]
    cfg = scen['cfg']
    disk = list(scen['disk'])
    per = {}
    for ev in obs['log']:
        pk, fi, c = map(int, ev[1:].split('.'))
        if ev[0] == 'C':
            if cfg.get('maxImp') is not None and size[disk[fi]] - size[c] > cfg['maxImp']:
                return 'step-larger-than-max-improvement'
        disk[fi] = c
    return None


def oracle_giveup(scen, obs):
    """a pass that only produces rejected candidates (scenario family `endless`: it never says STOP, every candidate is an
    ERROR / INVALID result or a valid candidate the test rejects) is abandoned after the give-up limit"""
    if not scen.get('endless') or scen['cfg'].get('noGiveUp'):
        return None
    if scen['endless'] in ('ERROR', 'mixed') and not scen['cfg'].get('silent'):
        return None           # a reported helper ERROR ends the round by itself
    limit = scen.get('consts', {}).get('GIVEUP_CONSTANT', 50000)
    bound = max(scen.get('S', 8), limit + scen.get('N', 2) + 1)
    worst = max([o for _, o in obs['scheduled']], default=0)
    if worst > bound:
        return 'pass-not-abandoned-after-the-give-up-limit'
    return None


def oracle_C08(scen, obs):
    if obs['tmp_left'] and not scen['cfg'].get('save_temps'):
        return 'temp-dir-left'
    return None


# ------------------------------------------------------------------ the sweep shared by the driver-level checks
def sweep(ctx, scens, oracles, diffs, nontrivial=None, label=None):
    """run every scenario on both sides, record disagreements, judge the real observations with `oracles`
    (list of (function(scen, obs) -> signature or None))"""
    rows = run_both(ctx, scens)
    for scen, obs, real, model in rows:
        ctx.count()
        if real != model:
            diffs.append({'kind': 'drv', 'scenario': scen, 'real': real, 'model': model})
        for orc in oracles:
            sig = orc(scen, obs)
            if sig:
                ctx.report(sig, f'{sig}: outcome={obs["outcome"]} disk={obs["disk"]} log={obs["log"]}',
                           {'kind': 'drv', 'scenario': scen, 'observed': real})
        if nontrivial:
            key = nontrivial(scen, obs)
            if key is not None:
                ctx.nontrivial(key)
    return rows


def scen_key(scen):
    return hashlib.sha1(json.dumps(scen, sort_keys=True, default=str).encode()).hexdigest()[:12]


def replay_drv(ctx, obj, oracles):
    scen = obj['scenario']
    d = Path(tempfile.mkdtemp(prefix='drv-', dir=ctx.scratch))
    obs = H.run_real(scen, d, rng=ctx.rng)
    print('observed:', H.render_obs(scen, obs))
    for orc in oracles:
        sig = orc(scen, obs)
        if sig:
            ctx.report(sig, sig, {'kind': 'drv', 'scenario': scen})
    print('replayed ->', 'fails' if ctx.violations or ctx.known_hits else 'holds')
