"""C05 — each interestingness test runs isolated, on exactly the candidate set."""
import worldlib as W
from check_world import run_world

OBLIGATIONS = ['Cvise.C05.manifest_paths', 'Cvise.C05.manifest_contents', 'Cvise.C05.scratch_shows', 'Cvise.C05.shipped_scratch_free']


def run(ctx):
    return run_world(ctx, 'C05', OBLIGATIONS, W.oracle_C05, extra_oracles=(W.oracle_C04,),
                     rule='the instrumented script records (cwd, every file in cwd with sha1) for every invocation under the real pool: the path set must equal the test-case set, the files other than '
                          'the one being reduced must equal the versions accepted at that moment, cwd must never repeat; a script that creates/overwrites siblings must leave the user\'s files untouched; '
                          'all built-in passes incl. those with scratch files (ifs/unifdef/lines with stand-ins). non-trivial = run with invocations and commits')
