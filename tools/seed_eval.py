#!/usr/bin/env python3
"""Confirm a seeded change and run checks against it:  seed_eval.py <ID> <property> <check ids…>
Copies /tmp/seed/<ID>.out/{patch.diff,demo.py,notes.md} to /verif/seeded/<ID>/, confirms (demo 0 on /repo, patch applies,
pinned tests still pass, demo 1 with the patch), runs the given checks (quick) with the patch applied, restores /repo,
re-runs nothing afterwards (evidence must be regenerated on the clean tree by run_all.py)."""
import json, os, shutil, subprocess, sys, time
from pathlib import Path
ID, prop, checks = sys.argv[1], sys.argv[2], sys.argv[3:]
src = Path(f'/tmp/seed/{ID}.out')
dst = Path('/verif/seeded') / ID
dst.mkdir(parents=True, exist_ok=True)
for f in ('patch.diff', 'demo.py', 'notes.md'):
    if (src / f).exists():
        shutil.copy(src / f, dst / f)
def sh(cmd, t=900, **kw):
    try:
        r = subprocess.run(cmd, shell=True, capture_output=True, text=True, timeout=t, **kw)
        return r.returncode, (r.stdout + r.stderr)
    except subprocess.TimeoutExpired:
        return 'timeout', ''
assert sh('git -C /repo status --short')[1].strip() == '', '/repo not clean'
meta = {'id': ID, 'breaks_property': prop, 'ran': []}
rc0, out0 = sh(f'/venv/bin/python {dst}/demo.py /repo', 300)
meta['demo_on_unchanged'] = rc0
rc, out = sh(f'git -C /repo apply {dst}/patch.diff')
assert rc == 0, 'patch does not apply: ' + out
try:
    rc1, out1 = sh(f'/venv/bin/python {dst}/demo.py /repo', 300)
    meta['demo_on_changed'] = rc1
    meta['demo_says'] = out1.strip()[-400:]
    rct, outt = sh('cd /repo && timeout 600 /venv/bin/python -m pytest -q -p no:cacheprovider --timeout=900 --continue-on-collection-errors 2>&1 | tail -1', 700)
    meta['pinned_tests_with_change'] = outt.strip()
    res = {}
    for c in checks:
        t = time.time()
        rcc, outc = sh(f'cd /verif && ./check {c} --tier quick', 1500)
        lines = [l for l in outc.split('\n') if l.startswith(('VIOLATION', '# ', 'KNOWN', 'TOOL'))]
        res[c] = {'exit': rcc, 'seconds': round(time.time() - t, 1), 'lines': [l[:300] for l in lines[:6]]}
        meta['ran'].append(f'./check {c} --tier quick')
    meta['checks'] = res
finally:
    sh('git -C /repo checkout -- . && git -C /repo clean -fdq')
meta['caught_by'] = [c for c, r in meta.get('checks', {}).items() if r['exit'] == 1]
notes = (dst / 'notes.md').read_text() if (dst / 'notes.md').exists() else ''
meta['needs_to_manifest'] = ''
json.dump(meta, open(dst / 'meta.json', 'w'), indent=1)
print(json.dumps({k: meta[k] for k in ('demo_on_unchanged', 'demo_on_changed', 'pinned_tests_with_change', 'caught_by')}, indent=1))
for c, r in meta.get('checks', {}).items():
    print(c, r['exit'], r['seconds'], *r['lines'][:3], sep='\n  ')
