"""C04 — originals are preserved and only the named test cases are touched."""
import worldlib as W
from check_world import run_world

OBLIGATIONS = ['Cvise.C04.only_test_cases_touched', 'Cvise.C04.original_survives', 'Cvise.C04.frame_for_every_run', 'Cvise.C04.backup_preserves', 'Cvise.C04.backup_creates', 'Cvise.C04.modes_back_when_pass_completes',
               'Cvise.C04.modes_lost_without_restore', 'Cvise.C04.shipped_backup_guard',
               'Cvise.C04.to_utf8_keeps_original', 'Cvise.C04.shipped_to_utf8_backup_first', 'Cvise.C04.old_to_utf8_loses_original']


def probe(ctx, diffs=None):
    # LinesPass.new works on the user's own file: when its helper cannot run, or the sanity check of the reformatted file
    # raises, nothing but the test case may be left in the working directory (the probe is shared with C11)
    import check_C11
    check_C11.raising_helper_probe(ctx)


def world_scens(ctx, n):
    """whole reductions under the scheduler shim in a working directory that also holds unrelated files, a sub-directory and,
    sometimes, backups that already exist; tidy on and off"""
    import drvlib as D
    out = []
    for _ in range(n):
        s = D.gen_scenario(ctx.rng, {'p_contract': 0.4, 'p_faults': 0.2, 'files': [1, 2, 3], 'p_small_consts': 0.3, 'p_empty': 0.0})
        nc = len(s['texts'])
        files = {'other.txt': ctx.rng.randrange(nc), 'sub/notes.md': ctx.rng.randrange(nc), 'a.c.bak': ctx.rng.randrange(nc)}
        for f in s['files']:
            if ctx.rng.random() < 0.35:
                files[f + '.orig'] = ctx.rng.randrange(nc)        # a backup that already exists: must stay as it is
        s['world'] = {'files': files}
        s['cfg']['tidy'] = ctx.rng.random() < 0.3
        s['cfg']['die'] = False
        out.append(s)
    return out


def world_oracle(scen, obs):
    """judged on the listing of the working directory, without the model"""
    if 'fs' not in obs:
        return None
    after = dict(obs['fs'])
    before = dict(zip(scen['files'], scen['disk']))
    before.update(scen['world']['files'])
    tcs = set(scen['files'])
    for p_, c in before.items():
        if p_ not in tcs and after.get(p_) != c:
            return 'file-other-than-a-test-case-changed'
    for p_ in after:
        if p_ not in before and not (p_.endswith('.orig') and p_[:-5] in tcs):
            return 'unexpected-file-in-the-working-directory'
    if scen.get('mode', 'reduce') == 'reduce' and not scen['cfg'].get('tidy') and obs['outcome'] != 'InsaneTestCaseError':
        for t, c in zip(scen['files'], scen['disk']):
            want = scen['world']['files'].get(t + '.orig', c)
            if after.get(t + '.orig') != want:
                return 'orig-missing' if t + '.orig' not in after else ('existing-orig-overwritten' if t + '.orig' in scen['world']['files'] else 'orig-differs-from-the-original')
    return None


def shim_world_part(ctx, diffs):
    import drvlib as D
    probe(ctx, diffs)
    cli_part(ctx)
    rows = D.run_both(ctx, world_scens(ctx, 60 if ctx.tier == 'quick' else 800))
    for scen, obs, real, model in rows:
        ctx.count()
        if real != model:
            diffs.append({'kind': 'drv-world', 'scenario': scen, 'real': real, 'model': model})
        sig = world_oracle(scen, obs)
        if sig:
            ctx.report(sig + ':shim', f'{sig}: {obs.get("fs")}'[:380], {'kind': 'drv-world', 'scenario': scen})
        if any(e[0] == 'C' for e in obs['log']):
            ctx.nontrivial(('world', D.scen_key(scen)))


CLI_CASES = [
    # (name, files {path: (bytes, mode)}, test cases, predicate, extra options)
    ('plain', {'a.c': (b'int a;\n\n\nint b;\n', 0o640), 'sub/b.c': (b'int c;\n\nint d;\n', 0o604), 'notes.txt': (b'keep\n', 0o600)},
     ['a.c', 'sub/b.c'], 'grep -q "int a" a.c && grep -q "int c" sub/b.c', []),
    ('to-utf8', {'a.c': (b'int a; /* caf\xe9 */\n\n\nint b;\n', 0o640), 'sub/b.c': (b'int c;\n\nint d;\n', 0o604), 'l.c': ('int \u00e9;\n\n'.encode('utf-8'), 0o666)},
     ['a.c', 'sub/b.c', 'l.c'], 'grep -q "int a" a.c && grep -q "int c" sub/b.c', ['--to-utf8']),
    ('to-utf8-existing-orig', {'a.c': (b'int a; /* na\xefve */\n\n\nint b;\n', 0o755), 'a.c.orig': (b'older backup\n', 0o444)},
     ['a.c'], 'grep -q "int a" a.c', ['--to-utf8']),
    ('tidy', {'a.c': (b'int a;\n\n\nint b;\n', 0o600)}, ['a.c'], 'grep -q "int a" a.c', ['--tidy']),
    ('log-file-and-diff', {'a.c': (b'int a;\n\n\nint b;\n', 0o644)}, ['a.c'], 'grep -q "int a" a.c', ['--print-diff', '--log-file', 'run.log']),
]


def cli_part(ctx, only=None):
    """the front end run for real, from the command line to the end of a (tiny) reduction: afterwards every test case has its
    original mode, X.orig holds the bytes X had before the program was started (an existing X.orig is untouched), and nothing
    but test cases, their backups, report directories and a log file that was asked for has changed in the working directory"""
    import json
    import os
    import tempfile
    from pathlib import Path
    import cliprobe
    stub = cliprobe.stub_dir(ctx.scratch)
    ran = 0
    for name, files, tcs, pred, opts in CLI_CASES:
        if only and name != only:
            continue
        wd = Path(tempfile.mkdtemp(prefix='c04cli-', dir=ctx.scratch))
        tmpd = Path(tempfile.mkdtemp(prefix='c04tmp-', dir=ctx.scratch))
        for f, (data, mode) in files.items():
            (wd / f).parent.mkdir(parents=True, exist_ok=True)
            (wd / f).write_bytes(data)
            os.chmod(wd / f, mode)
        (wd / 'test.sh').write_text('#!/bin/sh\n' + pred + '\n')
        os.chmod(wd / 'test.sh', 0o755)
        (wd / 'tiny.json').write_text(json.dumps({'first': [{'pass': 'blank'}], 'main': [{'pass': 'blank'}], 'last': []}))
        before = {e[0]: e for e in cliprobe.listing(wd)}
        rc, out, _ = cliprobe.run_cli(stub, ['--n', '1', '--pass-group-file', 'tiny.json', '--skip-key-off'] + opts + ['./test.sh'] + tcs, wd, tmpdir=tmpd, timeout=300)
        after = {e[0]: e for e in cliprobe.listing(wd)}
        ctx.count()
        scen = {'kind': 'cli', 'case': name}
        if rc != 0 or ('done' not in out and '--log-file' not in opts):
            if 'Traceback' in out and 'chardet' in out:
                raise RuntimeError('front end could not be started: ' + out[-300:])
            ctx.report(f'front-end-run-failed:{name}', f'cvise.py {opts} on {tcs}: exit {rc}: {out[-300:]}', scen)
            continue
        ran += 1
        reduced = False
        for t in tcs:
            if after[t][2] != before[t][2]:
                ctx.report('test-case-mode-not-restored:front-end', f'{name}: {t} had mode {before[t][2]:o} before `cvise.py {" ".join(opts)}` and has {after[t][2]:o} after it', scen)
            reduced = reduced or after[t][1] != before[t][1]
            if '--tidy' in opts:
                if t + '.orig' in after:
                    ctx.report('backup-written-under-tidy:front-end', f'{name}: {t}.orig exists after a --tidy run', scen)
                continue
            want = before[t + '.orig'][1] if t + '.orig' in before else before[t][1]
            if t + '.orig' not in after:
                ctx.report('orig-missing:front-end', f'{name}: no {t}.orig after the run', scen)
            elif after[t + '.orig'][1] != want:
                ctx.report('existing-orig-overwritten:front-end' if t + '.orig' in before else 'orig-differs-from-the-original:front-end',
                           f'{name}: {t}.orig holds {after[t + ".orig"][1][:40]!r}, the bytes before the program was started were {want[:40]!r}', scen)
        allowed = set(tcs) | {t + '.orig' for t in tcs} | ({'run.log'} if '--log-file' in opts else set())
        for f, e in after.items():
            if f in allowed or f.startswith('cvise_bug_') or f.startswith('cvise_extra_'):
                continue
            if f not in before:
                ctx.report('unexpected-file-in-the-working-directory:front-end', f'{name}: {f} appeared', scen)
            elif e != before[f]:
                ctx.report('file-other-than-a-test-case-changed:front-end', f'{name}: {f} changed', scen)
        for f in before:
            if f not in after:
                ctx.report('file-disappeared:front-end', f'{name}: {f} is gone', scen)
        left = [x for x in os.listdir(tmpd) if not x.startswith('pymp-')]
        if reduced:
            ctx.nontrivial(('cli', name))
    ctx.notes['front_end_runs'] = ran


def run(ctx):
    if ctx.replay:
        import json
        if json.load(open(ctx.replay)).get('kind') == 'cli':
            cli_part(ctx, only=json.load(open(ctx.replay))['case'])
            print('replayed ->', 'fails' if ctx.violations else 'holds')
            return 1 if ctx.violations else 0
        if json.load(open(ctx.replay)).get('kind') == 'drv-world':
            import drvlib as D
            import harness_drv as H
            import tempfile
            from pathlib import Path
            scen = json.load(open(ctx.replay))['scenario']
            obs = H.run_real(scen, Path(tempfile.mkdtemp(prefix='drv-', dir=ctx.scratch)), rng=ctx.rng)
            sig = world_oracle(scen, obs)
            print('observed fs:', obs.get('fs'), '->', sig or 'holds')
            if sig:
                ctx.report(sig + ':shim', sig, {'kind': 'drv-world', 'scenario': scen})
            return 1 if ctx.violations else 0
        if json.load(open(ctx.replay)).get('kind') == 'raising-helper':
            probe(ctx)
            print('replayed ->', 'fails' if ctx.violations else 'holds')
            return 1 if ctx.violations else 0
    return run_world(ctx, 'C04', OBLIGATIONS, W.oracle_C04, shim_part=shim_world_part,
                     rule='recursive snapshot (path, sha1, mode) of a working directory with sub-directories, odd modes, a pre-existing .orig and unrelated files, before and after CVise.reduce / run_pass '
                          'for success, error and no-progress exits, tidy on/off: only test cases may change, X.orig = original bytes, existing .orig untouched, modes restored, cwd unchanged. '
                          'non-trivial = run with commits')
