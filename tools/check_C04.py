"""C04 — originals are preserved and only the named test cases are touched."""
import worldlib as W
from check_world import run_world

OBLIGATIONS = ['Cvise.C04.backup_preserves', 'Cvise.C04.backup_creates', 'Cvise.C04.modes_back_when_pass_completes',
               'Cvise.C04.modes_lost_without_restore', 'Cvise.C04.shipped_backup_guard']


def probe(ctx, diffs=None):
    # LinesPass.new works on the user's own file: when its helper cannot run, or the sanity check of the reformatted file
    # raises, nothing but the test case may be left in the working directory (the probe is shared with C11)
    import check_C11
    check_C11.raising_helper_probe(ctx)


def run(ctx):
    if ctx.replay:
        import json
        if json.load(open(ctx.replay)).get('kind') == 'raising-helper':
            probe(ctx)
            print('replayed ->', 'fails' if ctx.violations else 'holds')
            return 1 if ctx.violations else 0
    return run_world(ctx, 'C04', OBLIGATIONS, W.oracle_C04, shim_part=probe,
                     rule='recursive snapshot (path, sha1, mode) of a working directory with sub-directories, odd modes, a pre-existing .orig and unrelated files, before and after CVise.reduce / run_pass '
                          'for success, error and no-progress exits, tidy on/off: only test cases may change, X.orig = original bytes, existing .orig untouched, modes restored, cwd unchanged. '
                          'non-trivial = run with commits')
