"""C04 — originals are preserved and only the named test cases are touched."""
import worldlib as W
from check_world import run_world

OBLIGATIONS = ['Cvise.C04.only_test_cases_touched', 'Cvise.C04.original_survives', 'Cvise.C04.frame_for_every_run', 'Cvise.C04.backup_preserves', 'Cvise.C04.backup_creates', 'Cvise.C04.modes_back_when_pass_completes',
               'Cvise.C04.modes_lost_without_restore', 'Cvise.C04.shipped_backup_guard']


def probe(ctx, diffs=None):
    # LinesPass.new works on the user's own file: when its helper cannot run, or the sanity check of the reformatted file
    # raises, nothing but the test case may be left in the working directory (the probe is shared with C11)
    import check_C11
    check_C11.raising_helper_probe(ctx)


def world_scens(ctx, n):
    """whole reductions under the scheduler shim in a working directory that also holds unrelated files, a sub-directory and,
    sometimes, backups that already exist; tidy on and off"""
    import drvlib as D
    out = []
    for _ in range(n):
        s = D.gen_scenario(ctx.rng, {'p_contract': 0.4, 'p_faults': 0.2, 'files': [1, 2, 3], 'p_small_consts': 0.3, 'p_empty': 0.0})
        nc = len(s['texts'])
        files = {'other.txt': ctx.rng.randrange(nc), 'sub/notes.md': ctx.rng.randrange(nc), 'a.c.bak': ctx.rng.randrange(nc)}
        for f in s['files']:
            if ctx.rng.random() < 0.35:
                files[f + '.orig'] = ctx.rng.randrange(nc)        # a backup that already exists: must stay as it is
        s['world'] = {'files': files}
        s['cfg']['tidy'] = ctx.rng.random() < 0.3
        s['cfg']['die'] = False
        out.append(s)
    return out


def world_oracle(scen, obs):
    """judged on the listing of the working directory, without the model"""
    if 'fs' not in obs:
        return None
    after = dict(obs['fs'])
    before = dict(zip(scen['files'], scen['disk']))
    before.update(scen['world']['files'])
    tcs = set(scen['files'])
    for p_, c in before.items():
        if p_ not in tcs and after.get(p_) != c:
            return 'file-other-than-a-test-case-changed'
    for p_ in after:
        if p_ not in before and not (p_.endswith('.orig') and p_[:-5] in tcs):
            return 'unexpected-file-in-the-working-directory'
    if scen.get('mode', 'reduce') == 'reduce' and not scen['cfg'].get('tidy') and obs['outcome'] != 'InsaneTestCaseError':
        for t, c in zip(scen['files'], scen['disk']):
            want = scen['world']['files'].get(t + '.orig', c)
            if after.get(t + '.orig') != want:
                return 'orig-missing' if t + '.orig' not in after else ('existing-orig-overwritten' if t + '.orig' in scen['world']['files'] else 'orig-differs-from-the-original')
    return None


def shim_world_part(ctx, diffs):
    import drvlib as D
    probe(ctx, diffs)
    rows = D.run_both(ctx, world_scens(ctx, 60 if ctx.tier == 'quick' else 800))
    for scen, obs, real, model in rows:
        ctx.count()
        if real != model:
            diffs.append({'kind': 'drv-world', 'scenario': scen, 'real': real, 'model': model})
        sig = world_oracle(scen, obs)
        if sig:
            ctx.report(sig + ':shim', f'{sig}: {obs.get("fs")}'[:380], {'kind': 'drv-world', 'scenario': scen})
        if any(e[0] == 'C' for e in obs['log']):
            ctx.nontrivial(('world', D.scen_key(scen)))


def run(ctx):
    if ctx.replay:
        import json
        if json.load(open(ctx.replay)).get('kind') == 'drv-world':
            import drvlib as D
            import harness_drv as H
            import tempfile
            from pathlib import Path
            scen = json.load(open(ctx.replay))['scenario']
            obs = H.run_real(scen, Path(tempfile.mkdtemp(prefix='drv-', dir=ctx.scratch)), rng=ctx.rng)
            sig = world_oracle(scen, obs)
            print('observed fs:', obs.get('fs'), '->', sig or 'holds')
            if sig:
                ctx.report(sig + ':shim', sig, {'kind': 'drv-world', 'scenario': scen})
            return 1 if ctx.violations else 0
        if json.load(open(ctx.replay)).get('kind') == 'raising-helper':
            probe(ctx)
            print('replayed ->', 'fails' if ctx.violations else 'holds')
            return 1 if ctx.violations else 0
    return run_world(ctx, 'C04', OBLIGATIONS, W.oracle_C04, shim_part=shim_world_part,
                     rule='recursive snapshot (path, sha1, mode) of a working directory with sub-directories, odd modes, a pre-existing .orig and unrelated files, before and after CVise.reduce / run_pass '
                          'for success, error and no-progress exits, tidy on/off: only test cases may change, X.orig = original bytes, existing .orig untouched, modes restored, cwd unchanged. '
                          'non-trivial = run with commits')
