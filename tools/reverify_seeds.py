#!/usr/bin/env python3
"""Re-run, for every kept seeded change, the check(s) that caught it, against a private worktree with the patch applied
(CVISE_REPO; /repo is not touched).  Prints one line per seed; exit 1 if one is no longer caught."""
import json, os, subprocess, sys
from concurrent.futures import ThreadPoolExecutor
from pathlib import Path
only = set(sys.argv[1:])
seeds = sorted(p.parent for p in Path('/verif/seeded').glob('*/meta.json') if not only or p.parent.name in only)


def one(d):
    m = json.load(open(d / 'meta.json'))
    if m.get('harmless'):
        return d.name, [('harmless', 0, 'concrete', 'skipped here: harmless refactorings are run against every check by seed2_eval')]
    checks = m.get('caught_by') or [m.get('breaks_property', d.name[:3])]
    tree = f'/tmp/s2w/rv-{d.name}'
    subprocess.run(f'git -C /repo worktree remove --force {tree}', shell=True, capture_output=True)
    r = subprocess.run(f'mkdir -p /tmp/s2w && git -C /repo worktree add --detach {tree} HEAD -q && git -C {tree} apply {d}/patch.diff', shell=True, capture_output=True, text=True)
    if r.returncode != 0:
        return d.name, 'PATCH-DOES-NOT-APPLY', r.stderr[-200:]
    res = []
    try:
        for c in checks[:2]:
            env = dict(os.environ, CVISE_REPO=tree, VERIF_EVIDENCE_DIR=f'/tmp/x/ev/rv/{d.name}')
            r = subprocess.run(f'cd /verif && timeout 1700 ./check {c} --tier quick', shell=True, capture_output=True, text=True, env=env)
            lines = [l for l in r.stdout.split('\n') if l.startswith('VIOLATION')]
            concrete = any('no-failing-input-found' not in l for l in lines)
            sig = next((l[2:].split(':')[0] for l in r.stdout.split('\n') if l.startswith('# ')), '')
            res.append((c, r.returncode, 'concrete' if concrete else ('broken-only' if lines else 'MISSED'), sig))
            if concrete:
                break
    finally:
        subprocess.run(f'git -C /repo worktree remove --force {tree}', shell=True, capture_output=True)
    return d.name, res


bad = 0
with ThreadPoolExecutor(max_workers=int(os.environ.get('J', '5'))) as ex:
    for name, *rest in ex.map(one, seeds):
        print(name, rest, flush=True)
        if not any(isinstance(r, tuple) and r[2] == 'concrete' for r in (rest[0] if rest and isinstance(rest[0], list) else [])):
            bad += 1
print('not caught with a concrete input:', bad)
sys.exit(1 if bad else 0)
