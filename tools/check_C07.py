"""C07 — candidates are genuine, local edits of the current file."""
import itertools
import json
import re
import shutil
import tempfile
from pathlib import Path

from vlib import conclude, enc_text
import gen_inputs as G
import kpass
import realcode  # noqa: F401
import textpasses as T
from cvise.passes.peep import PeepPass
from cvise.passes.abstract import PassResult, ProcessEventNotifier

OBLIGATIONS = [
    'Cvise.C07.ok_differs_balanced', 'Cvise.C07.ok_differs_ternary', 'Cvise.C07.ok_differs_comments', 'Cvise.C07.ok_differs_peep',
    'Cvise.C07.local_ints_special', 'Cvise.C07.local_ternary', 'Cvise.C07.local_peep', 'Cvise.C07.local_balanced',
    'Cvise.C07.balanced_recipes_shaped', 'Cvise.C07.lines_candidate', 'Cvise.C07.blank_candidate', 'Cvise.C07.includes_candidate',
    'Cvise.C07.readlines_lossless', 'Cvise.C07.single_line_offered', 'Cvise.C07.balanced_offers_all', 'Cvise.C07.balanced_prefix_free',
    'Cvise.C07.balanced_deletion_sublist', 'Cvise.C07.balanced_deleting_args', 'Cvise.C07.balanced_cursors_wellformed', 'Cvise.C07.ternary_sublist', 'Cvise.C07.ternary_cursors_wellformed', 'Cvise.C07.comments_candidate', 'Cvise.C07.line_markers_candidate',
    'Cvise.C07.ok_differs_ints', 'Cvise.C07.ok_differs_special', 'Cvise.C07.mods_cursor_wellformed', 'Cvise.C07.ints_special_passes', 'Cvise.C07.ints_special_deleting_shorter',
]

DELETION = {('balanced', a) for a in ['parens', 'curly', 'square', 'angles', 'parens-only', 'curly-only', 'square-only', 'angles-only',
                                      'parens-inside', 'curly-inside', 'square-inside', 'angles-inside', 'curly3']} | \
           {('blank', None), ('comments', None), ('includes', None), ('line_markers', None), ('lines', 'None'),
            ('ints', 'a'), ('ints', 'b'), ('ints', 'c'), ('special', 'b'), ('special', 'c'), ('ternary', 'b'), ('ternary', 'c')}


def is_subseq(a, b):
    it = iter(b)
    return all(ch in it for ch in a)


def splice_ok(inp, out, allowed):
    """out == inp[:a] + r + inp[b:] for some a <= b and some r in allowed (callable or set)"""
    for a in range(len(inp) + 1):
        if out[:a] != inp[:a]:
            break
        for r in allowed(inp, a) if callable(allowed) else allowed:
            rest = out[a + len(r):]
            if out[a:a + len(r)] != r:
                continue
            b = len(inp) - len(rest)
            if b >= a and inp[b:] == rest:
                return True
    return False


PEEP_REPL = sorted({r for _, r in PeepPass.regexes_to_replace} | {r for _, r in PeepPass.delimited_regexes_to_replace})


def allowed_for(name, arg):
    if (name, arg) == ('balanced', 'parens-to-zero'):
        return ['0']
    if (name, arg) == ('balanced', 'curly2'):
        return [';']
    if name == 'peep' and arg in ('a', 'b'):
        return PEEP_REPL
    if name == 'peep' and arg == 'c':
        def f(inp, a):
            m = re.compile(r'while\s*').match(inp, a)
            out = set()
            for b in range(a, len(inp) + 1):
                seg = inp[a:b]
                i = seg.find('{')
                if i >= 0 and seg.endswith('}'):
                    body = seg[i:]
                    out.add(re.sub(r'break\s*;', '', body))
            return out
        return f
    if (name, arg) == ('ints', 'd'):
        def f(inp, a):
            out = set()
            for m in re.finditer(r'0[xX][0-9a-fA-F]+', inp):
                if m.start() >= a - 1:
                    out.add(str(int(m.group(0), 16)))
            return out
        return f
    if (name, arg) == ('special', 'a'):
        def f(inp, a):
            out = set()
            m = re.compile(r'transparent_crc\s*\((?P<list>[^)]*)\)', re.DOTALL).match(inp, a)
            if m:
                out.add("printf('%d\\n', (int){})".format(m.group('list').split(',')[0]))
            return out
        return f
    return None


def removed_lines(inp, out):
    """indices of the lines of `inp` that are missing in `out` if `out` is `inp` with whole lines removed, else None"""
    a, b = inp.splitlines(keepends=True), out.splitlines(keepends=True)
    rem, j = [], 0
    for i, l in enumerate(a):
        if j < len(b) and b[j] == l:
            j += 1
        else:
            rem.append(i)
    return (a, rem) if j == len(b) else (a, None)


def documented_line_edit(name, arg, inp, out):
    """the line-oriented passes, read independently of their code: which whole lines may a candidate drop?"""
    a, rem = removed_lines(inp, out)
    if rem is None or not rem:
        return 'candidate-is-not-the-input-minus-whole-lines'
    if name == 'includes':
        if len(rem) != 1 or not re.match(r'\s*#\s*include', a[rem[0]]):
            return 'includes-removed-something-other-than-one-include-line'
    elif name == 'line_markers':
        if not all(re.match(r'\s*#\s*[0-9]+', a[i]) for i in rem):
            return 'line-markers-removed-a-line-that-is-no-line-marker'
    elif name == 'blank':
        blank = [i for i, l in enumerate(a) if re.match(r'^\s*$', l)]
        hashes = [i for i, l in enumerate(a) if l.startswith('#')]
        if rem != blank and rem != hashes:
            return 'blank-removed-something-other-than-all-blank-lines-or-all-hash-lines'
    elif name == 'lines':
        if not any(out == ''.join(a[:i] + a[j:]) for i in range(len(a)) for j in range(i + 1, len(a) + 1)):
            return 'lines-removed-something-other-than-one-block-of-lines'
    return None


def strip_block_comments(t):
    """C block comments removed, read from the language rule rather than from the pass: `/*` up to the next `*/` that starts
    at least two characters later; an unterminated `/*` stays"""
    out, i = [], 0
    while i < len(t):
        if t.startswith('/*', i):
            j = t.find('*/', i + 2)
            if j >= 0:
                i = j + 2
                continue
        out.append(t[i])
        i += 1
    return ''.join(out)


def strip_line_comments(t):
    return '\n'.join(l[:l.index('//')] if '//' in l else l for l in t.split('\n'))


def judge_candidate(name, arg, inp, out):
    if out == inp:
        return 'ok-candidate-equals-input'
    if name == 'comments' and '\r' not in inp and out not in (strip_block_comments(inp), strip_line_comments(inp)):
        return 'comments-candidate-is-neither-all-block-comments-nor-all-line-comments-removed'
    if (name, arg) in DELETION:
        if not is_subseq(out, inp):
            return 'deletion-pass-output-not-a-subsequence'
        if name in ('includes', 'line_markers', 'blank') or (name, arg) == ('lines', 'None'):
            return documented_line_edit(name, arg, inp, out)
        return None
    allowed = allowed_for(name, arg)
    if allowed is not None and not splice_ok(inp, out, allowed):
        return 'text-outside-the-edit-changed-or-unknown-replacement'
    return None


def all_reject_offers(name, arg, text, workdir, cap=400):
    """the set of candidate texts offered when everything is rejected"""
    obs, alive, _ = kpass.drive_real(name, arg, text, [False] * cap, workdir)
    return [t for r, t in obs if r == 'OK']


def expected_offers(name, arg, text):
    """instances the pass is meant to offer (independent computation)"""
    if (name, arg) == ('lines', 'None'):
        ls = text.splitlines(keepends=True)
        return {''.join(ls[:i] + ls[i + 1:]) for i in range(len(ls))}
    if name == 'balanced' and arg in ('parens', 'curly', 'square', 'angles'):
        o, c = {'parens': '()', 'curly': '{}', 'square': '[]', 'angles': '<>'}[arg]
        out = set()
        for a in range(len(text)):
            if text[a] != o:
                continue
            d = 0
            for i in range(a, len(text)):
                if text[i] == o:
                    d += 1
                elif text[i] == c:
                    d -= 1
                if d == 0:
                    out.add(text[:a] + text[i + 1:])
                    break
        return out
    if name == 'ints' and arg == 'a':
        out = set()
        pat = re.compile(r'(?<=[*,:;{}\[\]()\s])([+-]?(?:0[xX]|0)?)([0-9a-fA-F])([0-9a-fA-F]+[ULul]*)(?=[*,:;{}\[\]()\s])')
        for m in pat.finditer(text):
            out.add(text[:m.start(2)] + text[m.end(2):])
        return out
    if name == 'peep':
        # every (position, rule) pair is an instance: ask the pass itself for the candidate of each pair (transform is a
        # function of the cursor), independently of how `advance` walks them
        from cvise.passes.peep import PeepPass
        rules = {'a': len(PeepPass.regexes_to_replace), 'b': len(PeepPass.delimited_regexes_to_replace), 'c': 1}[arg]
        d = Path(tempfile.mkdtemp(prefix='peepx-'))
        out = set()
        try:
            p = T.make(name, arg)
            f = d / 'a.c'
            for pos in range(len(text)):
                for r in range(rules):
                    f.write_text(text)
                    res, _ = p.transform(str(f), {'pos': pos, 'regex': r}, ProcessEventNotifier(None))
                    if res == PassResult.OK:
                        out.add(f.read_text())
        finally:
            shutil.rmtree(d, ignore_errors=True)
        return out
    return None


def gen_cases(ctx, deep=False):
    rng = ctx.rng
    quick = ctx.tier == 'quick' and not deep
    cases = []
    # bounded-exhaustive small strings for the matcher-based passes
    for arg, alpha, L in (('parens', '()a', 5 if quick else 7), ('curly-only', '{}a;', 4 if quick else 5), ('parens-to-zero', '()b', 4 if quick else 6),
                          ('square-inside', '[]x', 4 if quick else 5)):
        for s in G.all_strings(alpha, L):
            if s:
                cases.append(('balanced', arg, s))
    for s in G.all_strings('a?:( ;', 4 if quick else 6):
        if '?' in s:
            cases.append(('ternary', 'b', s))
    n = 40 if quick else 500
    for name, arg in T.PASSES:
        for _ in range(n if name != 'peep' else max(6, n // 4)):
            cases.append((name, arg, T.gen_text(name, arg, rng)))
    # many instances at once: the passes that edit every instance in one candidate, or count them (17 … 70 parts)
    for name, arg in T.PASSES:
        if name in ('blank', 'comments', 'includes', 'line_markers', 'lines', 'special', 'ints'):
            for _ in range(3 if quick else 20):
                cases.append((name, arg, T.gen_text(name, arg, rng, size=rng.choice([17, 18, 33, 40, 65, 70]))))
    return cases


def run_case(ctx, name, arg, text, diffs, lines, reals, stats):
    rng = ctx.rng
    hist = [rng.random() < 0.4 for _ in range(rng.randint(1, 5))]
    if name == 'peep':
        # the cursor walks all rules at one position before it moves on: long, mostly rejecting histories
        hist = [rng.random() < 0.25 for _ in range(rng.randint(150, 600) if arg != 'c' else 12)]
    try:
        obs, alive, extras = kpass.drive_real(name, arg, text, hist, ctx.scratch)
    except Exception as e:
        ctx.report(f'pass-raises:{name}', f'{name}::{arg} raised {type(e).__name__}: {e}', {'kind': 'pass', 'pass': name, 'arg': arg, 'text': text, 'hist': hist})
        return
    ctx.count()
    cur = text
    for (res, out), a in zip(obs, hist):
        if res == 'OK':
            stats[(name, arg)] = stats.get((name, arg), 0) + 1
            sig = judge_candidate(name, arg, cur, out)
            if sig:
                ctx.report(f'{sig}:{name}', f'{name}::{arg}: {cur!r} -> {out!r}', {'kind': 'pass', 'pass': name, 'arg': arg, 'text': text, 'hist': hist})
            ctx.nontrivial((name, arg, cur, out))
            if a:
                cur = out
    lines.append(kpass.model_line(name, arg, text, hist))
    reals.append(({'kind': 'pass', 'pass': name, 'arg': arg, 'text': text, 'hist': hist}, kpass.render(obs, alive)))


def offers_part(ctx):
    rng = ctx.rng
    n = 25 if ctx.tier == 'quick' else 300
    peep_texts = [',xa;', ', b1;', ',x = y2,', 'a,0', 'x = 1 + y;', ',0,', 'f(a, 1);,', 'if (x) { y; }']
    for name, arg in [('lines', 'None'), ('balanced', 'parens'), ('balanced', 'curly'), ('ints', 'a'), ('peep', 'a'), ('peep', 'b'), ('peep', 'c')]:
        for i in range(n if name != 'peep' else (len(peep_texts) if arg == 'b' else 3)):
            text = T.gen_text(name, arg, rng, size=rng.randint(1, 5)) if name != 'peep' else peep_texts[i]
            exp = expected_offers(name, arg, text)
            if not exp:
                continue
            got = set(all_reject_offers(name, arg, text, ctx.scratch, cap=400 if name != 'peep' else 120 * (len(text) + 2)))
            ctx.count()
            missing = exp - got
            if missing:
                key = 'instance-never-offered:' + name
                if name == 'ints':
                    key = 'ints-literal-sharing-a-delimiter-never-offered'
                ctx.report(key, f'{name}::{arg} on {text!r}: never offered {sorted(missing)[0]!r}', {'kind': 'offers', 'pass': name, 'arg': arg, 'text': text})
    # corpus: F7
    got = set(all_reject_offers('ints', 'a', 'f(10,20)', ctx.scratch))
    if 'f(10,0)' not in got:
        ctx.report('ints-literal-sharing-a-delimiter-never-offered', "ints::a on 'f(10,20)' offers only the first literal", {'kind': 'offers', 'pass': 'ints', 'arg': 'a', 'text': 'f(10,20)'})


def crlf_part(ctx):
    """bytes outside the edited region must be preserved byte for byte — also for \\r\\n input (finding F8)"""
    d = Path(tempfile.mkdtemp(prefix='crlf-', dir=ctx.scratch))
    try:
        p = T.make('balanced', 'parens')
        f = d / 'a.c'
        f.write_bytes(b'x\r\n(a)y\r\n')
        st = p.new(str(f), None)
        res, _ = p.transform(str(f), st, ProcessEventNotifier(None))
        out = f.read_bytes()
        ctx.count()
        if res == PassResult.OK and out != b'x\r\ny\r\n':
            ctx.report('crlf-normalised-outside-the-edit', f'balanced::parens on b"x\\r\\n(a)y\\r\\n" wrote {out!r}', {'kind': 'bytes', 'pass': 'balanced', 'arg': 'parens', 'bytes': 'x\\r\\n(a)y\\r\\n'})
    finally:
        shutil.rmtree(d, ignore_errors=True)


def run(ctx):
    if ctx.replay:
        o = json.load(open(ctx.replay))
        if o.get('kind') == 'pass':
            run_case(ctx, o['pass'], o['arg'], o['text'], [], [], [], {})
        elif o.get('kind') == 'offers':
            exp = expected_offers(o['pass'], o['arg'], o['text'])
            got = set(all_reject_offers(o['pass'], o['arg'], o['text'], ctx.scratch))
            if exp - got:
                ctx.report(o.get('signature', 'instance-never-offered'), 'replayed', o)
        else:
            crlf_part(ctx)
        print('replayed ->', 'fails' if ctx.violations or ctx.known_hits else 'holds')
        return 1 if ctx.violations else 0
    ctx.lean_gate(OBLIGATIONS)
    diffs, lines, reals, stats = [], [], [], {}
    for name, arg, text in gen_cases(ctx):
        run_case(ctx, name, arg, text, diffs, lines, reals, stats)
    outs = ctx.model(lines)
    for (sc, r), m in zip(reals, outs):
        if r != m:
            diffs.append({**sc, 'real': r[:400], 'model': m[:400]})
    offers_part(ctx)
    crlf_part(ctx)
    ctx.sample({'scenario': reals[len(reals) // 2][0], 'observed': reals[len(reals) // 2][1][:200]})

    def search(budget):
        d2, l2, r2 = [], [], []
        for name, arg, text in gen_cases(ctx, deep=True)[:20000]:
            run_case(ctx, name, arg, text, d2, l2, r2, {})
    conclude(ctx, diffs, search)
    ctx.assumptions += ['replacement passes are judged against the replacement strings of the tables read from the imported classes',
                        'text-mode I/O: the pass models work on decoded text; the byte-level clause is judged by the \\r\\n probe (finding F8)']
    fired = {f'{k[0]}::{k[1]}': v for k, v in sorted(stats.items(), key=lambda kv: str(kv[0]))}
    return ctx.finish(obligations=OBLIGATIONS,
                      rule='bounded-exhaustive strings over small delimiter alphabets for balanced/ternary, planted generators for every pass and argument (every peep rule sampled from its parse tree), '
                           'cursors reached through accept/reject histories of depth <= 5; each OK candidate judged by an independent relational spec (differs; subsequence for deletion passes; '
                           'input[:a]+r+input[b:] with r in the pass\'s fixed replacements otherwise), each run compared with the Lean pass model; offers under all-reject compared with an independent enumeration. '
                           'non-trivial = distinct (pass, arg, input, candidate) with result OK',
                      extra={'ok_candidates_by_pass': fired})
