"""C16 — run limits given on the command line are honoured."""
import json

from vlib import conclude
import drvlib as D

OBLIGATIONS = ['Cvise.C16.step_improvement_le', 'Cvise.C16.limit_stops', 'Cvise.C16.limit_zero_is_unlimited',
               'Cvise.C09.bug_dirs_step', 'Cvise.D.isAccept_iff', 'Cvise.C16.limit_not_before', 'Cvise.C16.accepts_at_most_limit', 'Cvise.C09.report_dirs_within_limits', 'Cvise.C16.giveup_abandons',
               'Cvise.C16.start_gate_skips', 'Cvise.C16.start_gate_skips_main', 'Cvise.C16.start_gate_clears_at_named', 'Cvise.C16.reduce_starts_at_named_first',
               'Cvise.C16.reduce_starts_at_named_last', 'Cvise.C16.reduce_named_absent', 'Cvise.C16.main_loop_starts_at_named', 'Cvise.C16.no_option_is_plain_reduce']


def oracle(scen, obs):
    texts = scen['texts']
    size = [len(t.encode()) for t in texts]
    cfg = scen['cfg']
    disk = list(scen['disk'])
    # accepted steps per (run_pass invocation, file): the harness marks where each run_pass starts in the log
    starts = [m[2] for m in obs.get('marked', [])] + [len(obs['log'])]
    for a, b in zip(starts, starts[1:]):
        per = {}
        for ev in obs['log'][a:b]:
            if ev[0] == 'C':
                pk, fi, c = map(int, ev[1:].split('.'))
                per[(pk, fi)] = per.get((pk, fi), 0) + 1
        for (pk, fi), n in per.items():
            lim = []
            if cfg.get('skipN'):
                lim.append(cfg['skipN'])
            if scen['passes'][pk].get('maxT'):
                lim.append(scen['passes'][pk]['maxT'])
            if lim and n > min(lim):
                return 'more-accepts-than-the-limit'
    for ev in obs['log']:
        pk, fi, c = map(int, ev[1:].split('.'))
        if ev[0] == 'C' and cfg.get('maxImp') is not None and size[disk[fi]] - size[c] > cfg['maxImp']:
            return 'step-larger-than-max-improvement'
        disk[fi] = c
    c = scen.get('consts', {})
    if obs['bug'] > c.get('MAX_CRASH_DIRS', 10) + 1 + cfg.get('bug0', 0):
        return 'too-many-bug-dirs'
    return None


def oracle_zero(scen, obs):
    """boundary value 0: finding F9 (0 means unlimited) — judged literally"""
    cfg = scen['cfg']
    zero = cfg.get('skipN') == 0 or any(p.get('maxT') == 0 for p in scen['passes'])
    if not zero:
        return None
    for ev in obs['log']:
        if ev[0] == 'C':
            pk = int(ev[1:].split('.')[0])
            if cfg.get('skipN') == 0 or scen['passes'][pk].get('maxT') == 0:
                return 'limit-0-means-unlimited'
    return None


def nontriv(scen, obs):
    cfg = scen['cfg']
    if any(e.startswith('C') for e in obs['log']) and (cfg.get('maxImp') is not None or cfg.get('skipN') or any(p.get('maxT') for p in scen['passes'])):
        return D.scen_key(scen)
    return None


def scens(ctx, n):
    bias = {'p_contract': 0.0, 'p_faults': 0.2, 'p_small_consts': 0.6, 'files': [1, 1, 2], 'p_endless': 0.1}
    out = []
    for _ in range(n):
        s = D.gen_scenario(ctx.rng, bias)
        s['cfg']['maxImp'] = ctx.rng.choice([None, 0, 1, 2, 4])
        s['cfg']['skipN'] = ctx.rng.choice([None, 0, 1, 2, 3])
        out.append(s)
    return out


def start_with_scens(ctx, n):
    """--start-with-pass scenarios: the named pass anywhere in first / main / last (or nowhere runnable: prerequisites
    missing), optionally skip_initial; passes may occur several times"""
    out = []
    for k in range(n):
        s = D.gen_scenario(ctx.rng, {'p_contract': 1.0, 'files': [1, 2], 'p_twin': 0.0, 'p_fmt': 0.0, 'max_passes': 4})
        for p in s['passes']:
            p['maxT'] = ctx.rng.choice([None, None, 2])
        s['cfg'] = {'cacheOn': ctx.rng.random() < 0.3, 'silent': True}
        if ctx.rng.random() < 0.4 and s['groups']['main']:
            # move a pass to the last group so that the named pass can sit there
            s['groups']['last'] = s['groups'].get('last', []) + [s['groups']['main'][-1]]
        order = s['groups']['first'] + s['groups']['main'] + s['groups'].get('last', [])
        j = ctx.rng.randrange(len(order))
        target = s['passes'][order[j]]
        s['cfg']['startWith'] = f"TablePass::{target['name']}" + (f" ({target['maxT']} T)" if target['maxT'] is not None else '')
        if ctx.rng.random() < 0.3:
            target['prereq'] = False        # the named pass cannot run (tool missing): the passes before it still must not
        if ctx.rng.random() < 0.2:
            s['skipInitial'] = True
        s['budget_s'] = 8
        s['sw_order'], s['sw_j'] = order, j
        out.append(s)
    return out


def start_with_part(ctx, diffs):
    """--start-with-pass: run_pass calls before the named pass do nothing at all (no candidate started, no commit), the
    named pass and everything after it run normally.  Judged directly on the real code, and the real run is compared
    with the gated L2 model (D.reduceG) on the same scenario."""
    rows = D.run_both(ctx, start_with_scens(ctx, 40 if ctx.tier == 'quick' else 400))
    for k, (s, obs, real, model) in enumerate(rows):
        if real != model:
            diffs.append({'kind': 'start-with', 'scenario': s, 'real': real, 'model': model})
        judge_start_with(ctx, s, k, obs)


def judge_start_with(ctx, s, k, obs=None):
    import shutil
    import tempfile
    from pathlib import Path
    import harness_drv as H
    order = s.get('sw_order') or (s['groups']['first'] + s['groups']['main'] + s['groups'].get('last', []))
    j = s.get('sw_j')
    if j is None:
        j = next(i for i, pi in enumerate(order) if s['cfg']['startWith'].startswith('TablePass::' + s['passes'][pi]['name']))
    if obs is None:
        d = Path(tempfile.mkdtemp(prefix='sw-', dir=ctx.scratch))
        try:
            obs = H.run_real(s, d, rng=ctx.rng)
        finally:
            shutil.rmtree(d, ignore_errors=True)
    if True:
        ctx.count()
        keys = H.pass_keys(s)
        named = keys[order[j]]
        runnable = lambda i: s['passes'][i].get('prereq', True)
        # the first position in the dynamic order (first, main, last; skip_initial drops first) whose pass carries the named key and can run
        dyn = ([] if s.get('skipInitial') else s['groups']['first']) + s['groups']['main'] + s['groups'].get('last', [])
        hit = next((q for q, i in enumerate(dyn) if keys[i] == named and runnable(i)), None)
        n_last = len(s['groups'].get('last', []))
        may_run = set()
        if hit is not None:
            may_run = {keys[i] for i in dyn[hit:] if runnable(i)}
            if hit < len(dyn) - n_last:          # cleared before or inside the main group: later main rounds run the whole group
                may_run |= {keys[i] for i in s['groups']['main'] if runnable(i)}
        ran = [i for i, v in obs['stats'].items() if v[2] > 0]
        sc = {'kind': 'start-with', 'scenario': s}
        bad = [i for i in ran if i not in may_run]
        if bad:
            ctx.report('pass-before-start-with-pass-ran', f"--start-with-pass {s['cfg']['startWith']}: pass {bad[0]} started candidates although it only occurs before the named pass", sc)
        started_any = bool(ran)
        marked = [m[1] for m in obs.get('marked', [])]
        if obs['outcome'] == 'ok' and hit is not None and named not in marked:
            ctx.report('start-with-pass-never-reached', f"run_pass was never called for {s['cfg']['startWith']}", sc)
        if started_any:
            ctx.nontrivial(('start-with', k))


def cli_limits_part(ctx, only=None):
    """the front end hands every limit to the driver as given: `cvise.py` is run for real with each limit option and value
    (boundary values and values larger than the input included); the arguments that reach TestManager and the schedule that
    reaches CVise.reduce are captured (tools/cliprobe.py) and compared with the command line"""
    import os
    import shutil
    import tempfile
    from pathlib import Path
    import cliprobe
    base = Path(tempfile.mkdtemp(prefix='c16cli-', dir=ctx.scratch))
    stub = cliprobe.stub_dir(base)
    wd = base / 'wd'
    wd.mkdir()
    (wd / 'a.c').write_text('int keep1;\nint x;\n')          # 18 bytes: some limits below are larger than the whole input
    (wd / 't.sh').write_text('#!/bin/sh\ngrep -q keep1 a.c\n')
    os.chmod(wd / 't.sh', 0o755)
    probes = []
    for v in (0, 1, 17, 18, 19, 1000, 10 ** 9):
        probes.append((['--max-improvement', str(v)], {'max_improvement': v}))
    for v in (0, 1, 2, 1000):
        probes.append((['--skip-after-n-transforms', str(v)], {'skip_after_n_transforms': v}))
    probes.append((['--no-give-up'], {'no_give_up': True}))
    probes.append(([], {'no_give_up': False, 'max_improvement': None, 'skip_after_n_transforms': None, 'start_with_pass': None}))
    probes.append((['--start-with-pass', 'BlankPass'], {'start_with_pass': 'BlankPass'}))
    probes.append((['--start-with-pass', 'LinesPass::0', '--skip-initial-passes'], {'start_with_pass': 'LinesPass::0'}))
    probes.append((['--also-interesting', '7', '--n', '3', '--timeout', '9'], {'also_interesting': 7, 'parallel_tests': 3, 'timeout': 9}))
    probes.append((['--max-improvement', '5', '--skip-after-n-transforms', '2', '--no-give-up', '--start-with-pass', 'CommentsPass'],
                   {'max_improvement': 5, 'skip_after_n_transforms': 2, 'no_give_up': True, 'start_with_pass': 'CommentsPass'}))
    for i, (opts, want) in enumerate(probes):
        if only is not None and i != only:
            continue
        rc, out, got = cliprobe.run_cli(stub, opts + ['t.sh', 'a.c'], wd, capture=True)
        ctx.count()
        sc = {'kind': 'cli-limits', 'probe': i, 'options': opts}
        if not got or 'test_manager' not in got:
            ctx.notes['cli_limits'] = 'the front end could not be captured here: ' + out[-200:]
            continue
        bad = {k: (got['test_manager'].get(k), v) for k, v in want.items() if got['test_manager'].get(k) != v}
        if bad:
            ctx.report('front-end-does-not-hand-the-limit-over', f'cvise.py {" ".join(opts)}: the driver received {{option: (received, given)}} = {bad}', sc)
        elif '--skip-initial-passes' in opts and got.get('skip_initial') is not True:
            ctx.report('front-end-does-not-hand-the-limit-over', f'cvise.py {" ".join(opts)}: skip_initial = {got.get("skip_initial")}', sc)
        else:
            ctx.nontrivial(('cli-limits', i))
    # the per-pass limits of the shipped schedule arrive as written in the group file
    rc, out, got = cliprobe.run_cli(stub, ['t.sh', 'a.c'], wd, capture=True)
    if got and 'schedule' in got:
        import json as _json
        from vlib import REPO
        d = _json.loads((REPO / 'cvise/pass_groups/all.json').read_text())
        for cat in ('first', 'main', 'last'):
            want = [int(e['max-transforms']) if 'max-transforms' in e else None for e in d[cat]
                    if not ('include' in e) and not e.get('renaming')]
            have = got['limits'].get(cat, [])
            ctx.count()
            if [x for x in want if x is not None] != [x for x in have if x is not None]:
                ctx.report('front-end-does-not-hand-the-limit-over:max-transforms', f'category {cat}: limits in all.json {[x for x in want if x is not None]}, limits of the scheduled passes {[x for x in have if x is not None]}',
                           {'kind': 'cli-limits', 'probe': -1})
    shutil.rmtree(base, ignore_errors=True)


def run(ctx):
    if ctx.replay and json.load(open(ctx.replay)).get('kind') == 'cli-limits':
        pr = json.load(open(ctx.replay)).get('probe')
        cli_limits_part(ctx, pr if pr is not None and pr >= 0 else None)
        print('replayed ->', 'fails' if ctx.violations else 'holds')
        return 1 if ctx.violations else 0
    if ctx.replay:
        o = json.load(open(ctx.replay))
        if o.get('kind') == 'start-with':
            judge_start_with(ctx, o['scenario'], 0)
            print('replayed ->', 'fails' if ctx.violations else 'holds')
            return 1 if ctx.violations else 0
        D.replay_drv(ctx, o, [oracle, oracle_zero, D.oracle_giveup])
        return 1 if ctx.violations else 0
    ctx.lean_gate(OBLIGATIONS)
    diffs = []
    rows = D.sweep(ctx, scens(ctx, 400 if ctx.tier == 'quick' else 6000), [oracle, oracle_zero, D.oracle_giveup], diffs, nontriv)
    start_with_part(ctx, diffs)
    cli_limits_part(ctx)
    ctx.sample({'scenario_key': D.scen_key(rows[3][0]), 'cfg': rows[3][0]['cfg'], 'consts': rows[3][0]['consts'], 'observed': rows[3][2]})

    def search(budget):
        D.sweep(ctx, scens(ctx, 1500), [oracle, oracle_zero, D.oracle_giveup], [], nontriv)
    conclude(ctx, diffs, search)
    ctx.assumptions += ['--start-with-pass, skip_initial and missing prerequisites are part of the L2 model (D.runPassG / D.reduceG) and of the correspondence; the named pass is identified by repr(pass), as run_pass does',
                        'the give-up limit is part of the model (check: e.order > giveup) and of the scenario generator (small patched GIVEUP_CONSTANT, endless passes in C09)']
    return ctx.finish(obligations=OBLIGATIONS,
                      rule='limits drawn from {None,0,1,2,boundary}, small patched constants for give-up and directory caps; accepted-step log from a wrapper of process_result; '
                           'non-trivial = run with a commit under an active limit')
