"""Python regular expression -> Lean `Cvise.Rx` term, via Python's own parser (re._parser)."""
import re
import re._parser as sp
import re._constants as sc


class Unsupported(Exception):
    pass


CAT = {
    sc.CATEGORY_SPACE: '.space', sc.CATEGORY_NOT_SPACE: '.notSpace',
    sc.CATEGORY_DIGIT: '.digit', sc.CATEGORY_NOT_DIGIT: '.notDigit',
    sc.CATEGORY_WORD: '.word', sc.CATEGORY_NOT_WORD: '.notWord',
}


def _items(av):
    neg = False
    items = []
    for op, a in av:
        if op is sc.NEGATE:
            neg = True
        elif op is sc.LITERAL:
            items.append(f'.lit {a}')
        elif op is sc.RANGE:
            items.append(f'.range {a[0]} {a[1]}')
        elif op is sc.CATEGORY:
            if a not in CAT:
                raise Unsupported(f'category {a}')
            items.append(CAT[a])
        else:
            raise Unsupported(f'in-item {op}')
    return neg, items


def _node(op, av, flags):
    dotall = bool(flags & re.DOTALL)
    multi = bool(flags & re.MULTILINE)
    if op is sc.LITERAL:
        return f'.cls false [.lit {av}]'
    if op is sc.NOT_LITERAL:
        return f'.cls true [.lit {av}]'
    if op is sc.IN:
        neg, items = _items(av)
        return f'.cls {"true" if neg else "false"} [{", ".join(items)}]'
    if op is sc.ANY:
        return f'.any {"true" if dotall else "false"}'
    if op is sc.BRANCH:
        return '.alt [' + ', '.join(_seq(b, flags) for b in av[1]) + ']'
    if op in (sc.MAX_REPEAT, sc.MIN_REPEAT):
        lo, hi, body = av
        mx = 'none' if hi == sc.MAXREPEAT else f'(some {hi})'
        return f'.rep {lo} {mx} {"true" if op is sc.MAX_REPEAT else "false"} ({_seq(body, flags)})'
    if op is sc.SUBPATTERN:
        gid, add, dele, body = av
        if add or dele:
            raise Unsupported('inline flags')
        inner = _seq(body, flags)
        return inner if gid is None else f'.grp {gid} ({inner})'
    if op is sc.ASSERT_NOT:
        direction, body = av
        if direction != 1:
            raise Unsupported('lookbehind')
        return f'.nla ({_seq(body, flags)})'
    if op is sc.AT:
        if av is sc.AT_BEGINNING:
            return '.bolM' if multi else '.bos'
        if av is sc.AT_END:
            return '.eolM' if multi else '.eol'
        raise Unsupported(f'at {av}')
    raise Unsupported(f'op {op}')


def _seq(subpattern, flags):
    nodes = [_node(op, av, flags) for op, av in subpattern]
    if len(nodes) == 1:
        return nodes[0]
    return '.seq [' + ', '.join('(' + n + ')' if not n.startswith('(') else n for n in nodes) + ']'


def rx_to_lean(pattern, flags=0):
    """returns (lean term, {group name: id})"""
    if flags & ~(re.DOTALL | re.MULTILINE):
        raise Unsupported(f'flags {flags}')
    p = sp.parse(pattern, flags)
    if p.state.flags & (re.IGNORECASE | re.VERBOSE | re.ASCII | re.LOCALE):
        raise Unsupported('pattern flags')
    return '(' + _seq(p, flags) + ' : Cvise.Rx)', dict(p.state.groupdict)
