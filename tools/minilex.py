"""Lex-subset reader: clex.l -> rule list (lex pattern, Python regex, token kind) and a reference tokenizer with flex
semantics (longest match, earliest rule on ties; the block-comment action scans to the first `*/`, EOF inside = STOP).
flex itself is not installed; its matching discipline is the assumption recorded in DESIGN.md."""
import re

KIND_BASE = 999
KINDS = ['TOK_KEYWORD', 'TOK_OP', 'TOK_IDENT', 'TOK_OTHER', 'TOK_NUMBER', 'TOK_WS', 'TOK_NEWLINE', 'TOK_STRING', 'TOK_UNKNOWN']


def read_rules(path):
    src = open(path).read()
    parts = src.split('\n%%\n')
    defs_sec, rules_sec = parts[0], parts[1]
    defs = {}
    for line in defs_sec.split('\n'):
        m = re.match(r'^([A-Z]+)\s+(\S.*)$', line)
        if m:
            defs[m.group(1)] = m.group(2).strip()

    def lex2py(p):
        out = ''
        i = 0
        while i < len(p):
            c = p[i]
            if c == '"':
                j = i + 1
                lit = ''
                while p[j] != '"':
                    if p[j] == '\\':
                        esc = p[j + 1]
                        lit += {'n': '\n', 't': '\t', '\\': '\\', '"': '"'}.get(esc, esc)
                        j += 2
                    else:
                        lit += p[j]
                        j += 1
                out += '(?:' + re.escape(lit) + ')'
                i = j + 1
            elif c == '{' and re.match(r'\{[A-Z]+\}', p[i:]):
                m = re.match(r'\{([A-Z]+)\}', p[i:])
                out += '(?:' + lex2py(defs[m.group(1)]) + ')'
                i += m.end()
            elif c == '[':
                j = i + 1
                if p[j] == '^':
                    j += 1
                if p[j] == ']':
                    j += 1
                while p[j] != ']':
                    if p[j] == '\\':
                        j += 1
                    j += 1
                out += p[i:j + 1]
                i = j + 1
            elif c == '\\':
                out += p[i:i + 2]
                i += 2
            else:
                out += c
                i += 1
        return out

    rules = []
    lines = rules_sec.split('\n')
    i = 0
    while i < len(lines):
        line = lines[i]
        if not line.strip():
            i += 1
            continue
        j = 0
        inq = False
        inb = False
        while j < len(line):
            ch = line[j]
            if ch == '\\':
                j += 2
                continue
            if inq:
                inq = ch != '"'
            elif inb:
                inb = ch != ']'
            elif ch == '"':
                inq = True
            elif ch == '[':
                inb = True
            elif ch in ' \t':
                break
            j += 1
        pat = line[:j]
        action = line[j:].strip()
        depth = action.count('{') - action.count('}')
        while depth > 0:
            i += 1
            action += '\n' + lines[i]
            depth += lines[i].count('{') - lines[i].count('}')
        m = re.search(r'process_token\((\w+)\)', action)
        kind = m.group(1) if m else ('COMMENT' if 'input()' in action else 'SKIP')
        rules.append((pat, lex2py(pat), kind))
        i += 1
    return rules


class Lexer:
    def __init__(self, path):
        self.rules = read_rules(path)
        self.comp = [(re.compile(py), k) for _, py, k in self.rules]

    def longest(self, rx, s, pos):
        m = rx.match(s, pos)
        if not m:
            return None
        # Python's match is leftmost-priority, not longest: try every end from the far side
        for e in range(len(s), pos, -1):
            if rx.fullmatch(s, pos, e):
                return e
        return None

    def tokenize(self, s):
        """s: str with code points < 256.  Returns (list of (kind name, text), 'OK' | 'STOP')"""
        pos = 0
        toks = []
        n = len(s)
        while pos < n:
            best = (0, None)
            for idx, (rx, k) in enumerate(self.comp):
                e = self.longest(rx, s, pos)
                if e is not None and e - pos > best[0]:
                    best = (e - pos, k)
            ln, k = best
            if k is None:
                # flex's default rule would echo the character; clex.l's `.` and `[\n]` rules cover every byte
                toks.append(('TOK_UNKNOWN', s[pos]))
                pos += 1
                continue
            if k == 'COMMENT':
                e = s.find('*/', pos + 2)
                if e < 0:
                    return toks, 'STOP'
                pos = e + 2
                continue
            if k != 'SKIP':
                toks.append((k, s[pos:pos + ln]))
            pos += ln
        return toks, 'OK'


def kind_num(k):
    return KIND_BASE + KINDS.index(k)


def write_token_file(path, toks, status):
    """the stand-in yylex reads this: one record per token `kind len\\n<bytes>`; a final `-1 0` makes it exit(STOP)"""
    with open(path, 'wb') as f:
        for k, t in toks:
            b = t.encode('latin-1')
            f.write(f'{kind_num(k)} {len(b)}\n'.encode() + b)
        if status == 'STOP':
            f.write(b'-1 0\n')


YYLEX_C = r'''
/* stand-in for the flex-generated scanner: replays the token stream computed by tools/minilex.py from clex.l */
#include <stdio.h>
#include <stdlib.h>
#include <string.h>
#include "defs.h"
FILE *yyin;
char *yytext;
int count = 0;
int yylex(void) {
  const char *p = getenv("CLEX_TOKENS");
  if (!p) { fprintf(stderr, "CLEX_TOKENS not set\n"); exit(3); }
  FILE *f = fopen(p, "rb");
  if (!f) { fprintf(stderr, "cannot open token file\n"); exit(3); }
  int kind; long len;
  while (fscanf(f, "%d %ld", &kind, &len) == 2) {
    fgetc(f);                       /* the newline after the header */
    if (kind == -1) exit(STOP);     /* unterminated comment */
    yytext = (char *)malloc(len + 1);
    if (len && fread(yytext, 1, len, f) != (size_t)len) exit(3);
    yytext[len] = 0;
    process_token((enum tok_kind)kind);
    free(yytext);
  }
  fclose(f);
  return 0;
}
'''


# ---------------------------------------------------------------------------------------------------------------------
# clex.l -> a C scanner that runs the *verbatim* rule actions (flex is not installed).  Matching is done with POSIX
# extended regular expressions anchored at the current position (regexec gives the longest match), earliest rule on
# ties; `input()` reads the next byte of the file, as in a flex scanner.  The Python `Lexer` above is an independent
# implementation of the same rules: the checks run both and compare.
def read_rules_with_actions(path):
    """[(lex pattern, action C code)] in file order, plus the user code after the second %%"""
    src = open(path).read()
    parts = src.split('\n%%\n')
    rules_sec = parts[1]
    user = parts[2] if len(parts) > 2 else ''
    out = []
    lines = rules_sec.split('\n')
    i = 0
    while i < len(lines):
        line = lines[i]
        if not line.strip():
            i += 1
            continue
        j = 0
        inq = inb = False
        while j < len(line):
            ch = line[j]
            if ch == '\\':
                j += 2
                continue
            if inq:
                inq = ch != '"'
            elif inb:
                inb = ch != ']'
            elif ch == '"':
                inq = True
            elif ch == '[':
                inb = True
            elif ch in ' \t':
                break
            j += 1
        pat = line[:j]
        action = line[j:].strip()
        depth = action.count('{') - action.count('}')
        while depth > 0:
            i += 1
            action += '\n' + lines[i]
            depth += lines[i].count('{') - lines[i].count('}')
        out.append((pat, action))
        i += 1
    return out, user


def lex2ere(p, defs):
    """lex pattern -> POSIX ERE (as a Python str with the real characters; later rendered as a C string literal)"""
    esc = {'n': '\n', 't': '\t', 'v': '\v', 'f': '\f', 'r': '\r', '\\': '\\', '"': '"'}
    special = set('.[]()*+?{}|^$\\')
    out = ''
    i = 0
    while i < len(p):
        c = p[i]
        if c == '"':
            j = i + 1
            lit = ''
            while p[j] != '"':
                if p[j] == '\\':
                    lit += esc.get(p[j + 1], p[j + 1])
                    j += 2
                else:
                    lit += p[j]
                    j += 1
            out += '(' + ''.join('\\' + ch if ch in special else ch for ch in lit) + ')'
            i = j + 1
        elif c == '{' and re.match(r'\{[A-Z]+\}', p[i:]):
            m = re.match(r'\{([A-Z]+)\}', p[i:])
            out += '(' + lex2ere(defs[m.group(1)], defs) + ')'
            i += m.end()
        elif c == '[':
            j = i + 1
            neg = False
            if p[j] == '^':
                neg = True
                j += 1
            members = []
            first = True
            while p[j] != ']' or first:
                if p[j] == '\\':
                    members.append(esc.get(p[j + 1], p[j + 1]))
                    j += 2
                else:
                    members.append(p[j])
                    j += 1
                first = False
            # POSIX bracket expression: no escapes; ']' first, '-' last, '^' not first
            ms = members
            body = ''
            if ']' in ms:
                body += ']'
            rng = ''.join(m for m in ms if m not in (']', '^'))
            # keep ranges like a-z intact (members list keeps '-' between endpoints in order)
            body += rng
            if '^' in ms:
                body += '^'
            out += '[' + ('^' if neg else '') + body + ']'
            i = j + 1
        elif c == '\\':
            ch = esc.get(p[i + 1], p[i + 1])
            out += ('\\' + ch) if ch in special else ch
            i += 2
        elif c == '.':
            out += '[^\n]'
            i += 1
        else:
            out += c
            i += 1
    return out


def c_string(s):
    return '"' + ''.join('\\%03o' % ord(ch) if (ord(ch) < 32 or ord(ch) > 126 or ch in '"\\?') else ch for ch in s) + '"'


def gen_scanner_c(path):
    src = open(path).read()
    defs_sec = src.split('\n%%\n')[0]
    defs = {}
    for line in defs_sec.split('\n'):
        m = re.match(r'^([A-Z]+)\s+(\S.*)$', line)
        if m:
            defs[m.group(1)] = m.group(2).strip()
    rules, user = read_rules_with_actions(path)
    pats = [c_string('^(' + lex2ere(p, defs) + ')') for p, _ in rules]
    cases = '\n'.join(f'      case {i}: {a if a else ";"} break;' for i, (_, a) in enumerate(rules))
    return r"""
/* generated from clex.l by tools/minilex.py: POSIX-regex scanner running the verbatim rule actions */
#include <stdio.h>
#include <stdlib.h>
#include <string.h>
#include <regex.h>
#include "defs.h"
FILE *yyin;
char *yytext;
int yyleng;
static char *yy_buf; static long yy_len, yy_pos;
#define input() (yy_pos < yy_len ? (int)(unsigned char)yy_buf[yy_pos++] : EOF)
#define unput(c) (yy_pos--)
static const char *yy_pat[] = { """ + ',\n  '.join(pats) + r""" };
#define YY_NRULES ((int)(sizeof yy_pat / sizeof yy_pat[0]))
int yylex(void) {
  static regex_t re[sizeof yy_pat / sizeof yy_pat[0]];
  long cap = 1 << 16; yy_buf = (char *)malloc(cap); yy_len = 0;
  for (;;) { size_t n = fread(yy_buf + yy_len, 1, cap - yy_len - 1, yyin); if (n == 0) break; yy_len += n; if (yy_len + 1 >= cap) { cap *= 2; yy_buf = (char *)realloc(yy_buf, cap); } }
  yy_buf[yy_len] = 0;
  for (int i = 0; i < YY_NRULES; i++) if (regcomp(&re[i], yy_pat[i], REG_EXTENDED)) { fprintf(stderr, "regcomp failed for rule %d\n", i); exit(3); }
  yy_pos = 0;
  while (yy_pos < yy_len) {
    int best = -1; long bestlen = 0;
    if (yy_buf[yy_pos] == 0) { fprintf(stderr, "NUL byte in input\n"); exit(3); }
    for (int i = 0; i < YY_NRULES; i++) {
      regmatch_t m[1];
      if (regexec(&re[i], yy_buf + yy_pos, 1, m, 0) == 0 && m[0].rm_so == 0 && (long)m[0].rm_eo > bestlen) { best = i; bestlen = m[0].rm_eo; }
    }
    if (best < 0) { fputc(yy_buf[yy_pos++], stdout); continue; }   /* flex's default rule: echo */
    yytext = (char *)malloc(bestlen + 1); memcpy(yytext, yy_buf + yy_pos, bestlen); yytext[bestlen] = 0; yyleng = (int)bestlen;
    yy_pos += bestlen;
    switch (best) {
""" + cases + r"""
    }
    free(yytext); yytext = NULL;
  }
  return 0;
}
""" + user
