"""Lex-subset reader: clex.l -> rule list (lex pattern, Python regex, token kind) and a reference tokenizer with flex
semantics (longest match, earliest rule on ties; the block-comment action scans to the first `*/`, EOF inside = STOP).
flex itself is not installed; its matching discipline is the assumption recorded in DESIGN.md."""
import re

KIND_BASE = 999
KINDS = ['TOK_KEYWORD', 'TOK_OP', 'TOK_IDENT', 'TOK_OTHER', 'TOK_NUMBER', 'TOK_WS', 'TOK_NEWLINE', 'TOK_STRING', 'TOK_UNKNOWN']


def read_rules(path):
    src = open(path).read()
    parts = src.split('\n%%\n')
    defs_sec, rules_sec = parts[0], parts[1]
    defs = {}
    for line in defs_sec.split('\n'):
        m = re.match(r'^([A-Z]+)\s+(\S.*)$', line)
        if m:
            defs[m.group(1)] = m.group(2).strip()

    def lex2py(p):
        out = ''
        i = 0
        while i < len(p):
            c = p[i]
            if c == '"':
                j = i + 1
                lit = ''
                while p[j] != '"':
                    if p[j] == '\\':
                        esc = p[j + 1]
                        lit += {'n': '\n', 't': '\t', '\\': '\\', '"': '"'}.get(esc, esc)
                        j += 2
                    else:
                        lit += p[j]
                        j += 1
                out += '(?:' + re.escape(lit) + ')'
                i = j + 1
            elif c == '{' and re.match(r'\{[A-Z]+\}', p[i:]):
                m = re.match(r'\{([A-Z]+)\}', p[i:])
                out += '(?:' + lex2py(defs[m.group(1)]) + ')'
                i += m.end()
            elif c == '[':
                j = i + 1
                if p[j] == '^':
                    j += 1
                if p[j] == ']':
                    j += 1
                while p[j] != ']':
                    if p[j] == '\\':
                        j += 1
                    j += 1
                out += p[i:j + 1]
                i = j + 1
            elif c == '\\':
                out += p[i:i + 2]
                i += 2
            else:
                out += c
                i += 1
        return out

    rules = []
    lines = rules_sec.split('\n')
    i = 0
    while i < len(lines):
        line = lines[i]
        if not line.strip():
            i += 1
            continue
        j = 0
        inq = False
        inb = False
        while j < len(line):
            ch = line[j]
            if ch == '\\':
                j += 2
                continue
            if inq:
                inq = ch != '"'
            elif inb:
                inb = ch != ']'
            elif ch == '"':
                inq = True
            elif ch == '[':
                inb = True
            elif ch in ' \t':
                break
            j += 1
        pat = line[:j]
        action = line[j:].strip()
        depth = action.count('{') - action.count('}')
        while depth > 0:
            i += 1
            action += '\n' + lines[i]
            depth += lines[i].count('{') - lines[i].count('}')
        m = re.search(r'process_token\((\w+)\)', action)
        kind = m.group(1) if m else ('COMMENT' if 'input()' in action else 'SKIP')
        rules.append((pat, lex2py(pat), kind))
        i += 1
    return rules


class Lexer:
    def __init__(self, path):
        self.rules = read_rules(path)
        self.comp = [(re.compile(py), k) for _, py, k in self.rules]

    def longest(self, rx, s, pos):
        m = rx.match(s, pos)
        if not m:
            return None
        # Python's match is leftmost-priority, not longest: try every end from the far side
        for e in range(len(s), pos, -1):
            if rx.fullmatch(s, pos, e):
                return e
        return None

    def tokenize(self, s):
        """s: str with code points < 256.  Returns (list of (kind name, text), 'OK' | 'STOP')"""
        pos = 0
        toks = []
        n = len(s)
        while pos < n:
            best = (0, None)
            for idx, (rx, k) in enumerate(self.comp):
                e = self.longest(rx, s, pos)
                if e is not None and e - pos > best[0]:
                    best = (e - pos, k)
            ln, k = best
            if k is None:
                # flex's default rule would echo the character; clex.l's `.` and `[\n]` rules cover every byte
                toks.append(('TOK_UNKNOWN', s[pos]))
                pos += 1
                continue
            if k == 'COMMENT':
                e = s.find('*/', pos + 2)
                if e < 0:
                    return toks, 'STOP'
                pos = e + 2
                continue
            if k != 'SKIP':
                toks.append((k, s[pos:pos + ln]))
            pos += ln
        return toks, 'OK'


def kind_num(k):
    return KIND_BASE + KINDS.index(k)


def write_token_file(path, toks, status):
    """the stand-in yylex reads this: one record per token `kind len\\n<bytes>`; a final `-1 0` makes it exit(STOP)"""
    with open(path, 'wb') as f:
        for k, t in toks:
            b = t.encode('latin-1')
            f.write(f'{kind_num(k)} {len(b)}\n'.encode() + b)
        if status == 'STOP':
            f.write(b'-1 0\n')


YYLEX_C = r'''
/* stand-in for the flex-generated scanner: replays the token stream computed by tools/minilex.py from clex.l */
#include <stdio.h>
#include <stdlib.h>
#include <string.h>
#include "defs.h"
FILE *yyin;
char *yytext;
int count = 0;
int yylex(void) {
  const char *p = getenv("CLEX_TOKENS");
  if (!p) { fprintf(stderr, "CLEX_TOKENS not set\n"); exit(3); }
  FILE *f = fopen(p, "rb");
  if (!f) { fprintf(stderr, "cannot open token file\n"); exit(3); }
  int kind; long len;
  while (fscanf(f, "%d %ld", &kind, &len) == 2) {
    fgetc(f);                       /* the newline after the header */
    if (kind == -1) exit(STOP);     /* unterminated comment */
    yytext = (char *)malloc(len + 1);
    if (len && fread(yytext, 1, len, f) != (size_t)len) exit(3);
    yytext[len] = 0;
    process_token((enum tok_kind)kind);
    free(yytext);
  }
  fclose(f);
  return 0;
}
'''
