"""Real-pool harness: runs a scenario with the real pebble pool, real subprocesses and an instrumented interestingness
script.  Executed as a child process (`python harness_real.py scenario.json out.json`) so that a watchdog in the parent
can kill a wedged run.  Observations: per-invocation manifests, working-directory snapshots, TMPDIR listing, liveness of
every pid the script recorded, outcome, statistics."""
import hashlib
import json
import os
import shutil
import stat
import subprocess
import sys
import tempfile
import time
from pathlib import Path

HERE = Path(__file__).resolve().parent
sys.path.insert(0, str(HERE))
REPO = Path(os.environ.get('CVISE_REPO', '/repo'))
sys.path.insert(0, str(REPO))

from cvise.passes.abstract import AbstractPass, PassResult  # noqa: E402


class LinePass(AbstractPass):
    """removes one line per candidate (module-level class: the real pool pickles the bound transform)"""

    def __init__(self, arg=None, external_programs=None):
        super().__init__(arg, external_programs)
        self.max_transforms = None

    def check_prerequisites(self):
        return True

    def new(self, test_case, check_sanity=None):
        if self.arg == 'chmod':
            # like LinesPass.__format: the test case is rewritten through a private temporary file, which resets its mode
            os.chmod(test_case, 0o600)
        return 0

    def advance(self, test_case, state):
        return state + 1

    def advance_on_success(self, test_case, state):
        return state + 1 if self.arg == 'indent' or (self.arg or '').startswith('restore=') else state

    def transform(self, test_case, state, process_event_notifier):
        with open(test_case) as f:
            lines = f.readlines()
        if self.arg and self.arg.startswith('restore='):
            # an undoing pass: writes a fixed text back (one candidate), so that a later pass meets that content again
            want = self.arg[len('restore='):]
            if state >= 1 or ''.join(lines) == want:
                return (PassResult.STOP, state)
            with open(test_case, 'w') as f:
                f.write(want)
            return (PassResult.OK, state)
        if self.arg == 'indent':
            # an undoing pass: puts the indentation back that a formatter strips (one candidate)
            if state >= 1 or not lines or all(l.startswith('    ') for l in lines):
                return (PassResult.STOP, state)
            with open(test_case, 'w') as f:
                f.writelines('    ' + l.lstrip(' ') for l in lines)
            return (PassResult.OK, state)
        if state >= len(lines):
            return (PassResult.STOP, state)
        if self.arg == 'scratch':
            # a misbehaving pass: leaves a scratch file next to the candidate
            Path(os.path.dirname(test_case), 'scratch.tmp').write_text('x')
        if self.arg == 'grow' and state == 0:
            with open(test_case, 'w') as f:
                f.writelines(lines * 4)
            os.chmod(test_case, 0o600)         # as if written through a private temporary file (IncludeIncludesPass does)
            return (PassResult.OK, state)
        with open(test_case, 'w') as f:
            f.writelines(lines[:state] + lines[state + 1:])
        return (PassResult.OK, state)


class ErrorPass(LinePass):
    def transform(self, test_case, state, process_event_notifier):
        return (PassResult.ERROR, state)


class RaisingPass(LinePass):
    def transform(self, test_case, state, process_event_notifier):
        raise KeyError('scripted failure in transform')


class UnalteredPass(LinePass):
    def transform(self, test_case, state, process_event_notifier):
        if self.arg == 'then-lines' and state >= 1:
            return LinePass.transform(self, test_case, state, process_event_notifier)      # later candidates are real ones
        return (PassResult.OK, state)


SCRIPT = r'''#!/bin/bash
# instrumented interestingness test
L="{log}/inv.$$.$RANDOM"
{{
  echo "cwd $(pwd)"
  echo "time $(date +%s.%N)"
  echo "pid $$"
  find . -type f -o -type l | LC_ALL=C sort | while read -r f; do echo "file $f $(sha1sum < "$f" | cut -d' ' -f1)"; done
}} > "$L.tmp"
mv "$L.tmp" "$L"
cur="{cur}"
if grep -q MESS "$cur" 2>/dev/null; then
  # play in the sandbox: create, delete and overwrite siblings
  echo junk > created_by_test.txt
  for f in {others}; do [ -f "$f" ] && echo overwritten > "$f"; done
fi
if ! grep -q FORKLINE "$cur" 2>/dev/null && grep -q WASFORK "$cur" 2>/dev/null; then
  # a test that is still running (with a child of its own) when it is cancelled or times out
  sleep 30 &
  echo "child $!" >> "$L"
  # children that leave the script's process group / session (what `timeout N compiler …` and daemonising tools do)
  setsid sleep 31 &
  echo "child $!" >> "$L"
  timeout 32 sleep 32 &
  echo "child $!" >> "$L"
  wait
fi
if grep -q NOISE "$cur" 2>/dev/null; then
  head -c 3000000 /dev/zero | tr '\0' 'x'
  head -c 200000 /dev/zero | tr '\0' 'y' >&2
fi
if grep -q BADUTF "$cur" 2>/dev/null; then
  printf '\377\376\n'
fi
if ! grep -q HANGLINE "$cur" 2>/dev/null && grep -q WASHANG "$cur" 2>/dev/null; then
  sleep 30
fi
if ! grep -q KILLLINE "$cur" 2>/dev/null && grep -q WASKILL "$cur" 2>/dev/null; then
  kill -9 $$
fi
if ! grep -q SLOWLINE "$cur" 2>/dev/null && grep -q WASSLOW "$cur" 2>/dev/null; then
  sleep 0.6
fi
{predicate}
'''


def sha(p):
    return hashlib.sha1(Path(p).read_bytes()).hexdigest()


def snapshot(root):
    out = {}
    root = Path(root)
    for p in sorted(root.rglob('*')):
        rel = str(p.relative_to(root))
        st = p.lstat()
        if p.is_dir():
            out[rel] = ['dir', stat.S_IMODE(st.st_mode)]
        else:
            out[rel] = [sha(p), stat.S_IMODE(st.st_mode)]
    return out


def alive(pid):
    try:
        with open(f'/proc/{pid}/stat') as f:
            st = f.read().split()
        return st[2] != 'Z'
    except OSError:
        return False


def make_pass(spec, external):
    name, arg = spec['name'], spec.get('arg')
    if name == 'LinePass':
        return LinePass(arg, external)
    if name == 'ErrorPass':
        return ErrorPass(arg, external)
    if name == 'RaisingPass':
        return RaisingPass(arg, external)
    if name == 'UnalteredPass':
        return UnalteredPass(arg, external)
    from cvise.cvise import CVise
    p = CVise.pass_name_mapping[name](arg, external)
    p.max_transforms = spec.get('maxT')
    p.user_clang_delta_std = None
    p.clang_delta_preserve_routine = None
    return p


def main():
    scen = json.load(open(sys.argv[1]))
    out_path = sys.argv[2]
    base = Path(tempfile.mkdtemp(prefix='real-'))
    wd = base / 'wd'
    tmpd = base / 'tmp'
    log = base / 'log'
    for d in (wd, tmpd, log):
        d.mkdir()
    os.environ['TMPDIR'] = str(tmpd)
    tempfile.tempdir = None
    os.chdir(wd)
    for f, spec in scen['tree'].items():
        p = Path(f)
        p.parent.mkdir(parents=True, exist_ok=True)
        p.write_bytes(spec['text'].encode('latin-1') if spec.get('latin1') else spec['text'].encode())
        os.chmod(p, int(spec.get('mode', '644'), 8))
        if 'age_s' in spec:           # a file last written that many seconds ago (e.g. a backup older than its test case)
            import time as _t
            os.utime(p, (_t.time() - spec['age_s'], _t.time() - spec['age_s']))
    test_cases = scen['test_cases']
    cur = test_cases[0]
    script = wd / scen.get('script_name', 'test.sh')
    if scen.get('write_script', True):
        script.write_text(SCRIPT.format(log=log, cur=cur, others=' '.join(t for t in test_cases[1:]) or 'nonexistent',
                                        predicate=scen.get('predicate', 'exit 0').replace('@WD@', str(wd))))
        if 'script_shebang' in scen:
            # a script only a shell can start (no `#!` line), or one whose interpreter does not exist
            body = script.read_text().split('\n', 1)[1]
            script.write_text((scen['script_shebang'] + '\n' if scen['script_shebang'] else '') + body)
        os.chmod(script, int(scen.get('script_mode', '755'), 8))
    before = snapshot(wd)
    if any(f.startswith('../') for f in scen['tree']):
        obs_outside = {f: sha(f) for f in scen['tree'] if f.startswith('../')}
    obs = {'outcome': 'ok', 'error_text': None, 'error_str_ok': True, 'commits': []}
    os.environ['STANDIN_PIDLOG'] = str(log)          # stand-in helpers record their pids next to the script's records
    for k_, v_ in scen.get('env', {}).items():
        os.environ[k_] = str(v_)
    if 'cd_scen' in scen:          # script of the stand-in clang_delta
        (base / 'cd.json').write_text(json.dumps(scen['cd_scen']))
        (base / 'cd.log').write_text('')
        os.environ['CD_SCEN'] = str(base / 'cd.json')
        os.environ['CD_LOG'] = str(base / 'cd.log')
    for dotted, v_ in scen.get('class_consts', {}).items():      # e.g. a pass's own query timeout, shortened
        import importlib
        mod, cls, attr = dotted.rsplit('.', 2)
        setattr(getattr(importlib.import_module(mod), cls), attr, v_)
    external = dict(scen.get('external', {}))
    for k, v in list(external.items()):
        if v and v.startswith('standin:'):
            external[k] = str(HERE / 'standins' / v[len('standin:'):])
    from cvise.cvise import CVise
    from cvise.utils import statistics, testing
    from cvise.utils.error import CViseError
    cfg = scen.get('cfg', {})
    for k, v in scen.get('consts', {}).items():
        setattr(testing.TestManager, k, v)
    import io
    import contextlib
    import logging
    logging.getLogger().setLevel(logging.CRITICAL)
    buf = io.StringIO()
    t0 = time.time()
    state = {'tm': None}

    def do_run():
        if scen.get('stdin_closed'):
            # started without a standard input (`<&-`, cron, a daemon): Python then has sys.stdin = None
            try:
                os.close(0)
            except OSError:
                pass
            sys.stdin = None
        try:
            with contextlib.redirect_stdout(buf), contextlib.redirect_stderr(buf):
                tm = testing.TestManager(
                    statistics.PassStatistic(), str(script.name if scen.get('relative_script', True) else script), scen.get('timeout', 2),
                    cfg.get('save_temps', False), list(test_cases), scen.get('N', 2), cfg.get('no_cache', False), not cfg.get('keys_on', False),
                    cfg.get('silent', False), cfg.get('die', False), False, cfg.get('maxImp'), cfg.get('noGiveUp', False),
                    cfg.get('alsoInteresting'), cfg.get('startWith'), cfg.get('skipN'), 1.0)
                state['tm'] = tm
                opr = tm.process_result

                def pr(env):
                    obs['commits'].append([time.time(), str(env.test_case), sha(env.test_case_path)])
                    return opr(env)
                tm.process_result = pr
                if 'group_dict' in scen:
                    # the schedule as the front end builds it: the tree's own parser of pass-group files
                    passes = CVise.parse_pass_group_dict(scen['group_dict'], set(scen.get('pass_options', [])), external, scen.get('remove_pass'),
                                                       None, None, scen.get('not_c', False), scen.get('renaming', False))
                    for cat, at, spec in scen.get('splice', []):       # harness passes put between the parsed ones
                        passes[cat].insert(at, make_pass(spec, external))
                else:
                    passes = {k: [make_pass(s, external) for s in v] for k, v in scen['groups'].items()}
                for k in ('first', 'main', 'last'):
                    passes.setdefault(k, [])
                if scen.get('mode', 'reduce') == 'pass':
                    for p in passes['main']:
                        tm.run_pass(p)
                else:
                    cv = CVise(tm, scen.get('skip_sanity', False))
                    cv.tidy = cfg.get('tidy', False)
                    cv.reduce(passes, False)
        except BaseException as e:  # noqa
            obs['outcome'] = type(e).__name__
            obs['is_cvise_error'] = isinstance(e, CViseError)
            try:
                obs['error_text'] = str(e)
            except BaseException as e2:  # noqa
                obs['error_str_ok'] = False
                obs['error_text'] = f'<str() raised {type(e2).__name__}: {e2}>'

    if scen.get('drop_to_nobody'):
        # root passes every access check: run the real code in a forked child that drops to uid nobody, report through a pipe
        for p in [base, wd, tmpd, log]:
            os.chown(p, 65534, 65534)
        r, w = os.pipe()
        pid = os.fork()
        if pid == 0:
            os.close(r)
            os.setgid(65534)
            os.setuid(65534)
            do_run()
            os.write(w, json.dumps(obs).encode())
            os._exit(0)
        os.close(w)
        data = b''
        while True:
            chunk = os.read(r, 65536)
            if not chunk:
                break
            data += chunk
        os.waitpid(pid, 0)
        obs.update(json.loads(data.decode()))
    else:
        do_run()
    tm = state['tm']
    obs['elapsed'] = time.time() - t0
    obs['cwd_after'] = os.getcwd()
    obs['cwd_same'] = os.getcwd() == str(wd)
    # give killed processes a moment to disappear
    time.sleep(0.3)
    obs['before'] = before
    os.chdir(wd)
    obs['after'] = snapshot(wd)
    obs['tmp_left'] = sorted(x for x in os.listdir(tmpd) if not x.startswith('pymp-'))
    invs = []
    pids = []
    for f in sorted(log.iterdir()):
        if f.name.endswith('.tmp') or not f.name.startswith('inv.'):
            continue
        rec = {'files': {}, 'children': []}
        for line in f.read_text().split('\n'):
            if line.startswith('cwd '):
                rec['cwd'] = line[4:]
            elif line.startswith('time '):
                rec['time'] = float(line[5:])
            elif line.startswith('pid '):
                rec['pid'] = int(line[4:])
            elif line.startswith('child '):
                rec['children'].append(int(line[6:]))
            elif line.startswith('file '):
                _, path, h = line.split(' ', 2)
                rec['files'][path[2:] if path.startswith('./') else path] = h
        invs.append(rec)
        pids.append(rec.get('pid'))
        pids.extend(rec['children'])
    obs['invocations'] = invs
    obs['alive'] = [p for p in pids if p and alive(p)]
    obs['alive_detail'] = [[('script' if p == r.get('pid') else 'child'), p] for r in invs for p in [r.get('pid')] + r['children'] if p and alive(p)]
    if tm is not None:
        st = tm.pass_statistic.stats
        obs['stats'] = {k: [v.worked, v.failed, v.totally_executed, v.total_seconds] for k, v in st.items()}
    obs['stdout_tail'] = buf.getvalue()[-600:]
    obs['base'] = str(base)
    for p in obs['alive']:
        pass
    json.dump(obs, open(out_path, 'w'))
    # leave nothing behind (the parent also removes base)
    for p in obs['alive']:
        try:
            os.kill(p, 9)
        except OSError:
            pass
    shutil.rmtree(base, ignore_errors=True)


def run_scenario(scen, scratch, timeout=60):
    """called by the checks: run in a child with a watchdog; returns observations or {'outcome': 'WEDGED'}"""
    d = Path(tempfile.mkdtemp(prefix='hr-', dir=scratch))
    sp = d / 'scen.json'
    op = d / 'out.json'
    sp.write_text(json.dumps(scen))
    env = dict(os.environ)
    env['PYTHONDONTWRITEBYTECODE'] = '1'
    env['TMPDIR'] = str(d)          # the child's own base directory lives inside the check's scratch root, also when it is killed
    try:
        r = subprocess.run(['/venv/bin/python', str(HERE / 'harness_real.py'), str(sp), str(op)], capture_output=True, text=True,
                           timeout=timeout, env=env, start_new_session=True)
    except subprocess.TimeoutExpired:
        subprocess.run(['pkill', '-9', '-f', str(sp)], capture_output=True)
        return {'outcome': 'WEDGED'}
    if not op.exists():
        return {'outcome': 'HARNESS-CRASH', 'stderr': r.stderr[-1500:]}
    obs = json.load(open(op))
    shutil.rmtree(d, ignore_errors=True)
    return obs


if __name__ == '__main__':
    main()
